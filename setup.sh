#!/bin/bash
# MANIFEST.setup_cmd: offline cold build of the whole framework from files on disk.
set -e
cd "$(dirname "$0")"
/venv/bin/python harness/translate.py /repo > /dev/null
cd lean
lake build Pff pffdriver 2>&1 | grep -v "^warning\|^$\|^Hint\|^Note\|\[apply\]" | tail -20
echo "setup done"
