"""Shared machinery of the /verif checks (see DESIGN.md §1, §3, §8).

Layers per property:  L = Lean theorems (built + audited here),  X = correspondence between the
Lean model's executable definitions (driver) and the real implementation,  S = property oracle
evaluated directly on the implementation (used to produce concrete replays).
"""
import hashlib
import json
import os
import random
import re
import shutil
import subprocess
import sys
import tempfile
import time

VERIF = os.path.dirname(os.path.dirname(os.path.abspath(__file__)))
LEAN = os.environ.get("PFF_LEAN_DIR") or os.path.join(VERIF, "lean")   # (a private copy for parallel mutation trials)
REPO = os.environ.get("PFF_REPO", "/repo")
# (the two output folders can be redirected for mutation trials running in parallel: harness/mutate.py)
EVIDENCE = os.environ.get("PFF_EVIDENCE_DIR") or os.path.join(VERIF, "evidence")
REPLAY = os.environ.get("PFF_REPLAY_DIR") or os.path.join(VERIF, "replay")
CORPUS = os.path.join(VERIF, "corpus")
ALLOWED_AXIOMS = {"propext", "Classical.choice", "Quot.sound"}
FORBIDDEN = re.compile(r"\b(sorry|admit|native_decide|bv_decide|implemented_by)\b|^\s*axiom\s|\bunsafe\s|maxHeartbeats\s+0\b")

os.environ.setdefault("PYFILEFIXITY_VERIF", "1")  # hook guard (MANIFEST.hooks.guard); no hook exists so far


def seed_from_env():
    try:
        return int(os.environ.get("VERIF_SEED", "0"))
    except ValueError:
        return 0


# --------------------------------------------------------------------------------------------
# scratch space (outside /repo and /verif), removed at exit
_scratch = None


def scratch():
    global _scratch
    if _scratch is None:
        base = os.environ.get("TMPDIR", "/tmp")
        _scratch = tempfile.mkdtemp(prefix="pffverif.", dir=base)
        import atexit
        atexit.register(lambda: shutil.rmtree(_scratch, ignore_errors=True))
    return _scratch



# --------------------------------------------------------------------------------------------
# memoisation of a pure third-party function (speed only)

_genpoly_cache = {}


def memo_generator_polys():
    """`ECCMan.__init__` calls reedsolo.rs_generator_poly_all(n) (all generator polynomials up to n symbols, O(n^3) in pure Python) every time a
    tool starts: about 85% of the run time of the ecc checks.  It is a pure function of its arguments and of the field tables of the module, so
    the harness memoises it, keyed by the arguments and by the *contents* of the tables in force at the call.  Nothing of /repo is replaced."""
    import sys as _sys
    for name in ("reedsolo", "reedsolo.reedsolo", "creedsolo"):
        mod = _sys.modules.get(name)
        if mod is None:
            try:
                mod = __import__(name, fromlist=["x"])
            except Exception:
                continue
        f = getattr(mod, "rs_generator_poly_all", None)
        if f is None or getattr(f, "_pff_memo", False):
            continue

        def wrapped(max_nsym, fcr=0, generator=2, _f=f, _mod=mod):
            gl = _f.__globals__          # the tables live in the module that defines the function (init_tables rebinds them there)
            key = (gl["__name__"], max_nsym, fcr, generator, bytes(bytearray(gl["gf_exp"])), bytes(bytearray(gl["gf_log"])))
            if key not in _genpoly_cache:
                _genpoly_cache[key] = _f(max_nsym, fcr=fcr, generator=generator)
            return [bytearray(g) for g in _genpoly_cache[key]]
        wrapped._pff_memo = True
        mod.rs_generator_poly_all = wrapped


# --------------------------------------------------------------------------------------------
# Lean side

def _strip_comments(src):
    # remove /- ... -/ (nested not handled beyond one level of care) and -- ... comments
    out = []
    i = 0
    depth = 0
    n = len(src)
    while i < n:
        if src.startswith("/-", i):
            depth += 1
            i += 2
        elif depth and src.startswith("-/", i):
            depth -= 1
            i += 2
        elif depth:
            i += 1
        elif src.startswith("--", i):
            j = src.find("\n", i)
            i = n if j < 0 else j
        else:
            out.append(src[i])
            i += 1
    return "".join(out)


def lean_sources():
    res = []
    for root, _dirs, files in os.walk(os.path.join(LEAN, "Pff")):
        for f in files:
            if f.endswith(".lean"):
                res.append(os.path.join(root, f))
    return sorted(res)


def import_closure(modules):
    """project-local transitive imports of the given Lean modules (file paths)"""
    seen = {}
    todo = list(modules)
    while todo:
        m = todo.pop()
        if m in seen or not m.startswith("Pff"):
            continue
        path = os.path.join(LEAN, *m.split(".")) + ".lean"
        if not os.path.exists(path):
            continue
        seen[m] = path
        for line in open(path, encoding="utf-8"):
            mm = re.match(r"\s*(?:public\s+)?import\s+(\S+)", line)
            if mm:
                todo.append(mm.group(1))
    return seen


def grep_forbidden(modules):
    """forbidden tokens outside comments in the Lean sources the given modules depend on"""
    hits = []
    for m, p in sorted(import_closure(modules).items()):
        code = _strip_comments(open(p, encoding="utf-8").read())
        for ln, line in enumerate(code.split("\n"), 1):
            if FORBIDDEN.search(line):
                hits.append("%s: %s" % (os.path.relpath(p, LEAN), line.strip()[:120]))
    return hits


def run_translator():
    """regenerate lean/Pff/Consts.lean from /repo's current sources (written only when changed)"""
    from translate import translate
    return translate(REPO, os.path.join(LEAN, "Pff", "Consts.lean"))


def lake_build(modules, timeout=3000):
    t0 = time.time()
    try:
        p = subprocess.run(["lake", "build"] + list(modules), cwd=LEAN, stdout=subprocess.PIPE,
                           stderr=subprocess.STDOUT, text=True, timeout=timeout)
    except FileNotFoundError:
        return None, "lake not found", 0.0
    except subprocess.TimeoutExpired:
        return None, "lake build timed out", time.time() - t0
    log = p.stdout
    ok = p.returncode == 0
    # a `sorry` only produces a warning: treat as failure
    if ok and re.search(r"declaration uses 'sorry'|declaration uses `sorry`", log):
        ok = False
    return ok, log, time.time() - t0


def mathlib_context():
    """every Mathlib module imported anywhere in the Lean project: imported by every audit, so that notations, delaborators and pp options
    (`∀ x ∈ s`, `ℕ`, `p.1`, ...) are the same whichever property lists a theorem"""
    mods = set()
    for dp, _dn, fs in os.walk(os.path.join(LEAN, "Pff")):
        for f in fs:
            if f.endswith(".lean"):
                for line in open(os.path.join(dp, f), encoding="utf-8", errors="replace"):
                    m = re.match(r"import (Mathlib\.[\w\.]+)", line)
                    if m:
                        mods.add(m.group(1))
                    elif line.strip() and not line.startswith(("import", "/-", "--", " ", "-/")) and "import" not in line:
                        break
    return ["import %s" % m for m in sorted(mods)]


def lean_audit(prop_module, theorems, timeout=1200):
    """#print axioms + #check of every property theorem; returns dict name -> {axioms, statement}"""
    d = os.path.join(scratch(), "audit")
    os.makedirs(d, exist_ok=True)
    mods = [prop_module] if isinstance(prop_module, str) else list(dict.fromkeys(prop_module))
    path = os.path.join(d, "Audit_%s.lean" % mods[0].replace(".", "_"))
    # a fixed printing context: how a statement is pretty-printed depends on the notations and delaborators in scope (`∀ x ∈ s`, `ℕ`), i.e.
    # on what the audited modules happen to import; the two Mathlib modules that provide them are always imported, so that one theorem
    # listed by several properties is printed identically in all of them
    lines = ["import Mathlib.Util.Delaborators", "import Mathlib.Data.Nat.Notation", "import Mathlib.Data.Prod.Basic"] + \
            mathlib_context() + ["import %s" % m for m in mods] + ["set_option pp.fieldNotation.generalized false", ""]
    for t in theorems:
        lines.append('#eval IO.println "@@THM %s"' % t)
        lines.append("#check @%s" % t)
        lines.append('#eval IO.println "@@AX %s"' % t)
        lines.append("#print axioms %s" % t)
    lines.append('#eval IO.println "@@END"')
    open(path, "w").write("\n".join(lines) + "\n")
    p = subprocess.run(["lake", "env", "lean", path], cwd=LEAN, stdout=subprocess.PIPE,
                       stderr=subprocess.STDOUT, text=True, timeout=timeout)
    out = p.stdout
    res = {}
    cur = None
    mode = None
    buf = []

    def flush():
        if cur is None:
            return
        txt = "\n".join(buf).strip()
        if mode == "THM":
            # `ℕ` / `ℤ` are Mathlib notations: whether they are printed depends on what the audited modules import, not on the statement
            res.setdefault(cur, {})["statement"] = re.sub(r"\s+", " ", txt).replace("ℕ", "Nat").replace("ℤ", "Int")
        elif mode == "AX":
            m = re.search(r"depends on axioms: \[(.*?)\]", txt, re.S)
            if m:
                axs = [a.strip() for a in m.group(1).replace("\n", " ").split(",") if a.strip()]
            elif "does not depend on any axioms" in txt:
                axs = []
            else:
                axs = ["<unparsed: %s>" % txt[:200]]
            res.setdefault(cur, {})["axioms"] = axs

    for line in out.split("\n"):
        m = re.match(r"@@(THM|AX|END)\s*(\S*)", line)
        if m:
            flush()
            buf = []
            mode, cur = m.group(1), m.group(2)
            if mode == "END":
                cur = None
        else:
            buf.append(line)
    return res, out, p.returncode


def load_lock():
    p = os.path.join(LEAN, "statements.lock.json")
    if os.path.exists(p):
        return json.load(open(p))
    return {}


class LeanSide:
    """Step 1 of the verdict logic: translator, build, forbidden-token grep, axiom audit,
    statement lock."""

    def __init__(self, prop_id, modules, prop_module, theorems):
        self.prop_id = prop_id
        self.modules = modules
        self.prop_module = prop_module
        self.theorems = theorems
        self.problems = []   # list of (kind, text)
        self.build_ok = False
        self.discharged = 0
        self.axioms = {}
        self.build_s = 0.0
        self.log = ""

    def run(self):
        try:
            run_translator()
        except Exception as e:  # translator could not read a constant: a proof input is missing
            self.problems.append(("translator", "translator failed: %r" % (e,)))
        ok, log, dt = lake_build(self.modules)
        self.build_s = dt
        self.log = log
        if ok is None:
            raise Infra(log)
        if not ok:
            errs = [l for l in log.split("\n") if "error" in l or "sorry" in l][:12]
            self.problems.append(("build", "lake build %s failed: %s" % (" ".join(self.modules), " | ".join(errs))))
            return self
        self.build_ok = True
        hits = grep_forbidden(self.modules)
        if hits:
            self.problems.append(("forbidden", "forbidden tokens in Lean sources: %s" % "; ".join(hits[:8])))
        res, out, rc = lean_audit([self.prop_module] + [m for m in self.modules if m.startswith("Pff.Props.")], self.theorems)
        lock = load_lock()
        for t in self.theorems:
            info = res.get(t, {})
            axs = info.get("axioms")
            st = info.get("statement")
            if axs is None or st is None:
                self.problems.append(("audit", "theorem %s not found / not printable: %s" % (t, out[-400:])))
                continue
            self.axioms[t] = axs
            bad = [a for a in axs if a not in ALLOWED_AXIOMS]
            if bad:
                self.problems.append(("axioms", "theorem %s depends on %s" % (t, bad)))
                continue
            if t not in lock:
                self.problems.append(("lock", "theorem %s has no entry in statements.lock.json" % t))
                continue
            if lock[t] != st:
                self.problems.append(("lock", "statement of %s differs from statements.lock.json:\n now: %s\nlock: %s" % (t, st, lock[t])))
                continue
            self.discharged += 1
        return self


class PropertyFailure(Exception):
    """raised by a scenario builder when the real tool's own output already contradicts the property on a concrete input (so that the
    scenario cannot even be set up): the run stops and reports the payload as a violation, it is not an infrastructure problem"""

    def __init__(self, payload):
        Exception.__init__(self, payload.get("what", "property failure"))
        self.payload = payload


class Infra(Exception):
    pass


def run_driver(lines, timeout=3000):
    """pipe request lines through the Lean model driver; returns list of reply lines"""
    d = os.path.join(scratch(), "drv")
    os.makedirs(d, exist_ok=True)
    inp = os.path.join(d, "req_%d.txt" % random.getrandbits(32))
    with open(inp, "w") as f:
        for l in lines:
            f.write(l + "\n")
    exe = os.path.join(LEAN, ".lake", "build", "bin", "pffdriver")
    # compiled driver (built by `lake build pffdriver` together with the models; 10-50x faster), else the interpreter
    cmd = [exe] if (os.path.exists(exe) and os.environ.get("PFF_DRIVER_INTERPRETED") != "1") else ["lake", "env", "lean", "--run", "Pff/Driver.lean"]
    with open(inp) as fin:
        p = subprocess.run(cmd, cwd=LEAN, stdin=fin,
                           stdout=subprocess.PIPE, stderr=subprocess.PIPE, text=True, timeout=timeout)
    os.remove(inp)
    out = p.stdout.split("\n")
    if out and out[-1] == "":
        out.pop()
    if p.returncode != 0 or len(out) != len(lines):
        return None, "driver rc=%s, %d replies for %d requests; stderr: %s" % (p.returncode, len(out), len(lines), p.stderr[-600:])
    return out, ""


# --------------------------------------------------------------------------------------------
# helpers for protocol

def hx(b):
    b = bytes(b)
    return b.hex() if b else "-"


def unhx(s):
    return b"" if s == "-" else bytes.fromhex(s)


def nums(l):
    l = list(l)
    return ",".join(str(x) for x in l) if l else "-"


# --------------------------------------------------------------------------------------------
# known findings

def load_known():
    p = os.path.join(VERIF, "known_findings.json")
    if not os.path.exists(p):
        return {"findings": [], "fixed": []}
    return json.load(open(p))


# --------------------------------------------------------------------------------------------
# AST fingerprints of modelled functions

def ast_fingerprint(relfile, qualname):
    import ast
    src = open(os.path.join(REPO, relfile), encoding="utf-8", errors="replace").read()
    tree = ast.parse(src)
    parts = qualname.split(".")

    def find(body, names):
        for node in body:
            if isinstance(node, (ast.FunctionDef, ast.ClassDef)) and node.name == names[0]:
                if len(names) == 1:
                    return node
                return find(node.body, names[1:])
        return None

    node = find(tree.body, parts)
    if node is None:
        return None
    return hashlib.sha256(ast.dump(node, include_attributes=False).encode()).hexdigest()[:16]


def fingerprints_changed(spec):
    """spec: list of (relfile, qualname). Compares with harness/fingerprints.json."""
    p = os.path.join(VERIF, "harness", "fingerprints.json")
    stored = json.load(open(p)) if os.path.exists(p) else {}
    changed = []
    cur = {}
    for relfile, qn in spec:
        key = "%s::%s" % (relfile, qn)
        fp = ast_fingerprint(relfile, qn)
        cur[key] = fp
        if stored.get(key) != fp:
            changed.append(key)
    return changed, cur


# --------------------------------------------------------------------------------------------
# result / evidence / verdict

class Outcome:
    """what a property module returns from run()"""

    def __init__(self):
        self.x_cases = 0                 # correspondence cases executed (model vs impl)
        self.x_disagreements = []        # list of dicts (input, model, impl)
        self.oracle_cases = 0            # property oracle evaluations on the implementation
        self.violations = []             # list of dicts: concrete failing inputs on the real code
        self.known_hits = []             # list of (finding id, what)
        self.samples = []
        self.histogram = {}
        self.distinct = set()
        self.notes = []
        self.exhaustive = False
        self.extra = {}

    def count(self, key, n=1):
        self.histogram[key] = self.histogram.get(key, 0) + n

    def sample(self, s, cap=6):
        if len(self.samples) < cap:
            self.samples.append(s)


def write_evidence(prop_id, tier, seed, lean, oc, wall, trusted_base, assumptions, rule, violations_n,
                   checker_cmd):
    os.makedirs(EVIDENCE, exist_ok=True)
    obligations = len(lean.theorems)
    cov = {
        "obligations": obligations,
        "discharged": lean.discharged,
        "checker_cmd": checker_cmd,
        "trusted_base": trusted_base,
        "theorems": [{"name": t, "axioms": lean.axioms.get(t)} for t in lean.theorems],
        "lean_build_s": round(lean.build_s, 2),
        "lean_problems": [list(p) for p in lean.problems],
        "traces_validated_against_impl": oc.x_cases,
        "correspondence_disagreements": len(oc.x_disagreements),
        "oracle_evaluations_on_impl": oc.oracle_cases,
        "evaluations": oc.x_cases + oc.oracle_cases,
        "distinct_nontrivial": len(oc.distinct),
        "rule": rule,
        "samples": oc.samples if oc.samples else ["<no case generated>"],
        "input_distribution": oc.histogram,
        "known_findings_hit": [list(k) for k in oc.known_hits],
        "notes": oc.notes,
        "exhaustive": bool(oc.exhaustive),
    }
    cov.update(oc.extra)
    ev = {
        "property_id": prop_id,
        "tier": tier,
        "seed": seed,
        "level": "proof",
        "coverage": cov,
        "assumptions": assumptions,
        "wall_s": round(wall, 2),
        "violations": violations_n,
    }
    tmp = os.path.join(EVIDENCE, "%s.json.tmp" % prop_id)
    with open(tmp, "w") as f:
        json.dump(ev, f, indent=1, sort_keys=True, default=str)
    os.replace(tmp, os.path.join(EVIDENCE, "%s.json" % prop_id))
    return ev


def write_replay(prop_id, seed, n, payload):
    os.makedirs(REPLAY, exist_ok=True)
    p = os.path.join(REPLAY, "%s-%d-%d.json" % (prop_id, seed, n))
    with open(p, "w") as f:
        json.dump(payload, f, indent=1, sort_keys=True, default=str)
    return p


def leanchecker(modules, timeout=3000):
    """thorough tier: independent re-check of the compiled .olean files; returns '' or problem text"""
    try:
        p = subprocess.run(["lake", "env", "leanchecker"] + list(modules), cwd=LEAN, stdout=subprocess.PIPE,
                           stderr=subprocess.STDOUT, text=True, timeout=timeout)
    except FileNotFoundError:
        return ""
    except subprocess.TimeoutExpired:
        return ""
    if p.returncode != 0:
        return "leanchecker failed: %s" % p.stdout[-500:]
    return ""


import contextlib
import io


@contextlib.contextmanager
def captured():
    """run a tool's main() with stdout/stderr captured; the tools' Tee objects re-assign sys.stdout /
    sys.stderr (also from __del__), so both are restored afterwards whatever happened"""
    import gc
    so, se = sys.__stdout__, sys.__stderr__     # a Tee.__del__ firing late may have left a dead StringIO in sys.stdout
    buf = io.StringIO()
    sys.stdout = buf
    sys.stderr = io.StringIO()
    try:
        yield buf
    finally:
        gc.collect()
        sys.stdout, sys.stderr = so, se


def say(*a):
    print(*a, file=sys.__stdout__, flush=True)


@contextlib.contextmanager
def quiet():
    """like captured() but without the garbage collection pass: for library-level calls (codec encode/check/decode) that create no Tee"""
    so, se = sys.__stdout__, sys.__stderr__
    buf = io.StringIO()
    sys.stdout = buf
    sys.stderr = io.StringIO()
    try:
        yield buf
    finally:
        sys.stdout, sys.stderr = so, se


# --------------------------------------------------------------------------------------------
# line coverage of the modelled Python functions during a run (what the generators actually reach)

class LineCov:
    """Records which source lines of /repo's Python files are executed while a check runs (sys.monitoring, every location reported
    once), and reports it per modelled function: how much of the code the model stands for was exercised by this run's inputs.
    Purely observational: no source hook, nothing of /repo is changed."""
    TOOL = 3

    def __init__(self):
        self.hits = set()
        self.on = False
        self.root = os.path.realpath(REPO) + os.sep

    def start(self):
        mon = getattr(sys, "monitoring", None)
        if mon is None:
            return
        try:
            mon.use_tool_id(self.TOOL, "pffcov")
        except ValueError:
            return
        root = self.root
        hits = self.hits
        cache = {}

        def cb(code, line):
            fn = code.co_filename
            ok = cache.get(fn)
            if ok is None:
                ok = cache[fn] = os.path.realpath(fn).startswith(root)
            if ok:
                hits.add((os.path.realpath(fn), line))
            return mon.DISABLE
        mon.register_callback(self.TOOL, mon.events.LINE, cb)
        mon.set_events(self.TOOL, mon.events.LINE)
        self.on = True

    def stop(self):
        if self.on:
            mon = sys.monitoring
            mon.set_events(self.TOOL, 0)
            mon.register_callback(self.TOOL, mon.events.LINE, None)
            mon.free_tool_id(self.TOOL)
            self.on = False

    @staticmethod
    def _code_lines(src, filename, qualname):
        """executable lines of the function `qualname` (nested code objects included), without the `def` line and docstring-only lines"""
        try:
            top = compile(src, filename, "exec")
        except SyntaxError:
            return None
        found = []

        def walk(co, prefix):
            for c in co.co_consts:
                if hasattr(c, "co_code"):
                    q = c.co_qualname
                    if q == qualname or q.startswith(qualname + "."):
                        found.append(c)
                    walk(c, q)
        walk(top, "")
        if not found:
            return None
        lines = set()
        for c in found:
            for _s, _e, ln in c.co_lines():
                if ln is not None and ln != c.co_firstlineno:
                    lines.add(ln)
        return lines

    def report(self, modelled):
        if not self.on and not self.hits:
            return None
        out = {}
        tot = hit = 0
        for rel, qual in sorted(set(modelled)):
            path = os.path.realpath(os.path.join(REPO, rel))
            try:
                src = open(path, encoding="utf-8", errors="replace").read()
            except OSError:
                continue
            lines = self._code_lines(src, path, qual)
            if not lines:
                continue
            got = {ln for ln in lines if (path, ln) in self.hits}
            missed = sorted(lines - got)
            out["%s:%s" % (rel, qual)] = {"executable_lines": len(lines), "executed": len(got),
                                          "not_executed": missed[:400]}
            tot += len(lines)
            hit += len(got)
        return {"functions": out, "executable_lines": tot, "executed": hit,
                "note": "source lines of the modelled functions executed in-process by this run's correspondence and oracle cases"}


def replay_by_rerun(pid, payload):
    """judged replay for scenario checks whose inputs are real directory histories: the check is run again with the recorded seed and
    tier (every random choice derives from the seed, so the same scenarios are rebuilt); exit status 1 if a violation is reported again"""
    seed = int(payload.get("seed", 0) or 0)
    tier = payload.get("tier", "quick")
    out = tempfile.mkdtemp(prefix="pffreplay.")
    env = dict(os.environ, VERIF_SEED=str(seed), PFF_EVIDENCE_DIR=os.path.join(out, "ev"), PFF_REPLAY_DIR=os.path.join(out, "rp"))
    try:
        r = subprocess.run([os.path.join(VERIF, "check"), pid, "--tier", tier], env=env, stdout=subprocess.PIPE, stderr=subprocess.STDOUT, text=True)
        lines = [l for l in r.stdout.splitlines() if "tier=" in l or l.startswith("VIOLATION") or l.startswith("OK ") or l.startswith("KNOWN-FINDING")]
        for l in lines[:8]:
            say(l.replace(os.path.join(out, "rp"), "<scratch>"))
        first = None
        rp = os.path.join(out, "rp")
        if os.path.isdir(rp):
            fs = sorted(os.listdir(rp))
            if fs:
                first = json.load(open(os.path.join(rp, fs[0])))
        if first is not None:
            say("reproduced: %s" % str(first.get("what") or first.get("kind"))[:300])
        else:
            say("the property holds on the recorded scenarios now (seed %d, tier %s)" % (seed, tier))
        return 1 if r.returncode == 1 else (0 if r.returncode == 0 else 2)
    finally:
        shutil.rmtree(out, ignore_errors=True)
