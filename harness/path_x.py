"""correspondence for the path layer (lean/Pff/Model/Path.lean): the repo's `fullpath`, `path2unix`, `recwalk`,
`replication_repair.relpath_posix` and the `os.path` / `pathlib` functions they are built from, against the Lean model, on hostile
path strings (repeated slashes, '.', '..', trailing slashes, leading '//', non-ASCII bytes) and on real directory trees mounted at
several roots; plus the relocation statement itself evaluated on the real functions (what generation records for a tree must not depend
on the root, and joining it to another root must name the same file)."""
import os
import posixpath
import shutil
import sys

import common
from common import hx

NAMES = [b"a", b"b", b"ab", b".", b"..", b"", b"...", b".a", b"a.", b"\xc3\xa9", b"x y", b"~", b"-", b"a-b", b"..a", b"\\", b"c", b"\xff"]
PLAIN = [b"a", b"b", b"ab", b"...", b".a", b"a.", b"\xc3\xa9", b"x y", b"~", b"a-b", b"..a", b"\\", b"c d", b"\xfa", b"0", b"A"]


def aux():
    for n, m in list(sys.modules.items()):
        if n.endswith("lib.aux_funcs") and hasattr(m, "path2unix") and n.startswith("pyFileFixity"):
            return m
    from pyFileFixity.lib import aux_funcs
    return aux_funcs


def rr():
    from pyFileFixity import replication_repair
    return replication_repair


def rpath(rng):
    n = rng.randint(0, 5)
    s = b"/".join(rng.choice(NAMES) for _ in range(n))
    return b"/" * rng.choice([0, 0, 1, 1, 2, 3]) + s + b"/" * rng.choice([0, 0, 0, 1, 2])


def good_abs(rng):
    return b"/" * rng.choice([1, 1, 1, 2]) + b"/".join(rng.choice(PLAIN) for _ in range(rng.randint(0, 4)))


def parts_txt(l):
    return ",".join(hx(x) for x in l) if l else "~"


def lib_reply(fn, cwd, args):
    """the real functions (bytes in, canonical text out)"""
    a = aux()

    def ab(p):
        return posixpath.normpath(p if p.startswith(b"/") else posixpath.join(cwd, p))
    try:
        if fn == "normpath":
            return hx(posixpath.normpath(args[0]))
        if fn == "join":
            return hx(posixpath.join(*args))
        if fn == "relpath":
            if not args[0]:
                return "none"
            return hx(posixpath.relpath(ab(args[0]), ab(args[1])))
        if fn == "dirname":
            return hx(posixpath.dirname(args[0]))
        if fn == "basename":
            return hx(posixpath.basename(args[0]))
        if fn == "split":
            return parts_txt(args[0].split(b"/"))
        if fn == "parts":
            return parts_txt([os.fsencode(x) for x in a.path2unix(os.fsdecode(args[0]), nojoin=True)])
        if fn == "path2unix":
            try:
                return hx(os.fsencode(a.path2unix(os.fsdecode(args[0]))))
            except TypeError:
                return "none"
    except ValueError:
        return "none"
    raise KeyError(fn)


def make_tree(rng, depth=0):
    """(files, dirs) with plain, pairwise different names"""
    names = rng.sample(PLAIN, rng.randint(1, 5))
    nf = rng.randint(0 if depth else 1, len(names))
    files = {n: bytes(rng.randrange(256) for _ in range(rng.choice([0, 1, 5]))) for n in names[:nf]}
    dirs = {}
    if depth < 3:
        for n in names[nf:]:
            dirs[n + b"_d" if rng.random() < 0.5 else n] = make_tree(rng, depth + 1)
    return files, dirs


def flat(tree, prefix=()):
    files, dirs = tree
    out = {}
    for n, c in files.items():
        out[prefix + (n,)] = c
    for n, t in dirs.items():
        if n in files:
            continue
        out.update(flat(t, prefix + (n,)))
    return out


def cases(rng, n, workdir, oc):
    """returns (requests, implementation replies, failures of the relocation statement on the real functions)"""
    a = aux()
    lines, impl, bad = [], [], []
    cwd0 = os.getcwd()
    work = os.path.join(workdir, "pathx")
    shutil.rmtree(work, ignore_errors=True)
    os.makedirs(os.path.join(work, "cw", "d"))
    cwd = os.fsencode(os.path.realpath(os.path.join(work, "cw", "d")))
    # ---- 1. library level, hostile strings
    for _ in range(n):
        fn = rng.choice(["normpath", "join", "relpath", "dirname", "basename", "split", "parts", "path2unix"])
        if fn == "join":
            args = [rpath(rng) for _ in range(rng.randint(1, 4))]
        elif fn == "relpath":
            args = [rng.choice([rpath, good_abs])(rng), rng.choice([rpath, good_abs])(rng)]
        else:
            args = [rpath(rng)]
        lines.append("pathop %s %s %s" % (fn, hx(cwd), " ".join(hx(x) for x in args)))
        impl.append(lib_reply(fn, cwd, args))
        oc.count("path: " + fn)
    # ---- 2. the repo's fullpath under a real current directory
    os.chdir(cwd)
    try:
        for _ in range(max(20, n // 10)):
            p = rpath(rng)
            if p.startswith(b"~") or b"\x00" in p:
                continue
            lines.append("pathop abspath %s %s" % (hx(cwd), hx(p)))
            impl.append(hx(os.fsencode(a.fullpath(os.fsdecode(p)))))
            oc.count("path: fullpath")
    finally:
        os.chdir(cwd0)
    # ---- 3. real trees mounted at several roots: recwalk's dirpaths, what generation records, what dup aligns on, relocation
    for it in range(max(3, n // 150)):
        tree = flat(make_tree(rng))
        roots = []
        for j, rn in enumerate(rng.sample([b"r", b"root dir", b"x/y/z", b"\xc3\xa9t\xc3\xa9", b"a/../q"], 2)):
            root = os.path.join(os.fsencode(work), b"t%d_%d" % (it, j), rn)
            for comps, c in tree.items():
                fp = os.path.join(root, *comps)
                os.makedirs(os.path.dirname(fp), exist_ok=True)
                with open(fp, "wb") as f:
                    f.write(c)
            roots.append(os.fsencode(a.fullpath(os.fsdecode(root))))
        recorded = []
        for root in roots:
            rec = {}
            for dirpath, filename in a.recwalk(os.fsdecode(root)):
                dp, fnm = os.fsencode(dirpath), os.fsencode(filename)
                # the tools' expression, with the repo's path2unix
                rel = os.fsencode(a.path2unix(os.path.relpath(os.path.join(dirpath, filename), os.fsdecode(root))))
                comps = tuple(rel.split(b"/"))
                rec[rel] = open(os.path.join(dp, fnm), "rb").read()
                # model: dirpath = root joined with the directory components one by one
                lines.append("pathop join %s %s" % (hx(cwd), " ".join(hx(x) for x in (root,) + comps[:-1])))
                impl.append(hx(dp))
                lines.append("pathop genrel %s %s %s %s" % (hx(cwd), hx(root), hx(dp), hx(fnm)))
                impl.append(hx(rel))
                rp = rr().relpath_posix((dirpath, filename), os.fsdecode(root))[1]
                lines.append("pathop relposix %s %s %s %s" % (hx(cwd), hx(dp), hx(fnm), hx(root)))
                impl.append(parts_txt([os.fsencode(x) for x in rp]))
                oc.count("path: walked files")
            recorded.append(rec)
            want = {b"/".join(k): v for k, v in tree.items()}
            if rec != want:
                bad.append({"root": root.hex(), "recorded": sorted(k.hex() for k in rec), "tree": sorted(k.hex() for k in want),
                            "what": "the relative paths computed for a walked tree are not the '/'-joined components of its files"})
        # relocation on the real functions: a path recorded under one root, joined to the other root, names the same file
        for rel, c in recorded[0].items():
            fp = os.path.join(roots[1], rel)
            if not os.path.isfile(fp) or open(fp, "rb").read() != c:
                bad.append({"roots": [r.hex() for r in roots], "rel": rel.hex(),
                            "what": "a relative path recorded under one root does not name the same file under the other root"})
        # single-file input: recwalk(file) = (dirname, basename) of the absolute path
        if tree:
            comps = rng.choice(sorted(tree))
            fp = os.path.join(roots[0], *comps)
            got = list(a.recwalk(os.fsdecode(fp)))
            lines.append("pathop dirname %s %s" % (hx(cwd), hx(fp)))
            impl.append(hx(os.fsencode(got[0][0])))
            lines.append("pathop basename %s %s" % (hx(cwd), hx(fp)))
            impl.append(hx(os.fsencode(got[0][1])))
            oc.count("path: single-file walks")
    shutil.rmtree(work, ignore_errors=True)
    return lines, impl, bad
