"""Helper 'tool' executed by resiliency_tester.execute_command (imported by module name, main(argv)
called in-process): materialises a tree described by a JSON spec into a directory.
argv = [outdir, spec.json]; spec = {"files": {relpath: hex}, "delete": [relpath, ...]}"""
import json
import os


def main(argv):
    outdir, spec = argv[0], json.load(open(argv[1]))
    for rel, hexc in spec.get("files", {}).items():
        p = os.path.join(outdir, rel)
        os.makedirs(os.path.dirname(p), exist_ok=True)
        with open(p, "wb") as f:
            f.write(bytes.fromhex(hexc))
    for rel in spec.get("delete", []):
        p = os.path.join(outdir, rel)
        if os.path.exists(p):
            os.remove(p)
    return 0
