"""correspondence for the csv layer (lean/Pff/Model/Csv.lean): the repo's `_csv_writer` / Python's `csv.reader` with the parameters the
tools use, on files opened as the tools open them (`_open_csv`: text mode, newline='', utf-8), against the Lean model."""
import csv
import os

import common

ALPHA = ["a", "b", "|", '"', "\n", "\r", " ", "\t", "é", "数", ",", ";", "'", "\\", "0", "\x00", "\x0b", "\x1c", " ", "\x85"]


def cps(s):
    return ".".join(str(ord(c)) for c in s) or "-"


def show_rows(rows):
    if not rows:
        return "~"
    return ";".join("=" if not r else ",".join(cps(f) for f in r) for r in rows)


def compat():
    import sys
    for n, m in list(sys.modules.items()):
        if n.endswith("lib._compat") and hasattr(m, "_open_csv"):
            return m
    from pyFileFixity.lib import _compat
    return _compat


def gen_field(rng):
    r = rng.random()
    if r < 0.15:
        return ""
    n = rng.choice([1, 1, 2, 3, 5, 9])
    return "".join(rng.choice(ALPHA) for _ in range(n)).replace("\x00", "" if rng.random() < 0.7 else "\x00")


def gen_rows(rng):
    rows = []
    for _ in range(rng.choice([0, 1, 1, 2, 3, 5])):
        k = rng.choice([0, 1, 1, 2, 3, 7]) if rng.random() < 0.5 else 2
        rows.append([gen_field(rng) for _ in range(k)])
    return rows


def write_real(rows, path):
    m = compat()
    with m._open_csv(path, "w") as f:
        # the tools' own writer; a tree that lacks it writes with the standard library's writer, same parameters (as the tools did before c9ae9f5)
        w = getattr(m, "_csv_writer", csv.writer)(f, lineterminator="\n", delimiter="|", quotechar='"')
        for r in rows:
            w.writerow(r)
    with open(path, "r", newline="", encoding="utf-8") as f:
        return f.read()


def read_real(text, path):
    m = compat()
    with open(path, "w", newline="", encoding="utf-8") as f:
        f.write(text)
    try:
        with m._open_csv(path, "r") as f:
            return [list(r) for r in csv.reader(f, lineterminator="\n", delimiter="|", quotechar='"')]
    except csv.Error:
        return None


def dict_real(text, path):
    """csv.DictReader as the tools call it; canonical text of the records (field order = header order)"""
    m = compat()
    with open(path, "w", newline="", encoding="utf-8") as f:
        f.write(text)
    try:
        with m._open_csv(path, "r") as f:
            rd = csv.DictReader(f, lineterminator="\n", delimiter="|", quotechar='"')
            recs = list(rd)
            names = rd.fieldnames or []
    except csv.Error:
        return "error"
    if not recs:
        return "~"
    out = []
    for r in recs:
        # a header with repeated names keeps the LAST value of a repeated key in the dict; the model keeps every pair: compare per position
        vals = []
        extra = r.get(None, [])
        raw = None
        for i, k in enumerate(names):
            vals.append((k, r.get(k)))
        out.append((vals, extra))
    return ";".join(",".join("%s=%s" % (cps(k), "None" if v is None else cps(v)) for k, v in vals) +
                    ("+" + ",".join(cps(x) for x in extra) if extra else "") for vals, extra in out)


def cases(rng, n, workdir, oc):
    """returns (requests, implementation replies, round-trip failures of the real code)"""
    os.makedirs(workdir, exist_ok=True)
    p = os.path.join(workdir, "t.csv")
    lines, impl, bad = [], [], []
    for it in range(n):
        rows = gen_rows(rng)
        if any("\x00" in f for r in rows for f in r):
            oc.count("csv: rows with NUL (reader only)")
            text = "".join("|".join(r) + "\n" for r in rows)
        else:
            text = write_real(rows, p)
            lines.append("csvw %s" % show_rows(rows))
            impl.append(cps(text))
            back = read_real(text, p)
            if back != rows:
                bad.append({"rows": rows, "text": text, "read_back": back})
            oc.count("csv: writer rows")
        # the reader on what was written, and on mutated / arbitrary text
        for t in (text, mutate(rng, text), "".join(rng.choice(ALPHA[:8]) for _ in range(rng.randint(0, 12)))):
            if "\x00" in t:
                continue
            r = read_real(t, p)
            lines.append("csvr %s" % cps(t))
            impl.append("error" if r is None else show_rows(r))
            oc.count("csv: reader texts")
            # DictReader on the same text, when the first row has pairwise different names (a repeated name keeps only its last value)
            if r and r[0] and len(set(r[0])) == len(r[0]):
                lines.append("csvd %s" % cps(t))
                impl.append(dict_real(t, p))
                oc.count("csv: DictReader texts")
    return lines, impl, bad


def mutate(rng, text):
    t = list(text)
    for _ in range(rng.randint(1, 3)):
        op = rng.random()
        if t and op < 0.4:
            del t[rng.randrange(len(t))]
        elif op < 0.8:
            t.insert(rng.randint(0, len(t)), rng.choice(ALPHA[:8]))
        elif t:
            t[rng.randrange(len(t))] = rng.choice(ALPHA[:8])
    return "".join(t)
