"""per-file correspondence for the ecc tools: run the real correction on ONE file with the hash / codec
calls recorded, and build the driver request that replays the recorded tables into the Lean model of the
per-file logic (Pff.Ecc.correctHeaderFile / correctWholeFile)."""
import os
import shutil

import common
import ecc_scen as es
import ecc_util as eu
from common import hx

_thr = None


def threshold(tool):
    global _thr
    if _thr is None:
        import translate
        _thr = translate.extract(common.REPO)
    return _thr["heccConsecThreshold" if tool == "header" else "saeccConsecThreshold"]


class OpsRecorder:
    """records Hasher.hash / ECCMan.check / ECCMan.decode calls made by the tool (by any instance)"""

    def __init__(self, mbs):
        self.mbs = mbs
        self.h = {}
        self.c = {}
        self.d = {}
        self.e = {}
        self._saved = []

    def __enter__(self):
        # the tools import `lib.hasher` / `lib.eccman` through their own sys.path entry, so the classes they use live in modules
        # named `lib.*`, distinct from `pyFileFixity.lib.*`: patch every loaded copy
        import sys as _sys
        from pyFileFixity import header_ecc, structural_adaptive_ecc  # noqa: F401  (make sure the tool modules are loaded)
        rec = self
        hashers = [m.Hasher for n, m in list(_sys.modules.items()) if n.endswith("lib.hasher") and hasattr(m, "Hasher")]
        eccmans = [m.ECCMan for n, m in list(_sys.modules.items()) if n.endswith("lib.eccman") and hasattr(m, "ECCMan")]
        self._saved = []
        for H in set(hashers):
            self._patch_hasher(H)
        for E in set(eccmans):
            self._patch_eccman(E)
        return self

    def _patch_hasher(self, H):
        rec = self
        oh = H.hash

        def hash_(self_, mes):
            r = oh(self_, mes)
            if self_.algo != "none":
                rec.h[bytes(mes)] = bytes(r) if not isinstance(r, str) else r.encode("latin-1")
            return r
        self._saved.append((H, "hash", oh))
        H.hash = hash_

    def _patch_eccman(self, E):
        rec = self
        oc, od, oe = E.check, E.decode, E.encode

        def encode_(self_, message, k=None):
            r = oe(self_, message, k=k)
            if self_.n == rec.mbs:
                m = message.encode("latin-1") if isinstance(message, str) else bytes(bytearray(message))
                rec.e[(k or self_.k, m)] = bytes(bytearray(r))
            return r
        self._saved.append((E, "encode", oe))
        E.encode = encode_

        def check_(self_, message, ecc, k=None):
            r = oc(self_, message, ecc, k=k)
            if self_.n == rec.mbs:
                rec.c[(k or self_.k, bytes(bytearray(message)), bytes(bytearray(ecc)))] = bool(r)
            return r

        def decode_(self_, message, ecc, k=None, enable_erasures=False, erasures_char="\x00", only_erasures=False):
            key = (k or self_.k, bytes(bytearray(message)), bytes(bytearray(ecc)))
            try:
                r = od(self_, message, ecc, k=k, enable_erasures=enable_erasures, erasures_char=erasures_char, only_erasures=only_erasures)
            except Exception as e:
                if self_.n == rec.mbs:
                    rec.d[key] = None if type(e).__name__ in ("ReedSolomonError", "RSCodecError") else ("raise", type(e).__name__)
                raise
            if self_.n == rec.mbs:
                rec.d[key] = (bytes(bytearray(r[0])), bytes(bytearray(r[1])))
            return r
        self._saved.append((E, "check", oc))
        self._saved.append((E, "decode", od))
        E.check = check_
        E.decode = decode_

    def __exit__(self, *a):
        for cls, name, orig in self._saved:
            setattr(cls, name, orig)
        return False

    def enc_table(self):
        return " ".join("%d:%s:%s" % (k, hx(m), hx(e)) for (k, m), e in self.e.items())

    def tables(self):
        ht = " ".join("%s:%s" % (hx(m), hx(h)) for m, h in self.h.items())
        ct = " ".join("%d:%s:%s:%d" % (k, hx(m), hx(e), 1 if r else 0) for (k, m, e), r in self.c.items())
        dt = " ".join("%d:%s:%s:%s" % (k, hx(m), hx(e), "none" if r is None else "%s:%s" % (hx(r[0]), hx(r[1])))
                      for (k, m, e), r in self.d.items() if r is None or r[0] != "raise")
        return "%s ; %s ; %s" % (ht, ct, dt)


def run_one(P, relname, content_now, ecc_now, workdir, recorded_size=None):
    """real `-c` run on a single-file tree. Returns dict(rc, stats, out (bytes or None), request, reply, untouched)."""
    shutil.rmtree(workdir, ignore_errors=True)
    root = os.path.join(workdir, "root")
    eu.write_tree(root, {relname: content_now})
    eccp = os.path.join(workdir, "ecc.txt")
    open(eccp, "wb").write(ecc_now)
    with OpsRecorder(P.mbs) as rec:
        rc, stats, out, txt = eu.correct(P, root, eccp, os.path.join(workdir, "out"))
    after = eu.read_tree(root)
    res = {"rc": rc, "stats": stats, "out": out.get(relname), "extra_outputs": sorted(set(out) - {relname}),
           "untouched": after == {relname: content_now} and open(eccp, "rb").read() == ecc_now, "text": txt}
    b = eu.entry_bounds(ecc_now)
    if len(b) == 1 and stats is not None and stats[0] == 1:
        f = eu.parse_entry(ecc_now, *b[0])
        track = ecc_now[f["track"][0]:f["track"][1]]
        rs = len(content_now) if recorded_size is None else recorded_size
        fast = "0" if P.no_fast_check else "1"
        hl = eu.HASHLEN[P.hash]
        if P.tool == "header":
            k = P.k_of_rate(P.r1)
            read_len = rs if 0 < rs < P.size else P.size
            req = "eccfileh %s %d %d %d %d %d %s %s %s" % (fast, threshold("header"), hl, P.mbs, k, read_len, hx(content_now), hx(track), rec.tables())
        else:
            from props.C10 import fbits
            req = "eccfilew %s %d %d %d %d %d %d %d %d %s %s %s" % (fast, threshold("whole"), hl, P.mbs, P.size, rs, fbits(P.r1), fbits(P.r2),
                                                                fbits(P.r3), hx(content_now), hx(track), rec.tables())
        corrupted, complete, partial = stats[1], stats[2], stats[3]
        res["request"] = req
        res["reply"] = "%s %d %d %d" % ("none" if res["out"] is None else hx(res["out"]), corrupted, complete, partial)
    return res


def run_tree(P, tree_now, ecc_now, workdir):
    """real `-c` run on a whole tree with the hash / codec calls recorded; returns dict(rc, stats, out, request, reply).
    The request replays the run into the Lean model of the complete correction loop (Pff.Run.run)."""
    from props.C10 import fbits
    shutil.rmtree(workdir, ignore_errors=True)
    root = os.path.join(workdir, "root")
    eu.write_tree(root, tree_now)
    eccp = os.path.join(workdir, "ecc.txt")
    open(eccp, "wb").write(ecc_now)
    with OpsRecorder(P.mbs) as rec:
        rc, stats, out, txt = eu.correct(P, root, eccp, os.path.join(workdir, "out"))
    res = {"rc": rc, "stats": stats, "out": out, "text": txt}
    if stats is not None and not rc.startswith("exception"):
        fs = " ".join("%s:%s" % (hx(p.encode("latin-1")), hx(c)) for p, c in sorted(tree_now.items()))
        res["request"] = "eccrun %s %s %d %d %d %d %d %d %s %d %d %d %s %s ; %s" % (
            "h" if P.tool == "header" else "w", "0" if P.no_fast_check else "1", threshold(P.tool), eu.HASHLEN[P.hash], P.mbs, P.size,
            P.k_of_rate(P.r1), P.k_of_rate(P.ri), "1" if P.ignore_size else "0", fbits(P.r1), fbits(P.r2), fbits(P.r3), hx(ecc_now), fs, rec.tables())
        outs = ",".join(sorted("%s:%s" % (hx(p.encode("latin-1")), hx(c)) for p, c in out.items())) or "-"
        res["reply"] = "%s %d %d %d %d %d %s" % (rc, stats[0], stats[1], stats[2], stats[3], stats[5], outs)
    return res


WHOLE_RUN_MODELLED = [("pyFileFixity/header_ecc.py", "main"), ("pyFileFixity/structural_adaptive_ecc.py", "main"),
                      ("pyFileFixity/header_ecc.py", "entry_fields"), ("pyFileFixity/structural_adaptive_ecc.py", "entry_fields"),
                      ("pyFileFixity/header_ecc.py", "entry_assemble"), ("pyFileFixity/structural_adaptive_ecc.py", "stream_entry_assemble"),
                      ("pyFileFixity/header_ecc.py", "ecc_correct_intra"), ("pyFileFixity/structural_adaptive_ecc.py", "ecc_correct_intra_stream"),
                      ("pyFileFixity/lib/aux_funcs.py", "get_next_entry")]


def whole_run_cases(rng, n, modes, workdir, oc, label="whole-run"):
    """n complete `-c` runs of the real tools on generated trees and ecc files (damaged according to `modes`), each replayed into the Lean model
    of the whole correction loop (Pff.Run.run: scanner, cursor, field splitting, intra-ecc, lenient int(), lookup, size check, block logic,
    counters, outputs, exit status).  No exclusions: the model must agree on ANY bytes (also on damage that spells markers or delimiters).
    Returns (requests, implementation replies)."""
    import ecc_scen as es
    from props import C08
    lines, impl = [], []
    for it in range(n):
        P = es.gen_params(rng, small=True, erasures=False)
        P.mbs = max(P.mbs, 20)
        P.algo = rng.choice([3, 4])
        bsize = None
        if it % 5 == 4:
            P, bsize = es.boundary_params(rng, P)
        if not P.well_formed():
            continue
        P.no_fast_check = rng.random() < 0.3
        r_ = rng.random()
        if r_ < 0.12:
            P.only_erasures = True                      # alone: implies erasure detection (as repaired)
        elif r_ < 0.3:
            P.erasures, P.only_erasures = True, rng.random() < 0.3
        tree = es.gen_tree(rng, P, nfiles=rng.randint(1, 4), maxsize=300)
        if bsize is not None and bsize < 1500:
            tree["edge.bin"] = bytes(rng.randrange(256) for _ in range(bsize))
        if not tree:
            continue
        g = os.path.join(workdir, "g")
        shutil.rmtree(g, ignore_errors=True)
        eu.write_tree(g, tree)
        eccp = os.path.join(workdir, "e.txt")
        if eu.generate(P, g, eccp) != "0":
            continue
        data = open(eccp, "rb").read()
        mode = rng.choice(modes)
        dmg, new = dict(tree), data
        if mode == "within":
            db = bytearray(data)
            try:
                dmg, _, _ = es.within_capacity_damage(rng, P, tree, db)
                new = bytes(db)
            except (KeyError, IndexError, ValueError):
                # the entries of the generated file do not match the tree (only with a defective generator): run undamaged
                oc.count("%s: layout of the generated file does not match the tree" % label)
                dmg, new = dict(tree), data
        elif mode == "victim":
            b = eu.entry_bounds(data)
            if not b:
                continue
            vi = rng.randrange(len(b))
            s, e = b[vi]
            try:
                f = eu.parse_entry(data, s, e)
            except Exception:
                continue
            kd = rng.choice(C08.KINDS)
            if kd == "size_small":
                P.ignore_size = True        # else the size test skips the file whose entry now records a smaller size
            new = data[:s] + C08.damage_entry(rng, data[s:e], f, s, kd) + data[e:]
            first = sorted(tree)[0]
            if tree[first]:
                c = bytearray(tree[first])
                c[0] ^= 0x41
                dmg[first] = bytes(c)
        elif mode == "cut":
            new = data[:rng.randrange(len(data) + 1)]
            p = rng.choice(sorted(tree))
            if tree[p] and rng.random() < 0.5:
                c = bytearray(tree[p])
                c[rng.randrange(len(c))] ^= 0x5A
                dmg[p] = bytes(c)
        elif mode == "heavy":
            for p in list(tree):
                c = bytearray(tree[p])
                for _ in range(len(c) // 3 + 1):
                    if c:
                        c[rng.randrange(len(c))] = rng.randrange(256)
                dmg[p] = bytes(c)
        elif mode == "sizes":
            # files grown / shrunk / missing with respect to the recorded size, with and without --ignore_size
            P.ignore_size = rng.random() < 0.6
            for p in list(tree):
                r = rng.random()
                if r < 0.3:
                    # a few bytes more, or several times the recorded size (the stage rate must not be extrapolated beyond the recorded end)
                    extra = rng.randint(1, 40) if rng.random() < 0.5 else (len(tree[p]) + 1) * rng.randint(1, 4)
                    dmg[p] = tree[p] + bytes(rng.randrange(256) for _ in range(extra))
                elif r < 0.6 and tree[p]:
                    dmg[p] = tree[p][:rng.randrange(len(tree[p]))]
                elif r < 0.7:
                    del dmg[p]
        res = run_tree(P, dmg, new, os.path.join(workdir, "run"))
        if mode == "cut" and isinstance(res.get("out"), dict):
            # property-level judgement of the same runs (C13): on a prefix of the pristine ecc file an undamaged file is never written back altered
            for p_, c_ in tree.items():
                o_ = res["out"].get(p_)
                if dmg.get(p_) == c_ and o_ is not None and o_ != c_:
                    oc.violations.append({"input": {"params": P.describe(), "tree": {k: v.hex() for k, v in tree.items()}, "cut_at": len(new),
                                                    "ecc_len": len(data)},
                                          "impl": {"exit": res["rc"], "stats": res["stats"], "written": o_.hex()[:400]},
                                          "what": "ecc file cut at offset %d: the undamaged file %s was written back altered" % (len(new), p_)})
        if "request" in res and len(res["request"]) < 600000:
            lines.append(res["request"])
            impl.append(res["reply"])
            oc.count("%s: %s / %s" % (label, P.tool, mode))
        else:
            oc.count("%s: not replayed (%s)" % (label, res["rc"][:40]))
            if res["rc"].startswith("exception"):
                # the model of the run is total: a correction that aborts is a disagreement in itself
                oc.x_disagreements.append({"request": "eccrun (%s / %s) %s" % (P.tool, mode, P.describe()), "model": "the run completes",
                                           "impl": res["rc"][:300], "tree": {k: v.hex()[:200] for k, v in dmg.items()}})
    return lines, impl


def gen_case(P, tree, workdir):
    """real `-g` run with hash / encode calls recorded; returns dict(rc, request, reply): the request asks the Lean model of generation
    (Pff.Run.genStream: preamble, then per file marker, path, size text, intra parities, track) for the bytes of the ecc file, given the
    recorded hash and parity tables and the files in the order the tool wrote them; the reply is the real file."""
    from props.C10 import fbits
    shutil.rmtree(workdir, ignore_errors=True)
    root = os.path.join(workdir, "root")
    eu.write_tree(root, tree)
    eccp = os.path.join(workdir, "ecc.txt")
    with OpsRecorder(P.mbs) as rec:
        rc = eu.generate(P, root, eccp)
    res = {"rc": rc}
    res["bad_parity_lengths"] = [(k_, len(e_), P.mbs - k_) for (k_, m_), e_ in rec.e.items() if len(e_) != max(0, P.mbs - k_)]
    if rc != "0" or not os.path.exists(eccp):
        return res
    data = open(eccp, "rb").read()
    first = data.find(eu.MARKER)
    pre = data if first < 0 else data[:first]
    # order in which the tool wrote the files: decode it from the walk order (sorted walk of the repaired tree: dirs after files, by name)
    order = []
    for dirpath, dirs, files in os.walk(root):
        dirs.sort()
        for f in sorted(files):
            order.append(os.path.relpath(os.path.join(dirpath, f), root).replace(os.sep, "/"))
    if sorted(order) != sorted(tree):
        return res
    ht = " ".join("%s:%s" % (hx(m), hx(h)) for m, h in rec.h.items())
    fs = " ".join("%s:%s" % (hx(p.encode("latin-1")), hx(tree[p])) for p in order)
    res["request"] = "eccgen %s %d %d %d %d %d %d %d %d %s %s ; %s ; %s" % (
        "h" if P.tool == "header" else "w", eu.HASHLEN[P.hash], P.mbs, P.size, P.k_of_rate(P.r1), P.k_of_rate(P.ri),
        fbits(P.r1), fbits(P.r2), fbits(P.r3), hx(pre) or "-", fs, ht, rec.enc_table())
    res["reply"] = hx(data)
    res["order"] = order
    return res


def gen_cases(rng, n, workdir, oc, label="generation"):
    """n real `-g` runs, each compared byte for byte with the Lean model of generation (Pff.Run.genStream)"""
    import ecc_scen as es
    lines, impl = [], []
    for it in range(n):
        P = es.gen_params(rng, small=True, erasures=False)
        P.mbs = max(P.mbs, 20)
        P.algo = rng.choice([3, 4, 1, 3])
        bsize = None
        if it % 5 == 4:
            P, bsize = es.boundary_params(rng, P)
        if not P.well_formed():
            continue
        tree = es.gen_tree(rng, P, nfiles=rng.randint(1, 4), maxsize=400)
        if bsize is not None and bsize < 1500:
            tree["edge.bin"] = bytes(rng.randrange(256) for _ in range(bsize))
        if it % 7 == 3:
            tree["empty.dat"] = b""
        if it % 6 == 5:
            # very low rates with small blocks: blocks without any parity symbol (message size = max_block_size) towards the end of a file
            P.tool, P.mbs, P.algo = "whole", rng.choice([5, 10, 10, 20]), rng.choice([3, 4])
            P.r1, P.r2, P.r3 = rng.choice([0.3, 0.5]), rng.choice([0.1, 0.05]), rng.choice([0.02, 0.01])
            P.size = rng.choice([7, 64])
            tree = {"lowrate.bin": bytes(rng.randrange(256) for _ in range(rng.choice([300, 800, 1500])))}
            oc.count("%s: zero-parity blocks (very low stage-3 rate)" % label)
        if not tree:
            continue
        r = gen_case(P, tree, os.path.join(workdir, "gen"))
        for (k_, m_), e_ in list(r.get("enc_lengths", {}).items())[:0]:
            pass
        for (k_, ln_, want_) in r.get("bad_parity_lengths", [])[:2]:
            oc.violations.append({"input": {"params": P.describe(), "tree": {a: b_.hex() for a, b_ in tree.items()}},
                                  "impl": {"k": k_, "parity_length": ln_}, "required": {"parity_length": want_},
                                  "what": "during generation the codec returned a parity of %d symbols for a block with message size %d "
                                          "(max_block_size %d: %d expected)" % (ln_, k_, P.mbs, want_)})
        if "request" in r and len(r["request"]) < 600000:
            lines.append(r["request"])
            impl.append(r["reply"])
            oc.count("%s: %s" % (label, P.tool))
        else:
            oc.count("%s: not replayed (%s)" % (label, str(r["rc"])[:40]))
    return lines, impl
