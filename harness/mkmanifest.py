"""Generate /verif/MANIFEST.json from the table below (kept in one place so it stays valid)."""
import json
import os

HERE = os.path.dirname(os.path.abspath(__file__))
VERIF = os.path.dirname(HERE)

CLAIMED = {
    "C06": dict(
        text="Kernel-checked theorems over a line-for-line model of majority_vote_byte_scan: for every number of copies, contents, "
             "lengths and every read-chunk size >= 1 the loop equals the per-offset plurality spec (bytes, reported offsets, status); "
             "corollaries: length, plurality+earliest tie-break, majority restores, <3 copies. Model tied to /repo on every run by "
             "differential execution (Lean driver vs real routine) plus an independent oracle on the real routine.",
        design="§6 C06", technique="Lean 4 proof (strong induction over the read loop) + model/implementation correspondence",
        note="Trusted: Lean kernel, propext/Classical.choice/Quot.sound; hand-written model validated by correspondence sampling "
             "(differential testing, bounded by its generator); Python dict order / stable sort / file read semantics modelled."),
    "C20": dict(
        text="Kernel-checked theorems over a model of diff_bytes_files/diff_count_files/diff_bytes_dir/diff_count_dir and the restest "
             "exit rule: metric = hamming over common length + length difference over the longer length for every chunk size and "
             "start offset; tree sums; zero iff identical; exit 0 only for identical counterparts. Tied to /repo by correspondence on "
             "files, trees and scripted `pff restest` runs.",
        design="§6 C20", technique="Lean 4 proof (strong induction over the chunk loop, fold lemmas) + model/implementation correspondence",
        note="Trusted: Lean kernel and standard axioms; model validated by sampling; IEEE fact d/t*100==0 iff d==0 assumed; "
             "OS file semantics exercised not modelled."),
}

CLAIMED["C14"] = dict(
    text="Kernel-checked theorems over a state-machine model of get_next_entry (one Lean step per loop iteration): for every stream, "
         "marker (length >= 1), buffer size and starting cursor, a call returns the bounds given by the first marker occurrence at/after "
         "the cursor and the first occurrence at/after its end (or end of stream), independent of the buffer size; repeated calls on a "
         "generated stream without accidental marker return each entry once with exact bounds, then signal the end; content mode returns "
         "the entries. Tied to /repo by differential execution on streams over the marker's own bytes, all return modes and cursors.",
    design="§6 C14", technique="Lean 4 proof (loop invariants over the buffered search, induction on fuel) + model/implementation correspondence",
    note="Trusted: Lean kernel and standard axioms; hand-written model validated by correspondence sampling; bytearray.find and file "
         "read/seek/tell semantics modelled. Regression witness of the repaired defect (F12) is a theorem on the pinned loop.")
CLAIMED["C19"] = dict(
    text="Kernel-checked theorems over a model of tamper_file/tamper_dir driven by an arbitrary oracle stream (every seed and probability): "
         "length preserved, bytes outside the --header region untouched, erasure mode writes only zeros, differing <= count <= scanned <= "
         "region, all-False outcomes (probability 0) leave the file identical, directory = each file once in walk order, single file = "
         "one-file directory. Tied to /repo by replaying the recorded random stream of real runs (function level and CLI) into the model.",
    design="§6 C19", technique="Lean 4 proof (induction over positions/blocks/files for an arbitrary random oracle) + recorded-stream correspondence",
    note="Trusted: Lean kernel and standard axioms; model validated by sampling; assumed of `random`: random() >= 0 and randint within "
         "bounds; OS r+b file semantics, recwalk and argparse exercised not modelled.")

CLAIMED["C10"] = dict(
    text="Kernel-checked theorems over a model of the block loops of both tools (stream_compute_ecc_hash / stream_entry_assemble, "
         "compute_ecc_hash / entry_assemble) with an UNINTERPRETED offset->message-length function: the generation partition tiles the "
         "protected region exactly once, the partition read back from the generated track is identical and pairs every block with its own "
         "hash and parity, the track is the concatenation of hash+parity; staged rule as a definitional theorem. The float rounding of the "
         "published rule is compared (Lean Float model vs compute_ecc_params/feature_scaling, bit-for-bit) over an exhaustive "
         "max_block_size x rate grid - a test, labelled as such. Real loops run with stub codec/hasher for the sweep over sizes. Hash kinds (model of lib/hasher.Hasher with base64 modelled exactly, hashlib a parameter): HASH_length - the value returned has exactly len(hasher) bytes for every known kind, HASH_table - len(hasher) is the table read from the source, HASH_short_prefix/HASH_mini_prefix - a short/mini kind keeps 24/12 bits of the digest. Directed sizes where a block starts exactly where max_block/(1+2*rate) is a half-integer (exact rational arithmetic) are part of every run.",
    design="§6 C10", technique="Lean 4 proof (induction on the block loops, arbitrary message-length function) + model/implementation correspondence sweep",
    note="Trusted: Lean kernel and standard axioms; model validated by the sweep; IEEE-754 rounding validated not proved (theorems do not "
         "depend on it); well-formedness (message length >= 1, hash+parity >= 1 per block) is an explicit hypothesis.")

CLAIMED["C07"] = dict(
    text="Kernel-checked theorems over a model of the directory walk (inductive tree, files before sub-directories, sorted), the sort key "
         "and the alignment loop of synchronize_files: the walk is strictly increasing in the alignment order; for replicas read in that "
         "order every path of the union is emitted exactly once, grouped with exactly the replicas containing it (all together, in replica "
         "order); hence `pff dup` output paths = union and a file with >= 3 copies and a byte-wise majority intact is restored (via the C06 "
         "theorems). PATH_relpath_posix: the component list replicas are aligned on is directory names + file name for every replica root (model of relpath_posix over os.path). Tied to /repo by running `pff dup` on generated forests (report rows, output bytes, exit) and by the path correspondence.",
    design="§6 C07", technique="Lean 4 proof (order facts, mutual induction on trees, induction on the merge loop) + model/implementation correspondence",
    note="Trusted: Lean kernel and standard axioms; model validated by sampling; os.walk order after in-place sort and Python str/tuple "
         "comparison modelled; dir-vs-file clashes between replicas excluded as the property says.")

CLAIMED["C05"] = dict(
    text="Kernel-checked theorems over a model of `pff hash` generation and check mode (rows, the difference rules incl. the rounded-second "
         "mtime rule, option switches, single-file filter): the rule per row stated outright; check on the generating tree reports nothing for "
         "every option set; after arbitrary mutations the reported paths (= errors file) are exactly the recorded files changed or removed, "
         "each option silencing its own attribute only - for every deterministic hash pair, under the explicit hypothesis that a changed "
         "content does not collide under both hashes. Tied to /repo by real generate/mutate/check runs with csv-hostile names, relocated roots. csv layer (model of csv.writer/reader/DictReader with the tools' dialect and the repo's _csv_writer, tied to Python's csv by correspondence): every row of arbitrary strings is read back exactly (C05_csv_roundtrip), a header plus rows of as many fields are read back by DictReader under their field names (C05_db_roundtrip); C05_csv_cr_witness is the regression witness of the repaired carriage-return defect. Database FILE: C05_db_file_roundtrip (the text generated for any tree reads back as exactly the generated rows), C05_pipeline (check mode on the file = check mode on the rows, for any current tree), C05_pipeline_clean. Path layer (model of fullpath/path2unix/recwalk and the os.path functions under them, tied by correspondence on hostile path strings and real trees): what generation records for a tree is the '/'-joined relative components whatever root the tree is mounted at, and the file opened under any root for a recorded path is that file (PATH_gen_root_independent, PATH_mount_eq, PATH_lookup_relocated, PATH_relFS_nodup, PATH_single_file, PATH_abspath_good).",
    design="§6 C05", technique="Lean 4 proof (decision logic over list models) + model/implementation correspondence on real trees",
    note="Trusted: Lean kernel and standard axioms; model validated by sampling; hashlib as a parameter with an explicit no-collision "
         "hypothesis; csv and os.path layers modelled after CPython and tied by correspondence; the float text of modification times is an abstract identifier in the model; mtime rounding supplied by the harness.")
CLAIMED["C16"] = dict(
    text="Kernel-checked theorems over a state-machine model of `pff hash --update` (removal pass, append pass, single-file filter) and "
         "arbitrary histories of add/delete/update ops: remove drops only rows of missing files and keeps order; append keeps the old "
         "database as a prefix and adds each absent file once; for every admissible history a final update -a -r yields exactly the rows "
         "(path, hashes, size, ext) of a fresh generation, each once (induction over the history with a consistency invariant); the "
         "admissibility side condition is shown necessary by a kernel-checked witness. Tied to /repo by real step-by-step histories. csv layer: C05_csv_roundtrip, C05_db_roundtrip, C16_csv_append (appending rows = writing them all at once), C16_db_file_append (the database file after an update reads back as old rows then new rows); relocation / single-file input: PATH_gen_root_independent, PATH_single_file.",
    design="§6 C16", technique="Lean 4 proof (invariant by induction over operation histories) + model/implementation correspondence on real histories",
    note="Trusted: Lean kernel and standard axioms; model validated by sampling; admissibility hypothesis (no re-creation with other content "
         "while the stale row survives) is forced by the property's own clause; csv/os layers exercised not modelled.")
CLAIMED["C17"] = dict(
    text="Kernel-checked theorems over a model of --filescraping_recovery (md5/sha1 indexes with last-row-wins, recognition rule, last write "
         "wins): for every scraped list of contents (names/nesting are never read, so every renaming is covered) the output holds, at each "
         "recorded path whose content was found, exactly that content with the recorded mtime, and nothing for unknown/damaged files; complete "
         "scrape => original tree. Under distinct recorded contents and no collision of the (md5, sha1) PAIR (explicit; two recorded files may share one of the two hashes - the defect repaired in 1e7a934, regression witness C17_md5_twins_recovered). Tied to /repo by real recoveries. csv layer: C05_csv_roundtrip, C05_db_roundtrip (the database is read back exactly whatever characters the recorded paths hold), C05_db_file_roundtrip; recorded paths are root-independent and pairwise distinct (PATH_gen_root_independent, PATH_relFS_nodup).",
    design="§6 C17", technique="Lean 4 proof (list/index reasoning) + model/implementation correspondence on real scraped folders",
    note="Trusted: Lean kernel and standard axioms; model validated by sampling; no-collision hypothesis explicit; copy2/utime/makedirs exercised.")

CLAIMED["C11"] = dict(
    text="Kernel-checked theorems: GF(2^8) with the table multiplication of both fields is a Mathlib Field whose operations are the model's "
         "own (tables tied to the source's prim/generator constants by a kernel-checked orbit fact); for every good codec (any of the 4 "
         "algorithms, any n <= 255, any per-call k, any message length <= k) the check accepts message+own parity, rejects every word at "
         "distance 1..n-k (minimum distance n-k+1 from the Vandermonde determinant), and accepts a truncated parity iff the cut symbols "
         "were zero. Facade modelled line by line; encoders/syndromes at algorithm level; tied to the four real codecs every run.",
    design="§5.1-5.3, §6 C11", technique="Lean 4 + Mathlib proof (field laws from kernel-checked tables, Vandermonde minimum distance) + codec correspondence",
    note="Trusted: Lean kernel, standard axioms, imported Mathlib modules; third-party encoder/syndrome code modelled at algorithm level and "
         "validated against the real codecs by sampling plus complete multiplication tables; translator ties constants.")
CLAIMED["C12"] = dict(
    text="Kernel-checked theorems: the three encoders behind codecs 1, 2, 3 (long division, synthetic division of the stripped dividend, "
         "in-place LFSR), modelled separately, produce identical parity for every message, geometry and per-call k, and the parity passing "
         "the check is unique (so each codec verifies ecc produced by the others). The ecc-body determinism clause (moved / time-touched "
         "tree, codecs 1-3, index relative to the preamble) and cross-codec correction are decided by differential execution of the real "
         "tools on every run; the raw .idx difference for a moved tree is known finding F20. Relocation clause: C12_recorded_root_independent - what generation records for a tree (hence the ecc body, a function of recorded paths, contents and parameters in the generation model) is the same for every root (model of relpath/path2unix over os.path, tied by correspondence).",
    design="§6 C12, §7 F20", technique="Lean 4 + Mathlib proof (uniqueness of the systematic parity) + differential execution of the tools",
    note="Trusted: as C11; body determinism is evidenced by differential runs (the tool model has no root/time/codec-dependent term), not by "
         "a theorem about the Python; F20 (absolute index offsets include the preamble) recorded as known finding.")
CLAIMED["C02"] = dict(
    text="Kernel-checked theorems over the line-by-line facade model with the third-party decoder as a parameter: exactly n-k parity bytes; "
         "short messages = zero-padded; erasure positions handed to the library are exactly the received positions of the erasure symbol "
         "shifted by the pad (padding never an erasure); under CONTRACT W (decoder returns the codeword within capacity - stated, proved "
         "satisfiable via uniqueness of the codeword within capacity, validated on recorded library calls each run, not proved of the "
         "libraries) decode returns exactly the original message and parity for e <= floor((n-k)/2) and for 2e+f <= n-k with erasures, any "
         "per-call k. Facade checked at both interfaces against recorded library calls. For an ARBITRARY decoder (no contract): a successful decode that consulted the library made corrections within the capacity of the code (C02_decode_within_radius, C02_decode_full_block_within_radius; the guard repaired in c2e423c).",
    design="§4, §5.3, §6 C02, §7 F19", technique="Lean 4 + Mathlib proof (facade refinement, decoding uniqueness) under an explicit decoder contract + boundary-refinement correspondence",
    note="Trusted: as C11 plus contract W for reedsolo/unireedsolomon decoders (about 600 lines of third-party Berlekamp-Massey/Chien/Forney "
         "code, modelled as a parameter); W is refuted by the dependency for codecs 1/2 with erasures on rare patterns: known finding F19.")

_ECC_NOTE = ("Trusted: Lean kernel and standard axioms; per-file model lean/Pff/Model/Ecc.lean validated by replaying the recorded hash/check/"
             "decode calls of real runs; run model lean/Pff/Model/Run.lean (scan loop, cursor, field splitting, intra-ecc, int(), lookup, "
             "size check, per-file logic by file positions, counters, outputs, exit status, generation) validated by replaying complete real "
             "runs and by byte-exact comparison of generated ecc files. Composed run-level theorems (Props/RunA, RunB, RunC, Bridge, Chain) "
             "sit on top of the per-layer ones. Outside the composition: argument parsing, root relocation and path normalisation, log "
             "output, OS effects (exercised by execution) and the third-party decoder (contract W).")
CLAIMED["C04"] = dict(
    text="Kernel-checked theorems over a model of the per-file repair loops of both tools with an ARBITRARY hash and an ARBITRARY decoder "
         "(any bytes or failure, i.e. damage of any weight to file, track, or both, truncated and over-long tracks): every block written "
         "equals the input block, or matches the stored hash, or passes the ecc check with the returned parity; a hash-matching block is "
         "never altered in default mode; failed blocks are copied through; outputs are block-wise as stated and have exactly the input "
         "length (decoder only assumed length-preserving); a failed block prevents 'completely repaired' and the run exits non-zero. "
         "'Within the decoding radius' is judged on real runs by the oracle (re-encoding), the tools' own guard being hash-or-check. Run level, for ANY bytes as ecc file and any decoder returning messages of the length given (C04_run_blockwise, C04_run_conservative): every file written is the current file of its path with a prefix of its blocks replaced, block by block, by the block itself, a hash-matching value, or a value that passes the ecc check against a complete stored parity; nothing else changes, no length changes. For the real facade a committed decoder result lies within the capacity of the code for ANY third-party decoder (C02_decode_within_radius, the guard repaired in c2e423c).",
    design="§6 C04", technique="Lean 4 proof (invariant of the repair loop for arbitrary decoder) + recorded-call correspondence on real runs",
    note=_ECC_NOTE)
CLAIMED["C03"] = dict(
    text="Kernel-checked theorems (proved part, names …_partial): for a located entry the block loops of both tools report no corruption and "
         "write nothing on the track generated for the same content - every content/size incl. empty, every message-length function, every "
         "deterministic hash, every decoder (never consulted); exit 0. Uses the C10 layout-agreement theorems; the check clause for "
         "--no_fast_check is C11_accepts. Run level: C03_run_pristine - the ecc file AS GENERATED for any list of files, run through the "
         "model of the real loop: every file found, processed, uncorrupted, nothing written or skipped, counters (n,0,0,0,0), exit 0 (side "
         "conditions: the format's documented limits); C03_clean_ops_A/B discharge the codec hypotheses for the facade. Relocated root: "
         "C03_run_relocated - the ecc file generated from a tree mounted at one root verifies clean against the same tree mounted at any other "
         "root (path layer: model of fullpath/path2unix/recwalk over os.path, PATH_* theorems, tied by correspondence on hostile path strings "
         "and real trees); single-file input PATH_single_file. Long/odd names also by differential execution of the real tools each run.",
    design="§6 C03", technique="Lean 4 proof (per-file logic, via layout agreement) + end-to-end differential execution of the tools",
    note=_ECC_NOTE)
CLAIMED["C01"] = dict(
    text="Kernel-checked theorems (proved part, names …_partial): if every assembled block is intact-and-accepted or detected-and-decoded to "
         "the original with verifying hash/parity, the file written is exactly the original (whole tool) / original protected region + "
         "damaged tail verbatim (header tool), completely repaired, exit 0. The per-block premise follows from C02_decode_exact_* + "
         "C11_accepts under contract W for damage within capacity: C01_block_premise_A/B(_erasures), proved. Run level: "
         "C01_run_within_capacity, and the chain C01_chain_A/B with byte-level hypotheses only (lengths unchanged, per assembled block at "
         "most floor((n-k)/2) wrong symbols of message+parity, hash bytes free, no hash collision on the block in default mode, contract W): "
         "every file found and written back equal to the original, exit 0. Also decided by differential execution: real generate / "
         "damage-within-capacity (at the bound, natural erasures counted) / correct runs.",
    design="§6 C01", technique="Lean 4 proof (per-file logic under a per-block repair premise) + end-to-end differential execution at the capacity bound",
    note=_ECC_NOTE + " Contract W of the third-party decoders as in C02; codecs 1/2 with erasure handling excluded (F19).")
CLAIMED["C13"] = dict(
    text="Kernel-checked theorems (proved part): on a track truncated at ANY offset the blocks whose hash+parity lie wholly before the cut are "
         "assembled identically and the repair loop writes the same bytes for them; every output has the input's length (arbitrary hash and "
         "decoder), so the file of the cut entry is never damaged; a block whose parity was cut is committed only on a hash match "
         "(C13_cut_block_safe). Run level: C13_run_cut_prefix (every entry lying with its closing marker before the cut is processed "
         "exactly as with the complete file) and C13_run_output_length (ANY bytes as ecc file: whatever is written has the length of the "
         "current file). Normal termination of the real loops and identical handling of earlier entries on real prefixes (cuts in preamble, markers, every field, between hash and "
         "parity, entry boundaries; thorough: every offset) decided by differential execution.",
    design="§6 C13", technique="Lean 4 proof (prefix stability of assembly and repair loop, length preservation) + cut-offset sweep on the real tools",
    note=_ECC_NOTE)

CLAIMED["C09"] = dict(
    text="Kernel-checked theorems over a model of the entry format with Python's find/slice conventions: splitting a generated entry "
         "recovers exactly path, size text, both parities and the track offset for every path length and track (fields not spelling a "
         "delimiter together with the following one); int(str(n)) = n for every size; undamaged, a field decodes to itself for every field "
         "length (one or several intra blocks), both tools, every codec record whose fresh parity checks; under the per-block premise that "
         "contract W supplies for <= floor(parity/2) wrong symbols per intra block the exact field is recovered and reported corrected. "
         "Tied to /repo by comparing field splitting (also on damaged/garbage entries), size text, lenient int(), intra generation and intra "
         "correction with the real functions, plus end-to-end runs with metadata damaged within the intra bound. Premises from the facade under contract W: C09_intra_block_premise_A/B; run level: C09_run_metadata_within_capacity (metadata damaged within the intra capacity, no delimiter spelled: the entry is processed exactly as with pristine metadata); non-vacuity: pristine_metaWithinCapacity.",
    design="§6 C09", technique="Lean 4 proof (string search/slice reasoning, induction over intra blocks) + function-level and end-to-end correspondence",
    note="Trusted: Lean kernel and standard axioms; model validated by sampling; per-block premises = C11_accepts / C02_decode_exact_errors under "
         "contract W; names ending with a delimiter prefix or outside latin-1 are the format's limits (F15, F14); unireedsolomon within-capacity "
         "failures are known finding F19.")
CLAIMED["C15"] = dict(
    text="Kernel-checked theorems over a model of generation's index records and of the index pass of `pff recover`: every record holds the "
         "exact offset and kind of a marker/delimiter of the generated file, five per entry in file order; if the damaged file agrees with "
         "the pristine one outside the recorded marker spans (markers overwritten by ARBITRARY bytes) and every index block decodes to its "
         "pristine 9 info bytes (contract W for up to 9 corrupted bytes, code (27,9)), the pass returns exactly the pristine file; unusable "
         "blocks (decoder fails or re-check fails, truncated) are skipped and the result is that of the usable blocks alone. Tied to /repo by "
         "regenerating real ecc/.idx files from their parts and replaying recorded check/decode calls of real recoveries. Chain with byte-level hypotheses only: C15_chain_A/B (index file damaged in place with at most 9 wrong bytes per 27-byte block, all markers of the ecc file overwritten, facade under contract W: the pristine ecc file is returned); the whole index file incl. parities is regenerated by the model (genIdxFile) and compared byte for byte each run.",
    design="§6 C15", technique="Lean 4 proof (offset arithmetic over the entry format, fold invariant of the recovery pass) + correspondence on real recoveries",
    note="Trusted: Lean kernel and standard axioms; model validated by sampling; contract W for the index code; a block beyond capacity may be "
         "mis-corrected into another valid record (then applied or rejected by the sanity check): 'skipped' is proved for the tool's own "
         "criterion; Hamming pass is a no-op at threshold 0 (observed); F19 for codecs 1/2.")

CLAIMED["C08"] = dict(
    text="Kernel-checked theorems: with the bytes of one entry replaced by ARBITRARY bytes of any length (no additional marker spelled) or its "
         "marker destroyed (bytes glued to the previous entry) the buffered scanner still returns every other entry, in order, with exactly "
         "its own bytes, for every buffer size, and the loop reaches the end of the file; an entry with trailing bytes glued to its track is "
         "split into the same fields and its blocks are assembled exactly as before in both tools; per-entry processing is an arbitrary "
         "function of the entry's own bytes. Run level (model of the real per-entry code, position-based reads and cursor included): "
         "C08_run_visits (the loop processes exactly the intended entries whatever they hold and wherever the cursor is left), "
         "C08_run_local, C08_run_reads_inside, C08_run_independent(_header): replacing one entry by arbitrary bytes leaves path, status, "
         "result and effect of every other entry unchanged (whole-file tool: for entries whose track is not shorter than their file "
         "requires - every generated entry). That the real code never raises whatever the entry holds, and the results of non-victim files "
         "on really damaged ecc files, are also decided by differential execution (16 damage classes incl. garbage 0-3x the entry, "
         "destroyed markers/delimiters, non-numeric size, entries cut to a few bytes, tail cut, empty entry).",
    design="§6 C08", technique="Lean 4 proof (corollaries of the scanner, field and layout theorems) + victim-damage differential execution of the tools",
    note="Trusted: Lean kernel and standard axioms; model validated by sampling (scanner on real damaged files, per-file replay); PARTIAL: "
         "run model validated by replaying complete real runs on victim scenarios; damage spelling an additional marker is the format's "
         "documented limit; for the whole-file tool an entry whose own track is shorter than its file requires reads the first bytes of the "
         "next entry (stated hypothesis readsInside).")
CLAIMED["C18"] = dict(
    text="Kernel-checked theorems over a model of what `pff dup -d` does with one group of copies (single copy copied; first copy matching "
         "the database used; else the C06 majority vote; then the written file compared with the row of its own relative path) for ANY "
         "deterministic hash pair, any number of copies and any corruption: marked OK only if the written file matches the recorded "
         "hashes; a mismatch is KO and non-zero; a copy is used as correct only if it matches; whenever some copy matches or the vote "
         "restores the file, the output matches (a damaged first replica is never copied through); uncovered paths are never marked OK. "
         "Whole run (alignment loop + per-group processing with the row of the group's own path + exit status): C18_run_ok_sound, "
         "C18_run_uncovered, C18_run_paths, C18_run_restores - every report row marked OK is hash-correct for its own path at any depth, exit 0 "
         "implies no KO and every covered path hash-correct. "
         "Tied to /repo by running `pff dup -d` on forests with files at depth 0-3 (outputs, report columns, exit).",
    design="§6 C18, §7 F3", technique="Lean 4 proof (decision logic over the group of copies) + model/implementation correspondence on real replica forests",
    note="Trusted: Lean kernel and standard axioms; model validated by sampling; hashlib as a parameter; depth-independence of the database "
         "lookup is exactly what the correspondence decides (repaired defect F3, commit ad22318).")

NOT_YET = {}

props = [json.loads(l) for l in open(os.path.join(VERIF, "properties.jsonl"))]
checks = []
na = []
for p in props:
    pid = p["id"]
    if pid in CLAIMED:
        c = CLAIMED[pid]
        checks.append({
            "property_id": pid,
            "quick_cmd": "./check %s --tier quick" % pid,
            "thorough_cmd": "./check %s --tier thorough" % pid,
            "evidence_file": "/verif/evidence/%s.json" % pid,
            "replay_cmd_template": "./check %s --replay {path}" % pid,
            "engine": "lean4-model-correspondence",
            "level_claimed": {"category": "proof", "text": c["text"], "design_ref": c["design"]},
            "level_note": c["note"],
            "technique": c["technique"],
        })
    else:
        na.append({"property_id": pid, "reason": NOT_YET.get(pid, "check not built yet in this round (Lean model, theorems and correspondence are planned in DESIGN.md §6; nothing is claimed until they run)")})

m = {
    "version": 1,
    "setup_cmd": "./setup.sh",
    "hooks": {
        "guard": "PYFILEFIXITY_VERIF",
        "enable": "no source hook exists: the harness imports /repo in-process, overrides function defaults (buffer sizes) and wraps library modules at run time; PYFILEFIXITY_VERIF=1 is exported by the harness for completeness",
        "baseline_off_cmd": "cd /repo && /venv/bin/python -m pytest -ra -q -p no:cacheprovider --timeout=900 --continue-on-collection-errors",
        "source_commits": [],
        "add_only": True,
    },
    "engines": [{
        "name": "lean4-model-correspondence",
        "path": "/verif/check",
        "serves_properties": sorted(CLAIMED),
        "kind_free_text": "Lean 4 kernel-checked theorems about hand-written executable models (lean/Pff), tied to /repo on every run by a constants translator (harness/translate.py) and a differential correspondence check (Lean driver vs real code in-process), with an implementation-level oracle to produce concrete replays",
    }],
    "checks": checks,
    "not_applicable": na,
    "notes": "See DESIGN.md. Genuine defects repaired by `fix:` commits in /repo and recorded findings are listed in known_findings.json.",
}
json.dump(m, open(os.path.join(VERIF, "MANIFEST.json"), "w"), indent=1)
print("claimed:", sorted(CLAIMED), "not claimed:", len(na))
