"""helpers shared by the `pff hash` checks (C05, C16, C17, C18)"""
import csv
import hashlib
import os
import shutil

import common
from common import hx

BASE_NS = 1_600_000_000 * 10**9


def rfigc():
    from pyFileFixity import rfigc as m
    return m


def run_main(argv):
    """rfigc.main(argv) with output captured; returns exit status as text or exception:Type"""
    try:
        with common.captured() as buf:
            rc = rfigc().main(list(argv))
        return str(int(rc)), buf.getvalue()
    except BaseException as e:
        return "exception:%s" % type(e).__name__, ""


def write_tree(root, tree):
    """tree: dict relpath -> (content bytes, mtime_ns)"""
    os.makedirs(root, exist_ok=True)
    for rel, (c, m) in tree.items():
        p = os.path.join(root, *rel.split("/"))
        os.makedirs(os.path.dirname(p), exist_ok=True)
        if os.path.islink(p):
            os.remove(p)
        with open(p, "wb") as f:
            f.write(c)
        os.utime(p, ns=(m, m))


def read_rows(db):
    """the database file as raw csv rows (header first), read the way the tools read it"""
    import csv
    try:
        with open(db, "r", newline="", encoding="utf-8") as f:
            return [list(r) for r in csv.reader(f, lineterminator="\n", delimiter="|", quotechar='"')]
    except (OSError, csv.Error):
        return []


def read_db(path):
    rows = []
    with open(path, newline="", encoding="utf-8") as f:
        for r in csv.DictReader(f, lineterminator="\n", delimiter="|", quotechar='"'):
            rows.append(r)
    return rows


def core_rows(rows):
    """canonical text of the (path, md5, sha1, size, ext) columns, sorted as the driver sorts"""
    strs = []
    for r in rows:
        try:
            strs.append("%s:%d:%d:%s:%s" % (hx(r["path"].encode()), int(r["md5"], 16), int(r["sha1"], 16), r["size"], hx(r["ext"].encode())))
        except (TypeError, ValueError, KeyError, AttributeError):
            # a row the database reader could not split into the recorded columns (never agrees with the model)
            strs.append("malformed-row:%s" % hx(repr(sorted((str(k), str(v)) for k, v in r.items())).encode()))
    return ",".join(sorted(strs)) if strs else "-"


def ht_tokens(contents):
    out = []
    seen = set()
    for c in contents:
        if c in seen:
            continue
        seen.add(c)
        out.append("%s:%d:%d" % (hx(c), int(hashlib.md5(c).hexdigest(), 16), int(hashlib.sha1(c).hexdigest(), 16)))
    return " ".join(out)


def file_tokens(tree):
    return " ".join("%s:%s:%d" % (hx(p.encode()), hx(c), m) for p, (c, m) in sorted(tree.items()))


# the two 128-byte messages of the MD5 collision published by Wang et al. (2004): same md5, different sha1; any common suffix keeps both facts.
# A copy turned into its twin is DAMAGED, and only a comparison of BOTH recorded digests says so.
MD5_TWINS = (bytes.fromhex("d131dd02c5e6eec4693d9a0698aff95c2fcab58712467eab4004583eb8fb7f8955ad340609f4b30283e488832571415a085125e8f7cdc99fd91dbdf280373c5b"
                           "d8823e3156348f5bae6dacd436c919c6dd53e2b487da03fd02396306d248cda0e99f33420f577ee8ce54b67080a80d1ec69821bcb6a8839396f9652b6ff72a70"),
             bytes.fromhex("d131dd02c5e6eec4693d9a0698aff95c2fcab50712467eab4004583eb8fb7f8955ad340609f4b30283e4888325f1415a085125e8f7cdc99fd91dbd7280373c5b"
                           "d8823e3156348f5bae6dacd436c919c6dd53e23487da03fd02396306d248cda0e99f33420f577ee8ce54b67080280d1ec69821bcb6a8839396f965ab6ff72a70"))

NAME_POOL = ["a.txt", "b", "pipe|name.bin", 'quo"te.txt', "it's", " lead", "trail ", "数据.dat", "é.x", "a,b", "semi;colon", "x.tar.gz",
             ".hidden", "UP.TXT", "back\\slash", "q\"\"q", "|", "#hash", "name with  spaces.md",
             # names that are NOT in Unicode normal form C (decomposed accents, compatibility characters): a byte-exact file system
             # keeps them as they are, and so must the recorded path
             "cafe\u0301.txt", "A\u030angstro\u0308m", "\u212b.dat", "o\u0302\u0323.bin",
             # control characters (legal in POSIX names; not "printable", but C16/C17/C18 quantify over all trees): the csv reader takes a
             # bare carriage return for an end of row
             "path", "md5", "ext", "cr\rname.txt", "nl\nname", "tab\tname", "crlf\r\nx", "\r", "end\r"]


def gen_tree(rng, nfiles=None, depth=2):
    """random tree with printable, csv-hostile names; pairwise distinct contents"""
    n = nfiles if nfiles is not None else rng.randint(1, 6)
    tree = {}
    used = set()
    i = 0
    while len(tree) < n and i < 100:
        i += 1
        parts = [rng.choice(["d", "sub dir", "d|e", "深", "D2", "re\u0301pertoire"]) for _ in range(rng.randint(0, depth))]
        name = rng.choice(NAME_POOL)
        rel = "/".join(parts + [name])
        # a component must not be both file and directory
        if any(rel == q or q.startswith(rel + "/") or rel.startswith(q + "/") for q in tree):
            continue
        c = bytes(rng.randrange(256) for _ in range(rng.choice([0, 1, 5, 40, 300])))
        c += b"#%d" % len(tree)  # pairwise distinct
        if c in used:
            continue
        used.add(c)
        m = BASE_NS + rng.randint(0, 10**6) * 10**9 + rng.choice([0, 250_000_000, 750_000_000])
        if rng.random() < 0.12:
            m = rng.choice([0, 0, 1 * 10**9])      # the epoch itself, one second after it (dates before the epoch: not expressible in the driver protocol)
        tree[rel] = (c, m)
    return tree


def rmtree(d):
    shutil.rmtree(d, ignore_errors=True)
