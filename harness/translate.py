"""Translator: /repo sources -> lean/Pff/Consts.lean  (constants only; Python `ast`, no execution of
tool code). Regenerated on every run; the file is rewritten only when its content changes so that
the Lean build cache stays valid. Theorems that depend on a constant are therefore re-checked
against what the code says now."""
import ast
import os


def _parse(repo, rel):
    return ast.parse(open(os.path.join(repo, rel), encoding="utf-8", errors="replace").read())


def _func(tree, name, cls=None):
    body = tree.body
    if cls:
        for n in body:
            if isinstance(n, ast.ClassDef) and n.name == cls:
                body = n.body
                break
        else:
            raise KeyError(cls)
    for n in body:
        if isinstance(n, ast.FunctionDef) and n.name == name:
            return n
    raise KeyError(name)


def _const(node):
    if isinstance(node, ast.Constant):
        return node.value
    if isinstance(node, ast.UnaryOp) and isinstance(node.op, ast.USub):
        return -_const(node.operand)
    raise ValueError("not a constant: %s" % ast.dump(node))


def _default(fn, argname):
    args = fn.args.args
    defaults = fn.args.defaults
    off = len(args) - len(defaults)
    for i, a in enumerate(args):
        if a.arg == argname:
            return _const(defaults[i - off])
    raise KeyError(argname)


def _assigned_consts(fn, varname):
    """all constants assigned to a simple name inside fn (in source order)"""
    res = []
    for n in ast.walk(fn):
        if isinstance(n, ast.Assign) and len(n.targets) == 1:
            t = n.targets[0]
            if isinstance(t, ast.Name) and t.id == varname:
                try:
                    res.append((n.lineno, _const(n.value)))
                except ValueError:
                    pass
    return [v for _, v in sorted(res)]


def _latin1(s):
    return list(s.encode("latin-1")) if isinstance(s, str) else list(s)


def _lean_list(l):
    return "[" + ", ".join(str(x) for x in l) + "]"


def extract(repo):
    c = {}
    aux = _parse(repo, "pyFileFixity/lib/aux_funcs.py")
    gne = _func(aux, "get_next_entry")
    c["scanMarker"] = _latin1(_default(gne, "entrymarker"))
    c["scanBlocksize"] = _default(gne, "blocksize")

    for tool, rel in (("hecc", "pyFileFixity/header_ecc.py"), ("saecc", "pyFileFixity/structural_adaptive_ecc.py")):
        t = _parse(repo, rel)
        m = _func(t, "main")
        em = _assigned_consts(m, "entrymarker")
        fd = _assigned_consts(m, "field_delim")
        if len(em) != 1 or len(fd) != 1:
            raise ValueError("%s: entrymarker/field_delim not uniquely assigned" % rel)
        c[tool + "Marker"] = _latin1(em[0])
        c[tool + "Delim"] = _latin1(fd[0])
        # index record geometry: ecc_params_idx = compute_ecc_params(27, 1, hasher_intra)
        geo = None
        for n in ast.walk(m):
            if isinstance(n, ast.Assign) and isinstance(n.targets[0], ast.Name) and n.targets[0].id == "ecc_params_idx":
                call = n.value
                geo = (_const(call.args[0]), _const(call.args[1]))
        if geo is None:
            raise ValueError("%s: ecc_params_idx not found" % rel)
        c[tool + "IdxN"], c[tool + "IdxRate"] = geo
        # "ten consecutive uncorrectable errors" threshold: `if err_consecutive and i >= 10`
        thr = []
        for n in ast.walk(m):
            if isinstance(n, ast.BoolOp) and isinstance(n.op, ast.And) and len(n.values) == 2:
                a, b = n.values
                if isinstance(a, ast.Name) and a.id == "err_consecutive" and isinstance(b, ast.Compare) \
                        and isinstance(b.ops[0], ast.GtE):
                    thr.append(_const(b.comparators[0]))
        if len(set(thr)) != 1:
            raise ValueError("%s: consecutive-failure threshold not found" % rel)
        c[tool + "ConsecThreshold"] = thr[0]

    # hasher lengths
    h = _parse(repo, "pyFileFixity/lib/hasher.py")
    init = _func(h, "__init__", "Hasher")
    hl = []

    def walk_if(node):
        if not isinstance(node, ast.If):
            return
        names = []
        tests = node.test.values if isinstance(node.test, ast.BoolOp) else [node.test]
        for tst in tests:
            if isinstance(tst, ast.Compare) and isinstance(tst.ops[0], ast.Eq):
                try:
                    names.append(_const(tst.comparators[0]))
                except ValueError:
                    pass
        val = None
        for s in node.body:
            if isinstance(s, ast.Assign) and isinstance(s.targets[0], ast.Attribute) and s.targets[0].attr == "length":
                val = _const(s.value)
        if val is not None:
            for nm in names:
                hl.append((nm, val))
        for o in node.orelse:
            walk_if(o)

    for s in init.body:
        walk_if(s)
    if not hl:
        raise ValueError("hasher lengths not found")
    c["hashLen"] = hl

    # codec parameters per --ecc_algo
    e = _parse(repo, "pyFileFixity/lib/eccman.py")
    init = _func(e, "__init__", "ECCMan")
    codecs = []

    def walk_if2(node):
        if not isinstance(node, ast.If):
            return
        algos = []
        tests = node.test.values if isinstance(node.test, ast.BoolOp) else [node.test]
        for tst in tests:
            if isinstance(tst, ast.Compare) and isinstance(tst.left, ast.Name) and tst.left.id == "algo":
                algos.append(_const(tst.comparators[0]))
        vals = {}
        for s in node.body:
            if isinstance(s, ast.Assign) and isinstance(s.targets[0], ast.Attribute):
                try:
                    vals[s.targets[0].attr] = _const(s.value)
                except ValueError:
                    pass
        if algos and {"gen_nb", "prim", "fcr"} <= set(vals):
            for a in algos:
                codecs.append((a, vals["gen_nb"], vals["prim"], vals["fcr"]))
        for o in node.orelse:
            walk_if2(o)

    for s in init.body:
        walk_if2(s)
    if sorted(a for a, _, _, _ in codecs) != [1, 2, 3, 4]:
        raise ValueError("codec parameter table not found: %r" % (codecs,))
    c["codecs"] = sorted(codecs)

    rr = _parse(repo, "pyFileFixity/replication_repair.py")
    c["voteBlocksize"] = _default(_func(rr, "majority_vote_byte_scan"), "blocksize")
    rt = _parse(repo, "pyFileFixity/resiliency_tester.py")
    c["diffBlocksize"] = _default(_func(rt, "diff_bytes_files"), "blocksize")
    c["diffCountBlocksize"] = _default(_func(rt, "diff_count_files"), "blocksize")
    rf = _parse(repo, "pyFileFixity/rfigc.py")
    c["hashBlocksize"] = _default(_func(rf, "generate_hashes"), "blocksize")
    ft = _parse(repo, "pyFileFixity/filetamper.py")
    c["tamperBlocksizeDefault"] = _default(_func(ft, "tamper_file"), "blocksize")
    bs = _assigned_consts(_func(ft, "main"), "blocksize")
    if len(bs) != 1:
        raise ValueError("filetamper main blocksize")
    c["tamperBlocksizeCli"] = bs[0]
    return c


def gf_tables(prim, generator):
    """exp/log tables of GF(2^8) for the given primitive polynomial and generator, computed here by
    carry-less multiplication (the translator's own arithmetic, nothing imported from the tools);
    packed little-endian, one byte per entry, into two Nat literals"""
    def clmulmod(a, b):
        r = 0
        while b:
            if b & 1:
                r ^= a
            b >>= 1
            a <<= 1
            if a & 0x100:
                a ^= prim
        return r
    exp = [0] * 255
    log = [0] * 256
    x = 1
    for i in range(255):
        exp[i] = x
        log[x] = i
        x = clmulmod(x, generator)
    if x != 1 or len(set(exp)) != 255:
        raise ValueError("generator %d is not primitive modulo %#x" % (generator, prim))
    E = sum(v << (8 * i) for i, v in enumerate(exp))
    L = sum(v << (8 * i) for i, v in enumerate(log))
    return E, L


def render(c):
    L = []
    L.append("/- GENERATED by harness/translate.py from /repo sources on every run. Do not edit. -/")
    L.append("namespace Pff.Consts")
    for k in ("scanMarker", "heccMarker", "heccDelim", "saeccMarker", "saeccDelim"):
        L.append("def %s : List Nat := %s" % (k, _lean_list(c[k])))
    for k in ("scanBlocksize", "heccIdxN", "heccIdxRate", "saeccIdxN", "saeccIdxRate", "heccConsecThreshold",
              "saeccConsecThreshold", "voteBlocksize", "diffBlocksize", "diffCountBlocksize", "hashBlocksize",
              "tamperBlocksizeDefault", "tamperBlocksizeCli"):
        L.append("def %s : Nat := %d" % (k, c[k]))
    L.append("def hashLen : List (String × Nat) := [%s]" % ", ".join('("%s", %d)' % (n, v) for n, v in c["hashLen"]))
    L.append("/-- (ecc_algo, generator, primitive polynomial, first consecutive root) -/")
    L.append("def codecs : List (Nat × Nat × Nat × Nat) := [%s]"
             % ", ".join("(%d, %d, %d, %d)" % t for t in c["codecs"]))
    fields = sorted(set((prim, gen) for _a, gen, prim, _f in c["codecs"]))
    for prim, gen in fields:
        E, Lg = gf_tables(prim, gen)
        L.append("/-- packed exp / log tables of GF(2^8), primitive polynomial %#x, generator %d -/" % (prim, gen))
        L.append("def expTab_%x_%d : Nat := %d" % (prim, gen, E))
        L.append("def logTab_%x_%d : Nat := %d" % (prim, gen, Lg))
    L.append("/-- (primitive polynomial, generator) of the fields in use -/")
    L.append("def fields : List (Nat × Nat) := [%s]" % ", ".join("(%d, %d)" % f for f in fields))
    L.append("end Pff.Consts")
    return "\n".join(L) + "\n"


def translate(repo, out):
    txt = render(extract(repo))
    old = open(out).read() if os.path.exists(out) else None
    if old != txt:
        with open(out, "w") as f:
            f.write(txt)
    return txt


if __name__ == "__main__":
    import sys
    print(translate(sys.argv[1] if len(sys.argv) > 1 else "/repo",
                    os.path.join(os.path.dirname(os.path.dirname(os.path.abspath(__file__))), "lean", "Pff", "Consts.lean")))
