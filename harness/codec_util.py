"""helpers for the codec-level checks (C02, C11, C12): the real ECCMan facade, with the third-party
decoder entry points wrapped so that every call's arguments and result are recorded"""
import random

import common
common.memo_generator_polys()
from common import hx

_managers = {}


def eccman():
    from pyFileFixity.lib import eccman as m
    return m


def manager(algo, n, k):
    key = (algo, n, k)
    if key not in _managers:
        if len(_managers) > 400:
            _managers.clear()
        with common.quiet():
            _managers[key] = eccman().ECCMan(n, k, algo=algo)
    m = _managers[key]
    if algo in (3, 4):
        # reedsolo keeps its tables in module globals: re-initialise for the field of this codec
        with common.quiet():
            if algo == 3:
                eccman().reedsolo.init_tables(generator=m.gen_nb, prim=m.prim)
            else:
                eccman().reedsolo.init_tables(m.prim)
    return m


class Recorder:
    """records the calls ECCMan.decode makes into unireedsolomon / reedsolo"""

    def __init__(self):
        self.calls = []
        self._saved = []

    def __enter__(self):
        em = eccman()
        rec = self

        def wrap_method(cls, name):
            orig = getattr(cls, name)

            def w(self_, r, nostrip=False, k=None, erasures_pos=None, only_erasures=False, return_string=True):
                call = {"lib": "unireedsolomon." + name, "word": bytes(bytearray(r)), "nsym": self_.n - (k or self_.k),
                        "erase": None if erasures_pos is None else list(erasures_pos), "only": bool(only_erasures)}
                rec.calls.append(call)
                try:
                    res = orig(self_, r, nostrip=nostrip, k=k, erasures_pos=erasures_pos, only_erasures=only_erasures, return_string=return_string)
                except Exception as e:
                    call["result"] = "err:%s" % type(e).__name__
                    call["exc"] = e
                    raise
                a, b = res
                call["result"] = "ok:%s:%s" % (hx(a.encode("latin-1") if isinstance(a, str) else bytes(bytearray(a))),
                                               hx(b.encode("latin-1") if isinstance(b, str) else bytes(bytearray(b))))
                return res
            self._saved.append((cls, name, orig))
            setattr(cls, name, w)

        def wrap_func(mod, name):
            orig = getattr(mod, name)

            def w(msg_in, nsym, fcr=0, generator=2, erase_pos=None, only_erasures=False):
                call = {"lib": "reedsolo." + name, "word": bytes(bytearray(msg_in)), "nsym": nsym,
                        "erase": None if erase_pos is None else list(erase_pos), "only": bool(only_erasures)}
                rec.calls.append(call)
                try:
                    res = orig(msg_in, nsym, fcr=fcr, generator=generator, erase_pos=erase_pos, only_erasures=only_erasures)
                except Exception as e:
                    call["result"] = "err:%s" % type(e).__name__
                    call["exc"] = e
                    raise
                call["result"] = "ok:%s:%s" % (hx(bytes(bytearray(res[0]))), hx(bytes(bytearray(res[1]))))
                return res
            self._saved.append((mod, name, orig))
            setattr(mod, name, w)

        wrap_method(em.brownanrs.RSCoder, "decode")
        wrap_method(em.brownanrs.RSCoder, "decode_fast")
        wrap_func(em.reedsolo, "rs_correct_msg")
        wrap_func(em.reedsolo, "rs_correct_msg_nofsynd")
        return self

    def __exit__(self, *a):
        for obj, name, orig in reversed(self._saved):
            setattr(obj, name, orig)
        return False


def gen_geometry(rng, big=False):
    if big:
        n = rng.choice([255, 255, 254, 200, 128])
    else:
        n = rng.choice([2, 3, 4, 5, 7, 10, 12, 16, 20, 27, 31])
    k = rng.choice([1, n - 1, rng.randint(1, n - 1), rng.randint(1, n - 1)])
    return n, k


def gen_message(rng, k):
    ml = rng.choice([1, k, k, rng.randint(1, k)])
    kind = rng.choice(["random", "random", "zeros", "sparse", "ff"])
    if kind == "zeros":
        return bytes(ml)
    if kind == "sparse":
        return bytes(rng.choice([0, 0, 0, rng.randrange(256)]) for _ in range(ml))
    if kind == "ff":
        return bytes([0xFF]) * ml
    return bytes(rng.randrange(256) for _ in range(ml))


def corrupt(rng, word, positions, avoid=None):
    """change the given positions to other values (never equal to `avoid` when given)"""
    w = bytearray(word)
    for p in positions:
        v = w[p]
        while True:
            nv = rng.randrange(256)
            if nv != v and (avoid is None or nv != avoid):
                break
        w[p] = nv
    return w


def replay_f19(f=None):
    """witnesses of known finding F19 (unireedsolomon raising within capacity); returns a text when at least one still fails"""
    res = []
    # (a) errors and erasures, ECCMan(10,7,algo=2)
    man = manager(2, 10, 7)
    msg = bytes.fromhex("96c0cb72e5d90a")
    with common.quiet():
        par = bytes(man.encode(msg))
    rx = bytearray(msg + par)
    rx[2], rx[3] = 52, 0
    try:
        with common.quiet():
            r = man.decode(bytes(rx[:7]), bytes(rx[7:]), enable_erasures=True, erasures_char=0)
        if (bytes(r[0]), bytes(r[1])) != (msg, par):
            res.append("erasure witness: wrong result")
    except Exception as e:
        res.append("erasure witness raises %s" % type(e).__name__)
    # (b) errors only, decode_fast, code (27,9)
    man = manager(2, 27, 9)
    rx = bytes.fromhex("32003b210000009cf2874b8a66d5fc83b298bed308edda7eab784b")
    msg = bytes.fromhex("320000000000000df2")
    try:
        with common.quiet():
            r = man.decode(rx[:9], rx[9:])
        if bytes(r[0]) != msg:
            res.append("errors-only witness: wrong result")
    except Exception as e:
        res.append("errors-only witness raises %s" % type(e).__name__)
    return "; ".join(res) if res else None
