"""./check Cnn [--tier quick|thorough] [--replay FILE]   (DESIGN.md §1 verdict logic, §8 reporting)"""
import argparse
import importlib
import json
import os
import sys
import time
import traceback

HERE = os.path.dirname(os.path.abspath(__file__))
sys.path.insert(0, HERE)
import common  # noqa: E402
from common import Infra, LeanSide, Outcome, say  # noqa: E402


import faulthandler
import signal
faulthandler.register(signal.SIGUSR1, all_threads=True)


def main():
    ap = argparse.ArgumentParser()
    ap.add_argument("prop")
    ap.add_argument("--tier", default=os.environ.get("VERIF_TIER", "quick"), choices=["quick", "thorough"])
    ap.add_argument("--replay", default=None)
    args = ap.parse_args()
    pid = args.prop
    seed = common.seed_from_env()
    tier = args.tier
    t0 = time.time()
    os.chdir(common.scratch())  # tools write report files into the cwd: keep that out of /verif and /repo
    sys.path.insert(0, common.REPO)
    mod = importlib.import_module("props." + pid)

    if args.replay:
        rc = mod.replay(json.load(open(args.replay)))
        sys.exit(rc)

    # ---- step 1: Lean side
    lean = LeanSide(pid, mod.LEAN_MODULES + ["Pff.Driver", "pffdriver"], mod.PROP_MODULE, mod.THEOREMS)
    try:
        lean.run()
    except Infra as e:
        say("INFRA: %s" % e)
        sys.exit(2)
    if tier == "thorough" and lean.build_ok:
        extra = common.leanchecker(mod.LEAN_MODULES)
        if extra:
            lean.problems.append(("leanchecker", extra))

    # ---- fingerprints of the modelled Python functions (a change escalates sampling, never an alarm)
    changed, _cur = common.fingerprints_changed(getattr(mod, "MODELLED", []))
    escalate = bool(changed)

    # ---- step 2: correspondence X + oracle S on the implementation
    oc = Outcome()
    if changed:
        oc.notes.append("AST fingerprint changed for: %s (sampling escalated)" % ", ".join(changed))
    cov = common.LineCov()
    cov.start()
    # watchdog: a tool call that never returns (a loop that lost its exit) is a failure of the code under test, not of the harness.
    # The budget is several times the normal duration of the tier; when it expires the innermost frame of /repo is reported.
    import signal
    budget = int(os.environ.get("PFF_RUN_BUDGET_S", "900" if tier == "quick" else "21600"))

    def on_alarm(signum, frame):
        where, f = [], frame
        repo_root = os.path.realpath(common.REPO)
        inner = None
        while f is not None:
            fn = os.path.realpath(f.f_code.co_filename)
            if fn.startswith(repo_root) and inner is None:
                inner = f
            where.append("%s:%d %s" % (os.path.relpath(fn, repo_root) if fn.startswith(repo_root) else os.path.basename(fn), f.f_lineno, f.f_code.co_name))
            f = f.f_back
        loc = {}
        if inner is not None:
            for k, v in list(inner.f_locals.items())[:25]:
                try:
                    loc[k] = repr(v)[:200]
                except Exception:
                    loc[k] = "<unprintable>"
        # (a harness site may swallow the exception and go on to the next call: fire again soon, and remember the first report)
        try:
            signal.alarm(10)
        except (ValueError, AttributeError):
            pass
        hang_payload = {
            "input": {"seed": seed, "tier": tier, "stack_innermost_first": where[:12], "locals_of_innermost_repo_frame": loc},
            "what": "the run did not finish within %d s (normal duration: a small fraction of that): a call into the code under test "
                    "does not terminate%s" % (budget, "" if inner is not None else " (no /repo frame on the stack: possibly the harness or the model driver)")}
        hangs.append(hang_payload)
        if len(hangs) >= 3:
            # the harness went on and calls keep hanging: give the verdict now
            v = dict(hangs[0])
            v.update({"property": pid, "tier": tier, "seed": seed, "kind": "concrete-failing-input (non-termination)"})
            rp = common.write_replay(pid, seed, 0, v)
            try:
                common.write_evidence(pid, tier, seed, lean, oc, time.time() - t0, mod.TRUSTED_BASE, mod.ASSUMPTIONS, mod.RULE, 1,
                                      "cd lean && lake build %s" % " ".join(mod.LEAN_MODULES))
            except Exception:
                pass
            say("%s tier=%s seed=%d: a call into the code under test does not terminate (watchdog fired %d times)" % (pid, tier, seed, len(hangs)))
            say("VIOLATION property=%s replay=%s" % (pid, rp))
            sys.stdout.flush()
            os._exit(1)
        raise common.PropertyFailure(hang_payload)
    hangs = []
    try:
        signal.signal(signal.SIGALRM, on_alarm)
        signal.alarm(budget)
    except (ValueError, AttributeError):
        pass
    try:
        try:
            mod.run(oc, tier=tier, seed=seed,
                    model_available=lean.build_ok, escalate=escalate)
        finally:
            try:
                signal.alarm(0)
            except (ValueError, AttributeError):
                pass
    except Infra as e:
        say("INFRA: %s" % e)
        sys.exit(2)
    except common.PropertyFailure as e:
        oc.violations.append(e.payload)
    except OSError as e:
        import errno
        if e.errno in (errno.ENOSPC, errno.EMFILE, errno.ENFILE, errno.ENOMEM, errno.EDQUOT):
            say("INFRA: %s" % e)
            sys.exit(2)
        harness_exc = traceback.format_exc()
    except Exception:
        harness_exc = traceback.format_exc()
    else:
        harness_exc = None
    if harness_exc:
        # The scenario code stopped on something the tools returned or left behind (a missing output file, a value of another shape): on
        # the unchanged tree this never happens (soaked over many seeds), so it is treated like a broken correspondence - the module's
        # search looks for a concrete failing input; without one the verdict names this traceback (no-failing-input-found).
        say("the scenario code raised on what the tools returned (treated as a broken correspondence):")
        say(harness_exc[-1500:])
        oc.x_disagreements.append({"harness_exception": harness_exc[-3000:]})
    if hangs and hangs[0] not in oc.violations:
        oc.violations.insert(0, hangs[0])

    cov.stop()
    try:
        rep = cov.report(getattr(mod, "MODELLED", []))
        if rep:
            oc.extra["line_coverage_of_modelled_code"] = rep
    except Exception:
        oc.notes.append("line coverage report failed: %s" % traceback.format_exc(limit=1))

    # ---- step 3/4: verdict
    known = common.load_known()
    known_ids = {f["id"] for f in known.get("findings", []) if f.get("property") == pid}
    new_violations = []
    known_seen = {}
    for v in oc.violations:
        fid = v.get("finding")
        if fid and fid in known_ids:
            known_seen.setdefault(fid, v)
        else:
            new_violations.append(v)
    # replay the witness of every listed finding of this property
    for f in known.get("findings", []):
        if f.get("property") != pid:
            continue
        still = None
        if hasattr(mod, "replay_finding"):
            try:
                still = mod.replay_finding(f)
            except Exception:
                still = "witness replay raised: %s" % traceback.format_exc(limit=2)
        if still or f["id"] in known_seen:
            say("KNOWN-FINDING: property=%s %s: %s" % (pid, f["id"], f["what"]))
            oc.known_hits.append((f["id"], f["what"]))
        else:
            oc.notes.append("listed finding %s no longer reproduces on its witness" % f["id"])

    exit_code = 0
    n_viol = 0
    lines = []
    if new_violations:
        for i, v in enumerate(new_violations[:3]):
            if hasattr(mod, "shrink"):
                try:
                    v = mod.shrink(v) or v
                except Exception:
                    pass
            v = dict(v)
            v.update({"property": pid, "tier": tier, "seed": seed, "kind": "concrete-failing-input"})
            p = common.write_replay(pid, seed, i, v)
            lines.append("VIOLATION property=%s replay=%s" % (pid, p))
        n_viol = len(new_violations)
        exit_code = 1
    elif lean.problems or oc.x_disagreements:
        # a proof obligation or the correspondence no longer checks: search the implementation
        found = None
        if hasattr(mod, "search"):
            try:
                found = mod.search(seed=seed, tier=tier, hints=oc.x_disagreements)
            except Infra as e:
                say("INFRA: %s" % e)
                sys.exit(2)
            except common.PropertyFailure as e:
                found = e.payload
            except Exception:
                oc.notes.append("the failing-input search raised as well: %s" % traceback.format_exc()[-800:])
                found = None
        if found and not (found.get("finding") in known_ids):
            v = dict(found)
            v.update({"property": pid, "tier": tier, "seed": seed, "kind": "concrete-failing-input",
                      "triggered_by": [list(p) for p in lean.problems] + oc.x_disagreements[:3]})
            p = common.write_replay(pid, seed, 0, v)
            lines.append("VIOLATION property=%s replay=%s" % (pid, p))
        else:
            v = {"property": pid, "tier": tier, "seed": seed, "kind": "no-failing-input-found",
                 "lean_problems": [list(p) for p in lean.problems],
                 "correspondence_disagreements": oc.x_disagreements[:5],
                 "explanation": "a proof obligation or the model/implementation correspondence no longer checks; "
                                "the search on the implementation found no input on which the property fails"}
            p = common.write_replay(pid, seed, 0, v)
            lines.append("VIOLATION property=%s replay=%s no-failing-input-found" % (pid, p))
        n_viol = 1
        exit_code = 1

    wall = time.time() - t0
    try:
        common.write_evidence(pid, tier, seed, lean, oc, wall, mod.TRUSTED_BASE, mod.ASSUMPTIONS, mod.RULE, n_viol,
                              "cd lean && lake build %s && lake env lean <audit: #print axioms / #check of %d theorems>"
                              % (" ".join(mod.LEAN_MODULES), len(mod.THEOREMS)))
    except Exception:
        traceback.print_exc()
        sys.exit(2)
    say("%s tier=%s seed=%d: theorems %d/%d, X cases %d (disagreements %d), oracle cases %d, violations %d, %.1fs"
          % (pid, tier, seed, lean.discharged, len(lean.theorems), oc.x_cases, len(oc.x_disagreements),
             oc.oracle_cases, n_viol, wall))
    for k, t in lean.problems:
        say("  lean problem [%s]: %s" % (k, t[:600]))
    for d in oc.x_disagreements[:3]:
        say("  correspondence disagreement: %s" % json.dumps(d, default=str)[:600])
    for l in lines:
        say(l)
    if exit_code == 0:
        say("OK property=%s" % pid)
    sys.exit(exit_code)


if __name__ == "__main__":
    main()
