"""(Re)generate lean/statements.lock.json: the pretty-printed statements of all property theorems.
Run by hand after reviewing a statement change:  /venv/bin/python harness/lock.py C06 C20 ...
(no argument = every property module). Never run by a check."""
import importlib
import json
import os
import sys

HERE = os.path.dirname(os.path.abspath(__file__))
sys.path.insert(0, HERE)
import common  # noqa

props = sys.argv[1:] or sorted(f[:-3] for f in os.listdir(os.path.join(HERE, "props")) if f.startswith("C") and f.endswith(".py"))
lock = common.load_lock()
for pid in props:
    mod = importlib.import_module("props." + pid)
    ok, log, _ = common.lake_build(mod.LEAN_MODULES)
    if not ok:
        print(log[-2000:])
        sys.exit("build failed for %s" % pid)
    res, out, rc = common.lean_audit([mod.PROP_MODULE] + [m for m in mod.LEAN_MODULES if m.startswith("Pff.Props.")], mod.THEOREMS)
    for t in mod.THEOREMS:
        if t not in res or "statement" not in res[t]:
            print(out[-2000:])
            sys.exit("theorem %s missing" % t)
        lock[t] = res[t]["statement"]
        print(t, "axioms:", res[t].get("axioms"))
fps = {}
fp_path = os.path.join(HERE, "fingerprints.json")
if os.path.exists(fp_path):
    fps = json.load(open(fp_path))
for pid in props:
    mod = importlib.import_module("props." + pid)
    _changed, cur = common.fingerprints_changed(getattr(mod, "MODELLED", []))
    for k, v in cur.items():
        if v is None:
            sys.exit("modelled function %s not found" % k)
    fps.update(cur)
json.dump(fps, open(fp_path, "w"), indent=1, sort_keys=True)
json.dump(lock, open(os.path.join(common.LEAN, "statements.lock.json"), "w"), indent=1, sort_keys=True)
print("wrote %d statements" % len(lock))
