"""Mutation trials of the checks (a tool for the maintainer of /verif, not part of any registered check).

For one property: generates small syntactic mutants of the /repo functions that the property's model stands for (MODELLED in
props/Cnn.py) - comparison operators, +-1 on integer constants and slice bounds, and/or, dropped `not`, swapped branches of a
conditional expression - writes each into a private scratch worktree of /repo (never into /repo itself), runs the property's quick
check against it (PFF_REPO=<worktree>, evidence and replay redirected to a scratch folder) and records whether the check raised an
alarm. Surviving mutants are either equivalent or a blind spot of the generators: they are listed for inspection.

usage: /venv/bin/python harness/mutate.py Cnn [--max N] [--jobs J] [--seed S] [--out FILE] [--funcs substring,...]
"""
import argparse
import ast
import copy
import importlib
import json
import os
import random
import shutil
import subprocess
import sys
import tempfile
from concurrent.futures import ThreadPoolExecutor

HERE = os.path.dirname(os.path.abspath(__file__))
sys.path.insert(0, HERE)
VERIF = os.path.dirname(HERE)

CMP = {ast.Lt: ast.LtE, ast.LtE: ast.Lt, ast.Gt: ast.GtE, ast.GtE: ast.Gt, ast.Eq: ast.NotEq, ast.NotEq: ast.Eq}


def find_func(tree, qual):
    parts = qual.split(".")
    body = tree.body
    node = None
    for p in parts:
        node = next((n for n in body if isinstance(n, (ast.FunctionDef, ast.ClassDef)) and n.name == p), None)
        if node is None:
            return None
        body = node.body
    return node


def sites(fn):
    """mutation sites inside one function: (kind, node-index-in-walk, detail)"""
    out = []
    for i, n in enumerate(ast.walk(fn)):
        if isinstance(n, ast.Compare) and len(n.ops) == 1 and type(n.ops[0]) in CMP:
            out.append(("cmp", i, None))
        elif isinstance(n, ast.BoolOp):
            out.append(("boolop", i, None))
        elif isinstance(n, ast.UnaryOp) and isinstance(n.op, ast.Not):
            out.append(("not", i, None))
        elif isinstance(n, ast.Constant) and isinstance(n.value, int) and not isinstance(n.value, bool) and 0 <= n.value <= 70000:
            out.append(("const+1", i, None))
            if n.value > 0:
                out.append(("const-1", i, None))
        elif isinstance(n, ast.BinOp) and isinstance(n.op, (ast.Add, ast.Sub)):
            out.append(("addsub", i, None))
        elif isinstance(n, ast.IfExp):
            out.append(("ifexp", i, None))
        elif isinstance(n, ast.If) and n.orelse and not (len(n.orelse) == 1 and isinstance(n.orelse[0], ast.If)):
            out.append(("ifneg", i, None))
        elif isinstance(n, (ast.Break, ast.Continue)):
            out.append(("brkcont", i, None))
    return out


def apply(fn, site):
    kind, idx, _ = site
    for i, n in enumerate(ast.walk(fn)):
        if i != idx:
            continue
        if kind == "cmp":
            n.ops = [CMP[type(n.ops[0])]()]
        elif kind == "boolop":
            n.op = ast.Or() if isinstance(n.op, ast.And) else ast.And()
        elif kind == "not":
            n.op = ast.UAdd() if False else n.op
            # drop the negation: replace `not x` by `bool(x)`-equivalent `not not x`
            n.operand = ast.UnaryOp(op=ast.Not(), operand=n.operand)
        elif kind == "const+1":
            n.value = n.value + 1
        elif kind == "const-1":
            n.value = n.value - 1
        elif kind == "addsub":
            n.op = ast.Sub() if isinstance(n.op, ast.Add) else ast.Add()
        elif kind == "ifexp":
            n.body, n.orelse = n.orelse, n.body
        elif kind == "ifneg":
            n.test = ast.UnaryOp(op=ast.Not(), operand=n.test)
        elif kind == "brkcont":
            return ast.Pass
        return None
    return None


NOT_EXECUTED = {}


def load_not_executed(pid):
    """lines of the modelled functions that the last clean run of the check did not execute (from its evidence file)"""
    try:
        ev = json.load(open(os.path.join(VERIF, "evidence", pid + ".json")))
        for k, v in ev["coverage"]["line_coverage_of_modelled_code"]["functions"].items():
            NOT_EXECUTED[k] = set(v.get("not_executed", []))
    except (OSError, KeyError, ValueError):
        pass


def mutants(repo, modelled, rng, limit, only=None):
    res = []
    for rel, qual in sorted(set(modelled)):
        if only and not any(o in qual or o in rel for o in only):
            continue
        path = os.path.join(repo, rel)
        src = open(path, encoding="utf-8", errors="replace").read()
        tree = ast.parse(src)
        fn = find_func(tree, qual)
        if fn is None:
            continue
        skip = NOT_EXECUTED.get("%s:%s" % (rel, qual), set())
        nodes = list(ast.walk(fn))
        for site in sites(fn):
            ln = getattr(nodes[site[1]], "lineno", None)
            if ln in skip:
                continue            # the clean check never executes this line: a mutant there says nothing about the generators
            res.append((rel, qual, site))
    rng.shuffle(res)
    return res[:limit]


def build(repo, rel, qual, site):
    """returns (new source text, description) or None"""
    path = os.path.join(repo, rel)
    src = open(path, encoding="utf-8", errors="replace").read()
    tree = ast.parse(src)
    fn = find_func(tree, qual)
    before = ast.unparse(fn)
    kind, idx, _ = site
    target = None
    for i, n in enumerate(ast.walk(fn)):
        if i == idx:
            target = n
    if target is None:
        return None
    lineno = getattr(target, "lineno", fn.lineno)
    old_txt = ast.unparse(target) if not isinstance(target, (ast.Break, ast.Continue)) else type(target).__name__.lower()
    if kind == "brkcont":
        # replace break/continue by pass
        class T(ast.NodeTransformer):
            def __init__(self):
                self.k = -1

            def generic_visit(self, node):
                return super().generic_visit(node)
        for parent in ast.walk(fn):
            for field, val in ast.iter_fields(parent):
                if isinstance(val, list) and target in val:
                    val[val.index(target)] = ast.copy_location(ast.Pass(), target)
        new_txt = "pass"
    else:
        apply(fn, site)
        new_txt = ast.unparse(target)
    ast.fix_missing_locations(tree)
    after = ast.unparse(fn)
    if after == before:
        return None
    # splice the mutated function text over the original lines (keeps the rest of the file byte-identical)
    lines = src.split("\n")
    start = (fn.decorator_list[0].lineno if fn.decorator_list else fn.lineno) - 1
    end = fn.end_lineno
    indent = len(lines[fn.lineno - 1]) - len(lines[fn.lineno - 1].lstrip())
    body = "\n".join((" " * indent + l if l else l) for l in after.split("\n"))
    new_src = "\n".join(lines[:start] + [body] + lines[end:])
    try:
        compile(new_src, path, "exec")
    except SyntaxError:
        return None
    return new_src, "%s:%s line %d [%s] %s  ->  %s" % (rel, qual, lineno, kind, old_txt[:80], new_txt[:80])


def run_one(pid, wt, rel, new_src, tier, seed, timeout=240):
    path = os.path.join(wt, rel)
    orig = open(path, encoding="utf-8", errors="replace").read()
    out = tempfile.mkdtemp(prefix="pffmut.")
    try:
        with open(path, "w", encoding="utf-8") as f:
            f.write(new_src)
        env = dict(os.environ, PFF_REPO=wt, PFF_EVIDENCE_DIR=os.path.join(out, "ev"), PFF_REPLAY_DIR=os.path.join(out, "rp"), VERIF_SEED=str(seed),
                   PFF_LEAN_DIR=wt + ".lean")
        try:
            r = subprocess.run([os.path.join(VERIF, "check"), pid, "--tier", tier], env=env, capture_output=True, text=True, timeout=timeout)
            rc, txt = r.returncode, r.stdout + r.stderr
        except subprocess.TimeoutExpired:
            rc, txt = 124, "timeout"
        nf = "no-failing-input-found" in txt
        return rc, nf, [l for l in txt.splitlines() if "tier=" in l][:1]
    finally:
        with open(path, "w", encoding="utf-8") as f:
            f.write(orig)
        shutil.rmtree(out, ignore_errors=True)


def main():
    ap = argparse.ArgumentParser()
    ap.add_argument("prop")
    ap.add_argument("--max", type=int, default=40)
    ap.add_argument("--jobs", type=int, default=6)
    ap.add_argument("--seed", type=int, default=0)
    ap.add_argument("--tier", default="quick")
    ap.add_argument("--out", default=None)
    ap.add_argument("--funcs", default=None)
    ap.add_argument("--timeout", type=int, default=240)
    a = ap.parse_args()
    mod = importlib.import_module("props." + a.prop)
    rng = random.Random(a.seed * 1000003 + int(a.prop[1:]))
    repo = "/repo"
    load_not_executed(a.prop)
    ms = mutants(repo, getattr(mod, "MODELLED", []), rng, a.max, a.funcs.split(",") if a.funcs else None)
    wts = []
    for j in range(a.jobs):
        wt = tempfile.mkdtemp(prefix="pffmutwt.")
        os.rmdir(wt)
        subprocess.run(["git", "-C", repo, "worktree", "add", "-q", "--detach", wt, "HEAD"], check=True)
        shutil.copytree(os.path.join(VERIF, "lean"), wt + ".lean", symlinks=True)     # private Lean project: the translator rewrites Consts.lean
        wts.append(wt)
    results = []
    try:
        import queue
        q = queue.Queue()
        for w in wts:
            q.put(w)

        def job(m):
            rel, qual, site = m
            b = build(repo, rel, qual, site)
            if b is None:
                return None
            new_src, desc = b
            wt = q.get()
            try:
                rc, nf, summ = run_one(a.prop, wt, rel, new_src, a.tier, a.seed, a.timeout)
            finally:
                q.put(wt)
            verdict = {0: "SURVIVED", 1: "caught (no failing input)" if nf else "caught", 2: "harness-broke", 124: "timeout"}.get(rc, "rc=%d" % rc)
            print("%-26s %s" % (verdict, desc), flush=True)
            return {"mutant": desc, "verdict": verdict, "summary": summ, "_m": m}
        with ThreadPoolExecutor(max_workers=a.jobs) as ex:
            for r in ex.map(job, ms):
                if r:
                    results.append(r)
        # verdicts other than a plain alarm with a failing input / a plain survival can be artefacts of running in parallel (the translator
        # rewrites the shared lean/Pff/Consts.lean from whichever worktree ran last): repeat those one at a time
        redo = [(i, r) for i, r in enumerate(results) if r["verdict"] not in ("caught", "SURVIVED", "timeout")]
        for i, r in redo:
            m = r["_m"]
            b = build(repo, *m)
            rc, nf, summ = run_one(a.prop, wts[0], m[0], b[0], a.tier, a.seed, a.timeout)
            verdict = {0: "SURVIVED", 1: "caught (no failing input)" if nf else "caught", 2: "harness-broke", 124: "timeout"}.get(rc, "rc=%d" % rc)
            print("repeated alone: %-26s %s" % (verdict, r["mutant"]), flush=True)
            r["verdict"], r["summary"] = verdict, summ
    finally:
        for w in wts:
            subprocess.run(["git", "-C", repo, "worktree", "remove", "--force", w])
            shutil.rmtree(w + ".lean", ignore_errors=True)
        for r in results:
            r.pop("_m", None)
    tot = len(results)
    print("mutants %d: caught %d, caught without failing input %d, survived %d, harness broke %d" % (
        tot, sum(r["verdict"] == "caught" for r in results), sum(r["verdict"].startswith("caught (") for r in results),
        sum(r["verdict"] == "SURVIVED" for r in results), sum(r["verdict"] in ("harness-broke", "timeout") for r in results)))
    if a.out:
        json.dump(results, open(a.out, "w"), indent=1)


if __name__ == "__main__":
    main()
