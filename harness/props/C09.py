"""C09 — entry metadata (path, size) is itself ECC-protected and round-trips exactly (both ecc tools)."""
import io
import os
import random
import shutil

import codec_util as cu
import common
import ecc_file_x as fx
import ecc_scen as es
import ecc_util as eu
from common import hx

LEAN_MODULES = ["Pff.Props.C09", "Pff.Props.Bridge", "Pff.Props.Chain", "Pff.Props.NonVacuity"]
PROP_MODULE = "Pff.Props.C09"
THEOREMS = ["Pff.Entry.C09_fields_roundtrip", "Pff.Entry.C09_size_roundtrip", "Pff.Entry.C09_size_digits", "Pff.Entry.C09_intra_roundtrip",
            "Pff.Entry.C09_intra_repair_header", "Pff.Entry.C09_intra_repair_whole",
            "Pff.Bridge.C09_intra_block_premise_A",
            "Pff.Bridge.C09_intra_block_premise_B",
            "Pff.Chain.C09_run_metadata_within_capacity",
            "Pff.NonVacuity.pristine_metaWithinCapacity"]
MODELLED = [("pyFileFixity/header_ecc.py", "entry_fields"), ("pyFileFixity/header_ecc.py", "ecc_correct_intra"),
            ("pyFileFixity/structural_adaptive_ecc.py", "entry_fields"), ("pyFileFixity/structural_adaptive_ecc.py", "ecc_correct_intra_stream"),
            ("pyFileFixity/structural_adaptive_ecc.py", "compute_ecc_hash_from_string")]
TRUSTED_BASE = [
    "Lean 4.33.0 kernel; axioms per theorem under coverage.theorems (subset of propext, Classical.choice, Quot.sound)",
    "hand-written model lean/Pff/Model/Entry.lean (entry format, Python find/slice conventions, lenient int(), intra-ecc of both tools) over an "
    "arbitrary codec record; tied to /repo by comparing field splitting on pristine and damaged entries, size text, intra-ecc generation and "
    "intra correction (recorded check/decode calls replayed) with the real functions",
    "the per-block premises (a parity just produced checks; <= floor(parity/2) wrong symbols decode to the original) are C11_accepts and "
    "C02_decode_exact_errors under contract W for the real facade; that instantiation is exercised end to end on the real tools each run",
    "names ending with a proper prefix of the delimiter, or spelling a delimiter, make the first `find` land early: excluded by the `Clean` "
    "hypothesis (the format's documented limit; known finding F15); names outside latin-1 abort generation (known finding F14)",
]
ASSUMPTIONS = ["damage does not itself spell an additional field delimiter or entry marker (as the property states)"]
RULE = ("function level: path lengths {1,k-1,k,k+1,2k,2k+1,255+}, sizes {0,9,10,10^n-1,10^n,10^12}, intra rates 0.1..1.5 (parity shorter than / "
        "equal to / longer than the message part), max_block_size 2..255, codecs 1-4, names starting/ending with bytes of the delimiter; "
        "field splitting also on damaged/garbage entries (model comparison); end to end: wrong symbols within the intra bound in path, size "
        "and their parity (digits and non-digits), both tools; non-trivial = field spanning >= 2 intra blocks or damaged; distinct = request")


def tool_funcs(tool):
    m = eu.tool(tool)
    return m


def intra_setup(tool, algo, mbs, ri):
    """the intra objects exactly as main() builds them"""
    from pyFileFixity.lib.hasher import Hasher
    from pyFileFixity.lib.eccman import ECCMan, compute_ecc_params
    import sys as _sys
    # use the classes the tool module itself uses (module `lib.*`)
    m = eu.tool(tool)
    hasher_intra = m.Hasher("none")
    params = m.compute_ecc_params(mbs, ri, hasher_intra)
    with common.quiet():
        man = m.ECCMan(mbs, params["message_size"], algo=algo)
    return m, hasher_intra, params, man


def gen_intra(tool, m, hasher_intra, params, man, mbs, ri, field):
    if tool == "header":
        return b"".join(m.compute_ecc_hash(man, hasher_intra, field, mbs, ri, params["message_size"], True))
    return m.compute_ecc_hash_from_string(field, man, hasher_intra, mbs, ri)


def correct_intra(tool, m, hasher_intra, params, man, mbs, ri, field, ecc):
    with common.quiet():
        if tool == "header":
            r = m.ecc_correct_intra(man, params, field, ecc, [0, 0])
        else:
            r = m.ecc_correct_intra_stream(man, params, hasher_intra, ri, field, ecc, [0, 0], max_block_size=mbs)
    return bytes(r[0]), bool(r[1]), bool(r[2])


def run(oc, tier, seed, model_available, escalate):
    rng = random.Random(seed * 999331 + 9)
    lines, impl = [], []

    def add(l, r):
        lines.append(l)
        impl.append(r)

    # ---- 1. size text and lenient int()
    for n in [0, 9, 10, 99, 100, 999, 1000, 65535, 65536, 10**6 - 1, 10**6, 10**9, 10**12 - 1, 10**12] + [rng.randrange(10**13) for _ in range(20)]:
        add("digits %d" % n, hx(str(n).encode()))
        add("pyint %s" % hx(str(n).encode()), str(int(str(n).encode())))
    for _ in range(150 if tier == "quick" else 2000):
        b = bytes(rng.choice(b"0123456789 _-+x\n\t\x00\xff") for _ in range(rng.randint(0, 7)))
        try:
            r = str(int(b))
        except ValueError:
            r = "ValueError"
        if b:
            add("pyint %s" % hx(b), r)
    oc.count("size text / int() cases", len(lines))
    # ---- 2. function level: intra generation, round trip, repair within capacity, field splitting
    nf = 60 if tier == "quick" else 900
    if escalate:
        nf *= 2
    for it in range(nf):
        tool = rng.choice(["header", "whole"])
        algo = rng.choice([1, 2, 3, 3, 4, 4])
        for _ in range(50):
            mbs = rng.choice([255, 128, 50, 27, 10, 5, 3, 2])
            ri = rng.choice([0.1, 0.25, 0.3, 0.5, 0.5, 1.0, 1.5])
            k = int(round(float(mbs) / (1 + 2 * ri), 0))
            if 1 <= k < mbs:
                break
        if algo in (1, 2) and mbs > 60:
            algo = 3
        m, hasher_intra, params, man = intra_setup(tool, algo, mbs, ri)
        kind = rng.choice(["path", "path", "size"])
        if kind == "size":
            n = rng.choice([0, 9, 10, 10**5, 10**12, rng.randrange(10**12)])
            field = str(n).encode()
        else:
            ln = rng.choice([1, max(1, k - 1), k, k + 1, 2 * k, 2 * k + 1, 256, rng.randint(1, 3 * k + 2)])
            ln = min(ln, 300)
            body = bytes(rng.choice(b"abc/ ._\xe9\xfe") for _ in range(ln))
            field = (rng.choice([b"", b"\xfa", b"\xff", b"\xfa\xff"]) + body)[:max(1, ln)]
            if rng.random() < 0.2:
                field = field[:-1] + rng.choice([b"\xfe", b"\xff"]) if len(field) > 1 else field
        with fx.OpsRecorder(mbs) as rec:
            with common.quiet():
                ecc = gen_intra(tool, m, hasher_intra, params, man, mbs, ri, field)
        add("intraenc %d %s %s" % (k, hx(field), rec.enc_table()), hx(ecc))
        oc.oracle_cases += 1
        # round trip
        with fx.OpsRecorder(mbs) as rec:
            got = correct_intra(tool, m, hasher_intra, params, man, mbs, ri, field, ecc)
        t = rec.tables().split(" ; ")
        add("intra %s %d %d %s %s %s ; %s" % (tool[0], k, mbs, hx(field), hx(ecc), t[1], t[2]), "%s %d %d" % (hx(got[0]), got[1], got[2]))
        if got != (field, False, True):
            oc.violations.append({"input": {"tool": tool, "algo": algo, "mbs": mbs, "ri": ri, "field": field.hex()},
                                  "impl": {"field": got[0].hex(), "corrupted": got[1], "corrected": got[2]},
                                  "what": "an undamaged %s field does not decode to itself" % kind})
        # repair within the intra capacity
        f2, e2 = bytearray(field), bytearray(ecc)
        pl = mbs - k
        nb = (len(field) + k - 1) // k
        for bi in range(nb):
            cand = [("f", i) for i in range(bi * k, min(len(field), (bi + 1) * k))] + [("e", i) for i in range(bi * pl, min(len(ecc), (bi + 1) * pl))]
            for (w, i) in rng.sample(cand, min(rng.choice([0, pl // 2, rng.randint(0, pl // 2)]), len(cand))):
                tgt = f2 if w == "f" else e2
                tgt[i] = rng.choice([x for x in (tgt[i] ^ 0x41, ord("x"), 0x30, (tgt[i] + 1) % 256) if x != tgt[i]])
        if bytes(f2) != field or bytes(e2) != ecc:
            with fx.OpsRecorder(mbs) as rec:
                got = correct_intra(tool, m, hasher_intra, params, man, mbs, ri, bytes(f2), bytes(e2))
            t = rec.tables().split(" ; ")
            add("intra %s %d %d %s %s %s ; %s" % (tool[0], k, mbs, hx(f2), hx(e2), t[1], t[2]), "%s %d %d" % (hx(got[0]), got[1], got[2]))
            oc.oracle_cases += 1
            if got[0] != field or not got[2]:
                v = {"input": {"tool": tool, "algo": algo, "mbs": mbs, "ri": ri, "field": field.hex(), "damaged_field": bytes(f2).hex(),
                               "ecc": ecc.hex(), "damaged_ecc": bytes(e2).hex()},
                     "impl": {"field": got[0].hex(), "corrupted": got[1], "corrected": got[2]},
                     "what": "a %s field damaged within the intra capacity was not recovered exactly" % kind}
                if algo in (1, 2):
                    m3, h3, p3, man3 = intra_setup(tool, 3, mbs, ri)
                    if correct_intra(tool, m3, h3, p3, man3, mbs, ri, bytes(f2), bytes(e2))[0] == field:
                        v["finding"] = "F19"
                oc.violations.append(v)
            oc.distinct.add(lines[-1])
        oc.count("tool:" + tool)
        oc.count("field:" + kind)
        oc.count("parity %s message" % ("<" if pl < k else ("=" if pl == k else ">")))
        oc.count("blocks:%s" % ("1" if nb <= 1 else ">=2"))
        if it % max(1, nf // 3) == 0:
            oc.sample({"request": lines[-1][:300], "impl_reply": impl[-1][:120]})
    # ---- 3. field splitting on pristine and damaged entries (both tools' entry_fields)
    hm, sm = eu.tool("header"), eu.tool("whole")
    ne = 150 if tier == "quick" else 2500
    for it in range(ne):
        def rb(n):
            return bytes(rng.choice([0x41, 0x30, 0xFA, 0xFF, 0xFE, 0x00, rng.randrange(256)]) for _ in range(n))
        path = rng.choice([b"a.bin", b"\xfastart", b"\xffy", b"dir/f", rb(rng.randint(1, 12)).replace(eu.DELIM, b"x") or b"p"])
        parts = [path, str(rng.choice([0, 5, 12345])).encode(), rb(rng.randint(0, 9)), rb(rng.randint(0, 6)), rb(rng.randint(0, 30))]
        entry = eu.DELIM.join(parts)
        kindd = rng.choice(["pristine", "pristine", "cut", "garbage", "nodelim", "leading"])
        if kindd == "cut":
            entry = entry[:rng.randint(0, len(entry))]
        elif kindd == "garbage":
            entry = rb(rng.randint(0, 40))
        elif kindd == "nodelim":
            j = rng.randrange(4)
            idxs = []
            st = 0
            for _ in range(4):
                st = entry.find(eu.DELIM, st)
                idxs.append(st)
                st += 5
            e_ = bytearray(entry)
            e_[idxs[j]] = 0x41
            entry = bytes(e_)
        elif kindd == "leading":
            entry = eu.DELIM * rng.randint(1, 2) + entry
        with common.quiet():
            hf = hm.entry_fields(entry, eu.DELIM)
        pre = rb(rng.randint(0, 5))
        stream = pre + entry + eu.MARKER + b"next"
        with common.quiet():
            sf = sm.entry_fields(io.BytesIO(stream), [len(pre), len(pre) + len(entry)], eu.DELIM)
        strip = 0
        e_s = entry
        while e_s.startswith(eu.DELIM):
            e_s = e_s[5:]
            strip += 5
        track_off = len(e_s) - len(hf["ecc_field"]) if len(hf["ecc_field"]) or len(e_s) >= 4 else None
        rep_h = "%s %s %s %s" % (hx(hf["relfilepath"]), hx(hf["filesize"] if isinstance(hf["filesize"], bytes) else str(hf["filesize"]).encode()),
                                 hx(hf["relfilepath_ecc"]), hx(hf["filesize_ecc"]))
        rep_s = "%s %s %s %s" % (hx(sf["relfilepath"]), hx(sf["filesize"] if isinstance(sf["filesize"], bytes) else str(sf["filesize"]).encode()),
                                 hx(sf["relfilepath_ecc"]), hx(sf["filesize_ecc"]))
        oc.oracle_cases += 1
        if rep_h != rep_s:
            oc.violations.append({"input": {"entry": entry.hex()}, "impl": {"header": rep_h, "whole": rep_s},
                                  "what": "the two tools split the same entry differently"})
        if kindd in ("pristine", "leading") and eu.DELIM not in b"".join(parts) and rep_h != " ".join(hx(x) for x in parts[:4]) \
                and not any((x + eu.DELIM).find(eu.DELIM) != len(x) for x in parts[:4]):
            oc.violations.append({"input": {"entry": entry.hex()}, "impl": {"header": rep_h}, "required": [x.hex() for x in parts[:4]],
                                  "what": "splitting a well-formed entry does not recover the recorded fields"})
        lines.append("efields %s" % hx(entry))
        impl.append(None)       # compared field-wise below (the track offset is tool specific)
        impl[-1] = ("F", rep_h, sf["ecc_field_pos"][0] - len(pre), len(entry), strip)
        oc.count("entry:" + kindd)
        if kindd != "pristine":
            oc.distinct.add(lines[-1])
    # ---- 4. end to end: metadata damaged within the intra bound, real tools
    nt = 24 if tier == "quick" else 240
    d = os.path.join(common.scratch(), "c09")
    for it in range(nt):
        shutil.rmtree(d, ignore_errors=True)
        P = es.gen_params(rng, small=True, erasures=False)
        P.mbs = max(P.mbs, 20)
        P.algo = rng.choice([3, 4, 3, 1])
        if not P.well_formed():
            continue
        tree = es.gen_tree(rng, P, nfiles=rng.randint(1, 3), maxsize=300)
        if it % 2 == 1:
            # small blocks: the size text (4-5 digits) and the path span several intra blocks
            P = eu.Params(tool=["header", "whole"][(it // 2) % 2], algo=rng.choice([3, 4]), mbs=rng.choice([6, 8, 10, 12]), size=rng.choice([64, 300]),
                          r1=0.5, r2=0.5, r3=0.5, ri=rng.choice([0.5, 1.0]), hash=rng.choice(["minimd5", "shortmd5"]))
            tree = {"a.bin": bytes(rng.randrange(256) for _ in range(rng.choice([1000, 1234, 12000]))), "sub/bb.dat": bytes(rng.randrange(256) for _ in range(1500))}
            oc.count("end-to-end: size text spanning several intra blocks")
        if not tree:
            continue
        root = os.path.join(d, "root")
        eu.write_tree(root, tree)
        ecc = os.path.join(d, "ecc.txt")
        if eu.generate(P, root, ecc) != "0":
            continue
        data = bytearray(open(ecc, "rb").read())
        if eu.accidental(bytes(data), len(tree)):
            oc.count("excluded: accidental marker/delimiter")
            continue
        k = P.k_of_rate(P.ri)
        pl = P.mbs - k
        erasure_run = (it % 3 == 2) and P.algo in (3, 4)
        if erasure_run:
            # correction with --enable_erasures: symbols overwritten by the erasure symbol (null) count once, other wrong symbols twice
            P.erasures, P.erasure_symbol = True, 0
            oc.count("end-to-end: metadata erasures (--enable_erasures)")
        for (s, e) in eu.entry_bounds(bytes(data)):
            f = eu.parse_entry(bytes(data), s, e)
            for fld, eccf in (("path", "path_ecc"), ("size", "size_ecc")):
                a, b = f[fld]
                ea, eb = f[eccf]
                nb = (b - a + k - 1) // k
                for bi in range(nb):
                    cand = list(range(a + bi * k, min(b, a + (bi + 1) * k))) + list(range(ea + bi * pl, min(eb, ea + (bi + 1) * pl)))
                    if erasure_run:
                        nat = sum(1 for i in cand if data[i] == 0)
                        budget = pl - nat
                        if budget <= 0:
                            continue
                        nerr = rng.choice([0, 0, 1]) if budget >= 3 else 0
                        nf = rng.choice([budget - 2 * nerr, (budget - 2 * nerr) // 2, rng.randint(0, budget - 2 * nerr)])
                        free = [i for i in cand if data[i] != 0]
                        chosen = rng.sample(free, min(nf + nerr, len(free)))
                        for i in chosen[:nerr]:
                            data[i] = rng.choice([x for x in (ord("x"), 0x39, 0x41) if x != data[i]])
                        for i in chosen[nerr:]:
                            data[i] = 0
                        continue
                    for i in rng.sample(cand, min(rng.choice([0, pl // 2, rng.randint(0, pl // 2)]), len(cand))):
                        data[i] = rng.choice([x for x in (ord("x"), 0x39, 0x41, data[i] ^ 1) if x != data[i]])
        if eu.accidental(bytes(data), len(tree)):
            oc.count("excluded: damage spelled a marker/delimiter")
            continue
        e2 = os.path.join(d, "ecc2.txt")
        open(e2, "wb").write(bytes(data))
        rc, st, out, txt = eu.correct(P, root, e2, os.path.join(d, "out"))
        oc.oracle_cases += 1
        if rc != "0" or st != (len(tree), 0, 0, 0, 0, 0) or out:
            v = {"input": {"params": P.describe(), "tree": sorted(tree), "ecc": bytes(data).hex()},
                 "impl": {"exit": rc, "stats": st},
                 "what": "metadata damaged within the intra bound: the files were not all found and verified normally"}
            if P.algo in (1, 2):
                P3 = eu.Params(**{**P.describe(), "algo": 3})
                rc3, st3, out3, _ = eu.correct(P3, root, e2, os.path.join(d, "out3"))
                if rc3 == "0" and st3 == (len(tree), 0, 0, 0, 0, 0):
                    v["finding"] = "F19"
            oc.violations.append(v)
        oc.count("end-to-end metadata damage scenarios (%s)" % P.tool)
        oc.distinct.add(("e2e", it))
    shutil.rmtree(d, ignore_errors=True)
    if model_available:
        model, err = common.run_driver(lines)
        if model is None:
            oc.x_disagreements.append({"driver_error": err})
        else:
            for l, mm, ii in zip(lines, model, impl):
                oc.x_cases += 1
                if isinstance(ii, tuple):
                    _f, rep_h, s_trackpos, elen, strip = ii
                    toks = mm.split(" ")
                    ok = len(toks) == 6 and " ".join(toks[:4]) == rep_h and int(toks[5]) == strip \
                        and min(strip + int(toks[4]), elen) == s_trackpos
                    if not ok:
                        oc.x_disagreements.append({"request": l[:300], "model": mm[:300], "impl": list(ii)})
                elif mm != ii:
                    oc.x_disagreements.append({"request": l[:300] + " ...", "model": mm[:200], "impl": ii[:200]})
    else:
        oc.notes.append("Lean model did not build: correspondence X not run")


def replay_finding(f):
    return cu.replay_f19(f)


def search(seed, tier, hints):
    oc = common.Outcome()
    run(oc, "quick", seed + 90909, False, True)
    vs = [v for v in oc.violations if not v.get("finding")]
    return vs[0] if vs else None


def replay(payload):
    common.say("replay input:", {k: v for k, v in payload.get("input", {}).items() if k != "ecc"})
    common.say("re-running the check with the recorded seed and tier")
    return common.replay_by_rerun("C09", payload)
