"""C04 — repairs are conservative (both ecc tools, damage of any weight)."""
import hashlib
import os
import random
from base64 import b64encode

import codec_util as cu
import common
import ecc_file_x as fx
import ecc_scen as es
import ecc_util as eu

LEAN_MODULES = ["Pff.Props.C04", "Pff.Props.RunB", "Pff.Props.C02", "Pff.Props.RunD", "Pff.Props.Sound"]
PROP_MODULE = "Pff.Props.C04"
THEOREMS = ["Pff.Ecc.C04_truncated_ecc_needs_hash", "Pff.Ecc.C04_block", "Pff.Ecc.C04_intact_untouched", "Pff.Ecc.C04_failed_copied", "Pff.Ecc.C04_length_header",
            "Pff.Ecc.C04_length_whole", "Pff.Ecc.C04_blockwise_header", "Pff.Ecc.C04_blockwise_whole", "Pff.Ecc.C04_failed_not_complete",
            "Pff.Ecc.C04_exit", "Pff.Ecc.C04_results_wf",
            "Pff.Run.C13_run_output_length",
            "Pff.RSSpec.C02_decode_within_radius",
            "Pff.RSSpec.C02_decode_full_block_within_radius",
            "Pff.Run.C04_run_blockwise",
            "Pff.Run.C04_run_conservative",
            "Pff.RSSpec.C02_decode_sound",
            "Pff.Sound.C01_block_sound_A",
            "Pff.Sound.C01_block_sound_B"]
MODELLED = [("pyFileFixity/header_ecc.py", "main"), ("pyFileFixity/header_ecc.py", "entry_assemble"),
            ("pyFileFixity/structural_adaptive_ecc.py", "main"), ("pyFileFixity/structural_adaptive_ecc.py", "stream_entry_assemble")]
TRUSTED_BASE = [
    "Lean 4.33.0 kernel; axioms per theorem under coverage.theorems (subset of propext, Classical.choice, Quot.sound)",
    "hand-written model lean/Pff/Model/Ecc.lean of the per-file block loops of both tools (decision per block, ten-consecutive-failures "
    "bail-out, reconstruction, counters, exit status) over ARBITRARY hash / decoder functions; tied to /repo by replaying the recorded "
    "hash/check/decode calls of real `-c` runs into the model (boundary refinement: output bytes and counters must agree)",
    "the decoder is only assumed to return a message of the length it was given (DecLen); 'within the decoding radius' for committed repairs "
    "is judged on the real runs by the oracle (re-encoding with the real codec), not proved: the tools' own guard is hash-or-ecc-check",
    "entry scanning / field splitting / OS effects (mtime copy, directory creation) exercised, not part of this model",
]
ASSUMPTIONS = ["exit status non-zero is required when a block was reported unrepairable; files skipped because of metadata damage are C08/C09"]
RULE = ("single-file scenarios, both tools, all codecs and hash kinds, max_block_size 5..255: damage of any weight to the file (random bytes, "
        "bursts, zero-fill), to hash/parity bytes of the track, or both; truncation/extension with --ignore_size; truncated ecc track; "
        "--no_fast_check; more than ten consecutive unrepairable blocks; non-trivial = at least one block beyond capacity or a length change; "
        "distinct = distinct request")


def hash_of(kind, m):
    if kind == "md5":
        return hashlib.md5(m).hexdigest().encode()
    if kind in ("shortmd5", "minimd5"):
        return b64encode(hashlib.md5(m).hexdigest().encode())[:8 if kind == "shortmd5" else 4]
    return b64encode(hashlib.sha256(m).hexdigest().encode())[:8 if kind == "shortsha256" else 4]


def damage_bytes(rng, b, kind):
    b = bytearray(b)
    if not b:
        return b
    if kind == "few":
        for _ in range(rng.randint(1, 4)):
            b[rng.randrange(len(b))] = rng.randrange(256)
    elif kind == "many":
        for _ in range(len(b) // 4 + 1):
            b[rng.randrange(len(b))] = rng.randrange(256)
    elif kind == "burst":
        a = rng.randrange(len(b))
        for i in range(a, min(len(b), a + rng.randint(2, 120))):
            b[i] = rng.randrange(256)
    elif kind == "zeros":
        a = rng.randrange(len(b))
        e = min(len(b), a + rng.randint(1, 200))
        b[a:e] = bytes(e - a)
    elif kind == "all":
        b = bytearray(rng.randrange(256) for _ in b)
    return b


def oracle(P, content0, content1, ecc1, res, recorded):
    """property oracle on one real run"""
    errs = []
    out = res["out"]
    if not res["untouched"]:
        errs.append("an input file (or the ecc file) was modified")
    if res["rc"].startswith("exception"):
        errs.append("correction raised: %s" % res["rc"])
        return errs
    if "could not repair block" in res["text"] and res["rc"] == "0":
        errs.append("a block was reported unrepairable but the run exited 0")
    if out is None:
        return errs
    if len(out) != len(content1):
        errs.append("output length %d differs from the damaged input length %d" % (len(out), len(content1)))
        return errs
    b = eu.entry_bounds(ecc1)
    f = eu.parse_entry(ecc1, *b[0])
    track = ecc1[f["track"][0]:f["track"][1]]
    hl = eu.HASHLEN[P.hash]
    man = cu.manager(P.algo, P.mbs, 1)
    # partition the correction assumed: from the recorded size (that is what the tool uses)
    size_for_layout = recorded
    if P.tool == "header":
        rl = recorded if 0 < recorded < P.size else P.size
        lay = [(o, min(k, min(rl, len(content1)) - o), k) for (o, l, k) in es.layout(eu.Params(**{**P.describe(), "size": rl}), len(content1))]
    else:
        lay = []
        cur = 0
        while cur < len(content1):
            rate = P.r1 if cur < P.size else (P.r2 if size_for_layout == P.size else P.r2 + float(cur - P.size) * (P.r3 - P.r2) / (size_for_layout - P.size))
            k = int(round(float(P.mbs) / (1 + 2 * rate), 0))
            ln = min(k, len(content1) - cur)
            if ln <= 0:
                break
            lay.append((cur, ln, k))
            cur += ln
    t = 0
    covered = 0
    for (o, l, k) in lay:
        if t >= len(track):
            break
        chunk = track[t:t + hl + (P.mbs - k)]
        sh, sp = chunk[:hl], chunk[hl:]
        ib, ob = content1[o:o + l], out[o:o + l]
        covered = o + l
        if ob != ib:
            ok = hash_of(P.hash, ob) == sh
            if not ok:
                with common.quiet():
                    par = bytes(man.encode(ob, k=k))
                rx = ib + sp.ljust(P.mbs - k, b"\0")
                cw = ob + par
                dist = sum(1 for x, y in zip(rx, cw) if x != y)
                if P.erasures or P.only_erasures:      # `--only_erasures` alone implies erasure detection (as repaired, d23dd98)
                    f_ = sum(1 for x in ib + sp if x == P.erasure_symbol)
                    e_ = sum(1 for x, y in zip(rx, cw) if x != y and x != P.erasure_symbol)
                    ok = 2 * e_ + f_ <= P.mbs - k
                else:
                    ok = 2 * dist <= P.mbs - k
            if not ok:
                errs.append("block at offset %d was replaced by a value that neither matches the stored hash nor lies within the decoding radius" % o)
                break
        if not P.no_fast_check and hash_of(P.hash, ib) == sh and ob != ib:
            errs.append("block at offset %d still matched its stored hash but was altered" % o)
            break
        t += len(chunk)
    if out[covered:] != content1[covered:]:
        errs.append("bytes after the last processed block were not copied verbatim")
    return errs


def it_directed(i):
    return i % 5 == 3


def gen_scenario(rng, tier, erasure_edge=False):
    P = es.gen_params(rng, small=True)
    P.mbs = max(P.mbs, 5)
    if not P.well_formed():
        P = eu.Params(tool=P.tool, algo=P.algo, hash=P.hash)
    if P.algo in (1, 2) and P.mbs > 60 and rng.random() < 0.7:
        P.algo = rng.choice([3, 4])       # keep the slow pure-python decoders to small blocks mostly
    P.no_fast_check = rng.random() < 0.3
    if erasure_edge or rng.random() < 0.2:
        P.erasures, P.only_erasures, P.erasure_symbol = True, False, 0
    elif rng.random() < 0.1:
        P.erasures, P.only_erasures = False, True       # --only_erasures alone
    if erasure_edge:
        if rng.random() < 0.6:
            P.tool = "whole"       # per-call k differs from the constructor's only in the whole-file tool
        P.algo = rng.choice([4, 4, 1, 2, 3])
        if P.algo in (1, 2):
            P.mbs = min(P.mbs, 60)
        if not P.well_formed():
            P = eu.Params(tool=P.tool, algo=P.algo, hash=P.hash, erasures=True)
    k1 = P.k_of_rate(P.r1)
    size = rng.choice([0, 1, k1, 3 * k1 + 1, P.size, P.size + 5, rng.randint(0, 900), 14 * k1 + 3 if P.mbs <= 50 else 700])
    size = min(size, 1500)
    content0 = bytes(rng.randrange(256) for _ in range(size))
    return P, content0


def run(oc, tier, seed, model_available, escalate):
    rng = random.Random(seed * 553105243 + 4)
    n = 140 if tier == "quick" else 3000
    if escalate:
        n *= 2
    d = os.path.join(common.scratch(), "c04")
    lines, impl = [], []
    for i in range(n):
        P, content0 = gen_scenario(rng, tier, erasure_edge=(i % 5 == 1 or i % 10 == 4))
        bailout = (i % 10 == 7)
        if bailout:
            # directed class: more than ten consecutive blocks beyond repair from the very start of the file (the tools then give the file up):
            # the run must still exit non-zero and must not write anything but the input bytes
            P.mbs = min(P.mbs, 50)
            P.erasures = P.only_erasures = False
            if not P.well_formed():
                P = eu.Params(tool=P.tool, algo=rng.choice([3, 4]), mbs=20, hash=P.hash)
            k1_ = P.k_of_rate(P.r1)
            P.size = max(P.size, 13 * k1_)
            content0 = bytes(rng.randrange(256) for _ in range(P.size + rng.choice([0, 5, 3 * k1_])))
        name = rng.choice(["f.bin", "sub/g.dat"])
        root = os.path.join(d, "gen")
        import shutil
        shutil.rmtree(d, ignore_errors=True)
        eu.write_tree(root, {name: content0})
        eccp = os.path.join(d, "ecc0.txt")
        if eu.generate(P, root, eccp) != "0":
            # generation of a well-formed parameter set on a latin-1 tree never fails on the unchanged code: a failure is a violation
            oc.violations.append({"input": {"params": P.describe(), "tree": {name: content0.hex()[:200]}},
                                  "what": "generation of the ecc file failed on a well-formed parameter set"})
            oc.count("excluded: generation failed")
            continue
        ecc0 = open(eccp, "rb").read()
        if eu.accidental(ecc0, 1):
            oc.count("excluded: accidental marker/delimiter")
            continue
        f = eu.parse_entry(ecc0, *eu.entry_bounds(ecc0)[0])
        # ---- damage
        fk = rng.choice(["none", "few", "many", "burst", "zeros", "all", "few", "burst"])
        tk = rng.choice(["none", "none", "few", "many", "burst", "zeros", "truncate", "all"])
        content1 = bytes(damage_bytes(rng, content0, fk))
        if bailout:
            fk, tk = "start-burst", "none"
            k1_ = P.k_of_rate(P.r1)
            nbad = rng.randint(11, 13) * k1_
            content1 = bytes((x ^ rng.randrange(1, 256)) for x in content0[:nbad]) + content0[nbad:]
        track = ecc0[f["track"][0]:]
        tl, _tot = es.track_layout(P, len(content0))
        if bailout:
            pass
        elif it_directed(i) and len(tl) >= 2 and all(pl >= 2 for (_b, _h, _p, pl) in tl):
            # directed class: the stored parity of an INTACT block (hash intact too) is replaced by the valid parity of a slightly different
            # block, so that block+parity decodes to that other block; another block of the file is damaged so that the rebuild pass runs.
            # In the default checking mode the hash-matching block must not be altered.
            fk, tk = "one-other-block", "parity_swap"
            j = rng.randrange(len(tl))
            i2 = rng.choice([x for x in range(len(tl)) if x != j])
            (off, ln, k), ho, po, pl = tl[j]
            blk = bytearray(content0[off:off + ln])
            for pos in rng.sample(range(ln), min(ln, rng.randint(1, max(1, pl // 2)))):
                blk[pos] ^= rng.randrange(1, 256)
            cu.manager(P.algo, P.mbs, 1)
            with common.quiet():
                par2 = bytes(cu.manager(P.algo, P.mbs, 1).encode(bytes(blk), k=k))
            t_ = bytearray(track)
            t_[po:po + pl] = par2
            track = bytes(t_)
            (off2, ln2, _k2), _h2, _p2, _pl2 = tl[i2]
            c_ = bytearray(content0)
            c_[off2 + rng.randrange(ln2)] ^= 0x5A
            content1 = bytes(c_)
        elif (i % 5 == 1 or i % 10 == 4) and len(tl) >= 1 and P.erasures and not P.only_erasures:
            # directed class: one block JUST BEYOND the erasure capacity - parity symbols zeroed (= erasure symbol 0) so that
            # 2*errors + erasures = n-k+1 or n-k+2 with one or two wrong message symbols. A decoder handed that many erasures has (almost) no
            # redundancy left and returns some other valid codeword: the tool must not commit it (unless the hash vouches for it).
            fk, tk = "one-or-two-errors", "erasures_beyond_bound"
            j = rng.randrange(len(tl))
            (off, ln, k), ho, po, pl = tl[j]
            c_ = bytearray(content0)
            t_ = bytearray(track)
            if ln >= 2 and pl >= 3:
                ne = rng.choice([1, 1, 2])
                wrong = rng.sample(range(ln), min(ne, ln))
                for pos in wrong:
                    c_[off + pos] = rng.choice([x for x in range(1, 256) if x != c_[off + pos]])
                nat = sum(1 for x in c_[off:off + ln] if x == P.erasure_symbol) + sum(1 for x in t_[po:po + pl] if x == P.erasure_symbol)
                want_f = pl + rng.choice([1, 1, 1, 2]) - 2 * len(wrong)
                cand = [q for q in range(po, po + pl) if t_[q] != P.erasure_symbol]
                for q in rng.sample(cand, max(0, min(len(cand), want_f - nat))):
                    t_[q] = P.erasure_symbol
                if rng.random() < 0.5:
                    t_[ho] ^= 0x21          # the stored hash damaged as well: nothing vouches for a repair
            content1, track = bytes(c_), bytes(t_)
        elif i % 10 == 9 and len(tl) >= 1:
            # directed: correcting only erasures, syndrome check on (--no_fast_check), the file intact, ONE wrong (non-erasure) symbol in a
            # stored parity and no erasure symbol anywhere in that block: the check fails, the decoder is asked to correct erasures only and
            # finds none (the facade returns the block as it is), the hash vouches for the block - "repaired with matching hash but with ecc
            # check error": the bytes written are the input bytes
            P.erasures, P.only_erasures, P.no_fast_check = False, True, True
            cand_b = [j_ for j_, ((off_, ln_, k_), ho_, po_, pl_) in enumerate(tl) if pl_ >= 1 and
                      P.erasure_symbol not in content0[off_:off_ + ln_] and P.erasure_symbol not in track[po_:po_ + pl_]]
            if cand_b:
                (off, ln, k), ho, po, pl = tl[rng.choice(cand_b)]
                t_ = bytearray(track)
                q = po + rng.randrange(pl)
                t_[q] = rng.choice([x for x in range(256) if x not in (P.erasure_symbol, t_[q])])
                track = bytes(t_)
                content1 = content0
                fk, tk = "none", "one-parity-error-under-only-erasures"
        elif tk == "truncate":
            track = track[:rng.randint(0, len(track))]
        else:
            track = bytes(damage_bytes(rng, track, tk))
        sizechg = rng.choice(["no", "no", "no", "grow", "shrink"]) if (tk not in ("erasures_beyond_bound", "parity_swap", "one-parity-error-under-only-erasures") and not bailout) else "no"
        if sizechg == "grow":
            content1 += bytes(rng.randrange(256) for _ in range(rng.choice([1, 20, 300])))
        elif sizechg == "shrink" and content1:
            content1 = content1[:rng.randint(0, len(content1) - 1)]
        if sizechg != "no":
            P.ignore_size = True
        ecc1 = ecc0[:f["track"][0]] + track
        if eu.accidental(ecc1, 1):
            oc.count("excluded: damage spelled a marker/delimiter")
            continue
        res = fx.run_one(P, name, content1, ecc1, os.path.join(d, "run"), recorded_size=len(content0))
        oc.oracle_cases += 1
        for e in oracle(P, content0, content1, ecc1, res, len(content0)):
            oc.violations.append({"input": {"params": P.describe(), "file_damage": fk, "track_damage": tk, "size_change": sizechg,
                                            "original": content0.hex(),
                                            "damaged": content1.hex(),
                                            "ecc": ecc1.hex()},
                                  "impl": {"exit": res["rc"], "stats": res["stats"], "output_len": None if res["out"] is None else len(res["out"])},
                                  "what": e})
        if "request" in res and len(res["request"]) < 400000:
            lines.append(res["request"])
            impl.append(res["reply"])
            if fk != "none" or tk != "none" or sizechg != "no":
                oc.distinct.add(res["request"])
        oc.count("tool:" + P.tool)
        oc.count("file:" + fk)
        oc.count("track:" + tk)
        oc.count("size:" + sizechg)
        oc.count("output written" if res["out"] is not None else "no output")
        if i % max(1, n // 4) == 0:
            oc.sample({"params": P.describe(), "file_damage": fk, "track_damage": tk, "size_change": sizechg, "exit": res["rc"], "stats": res["stats"]})
    if model_available:
        model, err = common.run_driver(lines)
        if model is None:
            oc.x_disagreements.append({"driver_error": err})
        else:
            for l, mm, ii in zip(lines, model, impl):
                oc.x_cases += 1
                if mm != ii:
                    oc.x_disagreements.append({"request": l[:300] + " ...", "model": mm[:300], "impl": ii[:300]})
    else:
        oc.notes.append("Lean model did not build: correspondence X not run")


def search(seed, tier, hints):
    oc = common.Outcome()
    run(oc, "quick", seed + 40404, False, True)
    return oc.violations[0] if oc.violations else None


def replay(payload):
    """re-executes the recorded scenario on the real tool and judges it again; exit 1 if the property still fails on it"""
    inp = payload.get("input", {})
    try:
        P = eu.Params(**inp["params"])
        content0, content1, ecc1 = bytes.fromhex(inp["original"]), bytes.fromhex(inp["damaged"]), bytes.fromhex(inp["ecc"])
    except (KeyError, ValueError, TypeError):
        common.say("replay file is not self-contained (written by an older version): re-run the check with the recorded seed")
        return 0
    f = eu.parse_entry(ecc1, *eu.entry_bounds(ecc1)[0])
    name = f["relpath"].decode("latin-1")
    if len(content1) != len(content0):
        P.ignore_size = True
    d = os.path.join(common.scratch(), "c04replay")
    res = fx.run_one(P, name, content1, ecc1, os.path.join(d, "run"), recorded_size=len(content0))
    errs = oracle(P, content0, content1, ecc1, res, len(content0))
    common.say("params:", P.describe())
    common.say("exit %s, stats %s, output %s" % (res["rc"], res["stats"], None if res["out"] is None else "%d bytes" % len(res["out"])))
    for e in errs:
        common.say("FAILS:", e)
    if not errs:
        common.say("the property holds on this input now")
    return 1 if errs else 0
