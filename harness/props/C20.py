"""C20 — resilience-tester metrics (resiliency_tester.diff_* and the exit status of `pff restest`)."""
import json
import os
import random
import shutil

import common
from common import hx

LEAN_MODULES = ["Pff.Props.C20"]
PROP_MODULE = "Pff.Props.C20"
THEOREMS = ["Pff.Diff.C20_file", "Pff.Diff.C20_file_offsets", "Pff.Diff.C20_file_zero_iff", "Pff.Diff.C20_count_file",
            "Pff.Diff.C20_tree", "Pff.Diff.C20_count_tree", "Pff.Diff.C20_zero_iff_identical", "Pff.Diff.C20_exit_zero"]
MODELLED = [("pyFileFixity/resiliency_tester.py", q) for q in
            ("diff_bytes_files", "diff_bytes_dir", "diff_count_files", "diff_count_dir", "compute_diff_stats")]
TRUSTED_BASE = [
    "Lean 4.33.0 kernel; axioms per theorem under coverage.theorems (subset of propext, Classical.choice, Quot.sound)",
    "hand-written model lean/Pff/Model/Diff.lean, tied to /repo by this run's correspondence cases",
    "IEEE-754 fact used for the exit status: d / t * 100 == 0 iff d == 0 for integers below 2^53 (exercised, not proved)",
    "OS file semantics (read/seek/tell/fstat, os.path.exists, recwalk) exercised, not modelled",
]
ASSUMPTIONS = [
    "a missing *empty* reference file contributes 0 bytes ('wholly different' of nothing): stated in C20_zero_iff_identical",
    "restest aborts with ZeroDivisionError when the reference tree holds 0 bytes in total (modelled as `crash`, never exit 0)",
]
RULE = ("file pairs over a 3-letter alphabet: equal / one a prefix / different lengths / empty / random, lengths 0-40, chunk size "
        "1..45, start offsets 0..len+2; tree pairs with missing, extra, nested and empty files; scripted `pff restest` runs whose "
        "repair step rewrites/truncates/deletes files; non-trivial = the two sides differ; distinct = distinct request")


def rt():
    from pyFileFixity import resiliency_tester
    return resiliency_tester


def gen_pair(rng):
    alpha = [0x41, 0x42, 0x00]
    n = rng.choice([0, 1, 2, 3, 5, 8, 13, 21, 40])
    a = [rng.choice(alpha) for _ in range(n)]
    k = rng.choice(["equal", "prefix", "longer", "flip", "flip+len", "random", "empty"])
    if k == "equal":
        b = list(a)
    elif k == "prefix":
        b = a[:rng.randint(0, len(a))]
    elif k == "longer":
        b = a + [rng.choice(alpha) for _ in range(rng.randint(1, 10))]
    elif k == "flip":
        b = list(a)
        for _ in range(rng.randint(1, 3)):
            if b:
                b[rng.randrange(len(b))] ^= 1
    elif k == "flip+len":
        b = list(a)
        for _ in range(rng.randint(1, 3)):
            if b:
                b[rng.randrange(len(b))] ^= 1
        b = b[:rng.randint(0, len(b))] if rng.random() < 0.5 else b + [1] * rng.randint(1, 9)
    elif k == "random":
        b = [rng.choice(alpha) for _ in range(rng.choice([0, 1, 4, 9, 30]))]
    else:
        b = []
    if rng.random() < 0.5:
        a, b = b, a
    bs = rng.choice([1, 2, 3, 4, 5, 7, 8, 16, 45, rng.randint(1, 45)])
    if rng.random() < 0.6:
        s1 = s2 = 0
    else:
        s1 = rng.randint(0, len(a) + 2)
        s2 = rng.randint(0, len(b) + 2)
    return k, bs, s1, s2, a, b


def spec_bytes(a, b):
    common_len = min(len(a), len(b))
    d = sum(1 for i in range(common_len) if a[i] != b[i]) + abs(len(a) - len(b))
    return d, max(len(a), len(b))


def gen_tree_pair(rng):
    names = ["a.bin", "b.bin", "sub/c.bin", "sub/deep/d.bin", "z", "sub2/e.bin"]
    t1 = {}
    for nme in rng.sample(names, rng.randint(1, len(names))):
        t1[nme] = bytes(rng.choice([0x41, 0x42, 0]) for _ in range(rng.choice([0, 0, 1, 3, 10, 30])))
    t2 = {}
    for nme, c in t1.items():
        k = rng.choice(["same", "same", "missing", "flip", "trunc", "extend"])
        if k == "same":
            t2[nme] = c
        elif k == "flip":
            cc = bytearray(c)
            if cc:
                cc[rng.randrange(len(cc))] ^= 3
            t2[nme] = bytes(cc)
        elif k == "trunc":
            t2[nme] = c[:rng.randint(0, len(c))]
        elif k == "extend":
            t2[nme] = c + b"x" * rng.randint(1, 5)
    if rng.random() < 0.4:
        t2["extra.bin"] = b"extra"
    bs = rng.choice([1, 2, 3, 5, 8, 64, 65535])
    return bs, t1, t2


def write_tree(root, t):
    for rel, c in t.items():
        p = os.path.join(root, rel)
        os.makedirs(os.path.dirname(p), exist_ok=True)
        open(p, "wb").write(c)
    os.makedirs(root, exist_ok=True)
    # empty folders (one walked before everything else, one nested): they hold no file and change no metric
    os.makedirs(os.path.join(root, "!empty first"), exist_ok=True)
    if os.path.isdir(os.path.join(root, "sub")):
        os.makedirs(os.path.join(root, "sub", "!also empty", "deeper"), exist_ok=True)


def tree_tokens(t):
    return " ".join("%s:%s" % (k.encode().hex(), hx(v)) for k, v in sorted(t.items()))


def spec_tree(t1, t2):
    d = tot = cnt = 0
    for k, c in t1.items():
        if k not in t2:
            d += len(c)
            tot += len(c)
            cnt += 1
        else:
            dd, tt = spec_bytes(c, t2[k])
            d += dd
            tot += tt
            if c != t2[k]:
                cnt += 1
    return d, tot, cnt, len(t1)


def impl_files(bs, s1, s2, a, b, d):
    m = rt()
    pa, pb = os.path.join(d, "a"), os.path.join(d, "b")
    open(pa, "wb").write(bytes(a))
    open(pb, "wb").write(bytes(b))
    try:
        r = m.diff_bytes_files(pa, pb, blocksize=bs, startpos1=s1, startpos2=s2)
        rb = "%d %d" % tuple(r)
    except Exception as e:
        rb = "exception:%s" % type(e).__name__
    try:
        rc = "1" if m.diff_count_files(pa, pb, blocksize=bs, startpos1=s1, startpos2=s2) else "0"
    except Exception as e:
        rc = "exception:%s" % type(e).__name__
    return rb, rc


def impl_trees(bs, t1, t2, d):
    m = rt()
    d1, d2 = os.path.join(d, "t1"), os.path.join(d, "t2")
    shutil.rmtree(d1, ignore_errors=True)
    shutil.rmtree(d2, ignore_errors=True)
    write_tree(d1, t1)
    write_tree(d2, t2)
    # same modification time on every file of both trees (copies made with copystat, repairs that restore the timestamps): a difference
    # must be found by reading the files, never by comparing their metadata
    for dd in (d1, d2):
        for r_, _ds, fs_ in os.walk(dd):
            for f_ in fs_:
                os.utime(os.path.join(r_, f_), ns=(1_600_000_000_000_000_000, 1_600_000_000_000_000_000))
    old1, old2 = m.diff_bytes_files.__defaults__, m.diff_count_files.__defaults__
    # only the chunk size is overridden: the other defaults (start offsets) stay what the code says
    m.diff_bytes_files.__defaults__ = (bs,) + tuple(old1[1:])
    m.diff_count_files.__defaults__ = (bs,) + tuple(old2[1:])
    try:
        try:
            r = m.diff_bytes_dir(d1, d2)
            rb = "%d %d" % tuple(r)
        except Exception as e:
            rb = "exception:%s" % type(e).__name__
        try:
            rc = "%d %d" % tuple(m.diff_count_dir(d1, d2))
        except Exception as e:
            rc = "exception:%s" % type(e).__name__
    finally:
        m.diff_bytes_files.__defaults__, m.diff_count_files.__defaults__ = old1, old2
    return rb, rc


def restest_run(orig, tampered, repaired, deleted, d, parallel=False, nrepairs=1):
    """scripted `pff restest`: tamper step writes `tampered`, repair step writes `repaired` into the
    output dir and `deleted` are removed from the tampered dir first (so that copy_any cannot restore them).
    Returns (exit status or 'exception:..', final tree as dict)"""
    m = rt()
    din, dout = os.path.join(d, "orig"), os.path.join(d, "rt")
    shutil.rmtree(din, ignore_errors=True)
    shutil.rmtree(dout, ignore_errors=True)
    write_tree(din, orig)
    s1, s2 = os.path.join(d, "tamper.json"), os.path.join(d, "repair.json")
    json.dump({"files": {k: v.hex() for k, v in tampered.items()}, "delete": deleted}, open(s1, "w"))
    json.dump({"files": {k: v.hex() for k, v in repaired.items()}}, open(s2, "w"))
    cfg = os.path.join(d, "cfg.txt")
    # one or two repair stages (the LAST one writes `repaired`; an earlier one leaves what it was given), chained or --parallel: the
    # final error and the exit status are those of the last stage's output
    s0 = os.path.join(d, "norepair.json")
    json.dump({"files": {}}, open(s0, "w"))
    rep_cmds = "".join("    python pffverif_c20_step.py \"{outputdir}\" \"%s\"\n" % (s2 if j == nrepairs - 1 else s0) for j in range(nrepairs))
    open(cfg, "w").write(
        "before_tamper:\n\n"
        "tamper:\n    python pffverif_c20_step.py \"{inputdir}\" \"%s\"\n\n"
        "after_tamper:\n\n"
        "repair:\n%s" % (s1, rep_cmds))
    try:
        rc = m.main(["-i", din, "-o", dout, "-c", cfg, "-f", "--silent"] + (["--parallel"] if parallel else []))
        rc = str(int(rc))
    except Exception as e:
        rc = "exception:%s" % type(e).__name__
    final = {}
    fdir = os.path.join(dout, "run1", "repair%d" % (nrepairs - 1))
    for root, _ds, fs in os.walk(fdir):
        for f in fs:
            p = os.path.join(root, f)
            final[os.path.relpath(p, fdir).replace(os.sep, "/")] = open(p, "rb").read()
    return rc, final


def run(oc, tier, seed, model_available, escalate):
    rng = random.Random(seed * 104729 + 20)
    npairs = 1500 if tier == "quick" else 20000
    ntrees = 150 if tier == "quick" else 1500
    nrest = 40 if tier == "quick" else 300
    if escalate:
        npairs *= 3
        ntrees *= 3
    d = os.path.join(common.scratch(), "c20")
    os.makedirs(d, exist_ok=True)
    lines, impl = [], []

    def add(line, rep):
        lines.append(line)
        impl.append(rep)

    for i in range(npairs):
        k, bs, s1, s2, a, b = gen_pair(rng)
        rb, rc = impl_files(bs, s1, s2, a, b, d)
        oc.oracle_cases += 1
        sa, sb = a[s1:], b[s2:]
        want = "%d %d" % spec_bytes(sa, sb)
        wantc = "1" if sa == sb else "0"
        if rb != want or rc != wantc:
            oc.violations.append({"input": {"kind": "files", "bs": bs, "s1": s1, "s2": s2, "a": bytes(a).hex(), "b": bytes(b).hex()},
                                  "impl": {"diff_bytes_files": rb, "diff_count_files": rc},
                                  "required": {"diff_bytes_files": want, "diff_count_files": wantc},
                                  "what": "file metric differs from (hamming over common length + length difference, longer length)"})
        add("diffbytes %d %d %d %s %s" % (bs, s1, s2, hx(a), hx(b)), rb)
        add("diffcount %d %d %d %s %s" % (bs, s1, s2, hx(a), hx(b)), rc)
        oc.count("pair:" + k)
        oc.count("offsets" if (s1 or s2) else "no-offsets")
        if sa != sb:
            oc.distinct.add(lines[-2])
        if i % max(1, npairs // 3) == 0:
            oc.sample({"request": lines[-2], "impl_reply": rb})
    for i in range(ntrees):
        bs, t1, t2 = gen_tree_pair(rng)
        rb, rc = impl_trees(bs, t1, t2, d)
        oc.oracle_cases += 1
        sd, st, sc, sn = spec_tree(t1, t2)
        if rb != "%d %d" % (sd, st) or rc != "%d %d" % (sc, sn):
            oc.violations.append({"input": {"kind": "trees", "bs": bs, "t1": {k: v.hex() for k, v in t1.items()},
                                            "t2": {k: v.hex() for k, v in t2.items()}},
                                  "impl": {"diff_bytes_dir": rb, "diff_count_dir": rc},
                                  "required": {"diff_bytes_dir": "%d %d" % (sd, st), "diff_count_dir": "%d %d" % (sc, sn)},
                                  "what": "tree metric differs from the sum over the reference tree"})
        ex = "crash" if st == 0 else ("0" if sd == 0 else "1")
        add("diffbytesdir %d %s ; %s" % (bs, tree_tokens(t1), tree_tokens(t2)), rb + " " + ex if not rb.startswith("exc") else rb)
        add("diffcountdir %d %s ; %s" % (bs, tree_tokens(t1), tree_tokens(t2)), rc)
        oc.count("tree-pairs")
        if t1 != t2:
            oc.distinct.add(lines[-2])
        if i == 0:
            oc.sample({"request": lines[-2], "impl_reply": rb})
    # scripted restest runs: exit 0 only if every reference file's counterpart is identical
    for i in range(nrest):
        _bs, orig, fin = gen_tree_pair(rng)
        if sum(len(c) for c in orig.values()) == 0:
            orig["nonempty.bin"] = b"data"
            fin["nonempty.bin"] = b"data"
        mode = rng.choice(["perfect", "asgenerated", "asgenerated"])
        if mode == "perfect":
            fin = dict(orig)
        tampered = {k: (v[:-1] + b"\x01" if v else v) for k, v in orig.items()}
        deleted = [k for k in orig if k not in fin]
        repaired = {k: v for k, v in fin.items() if k in orig}
        par_, nrep_ = rng.random() < 0.35, rng.choice([1, 1, 2])
        rc, final = restest_run(orig, tampered, repaired, deleted, d, parallel=par_, nrepairs=nrep_)
        oc.count("restest: %s, %d repair stage(s)" % ("--parallel" if par_ else "chained", nrep_))
        oc.oracle_cases += 1
        identical = all((k not in final) or final[k] == v for k, v in orig.items())
        all_present_identical = all(final.get(k) == v for k, v in orig.items())
        oc.count("restest:exit=" + rc)
        viol = None
        if rc == "0" and not identical:
            viol = "restest exited 0 although a file of the final tree differs from the original"
        if rc != "0" and all_present_identical:
            viol = "restest did not exit 0 although the final tree is identical to the original"
        if viol:
            oc.violations.append({"input": {"kind": "restest", "orig": {k: v.hex() for k, v in orig.items()},
                                            "repaired": {k: v.hex() for k, v in repaired.items()}, "deleted": deleted},
                                  "impl": {"exit": rc, "final": {k: v.hex() for k, v in final.items()}}, "what": viol})
        sd, st, _sc, _sn = spec_tree(orig, final)
        ex = "crash" if st == 0 else ("0" if sd == 0 else "1")
        add("diffbytesdir %d %s ; %s" % (65535, tree_tokens(orig), tree_tokens(final)),
            "%d %d %s" % (sd, st, rc if not rc.startswith("exception") else "crash"))
        oc.distinct.add(lines[-1])
        if i == 0:
            oc.sample({"restest": {"orig": sorted(orig), "exit": rc, "final_identical": all_present_identical}})
    if model_available:
        model, err = common.run_driver(lines)
        if model is None:
            oc.x_disagreements.append({"driver_error": err})
        else:
            for l, mm, ii in zip(lines, model, impl):
                oc.x_cases += 1
                if mm != ii:
                    oc.x_disagreements.append({"request": l, "model": mm, "impl": ii})
    else:
        oc.notes.append("Lean model did not build: correspondence X not run")


def search(seed, tier, hints):
    rng = random.Random(seed + 2020)
    d = os.path.join(common.scratch(), "c20s")
    os.makedirs(d, exist_ok=True)
    best = None
    for _ in range(30000 if tier == "quick" else 200000):
        k, bs, s1, s2, a, b = gen_pair(rng)
        rb, rc = impl_files(bs, s1, s2, a, b, d)
        sa, sb = a[s1:], b[s2:]
        want = "%d %d" % spec_bytes(sa, sb)
        wantc = "1" if sa == sb else "0"
        if rb != want or rc != wantc:
            cand = {"input": {"kind": "files", "bs": bs, "s1": s1, "s2": s2, "a": bytes(a).hex(), "b": bytes(b).hex()},
                    "impl": {"diff_bytes_files": rb, "diff_count_files": rc},
                    "required": {"diff_bytes_files": want, "diff_count_files": wantc},
                    "what": "file metric differs from (hamming over common length + length difference, longer length)"}
            if best is None or len(a) + len(b) < len(best["input"]["a"]) // 2 + len(best["input"]["b"]) // 2:
                best = cand
            if len(a) + len(b) <= 6:
                break
    return best


def replay(payload):
    inp = payload["input"]
    d = os.path.join(common.scratch(), "c20r")
    os.makedirs(d, exist_ok=True)
    if inp["kind"] == "files":
        a, b = list(bytes.fromhex(inp["a"])), list(bytes.fromhex(inp["b"]))
        rb, rc = impl_files(inp["bs"], inp["s1"], inp["s2"], a, b, d)
        sa, sb = a[inp["s1"]:], b[inp["s2"]:]
        want = "%d %d" % spec_bytes(sa, sb)
        print("impl:", rb, rc, "required:", want, "1" if sa == sb else "0")
        return 0 if (rb == want and rc == ("1" if sa == sb else "0")) else 1
    print("replay of kind %s: re-run the check with the recorded seed" % inp["kind"])
    return 0
