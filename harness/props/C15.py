"""C15 — the index companion locates every marker and restores them all (`pff header/whole -g` + `pff recover --index`)."""
import os
import random
import shutil
import struct

import common
import ecc_file_x as fx
import ecc_scen as es
import ecc_util as eu
from common import hx

LEAN_MODULES = ["Pff.Props.C15", "Pff.Props.Chain2", "Pff.Props.NonVacuity"]
PROP_MODULE = "Pff.Props.C15"
THEOREMS = ["Pff.Entry.C15_offsets", "Pff.Entry.C15_recover", "Pff.Entry.C15_skip", "Pff.Entry.C15_unusable",
            "Pff.Chain.C15_chain_A",
            "Pff.Chain.C15_chain_B",
            "Pff.NonVacuity.pristine_idxWithinCapacity"]
MODELLED = [("pyFileFixity/repair_ecc.py", "main"), ("pyFileFixity/header_ecc.py", "main"), ("pyFileFixity/structural_adaptive_ecc.py", "main")]
TRUSTED_BASE = [
    "Lean 4.33.0 kernel; axioms per theorem under coverage.theorems (subset of propext, Classical.choice, Quot.sound)",
    "hand-written model lean/Pff/Model/Entry.lean of the entry format, the index records and the index pass of `pff recover`; tied to /repo "
    "by (i) regenerating real ecc files and their .idx from their parsed parts with the model and (ii) replaying the recorded check/decode "
    "calls of real recoveries into the model (recovered bytes must agree)",
    "that an index block with up to 9 corrupted bytes decodes to itself is contract W for the (27,9) code (C02_decode_exact_errors); the "
    "Hamming heuristic pass is a no-op at threshold 0 (observed on every run, its acceptance test 0 < d <= 0 is unsatisfiable)",
    "a block damaged beyond capacity may decode to a different valid record (miscorrection): 'skipped' is proved for blocks the decoder "
    "fails on or whose re-check fails, the tool's own criterion",
]
ASSUMPTIONS = ["threshold 0 (-t 0) as the property states", "marker/delimiter constants and the (27, rate 1) geometry are regenerated from the sources"]
RULE = ("trees of 1-4 files (incl. empty files, names spanning several intra blocks), both tools, codecs 1-4; every or a random subset of "
        "markers/delimiters overwritten with arbitrary bytes; 0-9 wrong bytes in any index blocks, some blocks damaged beyond repair (10-27 "
        "wrong bytes), truncated last block; non-trivial = at least one marker destroyed and one index block damaged; distinct = distinct scenario")


def repair_main(argv):
    from pyFileFixity import repair_ecc
    try:
        with common.captured():
            rc = repair_ecc.main(argv)
        return str(int(rc))
    except BaseException as e:
        return "exception:%s: %s" % (type(e).__name__, str(e)[:120])


def run(oc, tier, seed, model_available, escalate):
    rng = random.Random(seed * 49999 + 15)
    n = 80 if tier == "quick" else 1500
    if escalate:
        n *= 2
    d = os.path.join(common.scratch(), "c15")
    lines, impl = [], []
    for it in range(n):
        shutil.rmtree(d, ignore_errors=True)
        P = es.gen_params(rng, small=True, erasures=False)
        P.mbs = max(P.mbs, 20)
        if it % 2:
            P.algo = rng.choice([3, 4])
        else:
            P.algo = rng.choice([1, 2, 1, 3, 4])      # the pure-python codecs raise their own exception class (RSCodecError)
        if not P.well_formed():
            continue
        tree = es.gen_tree(rng, P, nfiles=rng.randint(1, 4), maxsize=300)
        if not tree:
            continue
        root = os.path.join(d, "root")
        eu.write_tree(root, tree)
        ecc = os.path.join(d, "ecc.txt")
        with fx.OpsRecorder(27) as rec27:      # the (27,9) code of the index records
            grc = eu.generate(P, root, ecc)
        if grc != "0":
            # generation of a well-formed parameter set on a latin-1 tree never fails on the unchanged code: a failure is a violation
            oc.violations.append({"input": {"params": P.describe(), "tree": {k_: v_.hex()[:200] for k_, v_ in (tree if isinstance(tree, dict) else {}).items()}},
                                  "what": "generation of the ecc file failed on a well-formed parameter set"})
            oc.count("excluded: generation failed")
            continue
        data = open(ecc, "rb").read()
        idx = open(ecc + ".idx", "rb").read()
        if eu.accidental(data, len(tree)):
            oc.count("excluded: accidental marker/delimiter")
            continue
        bounds = eu.entry_bounds(data)
        fields = [eu.parse_entry(data, s, e) for s, e in bounds]
        oc.oracle_cases += 1
        # ---- (a) index records point at the markers (oracle) and the model regenerates file and records (X)
        recs = [(idx[i:i + 1], struct.unpack(">Q", idx[i + 1:i + 9])[0]) for i in range(0, len(idx), 27)]
        want = []
        for f in fields:
            want.append((b"1", f["marker"]))
            want += [(b"2", p) for p in f["delims"]]
        if recs != want or len(idx) != 27 * 5 * len(tree):
            oc.violations.append({"input": {"params": P.describe(), "tree": sorted(tree)}, "impl": {"records": recs[:12]}, "required": want[:12],
                                  "what": "index records do not hold the offsets/kinds of every entry marker and field delimiter"})
        parts = []
        for (s, e), f in zip(bounds, fields):
            parts.append(":".join(hx(data[a:b]) for a, b in (f["path"], f["size"], f["path_ecc"], f["size_ecc"], f["track"])))
        if len(data) < 20000:
            lines.append("genecc %s %s" % (hx(data[:bounds[0][0]]), " ".join(parts)))
            impl.append("%s %s" % (hx(data), " ".join("%s:%d" % (k.decode(), p) for k, p in recs)))
            # the whole index file, parities included (the file C15_chain_* starts from)
            lines.append("genidx %s %s ; %s" % (hx(data[:bounds[0][0]]), " ".join(parts), rec27.enc_table()))
            impl.append(hx(idx))
        # ---- (b) destroy markers, damage the index, recover
        dm = bytearray(data)
        spans = [(p, 10 if k == b"1" else 5) for k, p in want]
        destroyed = spans if rng.random() < 0.5 else rng.sample(spans, rng.randint(1, len(spans)))
        for (p, ln) in destroyed:
            for i in range(ln):
                dm[p + i] = rng.randrange(256)
        di = bytearray(idx)
        nrec = len(idx) // 27
        lost = set()
        allow_beyond = rng.random() < 0.5
        for r in range(nrec):
            kind = rng.choice((["clean", "few", "nine", "nine", "beyond"] if allow_beyond else ["clean", "few", "nine", "nine"]) if r else ["nine"])
            if kind == "few":
                w = rng.randint(1, 8)
            elif kind == "nine":
                w = 9
            elif kind == "beyond":
                w = rng.choice([10, 11, 12, 13, rng.randint(14, 27)])
                lost.add(r)
            else:
                w = 0
            for pos in rng.sample(range(27), w):
                di[r * 27 + pos] ^= rng.randrange(1, 256)
        trunc = allow_beyond and rng.random() < 0.5
        if trunc:
            cut = rng.randint(1, 26)
            di = di[:len(di) - cut]
            lost.add(nrec - 1)
        e2, i2, out = os.path.join(d, "dmg.txt"), os.path.join(d, "dmg.idx"), os.path.join(d, "rep.txt")
        open(e2, "wb").write(bytes(dm))
        open(i2, "wb").write(bytes(di))
        with fx.OpsRecorder(27) as rec:
            # option spellings: quiet; verbose with a log file (every record is then described in the log); verbose on the console
            optv = rng.choice([["--silent"], ["--silent"], ["--verbose", "--silent", "-l", os.path.join(d, "recover.log")], ["--verbose"]])
            oc.count("recover options: " + " ".join(o for o in optv if o.startswith("--")))
            rc = repair_main(["-i", e2, "--index", i2, "-o", out, "-t", "0", "-f", "--ecc_algo", str(P.algo)] + optv)
        rep = open(out, "rb").read() if os.path.exists(out) else None
        # expected: every destroyed marker whose record is usable is restored; the others keep their damaged bytes; nothing else changes
        exp = bytearray(dm)
        for r, (k, p) in enumerate(want):
            if r not in lost:
                m = eu.MARKER if k == b"1" else eu.DELIM
                exp[p:p + len(m)] = m
        bad = None
        if rc != "0" or rep is None:
            bad = "recovery did not complete: %s" % rc
        elif not lost and rep != data:
            bad = "recovered file differs from the pristine ecc file although every index block was within 9 errors"
        elif lost and rep != bytes(exp):
            # a block beyond capacity may be mis-corrected to another valid record: accept only the documented skip behaviour
            diff = [i for i in range(max(len(rep), len(exp))) if i >= len(rep) or i >= len(exp) or rep[i] != exp[i]]
            miscorrected = any(v is not None and v[0] != "raise" for v in [rec.d.get(k_) for k_ in rec.d]) and len(rep) >= len(exp)
            ok_spans = all(any(p <= i < p + ln for (p, ln) in [(want[r][1], 10 if want[r][0] == b"1" else 5) for r in lost]) for i in diff)
            if not ok_spans and not miscorrected:
                bad = "recovery with some index blocks beyond repair changed bytes outside the markers of usable blocks"
        finding = None
        if bad and P.algo in (1, 2):
            # codecs 1-3 are the same code: if the identical damaged index recovers with the reedsolo decoder (codec 3), the failure is the
            # unireedsolomon decoder raising within capacity (known finding F19), not the tool
            out3 = os.path.join(d, "rep3.txt")
            rc3 = repair_main(["-i", e2, "--index", i2, "-o", out3, "-t", "0", "-f", "--ecc_algo", "3", "--silent"])
            rep3 = open(out3, "rb").read() if os.path.exists(out3) else None
            if rc3 == "0" and ((not lost and rep3 == data) or (lost and rep3 == bytes(exp))):
                finding = "F19"
        if bad:
            oc.violations.append({"finding": finding, "input": {"params": P.describe(), "tree": sorted(tree), "destroyed": destroyed[:10], "lost_blocks": sorted(lost),
                                            "truncated": trunc, "ecc": bytes(dm).hex(),
                                            "idx": bytes(di).hex()},
                                  "impl": {"exit": rc}, "what": bad})
        if rep is not None and len(dm) < 20000:
            t = rec.tables().split(" ; ")
            lines.append("recidx 27 9 %s %s %s ; %s" % (hx(bytes(di)), hx(bytes(dm)), t[1], t[2]))
            impl.append(hx(rep))
        oc.count("tool:" + P.tool)
        oc.count("algo:%d" % P.algo)
        oc.count("all markers destroyed" if len(destroyed) == len(spans) else "subset destroyed")
        oc.count("blocks beyond repair: %s" % ("yes" if lost else "no"))
        oc.count("truncated last block" if trunc else "complete index")
        oc.distinct.add((it, P.tool))
        if it % max(1, n // 3) == 0:
            oc.sample({"params": P.describe(), "tree": {k: len(v) for k, v in tree.items()}, "destroyed": len(destroyed), "lost_blocks": sorted(lost), "exit": rc})
    shutil.rmtree(d, ignore_errors=True)
    if model_available:
        model, err = common.run_driver(lines)
        if model is None:
            oc.x_disagreements.append({"driver_error": err})
        else:
            for l, mm, ii in zip(lines, model, impl):
                oc.x_cases += 1
                if mm != ii:
                    oc.x_disagreements.append({"request": l[:200] + " ...", "model": mm[:200], "impl": ii[:200]})
    else:
        oc.notes.append("Lean model did not build: correspondence X not run")


def replay_finding(f):
    import codec_util
    return codec_util.replay_f19(f)


def search(seed, tier, hints):
    oc = common.Outcome()
    run(oc, "quick", seed + 151515, False, True)
    return oc.violations[0] if oc.violations else None


def replay(payload):
    common.say("replay input:", {k: v for k, v in payload.get("input", {}).items() if k not in ("ecc", "idx")})
    common.say("re-running the check with the recorded seed and tier")
    return common.replay_by_rerun("C15", payload)
