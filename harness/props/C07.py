"""C07 — replica trees are aligned (`pff dup`: synchronize_files / sort_group / sort_dict_of_paths / recwalk)."""
import itertools
import os
import random
import shutil

import common
from common import hx, nums

LEAN_MODULES = ["Pff.Props.C07", "Pff.Props.Path"]
PROP_MODULE = "Pff.Props.C07"
THEOREMS = ["Pff.Merge.C07_walk_sorted", "Pff.Merge.C07_align", "Pff.Merge.C07_dup", "Pff.Merge.C07_restores",
            "Pff.Path.PATH_relpath_posix", "Pff.Path.PATH_abspath_good"]
MODELLED = [("pyFileFixity/replication_repair.py", "synchronize_files"), ("pyFileFixity/replication_repair.py", "sort_group"),
            ("pyFileFixity/replication_repair.py", "sort_dict_of_paths"), ("pyFileFixity/lib/aux_funcs.py", "recwalk")]
TRUSTED_BASE = [
    "Lean 4.33.0 kernel; axioms per theorem under coverage.theorems (subset of propext, Classical.choice, Quot.sound)",
    "hand-written model lean/Pff/Model/Merge.lean (tree walk, sort key, alignment loop, per-group processing via the C06 vote model), tied "
    "to /repo by running `pff dup` on generated replica forests and comparing report rows, output bytes and exit status",
    "modelled, not verified: os.walk order after in-place sort, Python str/tuple comparison (code-point lexicographic), os.path, csv report",
]
ASSUMPTIONS = ["a name is a directory in every replica or a file in every replica (the property excludes dir-vs-file clashes)",
               "no hash database (that is C18)"]
RULE = ("random forests: names chosen to sort before/after directory names and to share prefixes (incl. '.', digits, upper case, non-ASCII), "
        "depth 0-4, 3-5 replicas, independent presence pattern per path and replica, per-copy corruption/truncation, all replica orders for "
        "a share of cases; thorough: exhaustive presence patterns of <= 4 paths of mixed depth x 3 replicas; non-trivial = at least two "
        "paths of different depth; distinct = distinct request")

NAMES = ["a", "b", "d", "d1", "d2", "a.txt", "z", "0", "d.x", "sub", "B", "_", "é", "a b", "d-1", "a.txt ", "a ", " a"]


# replica folders are given on the command line in THIS order, which is not their alphabetical order ("order matters")
# ("out_disk": the output folder is `out`: a replica whose path merely begins with the characters of the output path is still a replica)
REPLICA_NAMES = ["vault", "out_disk", "zeta", "archive", "disk2", "disk1", "copy10", "copy2"]


def rr():
    from pyFileFixity import replication_repair
    return replication_repair


DIRS = ["a", "a-b", "a.c", "a b", "ab", "a+", "a#x", "a_", "b", "photos", "photos-raw", "d1", "d2", "é", "Z", "a.", "a ", " photos"]


def gen_universe(rng):
    """file paths of mixed depth; directory names include prefix-extending siblings whose next character sorts below and above '/'
    (a, a-b, a.c, 'a b', ab, a_): joined-string comparisons and component-wise comparisons disagree exactly there"""
    paths = set()
    style = rng.choice(["names", "prefix-siblings", "prefix-siblings"])

    def gen(prefix, depth):
        if style == "names":
            used = rng.sample(NAMES, rng.randrange(1, 5))
            for nm in used:
                if depth < 4 and rng.random() < 0.4:
                    gen(prefix + [nm + "_d" if rng.random() < 0.5 else nm.upper() + "D"], depth + 1)
                else:
                    paths.add("/".join(prefix + [nm]))
        else:
            for nm in rng.sample(NAMES, rng.randrange(0, 3)):
                paths.add("/".join(prefix + [nm + ".f"]))
            if depth < 3:
                base = rng.choice(["a", "photos", "d1"])
                sibs = [x for x in DIRS if x.startswith(base)]
                for dn in rng.sample(sibs, rng.randrange(1, min(4, len(sibs)) + 1)) + rng.sample(DIRS, rng.randrange(0, 2)):
                    if rng.random() < 0.75:
                        gen(prefix + [dn], depth + 1)
            if not paths:
                paths.add("/".join(prefix + ["only.f"]))
    gen([], 0)
    # consistency: a component is never both a file and a directory
    dirs = set()
    for p in paths:
        parts = p.split("/")
        for i in range(1, len(parts)):
            dirs.add("/".join(parts[:i]))
    return sorted(p for p in paths if p not in dirs)


def gen_case(rng):
    paths = gen_universe(rng)
    nrep = rng.randrange(3, 6)
    replicas = [dict() for _ in range(nrep)]
    origs = {}
    for p in paths:
        orig = bytes(rng.choice(b"AB\x00") for _ in range(rng.choice([0, 1, 3, 8, 20])))
        origs[p] = orig
        for i in range(nrep):
            if rng.random() < 0.7:
                c = bytearray(orig)
                k = rng.choice(["ok", "ok", "ok", "flip", "trunc", "ext"])
                if k == "flip" and c:
                    c[rng.randrange(len(c))] ^= 1
                elif k == "trunc":
                    c = c[:rng.randint(0, len(c))]
                elif k == "ext":
                    c += b"x" * rng.randint(1, 4)
                replicas[i][p] = bytes(c)
    bs = rng.choice([1, 2, 3, 7, 65535, 65535])
    return bs, replicas, origs


def run_dup(bs, replicas, d, nested=None, spell=None):
    """real `pff dup`; returns (exit or exception text, report rows [(path, used indices)], output tree).
    nested = (j, name): replica j lives in the sub-folder `name` of replica 0 (the caller has put those files into replica 0's tree).
    spell = list of spellings: `synchronize_files` is called directly with the replica roots written in those (non-normalised) ways."""
    m = rr()
    shutil.rmtree(d, ignore_errors=True)
    os.makedirs(d)
    dirs = []
    for i, rep in enumerate(replicas):
        root = os.path.join(d, REPLICA_NAMES[i])
        if nested and i == nested[0]:
            root = os.path.join(d, REPLICA_NAMES[0], nested[1])
        os.makedirs(root, exist_ok=True)
        for p, c in rep.items():
            fp = os.path.join(root, *p.split("/"))
            os.makedirs(os.path.dirname(fp), exist_ok=True)
            open(fp, "wb").write(c)
        dirs.append(root)
    out = os.path.join(d, "out")
    if spell:
        # the same folders under other spellings, relative to the current directory `d`
        sp = []
        for i, root in enumerate(dirs):
            rel = os.path.relpath(root, d)
            sp.append({"plain": root, "dot": "./" + rel, "slashes": rel + "//", "updown": "zz/../" + rel, "rel": rel,
                       "trail": root + "/"}[spell[i % len(spell)]])
        os.makedirs(os.path.join(d, "zz"), exist_ok=True)
        dirs = sp
    old = m.majority_vote_byte_scan.__defaults__
    m.majority_vote_byte_scan.__defaults__ = (bs,) + tuple(old[1:])       # only the chunk size is overridden
    cwd = os.getcwd()
    os.chdir(d)
    try:
        with common.captured():
            if spell:
                import io
                rc = m.synchronize_files(dirs, out, report_file="rep.csv", ptee=io.StringIO())
            else:
                rc = m.main(["-i"] + dirs + ["-o", out, "-r", "rep.csv", "--silent", "-f"])
        rc = str(int(rc))
    except BaseException as e:
        rc = "exception:%s" % type(e).__name__
    finally:
        m.majority_vote_byte_scan.__defaults__ = old
        os.chdir(cwd)
    rows = []
    rp = os.path.join(d, "rep.csv")
    if os.path.exists(rp):
        import csv
        with open(rp, newline="", encoding="utf-8") as f:
            rd = csv.reader(f, delimiter="|", quotechar='"', lineterminator="\n")
            first = True
            for r in rd:
                if first:
                    first = False
                    continue
                if not r or r[0].startswith("=>") or r[0].startswith("\t"):
                    break
                rows.append((r[0], [i for i in range(len(replicas)) if r[1 + i] in ("X", "O")]))
    outtree = {}
    for root, _ds, fs in os.walk(out):
        for f in fs:
            p = os.path.join(root, f)
            outtree[os.path.relpath(p, out).replace(os.sep, "/")] = open(p, "rb").read()
    return rc, rows, outtree


def request(bs, replicas):
    return "dup %d %s" % (bs, " ; ".join(" ".join("%s:%s" % (p.encode().hex(), hx(c)) for p, c in sorted(rep.items())) for rep in replicas))


def reply(rc, rows, outtree):
    return "%s %s" % (rc, " ".join("%s:%s:%s" % (p.encode().hex(), hx(outtree.get(p, b"<missing>")), nums(u)) for p, u in rows))


def oracle(replicas, origs, rc, rows, outtree):
    errs = []
    union = set()
    for rep in replicas:
        union |= set(rep)
    seen = [p for p, _ in rows]
    if len(seen) != len(set(seen)):
        dup_ = sorted(p for p in set(seen) if seen.count(p) > 1)
        errs.append("path processed more than once: %s" % dup_[:3])
    if set(seen) != union or set(outtree) != union:
        errs.append("output paths are not the union of the replicas' paths (missing %s, extra %s)"
                    % (sorted(union - set(outtree))[:3], sorted(set(outtree) - union)[:3]))
    for p, used in rows:
        want = [i for i, rep in enumerate(replicas) if p in rep]
        if used != want:
            errs.append("path %s voted over replicas %s, but it exists in %s" % (p, used, want))
            break
    if not errs and origs is not None:
        for p in union:
            copies = [rep[p] for rep in replicas if p in rep]
            orig = origs.get(p)
            if orig is None:
                continue        # (a path that exists only through the nesting of one replica folder in another: no original to compare with)
            if len(copies) >= 3 and max(len(c) for c in copies) == len(orig):
                ok = all(2 * sum(1 for c in copies if j < len(c) and c[j] == orig[j]) > sum(1 for c in copies if j < len(c))
                         for j in range(len(orig)))
                if ok and outtree.get(p) != orig:
                    errs.append("file %s intact in a majority at every byte was not restored" % p)
                    break
    if rc.startswith("exception"):
        errs.append("pff dup raised %s" % rc)
    return errs


def run(oc, tier, seed, model_available, escalate):
    rng = random.Random(seed * 86028121 + 7)
    n = 250 if tier == "quick" else 3000
    if escalate:
        n *= 3
    d = os.path.join(common.scratch(), "c07")
    lines, impl = [], []
    cases = []
    # regression witness of the repaired alignment defect first
    w = [{"d1/sub/b.txt": b"1", "d2/a.txt": b"2"}, {"d2/a.txt": b"2"}, {"d1/sub/b.txt": b"1", "d2/a.txt": b"2"}]
    cases.append((65535, w, None, "corpus"))
    for _ in range(n):
        bs, reps, origs = gen_case(rng)
        cases.append((bs, reps, origs, "random"))
        if rng.random() < 0.15:
            perm = list(range(len(reps)))
            rng.shuffle(perm)
            cases.append((bs, [reps[i] for i in perm], origs, "permuted"))
    if tier == "thorough":
        ps = ["f", "d/f", "d/e/f", "e/g"]
        for pattern in itertools.product(range(8), repeat=4):
            if not any(pattern):
                continue
            reps = [dict() for _ in range(3)]
            for p, mask in zip(ps, pattern):
                for i in range(3):
                    if mask >> i & 1:
                        reps[i][p] = p.encode()
            cases.append((65535, reps, None, "exhaustive"))
        oc.notes.append("exhaustive sub-space: all 4095 presence patterns of the paths f, d/f, d/e/f, e/g over 3 replicas")
    for idx, (bs, reps, origs, kind) in enumerate(cases):
        if not any(reps):
            continue
        nested = spell = None
        if kind == "random" and idx % 7 == 3 and len(reps) >= 3:
            # directed: one replica folder lies INSIDE another replica folder (a backup kept within the tree it backs up): replica 0 then also
            # holds that replica's files, under the sub-folder's name
            j = rng.randrange(1, len(reps))
            nm = rng.choice(["bk", "copy of it", "z_backup"])
            if not any(p == nm or p.startswith(nm + "/") for p in reps[0]):
                reps = [dict(r) for r in reps]
                for p, c in reps[j].items():
                    reps[0][nm + "/" + p] = c
                nested = (j, nm)
                kind = "nested-roots"
        elif kind == "random" and idx % 7 == 5:
            # directed: the routine called directly with replica folders written in non-normalised ways (the command line normalises them)
            spell = [rng.choice(["dot", "slashes", "updown", "rel", "trail", "plain"]) for _ in reps]
            kind = "root-spellings"
        rc, rows, outtree = run_dup(bs, reps, d, nested=nested, spell=spell)
        oc.oracle_cases += 1
        for e in oracle(reps, origs, rc, rows, outtree):
            oc.violations.append({"input": {"bs": bs, "replicas": [{p: c.hex() for p, c in r.items()} for r in reps],
                                            "nested_replica": nested, "root_spellings": spell},
                                  "impl": {"exit": rc, "rows": rows[:12]}, "what": e})
        lines.append(request(bs, reps))
        impl.append(reply(rc, rows, outtree))
        oc.count("kind:" + kind)
        oc.count("replicas:%d" % len(reps))
        depths = set(p.count("/") for r in reps for p in r)
        oc.count("mixed-depth" if len(depths) > 1 else "single-depth")
        if len(depths) > 1:
            oc.distinct.add(lines[-1])
        if idx % max(1, len(cases) // 4) == 0:
            oc.sample({"request": lines[-1][:400], "impl_reply": impl[-1][:300]})
    # ---- path layer: the repo's fullpath / path2unix / recwalk / relpath_posix and the os.path functions under them vs the Lean model
    # (Pff.Path), and the relocation statement on the real functions
    import path_x
    pl, pi, pbad = path_x.cases(rng, (400 if tier == "quick" else 6000) * (2 if escalate else 1), common.scratch(), oc)
    lines += pl
    impl += pi
    for b_ in pbad[:3]:
        oc.violations.append({"input": {k: v for k, v in b_.items() if k != "what"}, "what": b_["what"]})
    shutil.rmtree(d, ignore_errors=True)
    if model_available:
        model, err = common.run_driver(lines)
        if model is None:
            oc.x_disagreements.append({"driver_error": err})
        else:
            for l, mm, ii in zip(lines, model, impl):
                oc.x_cases += 1
                if mm != ii:
                    oc.x_disagreements.append({"request": l[:600], "model": mm[:400], "impl": ii[:400]})
    else:
        oc.notes.append("Lean model did not build: correspondence X not run")


def search(seed, tier, hints):
    oc = common.Outcome()
    run(oc, "thorough" if tier == "thorough" else "quick", seed + 70707, False, True)
    return shrink(oc.violations[0]) if oc.violations else None


def _fails(bs, reps):
    d = os.path.join(common.scratch(), "c07s")
    rc, rows, outtree = run_dup(bs, reps, d)
    errs = oracle(reps, None, rc, rows, outtree)
    shutil.rmtree(d, ignore_errors=True)
    return errs, rc, rows


def shrink(v):
    bs = v["input"]["bs"]
    reps = [{p: bytes.fromhex(c) for p, c in r.items()} for r in v["input"]["replicas"]]
    errs, rc, rows = _fails(bs, reps)
    if not errs:
        return v  # (content-dependent violation: keep as is)
    improved = True
    while improved:
        improved = False
        allp = sorted(set(p for r in reps for p in r))
        for p in allp:
            cand = [{q: c for q, c in r.items() if q != p} for r in reps]
            e2, rc2, rows2 = _fails(bs, cand)
            if e2:
                reps, errs, rc, rows = cand, e2, rc2, rows2
                improved = True
                break
    return {"input": {"bs": bs, "replicas": [{p: c.hex() for p, c in r.items()} for r in reps]},
            "impl": {"exit": rc, "rows": rows[:12]}, "what": errs[0]}


def replay(payload):
    inp = payload["input"]
    reps = [{p: bytes.fromhex(c) for p, c in r.items()} for r in inp["replicas"]]
    errs, rc, rows = _fails(inp["bs"], reps)
    print("exit:", rc, "rows:", rows)
    print("errors:", errs)
    return 1 if errs else 0
