"""C02 — the Reed-Solomon facade corrects every pattern within its capacity (ECCMan.encode / decode)."""
import random

import codec_util as cu
import common
from common import hx, nums

LEAN_MODULES = ["Pff.Props.C02"]
PROP_MODULE = "Pff.Props.C02"
THEOREMS = ["Pff.RSSpec.C02_encode_length", "Pff.RSSpec.C02_short_as_padded", "Pff.RSSpec.C02_pad_not_erasure", "Pff.RSSpec.C02_decode_unique",
            "Pff.RSSpec.C02_contract_consistent", "Pff.RSSpec.C02_decode_exact_errors", "Pff.RSSpec.C02_decode_exact_erasures",
            "Pff.RSSpec.C11_codecA_good", "Pff.RSSpec.C11_codecB_good",
            "Pff.RSSpec.C02_decode_within_radius",
            "Pff.RSSpec.C02_decode_full_block_within_radius",
            "Pff.RSSpec.C02_decode_sound"]
MODELLED = [("pyFileFixity/lib/eccman.py", "ECCMan.decode"), ("pyFileFixity/lib/eccman.py", "ECCMan.encode"),
            ("pyFileFixity/lib/eccman.py", "ECCMan.pad"), ("pyFileFixity/lib/eccman.py", "ECCMan.rpad")]
TRUSTED_BASE = [
    "Lean 4.33.0 kernel; axioms per theorem under coverage.theorems; Mathlib v4.33.0 modules imported by lean/Pff/Proofs",
    "CONTRACT W (stated in lean/Pff/Props/RSSpec.lean `CoreW`, proved satisfiable, NOT proved of the libraries): the third-party decoders "
    "(reedsolo.rs_correct_msg(_nofsynd), unireedsolomon RSCoder.decode(_fast): Berlekamp-Massey/Chien/Forney) return the codeword within "
    "capacity. Validated on every run on the recorded library calls (coverage.contract_W_*); for codecs 1/2 with erasure positions it is "
    "refuted by the dependency on a small share of patterns (known finding F19)",
    "facade argument preparation and result handling are modelled line by line and checked at both interfaces (boundary refinement): the "
    "model must produce exactly the arguments the facade handed to the library and, from the recorded library result, the facade's return value",
]
ASSUMPTIONS = ["nothing is assumed of the decoders beyond capacity", "message length between 1 and k"]
RULE = ("geometries incl. k=1, k=n-1, n=255; message lengths 1..k incl. all-zero and sparse messages; errors-only patterns of weight 0..floor((n-k)/2) "
        "and errors+erasures with 2e+f <= n-k exactly at and below the bound (natural occurrences of the erasure symbol counted into f), in "
        "message / parity / both, erasure symbols 0 and others, only_erasures, per-call k; non-trivial = at least one wrong symbol; "
        "distinct = distinct request")


def classify_f19(call):
    """F19: unireedsolomon raises inside errors-and-erasures decoding although the pattern is within capacity"""
    # (also observed without erasure positions for decode_fast, codec 2: e.g. (27,9), 9 errors)
    return call is not None and call["lib"].startswith("unireedsolomon") and call["result"].startswith("err:")


def one_case(rng, big):
    algo = rng.choice([1, 2, 3, 4])
    n, k0 = cu.gen_geometry(rng, big=big)
    percall = rng.random() < 0.3
    k = rng.randint(1, n - 1) if percall else k0
    msg = cu.gen_message(rng, k)
    mode = rng.choice(["errors", "errors", "erasures", "erasures", "only_erasures"])
    ec = 0 if rng.random() < 0.7 else rng.choice([0xFF, 0x20, rng.randrange(1, 256)])
    return algo, n, k0, k, percall, msg, mode, ec


def run(oc, tier, seed, model_available, escalate):
    rng = random.Random(seed * 472882027 + 2)
    lines, impl = [], []
    n_cases = 900 if tier == "quick" else 12000
    if escalate:
        n_cases *= 2
    wstat = {}
    for i in range(n_cases):
        algo, n, k0, k, percall, msg, mode, ec = one_case(rng, big=(i % 30 == 0))
        if i % 12 == 11:
            # the directed radius-check class below needs a geometry in which the libraries do return another codeword instead of giving
            # up (as in the defect repaired by c2e423c: n = 255 with some forty parity symbols), a full-length random message, erasure mode
            n = 255
            k0 = k = rng.randint(200, 225)
            percall = rng.random() < 0.3
            if percall:
                k0 = rng.choice([1, 100, 240])
            msg = bytes(rng.randrange(1, 256) for _ in range(k))
            mode, ec = "erasures", 0
        if i % 7 == 3:
            # a codec object constructed just now, right after a codec of the OTHER reedsolo field was constructed and used in the same process
            # (the field tables of reedsolo are module-wide): a freshly constructed object must work whatever was constructed before it
            with common.quiet():
                other = cu.eccman().ECCMan(n, k0, algo=(4 if algo != 4 else 3))
                other.encode(bytes(range(1, min(k0, 5) + 1)))
                man = cu.eccman().ECCMan(n, k0, algo=algo)
            oc.count("freshly constructed codec object")
        else:
            man = cu.manager(algo, n, k0)
        kw = {"k": k} if percall else {}
        karg = k if percall else 0
        try:
            with common.quiet():
                par = bytes(man.encode(msg, **kw))
        except Exception as ex:
            oc.oracle_cases += 1
            oc.violations.append({"input": {"algo": algo, "n": n, "k_ctor": k0, "k_call": k if percall else None, "msg": msg.hex()},
                                  "impl": {"encode": "raised %s: %s" % (type(ex).__name__, str(ex)[:120])},
                                  "what": "encode raised on a message of at most k symbols (k between 1 and n-1)"})
            continue
        word = bytearray(msg + par)
        nsym = n - k
        L = len(word)
        # build a pattern within capacity
        if mode == "errors":
            e = rng.choice([0, nsym // 2, rng.randint(0, nsym // 2)])
            pos = rng.sample(range(L), min(e, L))
            rx = cu.corrupt(rng, word, pos)
            dkw = {}
            within = 2 * len(pos) <= nsym
        else:
            # erasure handling on: every received symbol equal to `ec` is an erasure
            budget = nsym
            rx = bytearray(word)
            f_nat = sum(1 for b in rx if b == ec)
            if f_nat > budget:
                oc.count("excluded: natural erasure symbols alone exceed n-k")
                continue
            f_extra = rng.randint(0, budget - f_nat) if rng.random() < 0.7 else budget - f_nat
            cand = [p for p in range(L) if rx[p] != ec]
            er = rng.sample(cand, min(f_extra, len(cand)))
            for p in er:
                rx[p] = ec
            f = sum(1 for b in rx if b == ec)
            e_max = 0 if mode == "only_erasures" else (budget - f) // 2
            e = rng.choice([0, e_max, rng.randint(0, e_max)])
            if i % 6 == 5 and mode == "erasures":
                # just beyond the bound (2e+f = n-k+1 or +2): nothing is required of the result (the oracle does not judge it), but model
                # and facade must agree on it - the facade refuses library results whose corrections exceed the capacity
                e = e_max + 1
                oc.count("just beyond the errata bound (correspondence only)")
            cand = [p for p in range(L) if rx[p] != ec]
            pos = rng.sample(cand, min(e, len(cand)))
            rx = cu.corrupt(rng, rx, pos, avoid=ec)
            # `only_erasures` alone implies erasure detection (as repaired): same behaviour with or without `enable_erasures`
            dkw = {"enable_erasures": not (mode == "only_erasures" and i % 2 == 0), "erasures_char": ec, "only_erasures": mode == "only_erasures"}
            within = 2 * len(pos) + f <= nsym
            if mode == "only_erasures" and f == 0:
                pass  # early return path
        m2, p2 = bytes(rx[:len(msg)]), bytes(rx[len(msg):])
        if mode == "errors" and i % 9 == 4 and nsym >= 2:
            # directed: a parity cut short (truncated ecc file): the facade right-pads it with nulls; with the cut symbols counted as wrong
            # symbols (where the original parity was not null) the pattern stays within capacity, so the full original must come back
            cut = rng.randint(1, nsym // 2)
            p2 = bytes(par[:nsym - cut])
            m2 = bytes(msg)
            within = True
            oc.count("directed: parity cut short by <= (n-k)/2 symbols")
        if mode == "erasures" and i % 12 == 11 and nsym >= 3:
            # directed: 2e+f = n-k+1 with ONE wrong symbol and n-k-1 erased ones (mostly in the parity): the decoders do not refuse this,
            # they return another codeword - the facade's own radius check must (correspondence only; nothing is required of the result)
            rx = bytearray(word)
            order = list(range(len(msg), L)) + list(range(len(msg)))
            for ppos in order:
                if sum(1 for b_ in rx if b_ == ec) >= nsym - 1:
                    break
                rx[ppos] = ec
            candw = [p_ for p_ in range(len(msg)) if rx[p_] != ec]
            if candw and sum(1 for b_ in rx if b_ == ec) == nsym - 1:
                wp = rng.choice(candw)
                rx[wp] = rng.choice([x for x in range(256) if x not in (ec, rx[wp])])
                within = False
                m2, p2 = bytes(rx[:len(msg)]), bytes(rx[len(msg):])
                oc.count("directed: one error + n-k-1 erasures (radius check of the facade)")
        # the facade also accepts text strings (one character per symbol) for message, ecc and erasure symbol: same result required
        as_text = (i % 7 == 3)
        a_m, a_p = (m2.decode("latin-1"), p2.decode("latin-1")) if as_text else (m2, p2)
        dkw_call = dict(dkw)
        if as_text and "erasures_char" in dkw_call:
            dkw_call["erasures_char"] = chr(dkw_call["erasures_char"])
        if as_text:
            oc.count("arguments passed as text strings")
        with cu.Recorder() as rec:
            try:
                with common.quiet():
                    res = man.decode(a_m, a_p, **kw, **dkw_call)
                out = "ok %s %s" % (hx(bytes(res[0])), hx(bytes(res[1])))
            except Exception as ex:
                nm = type(ex).__name__
                out = "err %s" % (nm if nm in ("ReedSolomonError", "RSCodecError") else "other")
        call = rec.calls[0] if rec.calls else None
        oc.oracle_cases += 1
        want = "ok %s %s" % (hx(msg), hx(par))
        key = "contract_W_%s_algo%d" % ("errors" if mode == "errors" else "errata", algo)
        st = wstat.setdefault(key, [0, 0])
        if call is not None and within:
            st[0] += 1
            # what W requires of the library (message part right-justified to k; parity possibly stripped of leading nulls for codecs 1/2)
            cwm = bytes(k - len(msg)) + msg
            ok_w = call["result"].startswith("ok:")
            if ok_w:
                _, a, b = call["result"].split(":")
                a, b = common.unhx(a), common.unhx(b)
                ok_w = (a == cwm) and (b == par or (algo in (1, 2) and len(b) <= nsym and bytes(nsym - len(b)) + b == par))
            if ok_w:
                st[1] += 1
        if within and out != want:
            v = {"input": {"algo": algo, "n": n, "k_ctor": k0, "k_call": k if percall else None, "msg": msg.hex(), "received_msg": m2.hex(),
                           "received_ecc": p2.hex(), "mode": mode, "erasure_symbol": ec},
                 "impl": {"facade": out, "library_call": None if call is None else {kk: vv for kk, vv in call.items() if kk != "exc"}},
                 "required": want, "what": "decode did not return the original message and parity for a pattern within capacity"}
            if classify_f19(call):
                v["finding"] = "F19"
            oc.violations.append(v)
        # ---- correspondence at both interfaces of the facade
        en, oe = ("1" if dkw.get("enable_erasures") else "0"), ("1" if dkw.get("only_erasures") else "0")
        base = "%d %d %d %d %s %s %s %d %s" % (algo, n, k0, karg, hx(m2), hx(p2), en, ec, oe)
        if call is None:
            lines.append("prep " + base)
            impl.append("early")
            lines.append("dec %s err:none" % base)
            impl.append(out)
        else:
            lines.append("prep " + base)
            impl.append("%s %d %s %d %d" % (hx(call["word"]), call["nsym"], "none" if call["erase"] is None else nums(call["erase"]),
                                            1 if call["only"] else 0, k - len(msg) if len(msg) < k else 0))
            lines.append("dec %s %s" % (base, call["result"]))
            impl.append(out)
        oc.count("algo:%d" % algo)
        oc.count("mode:" + mode)
        oc.count("at-capacity" if (mode == "errors" and len(pos) == nsym // 2) or (mode != "errors" and within and 2 * len(pos) + f >= nsym - 1) else "below-capacity")
        if pos or mode != "errors":
            oc.distinct.add(lines[-2])
        if i % max(1, n_cases // 4) == 0:
            oc.sample({"request": lines[-1][:300], "impl_reply": impl[-1][:200]})
    oc.extra.update({k_: {"within_capacity_calls": v[0], "returned_the_codeword": v[1]} for k_, v in sorted(wstat.items())})
    if model_available:
        model, err = common.run_driver(lines)
        if model is None:
            oc.x_disagreements.append({"driver_error": err})
        else:
            for l, mm, ii in zip(lines, model, impl):
                oc.x_cases += 1
                if mm != ii:
                    oc.x_disagreements.append({"request": l[:400], "model": mm[:300], "impl": ii[:300]})
    else:
        oc.notes.append("Lean model did not build: correspondence X not run")


def replay_finding(f):
    return cu.replay_f19(f)


def search(seed, tier, hints):
    oc = common.Outcome()
    run(oc, "thorough" if tier == "thorough" else "quick", seed + 20202, False, True)
    vs = [v for v in oc.violations if v.get("finding") != "F19"]
    return vs[0] if vs else None


def replay(payload):
    inp = payload["input"]
    man = cu.manager(inp["algo"], inp["n"], inp["k_ctor"])
    kw = {"k": inp["k_call"]} if inp.get("k_call") else {}
    dkw = {} if inp["mode"] == "errors" else {"enable_erasures": True, "erasures_char": inp["erasure_symbol"], "only_erasures": inp["mode"] == "only_erasures"}
    msg = bytes.fromhex(inp["msg"])
    with common.quiet():
        par = bytes(man.encode(msg, **kw))
    try:
        with common.quiet():
            res = man.decode(bytes.fromhex(inp["received_msg"]), bytes.fromhex(inp["received_ecc"]), **kw, **dkw)
        ok = (bytes(res[0]), bytes(res[1])) == (msg, par)
        common.say("decode ->", bytes(res[0]).hex(), bytes(res[1]).hex(), "expected", msg.hex(), par.hex())
    except Exception as e:
        ok = False
        common.say("decode raised", repr(e))
    return 0 if ok else 1
