"""C17 — file-scraping recovery (`pff hash --filescraping_recovery`)."""
import os
import random

import common
import rfigc_util as ru
from common import hx

LEAN_MODULES = ["Pff.Props.C17", "Pff.Props.Csv", "Pff.Props.Path", "Pff.Props.RfigcDb"]
PROP_MODULE = "Pff.Props.C17"
THEOREMS = ["Pff.Rfigc.C17_recover", "Pff.Rfigc.C17_complete", "Pff.Rfigc.C17_unknown_ignored", "Pff.Rfigc.C17_md5_twins_recovered",
            "Pff.Csv.C05_csv_roundtrip",
            "Pff.Csv.C05_db_roundtrip",
            "Pff.RfigcDb.C05_db_file_roundtrip",
            "Pff.Path.PATH_gen_root_independent", "Pff.Path.PATH_relFS_nodup"]
MODELLED = [("pyFileFixity/rfigc.py", "main")]
TRUSTED_BASE = [
    "Lean 4.33.0 kernel; axioms per theorem under coverage.theorems (subset of propext, Classical.choice, Quot.sound)",
    "hand-written model lean/Pff/Model/Rfigc.lean (md5/sha1 index with last-row-wins, recognition rule, last write wins), tied to /repo by "
    "running the real recovery on renamed / flattened / re-nested scraped folders and comparing output paths, bytes and mtimes",
    "hashlib is a parameter; recognition assumes no md5/sha1 collision among recorded and scraped contents (explicit hypothesis)",
    "shutil.copy2 / os.utime / os.makedirs exercised, not modelled",
]
ASSUMPTIONS = ["recorded files have pairwise distinct contents (as the property states); duplicates are exercised against the model only"]
RULE = ("trees of 1-6 files with pairwise distinct contents and csv-hostile names; scraped folder = random subset of the recorded contents "
        "under arbitrary new names/nesting, plus unknown files and bit-flipped copies; a share of cases with all contents present; "
        "non-trivial = at least one recorded file found and one unknown/damaged file mixed in; distinct = distinct request")


def run(oc, tier, seed, model_available, escalate):
    rng = random.Random(seed * 7368787 + 17)
    n = 250 if tier == "quick" else 3000
    if escalate:
        n *= 3
    d = os.path.join(common.scratch(), "c17")
    lines, impl = [], []
    for i in range(n):
        ru.rmtree(d)
        tree = ru.gen_tree(rng)
        foreign_twin = None
        if i % 6 == 2:
            # directed: two RECORDED files with different contents and the same md5 (the published collision pair + a common suffix): both
            # must be recovered - a file is told by both its hashes together
            suf = bytes(rng.randrange(256) for _ in range(rng.choice([0, 3, 30])))
            tree["twins/first.bin"] = (ru.MD5_TWINS[0] + suf, ru.BASE_NS)
            tree[rng.choice(["twins/second.bin", "zz second.bin", "a_second.bin"])] = (ru.MD5_TWINS[1] + suf, ru.BASE_NS + 5 * 10**9)
            oc.count("directed: two recorded files sharing their md5")
        elif i % 6 == 4:
            # directed: ONE recorded file of the pair; its md5 twin lies in the scraped folder as an unknown file (walked before or after
            # the genuine copy): it must create nothing and must not keep the genuine copy from being recovered
            suf = bytes(rng.randrange(256) for _ in range(rng.choice([0, 3, 30])))
            tree["data/blob.bin"] = (ru.MD5_TWINS[0] + suf, ru.BASE_NS)
            foreign_twin = ru.MD5_TWINS[1] + suf
            oc.count("directed: unknown scraped file sharing its md5 with a recorded file")
        if i % 5 == 3 and not any(len(c_) == 0 for c_, _m in tree.values()):
            # directed: a zero-length recorded file walked FIRST (so that its row is not the last one)
            tree["!0_placeholder.lock"] = (b"", ru.BASE_NS + 3 * 10**9)
            oc.count("directed: zero-length recorded file as first row")
        root = os.path.join(d, "orig")
        ru.write_tree(root, tree)
        db = os.path.join(d, "db.csv")
        ru.run_main(["-i", root, "-d", db, "-g", "-f", "--silent"])
        # scraped folder
        # folder names: unrelated, output a character-prefix of the input path, input a character-prefix of the output path
        scr_name, out_name = rng.choice([("scraped", "out"), ("recovered_raw", "recovered"), ("rec", "rec_out"), ("in put", "in")])
        scr = os.path.join(d, scr_name)
        os.makedirs(scr)
        complete = rng.random() < 0.3
        scraped = {}
        k = 0
        extra = False
        for p, (c, m) in sorted(tree.items()):
            if complete or rng.random() < 0.6:
                for _ in range(1 if rng.random() < 0.85 else 2):
                    k += 1
                    if rng.random() < 0.25 and p not in scraped:
                        scraped[p] = c          # (a file that is still at its exact recorded relative path in the scraped folder)
                        oc.count("scraped file still at its recorded relative path")
                    else:
                        scraped["/".join(rng.choice([[], ["x"], ["x", "y y"], ["lost+found"]]) + ["f%04d.chk" % k])] = c
            if rng.random() < 0.3 and c:
                cc = bytearray(c)
                cc[rng.randrange(len(cc))] ^= 0x10
                k += 1
                scraped["dmg%d" % k] = bytes(cc)
                extra = True
        for _ in range(rng.randint(0, 2)):
            k += 1
            scraped["unknown%d.bin" % k] = b"unknown-%d-%d" % (i, k)
            extra = True
        if foreign_twin is not None:
            scraped[rng.choice(["000 twin.bin", "zzz twin.bin", "x/twin"])] = foreign_twin
            if not any(c == tree["data/blob.bin"][0] for c in scraped.values()):
                scraped["genuine.chk"] = tree["data/blob.bin"][0]
            extra = True
        # modification times of the scraped files: mostly unrelated to the recorded ones (files carved out of an image), but some keep EXACTLY
        # their recorded time (renamed or moved in place, copied with preserved attributes): the recorded time must be on the output either way
        rec_m = {c_: m_ for (c_, m_) in tree.values()}
        keep_times = rng.random() < 0.5
        ru.write_tree(scr, {p: (c, rec_m[c] if (keep_times and c in rec_m and rng.random() < 0.7) else ru.BASE_NS + 77 * 10**9)
                            for p, c in scraped.items()})
        if keep_times:
            oc.count("scraped files keeping their recorded modification time")
        out = os.path.join(d, out_name)
        os.makedirs(out)
        logopt = ["-l", os.path.join(d, "scrape.log")] if i % 3 == 1 else []      # with a log file: every message is also written there
        rc, _ = ru.run_main(["-i", scr, "-d", db, "--filescraping_recovery", "-o", out, "--silent"] + logopt)
        if logopt:
            oc.count("with --log")
        oc.oracle_cases += 1
        got = {}
        for r_, _ds, fs in os.walk(out):
            for f in fs:
                pth = os.path.join(r_, f)
                got[os.path.relpath(pth, out).replace(os.sep, "/")] = (open(pth, "rb").read(), os.stat(pth).st_mtime_ns)
        found = set(scraped.values())
        want = {p: (c, m) for p, (c, m) in tree.items() if c in found}
        ok = set(got) == set(want) and all(got[p][0] == want[p][0] and abs(got[p][1] - want[p][1]) < 1000 for p in want)
        if not ok or (rc not in ("0", "None") and rc != "0"):
            oc.violations.append({"input": {"tree": {p: c.hex() for p, (c, m) in tree.items()}, "scraped": {p: c.hex() for p, c in scraped.items()}},
                                  "impl": {"exit": rc, "output": sorted(got)}, "required": {"output": sorted(want)},
                                  "what": "recovered tree is not exactly the recorded files whose content was found (path, bytes, mtime)"})
        # walk order of the scraped folder matters only for duplicates (last write wins): pass contents in real walk order
        from pyFileFixity.lib.aux_funcs import recwalk
        order = [open(os.path.join(dp, fn), "rb").read() for dp, fn in recwalk(scr)]
        lines.append("rfscrape %s ; %s ; %s" % (ru.file_tokens(tree), " ".join(hx(c) for c in order) if order else "",
                                               ru.ht_tokens([c for c, _ in tree.values()] + order)))
        impl.append(" ".join(sorted("%s:%s:%d" % (hx(p.encode()), hx(c), (m // 1000) * 1000) for p, (c, m) in got.items())) or "-")
        oc.count("complete" if complete else "partial")
        if want and extra:
            oc.distinct.add(lines[-1])
        if i % max(1, n // 4) == 0:
            oc.sample({"request": lines[-1][:500], "impl_reply": impl[-1][:300]})
    ru.rmtree(d)
    if model_available:
        model, err = common.run_driver(lines)
        if model is None:
            oc.x_disagreements.append({"driver_error": err})
        else:
            for l, mm, ii in zip(lines, model, impl):
                oc.x_cases += 1
                if mm != ii:
                    oc.x_disagreements.append({"request": l[:700], "model": mm[:400], "impl": ii[:400]})
    else:
        oc.notes.append("Lean model did not build: correspondence X not run")


def search(seed, tier, hints):
    oc = common.Outcome()
    run(oc, "quick", seed + 171717, False, True)
    return oc.violations[0] if oc.violations else None


def replay(payload):
    print("replay input:", payload.get("input"))
    print("re-running the check with the recorded seed and tier (real files and mtimes are involved)")
    return common.replay_by_rerun("C17", payload)
