"""C19 — the tampering tool (filetamper.tamper_file / tamper_dir / main)."""
import contextlib
import io
import os
import random
import re
import shutil
import sys

import common
from common import hx, nums

LEAN_MODULES = ["Pff.Props.C19"]
PROP_MODULE = "Pff.Props.C19"
THEOREMS = ["Pff.Tamper.C19_length", "Pff.Tamper.C19_region", "Pff.Tamper.C19_erasure_zero", "Pff.Tamper.C19_count_bounds",
            "Pff.Tamper.C19_p0_identity", "Pff.Tamper.C19_dir_once", "Pff.Tamper.C19_single_as_dir"]
MODELLED = [("pyFileFixity/filetamper.py", "tamper_file"), ("pyFileFixity/filetamper.py", "tamper_dir")]
TRUSTED_BASE = [
    "Lean 4.33.0 kernel; axioms per theorem under coverage.theorems (subset of propext, Classical.choice, Quot.sound)",
    "hand-written model lean/Pff/Model/Tamper.lean over an arbitrary oracle stream; tied to /repo by replaying the recorded random "
    "stream of real seeded runs into the model (bytes, counts, number of draws must agree)",
    "assumed of `random`: random.random() >= 0 (so `random() < 0` is never true) and lo <= randint(lo,hi) <= hi",
    "OS semantics of r+b files (read/seek/write/tell) and recwalk exercised, not modelled; argparse / CLI dispatch exercised by main() cases",
]
ASSUMPTIONS = ["mode strings other than e/erasure/n/noise select positions but write nothing (modelled as Mode.other)"]
RULE = ("files of sizes {0,1,small random, 65535,65536,65537 (CLI cases)}, modes e/n/other, probabilities {0, fractions, >=1 expected counts}, "
        "block probability unset/set, burst ranges incl. bursts longer than a block, header sizes {unset,1,smaller/equal/larger than the file}, "
        "function-level calls with small block sizes and CLI runs on single files and directories; the random stream of each real run is "
        "recorded (outcome of every `random() < x`, value of every randint) and replayed into the model; non-trivial = at least one byte "
        "selected; distinct = distinct request line")


class RecordingRandom:
    """stands in for the `random` module inside filetamper: same stream as random.Random(seed), with
    every `random() < x` outcome and every randint value logged in program order"""

    def __init__(self, seed):
        self.r = random.Random(seed)
        self.log = []
        outer = self

        class F(float):
            def __lt__(self, other):
                res = float.__lt__(self, other)
                outer.log.append(1 if res else 0)
                return res
        self.F = F

    def random(self):
        return self.F(self.r.random())

    def randint(self, a, b):
        v = self.r.randint(a, b)
        self.log.append(v)
        return v


def ft():
    from pyFileFixity import filetamper
    return filetamper


def mode_tok(mode):
    return {"e": "e", "erasure": "e", "n": "n", "noise": "n"}.get(mode, "o")


def gen_params(rng, size, cli=False):
    mode = rng.choice(["e", "n", "e", "n", "erasure", "noise"] + ([] if cli else ["x"]))
    proba = rng.choice([0, 0.0, 0.01, 0.05, 0.2, 0.5, 0.9, 1, 2, 5])
    block_proba = rng.choice([None, None, 0.0, 0.3, 0.7, 1.0])
    burst = rng.choice([None, None, [1, 1], [2, 4], [3, 9], [0, 2], [50, 60]])
    header = rng.choice([None, None, None, 1, 2, max(1, size // 2), max(1, size), size + 3])
    return mode, proba, block_proba, burst, header


def request_line(mode, block_proba, burst, header, bs, content, log):
    return "tamper %s %d %d %s %d %s %s" % (mode_tok(mode), 1 if block_proba else 0, 1 if burst else 0,
                                             "-" if not (header and header > 0) else str(header), bs, hx(content), nums(log))


def check_file_props(content, out, count, total, mode, proba, header, what_prefix=""):
    """property oracle for one file"""
    errs = []
    if len(out) != len(content):
        errs.append("length changed %d -> %d" % (len(content), len(out)))
    region = len(content) if not (header and header > 0) else min(header, len(content))
    if out[region:] != content[region:]:
        errs.append("bytes outside the selected region (first %d) were touched" % region)
    diff = sum(1 for a, b in zip(content, out) if a != b)
    if mode_tok(mode) == "e" and any(b != 0 for a, b in zip(content, out) if a != b):
        errs.append("erasure mode wrote a non-zero byte")
    if count is not None:
        if not (diff <= count <= region):
            errs.append("reported count %d not within [differing=%d, region=%d]" % (count, diff, region))
        if total is not None and not (count <= total <= region):
            errs.append("reported total %d not within [count=%d, region=%d]" % (total, count, region))
    if proba == 0 and out != content:
        errs.append("probability 0 changed the file")
    return errs


def run(oc, tier, seed, model_available, escalate):
    m = ft()
    rng = random.Random(seed * 32452843 + 19)
    nfun = 1200 if tier == "quick" else 15000
    ncli = 40 if tier == "quick" else 400
    if escalate:
        nfun *= 3
    d = os.path.join(common.scratch(), "c19")
    os.makedirs(d, exist_ok=True)
    lines, impl = [], []
    orig_random = m.random
    try:
        # ---- function level, small block sizes
        for i in range(nfun):
            size = rng.choice([0, 1, 2, 3, 5, 8, 13, 30, 64])
            content = bytes(rng.randrange(1, 256) if rng.random() < 0.8 else 0 for _ in range(size))
            mode, proba, block_proba, burst, header = gen_params(rng, size)
            bs = rng.choice([1, 2, 3, 4, 7, 8, 16, 100])
            p = os.path.join(d, "f.bin")
            open(p, "wb").write(content)
            rec = RecordingRandom(rng.getrandbits(32))
            m.random = rec
            try:
                count, total = m.tamper_file(p, mode=mode, proba=proba, block_proba=block_proba, blocksize=bs,
                                             burst_length=burst, header=header)
                out = open(p, "rb").read()
                rep = "%s %d %d 0" % (hx(out), count, total)
                errs = check_file_props(content, out, count, total, mode, proba, header)
            except Exception as e:
                out = open(p, "rb").read()
                rep = "exception:%s" % type(e).__name__
                errs = ["tamper_file raised %r" % (e,)]
            finally:
                m.random = orig_random
            oc.oracle_cases += 1
            for e in errs:
                oc.violations.append({"input": {"level": "function", "content": content.hex(), "mode": mode, "proba": proba,
                                                "block_proba": block_proba, "burst": burst, "header": header, "blocksize": bs,
                                                "random_stream": rec.log},
                                      "impl": {"out": out.hex(), "reply": rep}, "what": e})
            lines.append(request_line(mode, block_proba, burst, header, bs, content, rec.log))
            impl.append(rep)
            oc.count("fn mode:" + mode_tok(mode))
            oc.count("fn proba:%s" % ("0" if proba == 0 else (">=1" if proba >= 1 else "fraction")))
            oc.count("fn header:%s" % ("unset" if not header else ("<size" if header < size else ">=size")))
            oc.count("fn burst:%s" % ("set" if burst else "unset"))
            oc.count("fn block_proba:%s" % ("set" if block_proba else "unset"))
            if out != content:
                oc.distinct.add(lines[-1])
            if i % max(1, nfun // 3) == 0:
                oc.sample({"request": lines[-1][:300], "impl_reply": rep[:200]})
        # ---- CLI level: single file and directory, real block size 65536
        for i in range(ncli):
            kind = rng.choice(["file", "dir", "file", "dir"]) if i % 8 else "file"
            root = os.path.join(d, "cli")
            shutil.rmtree(root, ignore_errors=True)
            os.makedirs(root)
            sizes = [rng.choice([65536, 65536, 65540, 131071] if i % 8 == 0 else ([0, 1, 10, 200, 65535, 65536, 65537, 70000] if i % 4 == 0 else [0, 1, 10, 200, 1000]))
                     for _ in range(1 if kind == "file" else rng.randint(1, 4))]
            names = ["a.bin", "b/c.bin", "b/d/e.bin", "z.bin"]
            files = {}
            for nme, sz in zip(names, sizes):
                files[nme] = bytes(rng.randrange(1, 256) for _ in range(sz))
                pth = os.path.join(root, nme)
                os.makedirs(os.path.dirname(pth), exist_ok=True)
                open(pth, "wb").write(files[nme])
            mode, proba, block_proba, burst, header = gen_params(rng, max(sizes), cli=True)
            if max(sizes) > 60000 and proba and proba < 1:
                proba = 0.0005
            if max(sizes) >= 65536 and i % 8 == 0:
                # files longer than one block (65536 bytes) with options whose use of the random stream depends on the block boundaries
                mode, header = rng.choice(["noise", "erasure"]), rng.choice([None, None, 65537, 100000])
                # (with a block probability the number of draws depends on the number of blocks: 65536 bytes are one block of 65536 but two of 65535)
                proba = rng.choice([0.5, 0.9, 0.2])
                block_proba = rng.choice([0.7, 1.0, 0.7])
                burst = None
            argv = ["-i", os.path.join(root, "a.bin") if kind == "file" else root, "-m", mode, "-p", str(proba)]
            if block_proba is not None:
                argv += ["--block_probability", str(block_proba)]
            if burst:
                argv += ["-b", "%d|%d" % tuple(burst)]
            if header:
                argv += ["--header", str(header)]
            rseed = rng.getrandbits(32)
            rec = RecordingRandom(rseed)
            m.random = rec
            try:
                with common.captured() as buf:
                    rc = m.main(argv)
                txt = buf.getvalue()
                exc = None
            except BaseException as e:  # argparse may SystemExit
                txt = buf.getvalue()
                rc = None
                exc = e
            finally:
                m.random = orig_random
            oc.oracle_cases += 1
            outs = {nme: open(os.path.join(root, nme), "rb").read() for nme in files}
            after_names = sorted(os.path.relpath(os.path.join(r, f), root).replace(os.sep, "/")
                                 for r, _d, fs in os.walk(root) for f in fs)
            errs = []
            if exc is not None or rc != 0:
                errs.append("main() did not complete normally: rc=%r exc=%r" % (rc, exc))
            if after_names != sorted(files):
                errs.append("set of files changed: %r" % (after_names,))
            mm = re.search(r"overall (\d+)/(\d+)", txt) if kind == "dir" else re.search(r"Tampering done: (\d+)/(\d+)", txt)
            tcount = int(mm.group(1)) if mm else None
            ttotal = int(mm.group(2)) if mm else None
            if exc is None and tcount is None:
                errs.append("no tampered-character count reported")
            totdiff = 0
            region_sum = 0
            for nme in files:
                errs += ["%s: %s" % (nme, e) for e in check_file_props(files[nme], outs[nme], None, None, mode, proba, header)]
                totdiff += sum(1 for a, b in zip(files[nme], outs[nme]) if a != b)
                region_sum += len(files[nme]) if not header else min(header, len(files[nme]))
            if tcount is not None and not (totdiff <= tcount <= region_sum):
                errs.append("reported count %d not within [differing=%d, region=%d]" % (tcount, totdiff, region_sum))
            if kind == "file" and exc is None:
                # "a single file behaves as on a one-file directory": same file, same options, same random stream, given as a directory
                one = os.path.join(d, "cli1")
                shutil.rmtree(one, ignore_errors=True)
                os.makedirs(one)
                open(os.path.join(one, "a.bin"), "wb").write(files["a.bin"])
                rec1 = RecordingRandom(rseed)
                m.random = rec1
                try:
                    with common.captured() as buf1:
                        rc1 = m.main(["-i", one] + argv[2:])
                    txt1 = buf1.getvalue()
                except BaseException as e1:
                    rc1, txt1 = "exception:%s" % type(e1).__name__, ""
                finally:
                    m.random = orig_random
                out1 = open(os.path.join(one, "a.bin"), "rb").read()
                mm1 = re.search(r"overall (\d+)/(\d+)", txt1)
                if rc1 != 0 or out1 != outs["a.bin"] or (mm1 and tcount is not None and (int(mm1.group(1)), int(mm1.group(2))) != (tcount, ttotal)):
                    errs.append("the file given alone and the same file as a one-file directory are not tampered alike with the same random stream "
                                "(exit %r; bytes equal: %s; counts %s vs %s/%s)" % (rc1, out1 == outs["a.bin"], mm1.groups() if mm1 else None, tcount, ttotal))
                shutil.rmtree(one, ignore_errors=True)
                oc.count("cli: file vs one-file directory")
            for e in errs:
                oc.violations.append({"input": {"level": "cli", "argv": argv[2:], "kind": kind,
                                                "files": {k: v.hex() for k, v in files.items()},
                                                "random_stream_len": len(rec.log)},
                                      "impl": {"stdout": txt[-300:]}, "what": e})
            oc.count("cli:" + kind)
            # model replay (walk order of recwalk: files of a directory first, then sub-directories)
            order = [n for n in ["a.bin", "z.bin", "b/c.bin", "b/d/e.bin"] if n in files]
            if exc is None and max(sizes) <= 1000:
                if kind == "dir":
                    mfiles_tampered = len([1 for n in order if files[n] != outs[n]])
                    lines.append("tamperdir %s %d %d %s %d %s %s" % (
                        mode_tok(mode), 1 if block_proba else 0, 1 if burst else 0, "-" if not header else str(header), 65536,
                        nums(rec.log), " ".join("%s:%s" % (n.encode().hex(), hx(files[n])) for n in order)))
                    mmm = re.search(r"Tampering done: (\d+)/(\d+) files tampered and overall (\d+)/(\d+)", txt)
                    impl.append("%s %s %s %s 0 %s" % (mmm.group(1), mmm.group(2), mmm.group(3), mmm.group(4),
                                                      " ".join("%s:%s" % (n.encode().hex(), hx(outs[n])) for n in order)) if mmm else "unparsed")
                else:
                    lines.append(request_line(mode, block_proba, burst, header, 65536, files["a.bin"], rec.log))
                    impl.append("%s %s %s 0" % (hx(outs["a.bin"]), tcount, ttotal))
                oc.distinct.add(lines[-1])
                if i < 2:
                    oc.sample({"request": lines[-1][:300], "impl_reply": impl[-1][:200]})
    finally:
        m.random = orig_random
    if model_available:
        model, err = common.run_driver(lines)
        if model is None:
            oc.x_disagreements.append({"driver_error": err})
        else:
            for l, mm_, ii in zip(lines, model, impl):
                oc.x_cases += 1
                if mm_ != ii:
                    oc.x_disagreements.append({"request": l[:500], "model": mm_[:300], "impl": ii[:300]})
    else:
        oc.notes.append("Lean model did not build: correspondence X not run")


def search(seed, tier, hints):
    oc = common.Outcome()
    run(oc, "thorough" if tier == "thorough" else "quick", seed + 191919, False, True)
    return oc.violations[0] if oc.violations else None


def replay(payload):
    inp = payload["input"]
    print("replay input:", inp)
    if inp.get("level") != "function":
        print("CLI-level replay: re-run the check with the recorded seed")
        return 0
    m = ft()
    d = os.path.join(common.scratch(), "c19r")
    os.makedirs(d, exist_ok=True)
    p = os.path.join(d, "f.bin")
    content = bytes.fromhex(inp["content"])
    open(p, "wb").write(content)

    class Replay:
        def __init__(self, log):
            self.log = list(log)

        def random(self):
            outer = self

            class F(float):
                def __lt__(self, other):
                    return bool(outer.log.pop(0)) if outer.log else False
            return F(0.5)

        def randint(self, a, b):
            return self.log.pop(0) if self.log else a
    orig = m.random
    m.random = Replay(inp["random_stream"])
    try:
        count, total = m.tamper_file(p, mode=inp["mode"], proba=inp["proba"], block_proba=inp["block_proba"],
                                     blocksize=inp["blocksize"], burst_length=inp["burst"], header=inp["header"])
        out = open(p, "rb").read()
        errs = check_file_props(content, out, count, total, inp["mode"], inp["proba"], inp["header"])
    except Exception as e:
        errs = ["raised %r" % (e,)]
    finally:
        m.random = orig
    print("errors:", errs)
    return 1 if errs else 0
