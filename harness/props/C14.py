"""C14 — entry scanning (lib/aux_funcs.get_next_entry)."""
import io
import itertools
import os
import random

import common
from common import hx

LEAN_MODULES = ["Pff.Props.C14"]
PROP_MODULE = "Pff.Props.C14"
THEOREMS = ["Pff.Scan.C14_call", "Pff.Scan.C14_scan", "Pff.Scan.C14_intended", "Pff.Scan.C14_scan_built",
            "Pff.Scan.C14_content_built", "Pff.Scan.C14_negative_pinned"]
MODELLED = [("pyFileFixity/lib/aux_funcs.py", "get_next_entry")]
TRUSTED_BASE = [
    "Lean 4.33.0 kernel; axioms per theorem under coverage.theorems (subset of propext, Classical.choice, Quot.sound)",
    "hand-written model lean/Pff/Model/Scan.lean of get_next_entry (state machine, one Lean step per loop iteration), tied to /repo by this run's correspondence cases",
    "Python semantics modelled, not verified: bytearray.find(sub, start), file read/seek/tell on a regular file or BytesIO",
    "the default marker constant is regenerated from the source by harness/translate.py (Pff.Consts.scanMarker)",
]
ASSUMPTIONS = [
    "property-level oracle (intended bounds) is applied to streams without accidental marker; the stronger general spec "
    "(first occurrence at/after the cursor, then first occurrence at/after its end) is what the theorems prove and what X compares on all streams",
]
RULE = ("streams = preamble + 0..6 entries over the alphabet {0xFE,0xFF,'A'} (the marker's own bytes), entry lengths 1 byte .. 4 buffers, "
        "markers of length 10 (the real one), 4, 2 and 1; buffer sizes from 1 (normalised by the code) over marker length + 1 to beyond the "
        "stream; both return modes and the cursor after each call; a share of streams with accidental / overlapping markers (general spec only); "
        "non-trivial = at least one marker in the stream; distinct = distinct (marker, stream, bs)")

M10 = bytes([0xFE, 0xFF] * 5)


def gne():
    from pyFileFixity.lib import aux_funcs
    return aux_funcs.get_next_entry


def occurrences(s, m):
    return [i for i in range(len(s) - len(m) + 1) if s[i:i + len(m)] == m]


def spec_next(s, m, pos):
    i = s.find(m, pos)
    if i < 0:
        return None
    a = i + len(m)
    j = s.find(m, a)
    return (a, j if j >= 0 else len(s))


def spec_all(s, m):
    res = []
    pos = 0
    while True:
        r = spec_next(s, m, pos)
        if r is None:
            return res
        res.append(r)
        pos = r[0]


def impl_call(s, m, bs, pos, only_coord):
    f = io.BytesIO(s)
    f.seek(pos)
    try:
        r = gne()(f, m, only_coord, bs)
    except Exception as e:
        return "exception:%s" % type(e).__name__
    p = f.tell()
    if r is None:
        return "none %d" % p
    if only_coord:
        return "%d,%d %d" % (r[0], r[1], p)
    return "%s %d" % (hx(r), p)


def impl_all(s, m, bs):
    f = io.BytesIO(s)
    res = []
    try:
        for _ in range(len(s) + 3):
            r = gne()(f, m, True, bs)
            if r is None:
                break
            res.append((r[0], r[1]))
        else:
            return "no-termination"
    except Exception as e:
        return "exception:%s" % type(e).__name__
    return " ".join("%d,%d" % ab for ab in res) if res else "-"


def gen_stream(rng, tier):
    m = rng.choice([M10, M10, M10, bytes([0xFE, 0xFF, 0xFE, 0xFF]), bytes([0xFE, 0xFF]), bytes([0xFE])])
    alpha = [0xFE, 0xFF, 0x41]
    mode = rng.choice(["clean", "clean", "clean", "wild"])
    bs = rng.choice([1, len(m), len(m) + 1, len(m) + 1, len(m) + 2, len(m) + 3, 2 * len(m) - 1, 2 * len(m), 2 * len(m) + 1,
                     rng.randint(len(m) + 1, 4 * len(m) + 5), 64, 65535])

    def rnd(n):
        return bytes(rng.choice(alpha) for _ in range(n))

    for _ in range(200):
        ne = rng.randrange(0, 7)
        pre = rnd(rng.choice([0, 0, 1, 3, len(m), bs - 1 if bs < 100 else 7, bs if bs < 100 else 9, rng.randrange(0, 30)]))
        entries = []
        for _e in range(ne):
            ln = rng.choice([1, 1, 2, len(m) - 1 or 1, len(m), max(1, (bs if bs < 100 else 20) - len(m)), max(1, bs if bs < 100 else 20),
                             rng.randint(1, 4 * (bs if bs < 100 else 20))])
            entries.append(rnd(ln))
        s = pre + b"".join(m + e for e in entries)
        if mode == "wild":
            return m, s, bs, None, mode
        if len(occurrences(s, m)) == ne:
            off = len(pre)
            intended = []
            for e in entries:
                intended.append((off + len(m), off + len(m) + len(e)))
                off += len(m) + len(e)
            return m, s, bs, intended, mode
    return m, b"", bs, [], "clean"


def check_stream(m, s, bs, intended):
    """oracle on the implementation; returns (violation or None, impl scanall reply)"""
    rep = impl_all(s, m, bs)
    want = spec_all(s, m)
    wants = " ".join("%d,%d" % ab for ab in want) if want else "-"
    v = None
    if intended is not None:
        assert want == intended
        if rep != wants:
            v = {"input": {"marker": m.hex(), "stream": s.hex(), "blocksize": bs},
                 "impl": rep, "required": wants,
                 "what": "scanning does not return each entry once with exact bounds (no accidental marker in the stream)"}
    return v, rep


def run(oc, tier, seed, model_available, escalate):
    rng = random.Random(seed * 15485863 + 14)
    n = 12000 if tier == "quick" else 150000
    if escalate:
        n *= 3
    lines, impl = [], []
    streams = []
    cdir = os.path.join(common.CORPUS, "C14")
    if os.path.isdir(cdir):
        import json
        for f in sorted(os.listdir(cdir)):
            c = json.load(open(os.path.join(cdir, f)))
            m, s = bytes.fromhex(c["marker"]), bytes.fromhex(c["stream"])
            streams.append((m, s, c["blocksize"], spec_all(s, m) if len(occurrences(s, m)) == len(spec_all(s, m)) else None, "corpus"))
    for _ in range(n):
        streams.append(gen_stream(rng, tier))
    if tier == "thorough":
        # exhaustive: all streams of length <= 11 over {FE, FF} with the 4-byte marker FE FF FE FF, buffer sizes 5..9
        m4 = bytes([0xFE, 0xFF, 0xFE, 0xFF])
        for L in range(0, 12):
            for w in itertools.product([0xFE, 0xFF], repeat=L):
                s = bytes(w)
                for bs in (5, 6, 7, 9):
                    streams.append((m4, s, bs, None, "exhaustive"))
        oc.notes.append("exhaustive sub-space: all 4095 streams of length <= 11 over {FE,FF}, marker FEFFFEFF, buffer sizes 5,6,7,9 (general spec)")
    for idx, (m, s, bs, intended, mode) in enumerate(streams):
        v, rep = check_stream(m, s, bs, intended)
        oc.oracle_cases += 1
        if v:
            oc.violations.append(v)
        lines.append("scanall %d %s %s" % (bs, hx(m), hx(s)))
        impl.append(rep)
        oc.count("mode:" + mode)
        oc.count("marker_len:%d" % len(m))
        oc.count("bs<=mlen" if bs <= len(m) else ("bs<2mlen" if bs < 2 * len(m) else "bs>=2mlen"))
        if occurrences(s, m):
            oc.distinct.add((m, s, bs))
        if mode != "exhaustive" and idx % 4 == 0:
            # single calls from arbitrary cursors, both return modes
            pos = rng.randint(0, len(s))
            lines.append("gne %d %d %s %s" % (bs, pos, hx(m), hx(s)))
            impl.append(impl_call(s, m, bs, pos, True))
            lines.append("gnec %d %d %s %s" % (bs, pos, hx(m), hx(s)))
            impl.append(impl_call(s, m, bs, pos, False))
            oc.count("single-call pairs")
        if idx % max(1, len(streams) // 4) == 0:
            oc.sample({"request": lines[-1][:300], "impl_reply": impl[-1][:200]})
    # ---- the scan as the whole-file tool drives it: get_next_entry (coordinates) then its entry_fields(), which moves the cursor of the
    # same file handle, then the next call - every marker of the stream must yield exactly one entry, whatever the entries hold (also entries
    # of 0-3 bytes, without delimiters, or full of delimiters)
    import io
    from pyFileFixity import structural_adaptive_ecc as sa_
    from pyFileFixity.lib.aux_funcs import get_next_entry as gne_
    MK = bytes([0xFE, 0xFF] * 5)
    DL = bytes([0xFA, 0xFF, 0xFA, 0xFF, 0xFA])
    rngl = random.Random(seed * 31337 + 14)
    for _ in range((300 if tier == "quick" else 5000) * (2 if escalate else 1)):
        ents = []
        for _e in range(rngl.randint(1, 6)):
            kind = rngl.choice(["tiny", "tiny", "normal", "nodelim", "delims", "empty"])
            if kind == "tiny":
                e = bytes(rngl.choice([0x41, 0xFA, 0xFF, 0x00]) for _ in range(rngl.randint(0, 4)))
            elif kind == "empty":
                e = b""
            elif kind == "normal":
                e = b"name" + DL + b"12" + DL + b"pp" + DL + b"ss" + DL + bytes(rngl.choice([0x41, 0x42, 0x00]) for _ in range(rngl.randint(0, 30)))
            elif kind == "nodelim":
                e = bytes(rngl.choice([0x41, 0x42, 0xFA]) for _ in range(rngl.randint(5, 25)))
            else:
                e = DL * rngl.randint(1, 5) + bytes(rngl.choice([0x41, 0xFF]) for _ in range(rngl.randint(0, 6)))
            ents.append(e)
        stream = bytes(rngl.choice([0x23, 0x2a]) for _ in range(rngl.randint(0, 12))) + b"".join(MK + e for e in ents)
        nmark = len(occurrences(stream, MK))
        fh = io.BytesIO(stream)
        got = []
        try:
            for _c in range(nmark + 3):
                pos = gne_(fh, MK, True)
                if pos is None:
                    break
                got.append(tuple(pos))
                sa_.entry_fields(fh, pos, DL)
            res = None
        except Exception as ex:
            res = "raised %s: %s" % (type(ex).__name__, str(ex)[:80])
        oc.oracle_cases += 1
        oc.count("scan loop of the whole-file tool (get_next_entry + entry_fields)")
        want = spec_all(stream, MK)
        if res is not None or got != [tuple(x) for x in want]:
            oc.violations.append({"input": {"marker": MK.hex(), "stream": stream.hex(), "blocksize": 65535, "loop": "get_next_entry + structural_adaptive_ecc.entry_fields"},
                                  "impl": {"entries": got, "error": res}, "required": {"entries": want},
                                  "what": "the scan loop of the whole-file tool (get_next_entry, then entry_fields on the same handle) does not yield every entry exactly once"})
    # ---- and as the complete correction loops drive it: on an ecc file whose entries lost bytes at their tail (the last read of a track then
    # runs into the next marker) every marker must still yield exactly one entry: files processed + files skipped = number of markers
    import shutil
    import ecc_scen as es
    import ecc_util as eu
    from props import C08 as c08
    dl = os.path.join(common.scratch(), "c14loop")
    for it in range((14 if tier == "quick" else 200) * (2 if escalate else 1)):
        shutil.rmtree(dl, ignore_errors=True)
        P = es.gen_params(rngl, small=True, erasures=False)
        P.mbs = max(P.mbs, 20)
        P.algo = rngl.choice([3, 4])
        if not P.well_formed():
            continue
        tree = es.gen_tree(rngl, P, nfiles=rngl.randint(2, 4), maxsize=300)
        if len(tree) < 2:
            continue
        root, ecc = os.path.join(dl, "root"), os.path.join(dl, "ecc.txt")
        eu.write_tree(root, tree)
        if eu.generate(P, root, ecc) != "0":
            continue
        data = open(ecc, "rb").read()
        if eu.accidental(data, len(tree)):
            continue
        bounds = eu.entry_bounds(data)
        new = data
        for (s_, e_) in reversed(bounds[:-1]):
            if rngl.random() < 0.7:
                f_ = eu.parse_entry(data, s_, e_)
                new = new[:s_] + c08.damage_entry(rngl, new[s_:e_], f_, s_, "tailcut") + new[e_:]
        nmark = len(occurrences(new, MK))
        if nmark != len(bounds):
            continue
        e2 = os.path.join(dl, "cut.txt")
        open(e2, "wb").write(new)
        rc, st, out, _txt = eu.correct(P, root, e2, os.path.join(dl, "out"))
        oc.oracle_cases += 1
        oc.count("complete correction loop on tail-cut entries (%s)" % P.tool)
        if rc.startswith("exception") or st is None or st[0] + st[5] != nmark:
            oc.violations.append({"input": {"params": P.describe(), "tree": {k: v.hex() for k, v in tree.items()}, "ecc": new.hex(), "markers": nmark},
                                  "impl": {"exit": rc, "stats": st},
                                  "what": "the correction loop did not visit every entry exactly once: files processed + skipped differs from the number "
                                          "of entry markers (%d)" % nmark})
    shutil.rmtree(dl, ignore_errors=True)
    if model_available:
        model, err = common.run_driver(lines)
        if model is None:
            oc.x_disagreements.append({"driver_error": err})
        else:
            for l, mm, ii in zip(lines, model, impl):
                oc.x_cases += 1
                if mm != ii:
                    oc.x_disagreements.append({"request": l, "model": mm, "impl": ii})
    else:
        oc.notes.append("Lean model did not build: correspondence X not run")


def search(seed, tier, hints):
    rng = random.Random(seed + 1414)
    best = None
    for _ in range(40000 if tier == "quick" else 400000):
        m, s, bs, intended, mode = gen_stream(rng, tier)
        if intended is None:
            continue
        v, _ = check_stream(m, s, bs, intended)
        if v and (best is None or len(s) < len(bytes.fromhex(best["input"]["stream"]))):
            best = v
            if len(s) < 30:
                break
    return best


def replay(payload):
    inp = payload["input"]
    m, s, bs = bytes.fromhex(inp["marker"]), bytes.fromhex(inp["stream"]), inp["blocksize"]
    rep = impl_all(s, m, bs)
    want = spec_all(s, m)
    wants = " ".join("%d,%d" % ab for ab in want) if want else "-"
    print("impl:", rep, "required:", wants)
    return 0 if rep == wants else 1
