"""C03 — undamaged trees verify clean (both ecc tools)."""
import os
import random
import shutil

import common
import ecc_file_x as fx
import ecc_scen as es
import ecc_util as eu

LEAN_MODULES = ["Pff.Props.C03", "Pff.Props.RunC", "Pff.Props.Bridge", "Pff.Props.NonVacuity", "Pff.Props.Path", "Pff.Props.PathRun"]
PROP_MODULE = "Pff.Props.C03"
THEOREMS = ["Pff.Ecc.C03_whole_file_partial", "Pff.Ecc.C03_header_file_partial", "Pff.Ecc.C03_exit",
            "Pff.Layout.C10_agree_whole", "Pff.Layout.C10_agree_header",
            "Pff.Run.C03_run_pristine",
            "Pff.Bridge.C03_clean_ops_A",
            "Pff.Bridge.C03_clean_ops_B",
            "Pff.NonVacuity.toy_premises",
            "Pff.NonVacuity.toy_run",
            "Pff.Path.C03_run_relocated", "Pff.Path.PATH_abspath_good", "Pff.Path.PATH_gen_root_independent",
            "Pff.Path.PATH_lookup_relocated", "Pff.Path.PATH_relFS_nodup", "Pff.Path.PATH_single_file",
            "Pff.Path.PATH_abspath_idempotent", "Pff.Path.PATH_normpath_good", "Pff.Path.PATH_relpath_root_self"]
MODELLED = [("pyFileFixity/header_ecc.py", "main"), ("pyFileFixity/header_ecc.py", "entry_assemble"), ("pyFileFixity/header_ecc.py", "compute_ecc_hash"),
            ("pyFileFixity/structural_adaptive_ecc.py", "main"), ("pyFileFixity/structural_adaptive_ecc.py", "stream_entry_assemble"),
            ("pyFileFixity/structural_adaptive_ecc.py", "stream_compute_ecc_hash")]
MODELLED = sorted(set(MODELLED + fx.WHOLE_RUN_MODELLED + [("pyFileFixity/header_ecc.py", "compute_ecc_hash"), ("pyFileFixity/structural_adaptive_ecc.py", "stream_compute_ecc_hash"), ("pyFileFixity/structural_adaptive_ecc.py", "compute_ecc_hash_from_string")]))
TRUSTED_BASE = [
    "Lean 4.33.0 kernel; axioms per theorem under coverage.theorems (subset of propext, Classical.choice, Quot.sound)",
    "PROVED PART (…_partial): for a located entry whose recorded size is the file's size, the block loops of both tools report no corruption "
    "and write nothing, for every content/size (empty included), every message-length function, every deterministic hash, every encoder of "
    "the right length (C11_accepts supplies the check clause for the real codecs) and every decoder (never consulted); exit 0",
    "NOT PROVED, decided by differential execution on the real tools each run: scanning of the entries (theorem C14 is about the scanner "
    "alone), field splitting, intra-ecc of path and size, size text round trip, relocation of the root, counters printed, empty output folder",
    "per-file model lean/Pff/Model/Ecc.lean tied to /repo by replaying recorded hash/check/decode calls of real runs",
]
ASSUMPTIONS = ["well-formed parameters (1 <= message length < max_block_size in every stage and for the intra rate)",
               "latin-1 file names (names outside latin-1 abort generation: known finding F14)",
               "no accidental marker/delimiter in the generated ecc file (the format's documented limit); such cases are counted as excluded"]
RULE = ("trees of 1-4 files, sizes {0,1,k-1,k,k+1,2k,size-1,size,size+1,random}, names incl. bytes of the delimiters at start/end, spaces, "
        "latin-1 letters, 130-character names (several intra blocks), nesting 0-2; all codecs, hash kinds, max_block_size 2..255, rate grid, "
        "intra rates 0.1..1.5; directory and single-file input; original and relocated root; a tree of only empty files; non-trivial = tree "
        "with a file of >= 2 blocks; distinct = distinct scenario")


def run(oc, tier, seed, model_available, escalate):
    rng = random.Random(seed * 715827883 + 3)
    n = 80 if tier == "quick" else 2500
    if escalate:
        n *= 2
    d = os.path.join(common.scratch(), "c03")
    lines, impl = [], []
    for it in range(n):
        shutil.rmtree(d, ignore_errors=True)
        P = es.gen_params(rng, small=(it % 3 != 0), erasures=None)
        P.no_fast_check = rng.random() < 0.3
        if it % 8 == 5:
            # directed: the syndrome check on (--no_fast_check) with each of the two pure-python codecs and the whole-file tool (whose codec
            # object is built once and given the message size of every block per call)
            P.tool, P.algo, P.no_fast_check = "whole", rng.choice([1, 2]), True
            if not P.well_formed():
                P = es.gen_params(rng, tool="whole", small=True, erasures=None)
                P.algo, P.no_fast_check = rng.choice([1, 2]), True
            oc.count("directed: whole-file tool, codec 1/2, --no_fast_check")
        if it == 1:
            tree = {"e1": b"", "sub/e2": b""}
        else:
            tree = es.gen_tree(rng, P, maxsize=1500 if P.mbs >= 20 else 200)
        if it % 4 == 2 and P.mbs >= 20:
            P, fsz = es.boundary_params(rng, P)
            tree = dict(tree or {})
            tree["boundary.bin"] = bytes(rng.randrange(256) for _ in range(fsz))
            oc.count("directed: block starting exactly at --size")
        if it % 16 == 9 and tree:
            # directed: very deep nesting - a relative path of more than two thousand characters (components of up to 200 characters, well
            # below the file system's limits): the entry's metadata then spans several kilobytes
            comps = [("d%02d_" % j_) + "x" * rng.choice([60, 150, 195]) for j_ in range(rng.randint(11, 14))]
            tree["/".join(comps + ["leaf.bin"])] = bytes(rng.randrange(256) for _ in range(rng.choice([0, 5, 300])))
            oc.count("directed: relative path longer than 2000 characters")
        if not tree:
            continue
        root = os.path.join(d, "root")
        eu.write_tree(root, tree)
        ecc = os.path.join(d, "ecc.txt")
        single = len(tree) == 1 and rng.random() < 0.5
        first = sorted(tree)[0]
        inp = os.path.join(root, *first.split("/")) if single else root
        gen_extra, protected = None, None
        if it % 16 == 13 and not single:
            # directed: --skip_size_below with --always_include_ext (compound and upper-case extensions): the files left out are exactly the
            # small ones whose lower-cased path does not end in one of the listed extensions; all the others are protected and must be processed
            P.tool = "header" if it % 32 == 13 else "whole"        # (both tools have their own copy of the option handling)
            tree = dict(tree)
            tree["sub/backup.tar.gz"] = b"tiny"
            tree["PIC.JPG"] = b"x"
            tree["note.txt"] = b"s"
            tree["big.dat"] = bytes(rng.randrange(256) for _ in range(300))
            eu.write_tree(root, tree)
            limit = rng.choice([100, 150])
            exts = ("jpg", "tar.gz")
            gen_extra = ["--skip_size_below", str(limit), "--always_include_ext", "|".join(exts)]
            protected = [p_ for p_, c_ in tree.items() if len(c_) >= limit or p_.lower().endswith(tuple("." + e_ for e_ in exts))]
            oc.count("directed: --skip_size_below with --always_include_ext")
        g = eu.generate(P, inp, ecc, extra=gen_extra)
        oc.oracle_cases += 1
        if g != "0":
            oc.violations.append({"input": {"params": P.describe(), "tree": {k: len(v) for k, v in tree.items()}},
                                  "what": "generation failed on a well-formed tree: %s" % g})
            continue
        data = open(ecc, "rb").read()
        nb_ = len(eu.entry_bounds(data))
        if protected is None and nb_ != len(tree) and not eu.accidental(data, nb_):
            # every entry is well formed (its four delimiters in place) but there is not one entry per file: generation left files out
            oc.violations.append({"input": {"params": P.describe(), "tree": {k: v.hex()[:400] for k, v in tree.items()}},
                                  "impl": {"entries_in_ecc_file": nb_}, "required": {"entries_in_ecc_file": len(tree)},
                                  "what": "generation did not write exactly one entry per file of the tree"})
            continue
        # (with the size/extension options the number of entries is what is being judged: only the delimiter part of the test applies)
        if eu.accidental(data, len(tree) if protected is None else len(eu.entry_bounds(data))):
            oc.count("excluded: accidental marker/delimiter in the ecc file")
            continue
        relocated = rng.random() < 0.5
        if relocated:
            root2 = os.path.join(d, "moved elsewhere", "x")
            shutil.copytree(root, root2)
            inp2 = os.path.join(root2, *first.split("/")) if single else root2
        else:
            inp2 = inp
        rc, stats, out, txt = eu.correct(P, inp2, ecc, os.path.join(d, "out"))
        want = (len(tree) if protected is None else len(protected), 0, 0, 0, 0, 0)
        if rc != "0" or stats != want or out:
            oc.violations.append({"input": {"params": P.describe(), "tree": {k: v.hex() for k, v in tree.items()},
                                            "single_file_input": single, "relocated": relocated, "generation_options": gen_extra},
                                  "impl": {"exit": rc, "stats": stats, "outputs": sorted(out)},
                                  "required": {"exit": "0", "stats": want, "outputs": []},
                                  "what": "correction of an undamaged tree did not report (all processed, 0 corrupted, 0 skipped, nothing written, exit 0)"})
        oc.count("tool:" + P.tool)
        oc.count("relocated" if relocated else "in-place")
        oc.count("single-file input" if single else "directory input")
        oc.count("no_fast_check" if P.no_fast_check else "fast_check")
        if any(len(v) > 2 * P.k_of_rate(P.r1) for v in tree.values()):
            oc.distinct.add((it, P.tool))
        # per-file correspondence on one file of the tree
        p = rng.choice(sorted(tree))
        if len(tree[p]) <= 1200:
            sub = os.path.join(d, "one")
            eu.write_tree(os.path.join(sub, "g"), {p: tree[p]})
            e1 = os.path.join(sub, "ecc1.txt")
            if eu.generate(P, os.path.join(sub, "g"), e1) == "0":
                ecc1 = open(e1, "rb").read()
                if not eu.accidental(ecc1, 1):
                    res = fx.run_one(P, p, tree[p], ecc1, os.path.join(sub, "run"))
                    if "request" in res:
                        lines.append(res["request"])
                        impl.append(res["reply"])
        if it % max(1, n // 4) == 0:
            oc.sample({"params": P.describe(), "tree": {k: len(v) for k, v in tree.items()}, "exit": rc, "stats": stats})
    # ---- whole-run correspondence: complete `-c` runs replayed into the Lean model of the correction loop (Pff.Run.run)
    os.makedirs(d, exist_ok=True)
    wl, wi = fx.whole_run_cases(rng, (40 if tier == "quick" else 300) * (2 if escalate else 1), ["clean", "within", "heavy", "sizes", "sizes"], d, oc)
    lines += wl
    impl += wi
    # ---- generation correspondence: the real ecc file vs the Lean model of generation (the file C03_run_pristine starts from)
    gl, gi = fx.gen_cases(rng, (30 if tier == "quick" else 400) * (2 if escalate else 1), d, oc)
    lines += gl
    impl += gi
    # ---- path layer: the repo's fullpath / path2unix / recwalk / relpath_posix and the os.path functions under them vs the Lean model
    # (Pff.Path), and the relocation statement on the real functions
    import path_x
    pl, pi, pbad = path_x.cases(rng, (400 if tier == "quick" else 6000) * (2 if escalate else 1), common.scratch(), oc)
    lines += pl
    impl += pi
    for b_ in pbad[:3]:
        oc.violations.append({"input": {k: v for k, v in b_.items() if k != "what"}, "what": b_["what"]})
    shutil.rmtree(d, ignore_errors=True)
    if model_available:
        model, err = common.run_driver(lines)
        if model is None:
            oc.x_disagreements.append({"driver_error": err})
        else:
            for l, mm, ii in zip(lines, model, impl):
                oc.x_cases += 1
                if mm != ii:
                    oc.x_disagreements.append({"request": l[:300] + " ...", "model": mm[:200], "impl": ii[:200]})
    else:
        oc.notes.append("Lean model did not build: correspondence X not run")


def search(seed, tier, hints):
    oc = common.Outcome()
    run(oc, "quick", seed + 30303, False, True)
    return oc.violations[0] if oc.violations else None


def replay(payload):
    """regenerates the ecc file of the recorded tree and corrects the undamaged tree (same single-file / relocation choices); judges
    again; exit 1 if the property still fails"""
    inp = payload.get("input", {})
    try:
        P = eu.Params(**inp["params"])
        tree = {k: bytes.fromhex(v) for k, v in inp["tree"].items()}
    except (KeyError, ValueError, TypeError, AttributeError):
        common.say("replay file is not self-contained: re-run the check with the recorded seed")
        return 0
    d = os.path.join(common.scratch(), "c03replay")
    shutil.rmtree(d, ignore_errors=True)
    root, ecc = os.path.join(d, "root"), os.path.join(d, "ecc.txt")
    eu.write_tree(root, tree)
    single = bool(inp.get("single_file_input"))
    first = sorted(tree)[0]
    src = os.path.join(root, *first.split("/")) if single else root
    g = eu.generate(P, src, ecc)
    if g != "0":
        common.say("FAILS: generation failed: %s" % g)
        return 1
    if inp.get("relocated"):
        root2 = os.path.join(d, "moved elsewhere", "x")
        shutil.copytree(root, root2)
        src = os.path.join(root2, *first.split("/")) if single else root2
    rc, stats, out, _ = eu.correct(P, src, ecc, os.path.join(d, "out"))
    want = (len(tree), 0, 0, 0, 0, 0)
    bad = None
    if rc != "0" or stats != want or out:
        bad = "correction of an undamaged tree: exit %s, stats %s, written %s (required: exit 0, %s, nothing)" % (rc, stats, sorted(out), want)
    common.say("params:", P.describe())
    common.say("FAILS: %s" % bad if bad else "the property holds on this input now")
    return 1 if bad else 0
