"""C08 — ecc entries are independent: damage to one never affects the others (both ecc tools)."""
import io
import os
import random
import shutil

import common
import ecc_file_x as fx
import ecc_scen as es
import ecc_util as eu
from common import hx

LEAN_MODULES = ["Pff.Props.C08", "Pff.Props.RunA", "Pff.Props.NonVacuity", "Pff.Props.RunE"]
PROP_MODULE = "Pff.Props.C08"
THEOREMS = ["Pff.Entry.C08_independent", "Pff.Entry.C08_glued", "Pff.Entry.C08_fields_ignore_trailing", "Pff.Entry.C08_overlong_track_whole",
            "Pff.Entry.C08_overlong_track_header", "Pff.Scan.C14_scan_built", "Pff.Scan.C14_content_built",
            "Pff.Run.C08_run_cursor_bounds",
            "Pff.Run.C08_run_visits",
            "Pff.Run.C08_run_local",
            "Pff.Run.C08_run_header_own_bytes",
            "Pff.Run.C08_run_reads_inside",
            "Pff.Run.C08_run_whole_file_bridge",
            "Pff.Run.C08_run_long_enough_reads_inside",
            "Pff.Run.C08_run_independent",
            "Pff.Run.C08_run_independent_header",
            "Pff.NonVacuity.toy_independence_premises",
            "Pff.Run.C13_run_no_track_no_write"]
MODELLED = [("pyFileFixity/header_ecc.py", "main"), ("pyFileFixity/header_ecc.py", "entry_fields"),
            ("pyFileFixity/structural_adaptive_ecc.py", "main"), ("pyFileFixity/structural_adaptive_ecc.py", "entry_fields"),
            ("pyFileFixity/lib/aux_funcs.py", "get_next_entry")]
MODELLED = sorted(set(MODELLED + fx.WHOLE_RUN_MODELLED))
TRUSTED_BASE = [
    "Lean 4.33.0 kernel; axioms per theorem under coverage.theorems (subset of propext, Classical.choice, Quot.sound)",
    "PROVED: with the bytes of one entry replaced by arbitrary bytes of any length (no additional marker spelled), or its marker destroyed "
    "(bytes glued to the previous entry), the scanner still returns every other entry with exactly its own bytes and the loop reaches the end "
    "of the file; an entry with trailing bytes glued to its track is split into the same fields and its blocks are assembled exactly as "
    "before (both tools); the per-entry processing is an arbitrary function of the entry's own bytes",
    "NOT PROVED, decided by differential execution each run: that the real per-entry code reads nothing but its entry (the whole-file tool "
    "works on file positions: its reads are bounded by the entry after the repairs listed in known_findings.json), that it never raises "
    "whatever the entry holds, and the counters/outputs of the non-victim files on real damaged ecc files",
]
ASSUMPTIONS = ["the damage does not spell an additional entry marker (the format's documented limit); such cases are counted as excluded",
               "bogus entries inside the damaged bytes do not decode to the path of another file"]
RULE = ("trees of 2-5 files, both tools, all parameter sets; victim entry first / middle / last; damage classes: 1-3 random bytes, many random "
        "bytes, zero-fill runs, destroyed marker, destroyed n-th delimiter, non-numeric size, garbage of the entry's length, garbage of length "
        "0-3x the entry, erased characters in the path with its intra-ecc destroyed, entry cut short (incl. < 4 bytes), entry losing 1-40 bytes at its very end with its file intact (the last read of the "
        "track runs into the next marker), entry reduced to its marker; some files damaged within capacity so that there is something to repair; compared "
        "with the run on the pristine ecc file; non-trivial = victim not the only entry; distinct = distinct (scenario, victim, class)")

KINDS = ["few", "many", "zeros", "marker", "delim1", "delim2", "delim3", "delim4", "size", "garbage", "garbage_long", "shorten", "tiny", "tailcut",
         "tailcut", "tailcut", "empty", "empty", "size_text", "size_text", "size_text", "size_small", "size_small", "path_nul", "path_nul"]


def damage_entry(rng, ent, f, s, kd):
    ent = bytearray(ent)

    def rb(n):
        return bytes(rng.choice([0x41, 0x00, 0xFA, 0xFF, 0xFE, rng.randrange(256)]) for _ in range(n))
    if kd == "few":
        for _ in range(rng.randint(1, 3)):
            ent[rng.randrange(len(ent))] = rng.randrange(256)
    elif kd == "many":
        for _ in range(len(ent) // 3 + 1):
            ent[rng.randrange(len(ent))] = rng.randrange(256)
    elif kd == "zeros":
        a = rng.randrange(len(ent))
        b = min(len(ent), a + rng.randint(1, 60))
        ent[a:b] = bytes(b - a)
    elif kd == "marker":
        ent[:10] = rb(10)
    elif kd.startswith("delim"):
        o = f["delims"][int(kd[-1]) - 1] - s
        ent[o:o + 5] = rb(5)
    elif kd == "size":
        ent[f["size"][0] - s] = ord("x")
    elif kd == "size_text":
        # the size text replaced by something `int()` and `str.isdigit()` judge differently (superscript digits, signs, blanks, underscores,
        # other numerals), its intra-ecc by garbage so that it cannot be repaired
        a, b = f["size"][0] - s, f["size"][1] - s
        ea, eb = f["size_ecc"][0] - s, f["size_ecc"][1] - s
        txt = rng.choice([b"1\xb3\xb20", b"\xb2", b"12\xb9", b"\xb9\xb9", b"4\xb2", b"\xb31", b" 12 ", b"+5", b"-3", b"1_0", b"1__0", b"_1", b"0x10", b"1e3", b"\x0b7\x0c", b"7\x00",
                          b"\xbd", b"00012", b"1.0", b""])
        garb = bytes(rng.choice([0x41, 0x7f, 0xfb, 0x33, rng.randrange(1, 250)]) for _ in range(eb - ea))
        ent = bytearray(bytes(ent[:a]) + txt + bytes(ent[b:ea]) + garb + bytes(ent[eb:]))
    elif kd == "size_small":
        # a well-formed but much smaller size, its intra-ecc destroyed: the file is then several times longer than its entry says
        # (run with --ignore_size, see `run`), the stage-2/3 rate must not be extrapolated beyond the recorded end
        a, b = f["size"][0] - s, f["size"][1] - s
        ea, eb = f["size_ecc"][0] - s, f["size_ecc"][1] - s
        try:
            cur = int(bytes(ent[a:b]))
        except ValueError:
            cur = 8
        txt = b"%d" % rng.choice([1, 2, 7, max(1, cur // 2), max(1, cur // 3), max(1, cur // 4), max(1, cur // 9)])
        garb = bytes(rng.choice([0x41, 0x7f, 0xfb, 0x33, rng.randrange(1, 250)]) for _ in range(eb - ea))
        ent = bytearray(bytes(ent[:a]) + txt + bytes(ent[b:ea]) + garb + bytes(ent[eb:]))
    elif kd == "path_nul":
        # one or more characters of the path erased (null bytes), the path's intra-ecc beyond repair: the tools must notice the NUL in the
        # decoded path and skip the entry ("missing/corrupted character") instead of opening a wrong file name
        a, b = f["path"][0] - s, f["path"][1] - s
        ea, eb = f["path_ecc"][0] - s, f["path_ecc"][1] - s
        if b > a:
            for _ in range(rng.choice([1, 1, 2, b - a])):
                ent[a + rng.randrange(b - a)] = 0
        for j in range(ea, eb):
            ent[j] = rng.choice([0x41, 0x7f, 0xfb, 0x33, rng.randrange(1, 250)])
    elif kd == "garbage":
        ent = bytearray(ent[:10] + rb(len(ent) - 10))
    elif kd == "garbage_long":
        ent = bytearray(rb(rng.randint(0, 3 * len(ent))))
    elif kd == "shorten":
        ent = ent[:rng.randrange(len(ent))]
    elif kd == "tiny":
        ent = ent[:10 + rng.randint(0, 4)]
    elif kd == "tailcut":
        # the entry loses a few bytes at its very end (less than one block of ecc): the last read of the track runs into the next marker
        ent = ent[:max(10, len(ent) - rng.choice([1, 2, 3, rng.randint(1, 12), rng.randint(1, 40)]))]
    elif kd == "empty":
        ent = ent[:10]      # nothing left after the marker
    return bytes(ent)


def run(oc, tier, seed, model_available, escalate):
    rng = random.Random(seed * 611953 + 8)
    n = 90 if tier == "quick" else 1500
    if escalate:
        n *= 2
    d = os.path.join(common.scratch(), "c08")
    lines, impl = [], []
    from pyFileFixity.lib.aux_funcs import get_next_entry
    for it in range(n):
        shutil.rmtree(d, ignore_errors=True)
        P = es.gen_params(rng, small=True, erasures=False)
        P.mbs = max(P.mbs, 20)
        P.algo = rng.choice([3, 4, 3, 1])
        if not P.well_formed():
            continue
        r_ = rng.random()
        if r_ < 0.12:
            P.only_erasures = True                      # alone
        elif r_ < 0.25:
            P.erasures, P.only_erasures = True, rng.random() < 0.3
        tree = es.gen_tree(rng, P, nfiles=rng.randint(2, 5), maxsize=400)
        if len(tree) < 2:
            continue
        root = os.path.join(d, "root")
        eu.write_tree(root, tree)
        ecc = os.path.join(d, "ecc.txt")
        if eu.generate(P, root, ecc) != "0":
            # generation of a well-formed parameter set on a latin-1 tree never fails on the unchanged code: a failure is a violation
            oc.violations.append({"input": {"params": P.describe(), "tree": {k_: v_.hex()[:200] for k_, v_ in (tree if isinstance(tree, dict) else {}).items()}},
                                  "what": "generation of the ecc file failed on a well-formed parameter set"})
            oc.count("excluded: generation failed")
            continue
        data = open(ecc, "rb").read()
        if eu.accidental(data, len(tree)):
            oc.count("excluded: accidental marker/delimiter")
            continue
        bounds = eu.entry_bounds(data)
        fields = [eu.parse_entry(data, s, e) for s, e in bounds]
        order = [f["relpath"].decode("latin-1") for f in fields]
        dmg = dict(tree)
        for p in sorted(tree)[:2] + order[-1:]:      # the first two by name and the one whose entry comes last in the ecc file
            if tree[p]:
                c = bytearray(tree[p])
                c[0] ^= 0x41
                dmg[p] = bytes(c)
        droot = os.path.join(d, "dmg")
        eu.write_tree(droot, dmg)
        rc0, st0, out0, _ = eu.correct(P, droot, ecc, os.path.join(d, "out0"))
        vi = rng.choice([0, len(bounds) - 1, rng.randrange(len(bounds))])
        kd = rng.choice(KINDS)
        if kd == "tailcut":
            # directed: a victim whose file is intact and which is followed by another entry (its last track read then runs into the next marker)
            cand = [j for j in range(len(bounds) - 1) if dmg[order[j]] == tree[order[j]]]
            if cand:
                vi = rng.choice(cand)
        if kd in ("empty", "tiny", "marker", "garbage") and rng.random() < 0.7:
            # directed: a victim followed by the entry of a damaged file (whose repair shows that the run went on past the victim)
            cand = [j for j in range(len(bounds) - 1) if any(dmg[order[m]] != tree[order[m]] for m in range(j + 1, len(bounds)))]
            if cand:
                vi = rng.choice(cand)
        if kd in ("empty", "tiny") and vi == len(bounds) - 1 and len(bounds) >= 2 and rng.random() < 0.8:
            # directed: an entry reduced to (almost) nothing that is NOT the last one (two markers then follow each other): the entries
            # after it must still be visited
            vi = rng.randrange(len(bounds) - 1)
        if kd == "size_small":
            if P.tool == "whole":
                big = [j for j in range(len(bounds)) if len(tree[order[j]]) > P.size]
                if big:
                    vi = rng.choice(big)
            P.ignore_size = True
            rc0, st0, out0, _ = eu.correct(P, droot, ecc, os.path.join(d, "out0"))
        s, e = bounds[vi]
        new_ent = damage_entry(rng, data[s:e], fields[vi], s, kd)
        new = data[:s] + new_ent + data[e:]
        # exclusion: the damaged bytes (together with the following marker) must not spell a marker other than the victim's own (or none)
        shift = len(new_ent) - (e - s)
        occ = []
        i = new.find(eu.MARKER)
        while i >= 0:
            occ.append(i)
            # (as the scanner sees them: the search for the next marker starts after the end of this one - two markers that follow each
            # other directly, an entry reduced to nothing, are two markers and not six overlapping ones)
            i = new.find(eu.MARKER, i + len(eu.MARKER))
        intended = [bs if j < vi else bs + shift for j, (bs, be) in enumerate(bounds) if j != vi]
        extra = [o for o in occ if o not in intended and o != s]
        # (and every other entry's marker must still be found where it is: the tail of a cut victim - some bytes of its own marker, say -
        # can join the next marker into one that starts earlier; that is the same documented limit)
        extra += [o for o in intended if o not in occ]
        if extra:
            oc.count("excluded: damage spelled an additional marker")
            continue
        bogus_paths = False
        e2 = os.path.join(d, "vic.txt")
        open(e2, "wb").write(new)
        rc, st, out, txt = eu.correct(P, droot, e2, os.path.join(d, "out"))
        oc.oracle_cases += 1
        bad = None
        if rc.startswith("exception"):
            bad = "correction did not run to completion: %s" % rc
        else:
            for j, p in enumerate(order):
                if j == vi:
                    continue
                if out.get(p) != out0.get(p):
                    bad = "file %s, whose entry is intact, is not handled as with the pristine ecc file (victim %s, %s)" % (p, order[vi], kd)
                    break
            if not bad and st is not None and st0 is not None and st[0] + st[-1] < st0[0] + st0[-1] - 1:
                # (processed + skipped = entries the run looked at: damage inside ONE entry can make at most that one entry disappear)
                bad = "the run looked at %d entries, the run on the pristine ecc file at %d: entries other than the victim's were not visited (victim %s, %s)" % (
                    st[0] + st[-1], st0[0] + st0[-1], order[vi], kd)
            if not bad and st is not None and st0 is not None and st[2] < st0[2] - 1:
                # (counters: damage inside one entry can take at most that entry's own file out of the "repaired completely" count)
                bad = "%d files reported completely repaired, %d with the pristine ecc file: files other than the victim's are not reported as with the pristine ecc file (victim %s, %s)" % (
                    st[2], st0[2], order[vi], kd)
            if not bad and eu.read_tree(droot) != dmg:
                bad = "an input file was modified"
        if bad:
            oc.violations.append({"input": {"params": P.describe(), "tree": {k: v.hex() for k, v in tree.items()}, "victim_index": vi,
                                            "damage": kd, "order": order, "ecc": new.hex()},
                                  "impl": {"exit": rc, "stats": st, "pristine_stats": st0}, "what": bad})
        # ---- correspondence: the scanner on the real damaged ecc file (general spec), field splitting of the victim
        if len(new) < 12000:
            f_ = io.BytesIO(new)
            res = []
            for _ in range(len(new) + 3):
                r = get_next_entry(f_, eu.MARKER, True)
                if r is None:
                    break
                res.append((r[0], r[1]))
            lines.append("scanall 65535 %s %s" % (hx(eu.MARKER), hx(new)))
            impl.append(" ".join("%d,%d" % ab for ab in res) if res else "-")
        # trailing garbage glued to a complete single entry: per-file result must be that of the clean entry
        p = order[-1]
        if 0 < len(tree[p]) <= 400 and it % 3 == 0:
            sub = os.path.join(d, "one")
            eu.write_tree(os.path.join(sub, "g"), {p: tree[p]})
            e1 = os.path.join(sub, "ecc1.txt")
            if eu.generate(P, os.path.join(sub, "g"), e1) == "0":
                d1 = open(e1, "rb").read()
                g = bytes(rng.randrange(256) for _ in range(rng.randint(1, 80))).replace(eu.MARKER, b"x")
                if not eu.accidental(d1 + g, 1) and (d1 + g).count(eu.MARKER) == 1:
                    res = fx.run_one(P, p, tree[p], d1 + g, os.path.join(sub, "run"))
                    oc.oracle_cases += 1
                    if res["rc"] != "0" or res["stats"] != (1, 0, 0, 0, 0, 0) or res["out"] is not None:
                        oc.violations.append({"input": {"params": P.describe(), "file": p, "trailing_garbage": g.hex()},
                                              "impl": {"exit": res["rc"], "stats": res["stats"]},
                                              "what": "bytes glued after a complete ecc track changed the handling of the (undamaged) file"})
                    if "request" in res:
                        lines.append(res["request"])
                        impl.append(res["reply"])
                    oc.count("trailing-garbage single-entry cases")
        oc.count("tool:" + P.tool)
        oc.count("damage:" + kd)
        oc.count("victim:%s" % ("first" if vi == 0 else ("last" if vi == len(bounds) - 1 else "middle")))
        oc.distinct.add((it, vi, kd))
        if it % max(1, n // 4) == 0:
            oc.sample({"params": P.describe(), "tree": {k: len(v) for k, v in tree.items()}, "victim": order[vi], "damage": kd, "exit": rc, "stats": st,
                       "pristine_stats": st0})
    # ---- whole-run correspondence: complete `-c` runs replayed into the Lean model of the correction loop (Pff.Run.run)
    os.makedirs(d, exist_ok=True)
    wl, wi = fx.whole_run_cases(rng, (40 if tier == "quick" else 300) * (2 if escalate else 1), ["victim"], d, oc)
    lines += wl
    impl += wi
    shutil.rmtree(d, ignore_errors=True)
    if model_available:
        model, err = common.run_driver(lines)
        if model is None:
            oc.x_disagreements.append({"driver_error": err})
        else:
            for l, mm, ii in zip(lines, model, impl):
                oc.x_cases += 1
                if mm != ii:
                    oc.x_disagreements.append({"request": l[:200] + " ...", "model": mm[:200], "impl": ii[:200]})
    else:
        oc.notes.append("Lean model did not build: correspondence X not run")


def search(seed, tier, hints):
    oc = common.Outcome()
    run(oc, "quick", seed + 80808, False, True)
    return oc.violations[0] if oc.violations else None


def replay(payload):
    """re-runs the real tool on the recorded damaged ecc file and on a freshly generated pristine one, and judges again (files of the
    non-victim entries must be handled alike); exit 1 if the property still fails"""
    inp = payload.get("input", {})
    try:
        P = eu.Params(**inp["params"])
        tree = {k: bytes.fromhex(v) for k, v in inp["tree"].items()}
        new = bytes.fromhex(inp["ecc"])
        vi, order = int(inp["victim_index"]), list(inp["order"])
    except (KeyError, ValueError, TypeError):
        common.say("replay file is not self-contained (trailing-garbage cases and older files): re-run the check with the recorded seed")
        return 0
    d = os.path.join(common.scratch(), "c08replay")
    shutil.rmtree(d, ignore_errors=True)
    root, ecc = os.path.join(d, "root"), os.path.join(d, "ecc.txt")
    eu.write_tree(root, tree)
    if eu.generate(P, root, ecc) != "0":
        common.say("generation failed")
        return 1
    dmg = dict(tree)
    for p_ in sorted(tree)[:2]:
        if tree[p_]:
            c = bytearray(tree[p_])
            c[0] ^= 0x41
            dmg[p_] = bytes(c)
    droot = os.path.join(d, "dmg")
    eu.write_tree(droot, dmg)
    rc0, st0, out0, _ = eu.correct(P, droot, ecc, os.path.join(d, "out0"))
    e2 = os.path.join(d, "vic.txt")
    open(e2, "wb").write(new)
    rc, st, out, _ = eu.correct(P, droot, e2, os.path.join(d, "out"))
    bad = None
    if rc.startswith("exception"):
        bad = "correction did not run to completion: %s" % rc
    else:
        for j, p_ in enumerate(order):
            if j != vi and out.get(p_) != out0.get(p_):
                bad = "file %s, whose entry is intact, is not handled as with the pristine ecc file" % p_
                break
        if not bad and eu.read_tree(droot) != dmg:
            bad = "an input file was modified"
    common.say("params:", P.describe())
    common.say("victim entry %d (%s), damage class %s: exit %s, stats %s (pristine ecc file: exit %s, stats %s)" % (
        vi, order[vi] if vi < len(order) else "?", inp.get("damage"), rc, st, rc0, st0))
    common.say("FAILS: %s" % bad if bad else "the property holds on this input now")
    return 1 if bad else 0
