"""C01 — within-capacity damage is repaired bit-exactly (both ecc tools)."""
import os
import random
import shutil

import common
import ecc_file_x as fx
import ecc_scen as es
import ecc_util as eu

LEAN_MODULES = ["Pff.Props.C01", "Pff.Props.C02", "Pff.Props.RunC", "Pff.Props.Bridge", "Pff.Props.Chain", "Pff.Props.Chain2", "Pff.Props.NonVacuity", "Pff.Props.Sound"]
PROP_MODULE = "Pff.Props.C01"
THEOREMS = ["Pff.Ecc.C01_whole_file_partial", "Pff.Ecc.C01_header_file_partial", "Pff.Ecc.C01_exit",
            "Pff.Run.C01_run_within_capacity",
            "Pff.Bridge.C01_block_premise_A",
            "Pff.Bridge.C01_block_premise_B",
            "Pff.Bridge.C01_block_premise_A_erasures",
            "Pff.Bridge.C01_block_premise_B_erasures",
            "Pff.Chain.C01_chain_A",
            "Pff.Chain.C01_chain_B",
            "Pff.Chain.C01_chain_A_erasures",
            "Pff.Chain.C01_chain_B_erasures",
            "Pff.NonVacuity.pristine_withinCapacity",
            "Pff.NonVacuity.pristine_withinCapacityBytes_A",
            "Pff.RSSpec.C02_decode_sound",
            "Pff.Sound.C01_block_sound_A",
            "Pff.Sound.C01_block_sound_B",
            "Pff.Sound.C01_file_sound_whole",
            "Pff.Sound.C01_file_sound_header"]
MODELLED = [("pyFileFixity/header_ecc.py", "main"), ("pyFileFixity/structural_adaptive_ecc.py", "main"),
            ("pyFileFixity/lib/eccman.py", "ECCMan.decode")]
MODELLED = sorted(set(MODELLED + fx.WHOLE_RUN_MODELLED))
TRUSTED_BASE = [
    "Lean 4.33.0 kernel; axioms per theorem under coverage.theorems (subset of propext, Classical.choice, Quot.sound)",
    "PROVED PART (…_partial): if every assembled block is intact-and-accepted or detected-and-decoded to the original block with verifying "
    "hash/parity, the file written is exactly the original (whole tool) / original protected region + damaged tail verbatim (header tool), "
    "counted completely repaired, run exits 0. The per-block premise is what C02_decode_exact_* + C11_accepts give for the real facade under "
    "CONTRACT W for <= floor(parity/2) wrong symbols (2e+f <= parity with erasures) plus, in default mode, no hash collision of the damaged block",
    "NOT PROVED, decided by differential execution each run: the instantiation of the premise on the real codecs, entry scanning and "
    "metadata handling, counters and exit status of the real tools on damaged trees",
    "contract W of the third-party decoders (see C02); codecs 1/2 with erasure handling are excluded from the generator (known finding F19)",
]
ASSUMPTIONS = ["hash collisions of a damaged block with its stored 4/8/32-character hash are not expected (counted if hit)",
               "no accidental marker/delimiter in the (damaged) ecc file"]
RULE = ("trees of 1-3 files over the C03 size/name grid; per protected block a random number of wrong symbols 0..floor(parity/2), forced "
        "exactly-at-capacity cases, in message / stored parity / both, stored hash bytes damaged in a share of blocks, last short block "
        "included; erasure mode with natural occurrences of the erasure symbol counted; all codecs (1/2 without erasures), hash kinds, "
        "max_block_size 5..255; --no_fast_check; non-trivial = at least one block damaged; distinct = distinct scenario")


def run(oc, tier, seed, model_available, escalate):
    rng = random.Random(seed * 2147483629 + 1)
    n = 60 if tier == "quick" else 2000
    if escalate:
        n *= 2
    d = os.path.join(common.scratch(), "c01")
    lines, impl = [], []
    tot = {"blocks_damaged": 0, "at_capacity": 0, "hash_damaged": 0, "parity_damaged": 0}
    for it in range(n):
        shutil.rmtree(d, ignore_errors=True)
        P = es.gen_params(rng, small=(it % 4 != 0))
        P.mbs = max(P.mbs, 5)
        if not P.well_formed():
            continue
        if P.algo in (1, 2) and P.erasures:
            P.algo = rng.choice([3, 4])
            oc.count("codec switched to 3/4: erasure handling with codecs 1/2 is known finding F19")
        if P.algo in (1, 2) and P.mbs > 60:
            P.algo = rng.choice([3, 4]) if rng.random() < 0.7 else P.algo
        P.no_fast_check = rng.random() < 0.3
        tree = es.gen_tree(rng, P, nfiles=rng.randint(1, 3), maxsize=1000 if P.mbs >= 20 else 150)
        if not tree:
            continue
        if it % 4 == 1 and P.mbs >= 20:
            P, fsz = es.boundary_params(rng, P)
            tree["boundary.bin"] = bytes(rng.randrange(256) for _ in range(fsz))
            oc.count("directed: block starting exactly at --size")
        root = os.path.join(d, "root")
        eu.write_tree(root, tree)
        ecc = os.path.join(d, "ecc.txt")
        if eu.generate(P, root, ecc) != "0":
            # generation of a well-formed parameter set on a latin-1 tree never fails on the unchanged code: a failure is a violation
            oc.violations.append({"input": {"params": P.describe(), "tree": {k_: v_.hex()[:200] for k_, v_ in (tree if isinstance(tree, dict) else {}).items()}},
                                  "what": "generation of the ecc file failed on a well-formed parameter set"})
            oc.count("excluded: generation failed")
            continue
        data = bytearray(open(ecc, "rb").read())
        if eu.accidental(bytes(data), len(tree)):
            oc.count("excluded: accidental marker/delimiter")
            continue
        try:
            dmg, damaged, hist = es.within_capacity_damage(rng, P, tree, data)
        except KeyError as ex:
            # the entries of the generated ecc file do not carry the paths of the tree: nothing can be repaired from it
            oc.oracle_cases += 1
            oc.violations.append({"input": {"params": P.describe(), "tree": {k: v.hex() for k, v in tree.items()}, "ecc": bytes(data).hex()},
                                  "impl": {"recorded_path_not_in_tree": str(ex)},
                                  "what": "the generated ecc file records a path (%s) that is not a file of the protected tree: that file cannot be "
                                          "repaired from it" % ex})
            continue
        for k_, v in hist.items():
            tot[k_] += v
        if eu.accidental(bytes(data), len(tree)):
            oc.count("excluded: damage spelled a marker/delimiter")
            continue
        droot = os.path.join(d, "dmg")
        eu.write_tree(droot, dmg)
        e2 = os.path.join(d, "ecc2.txt")
        open(e2, "wb").write(bytes(data))
        rc, st, out, txt = eu.correct(P, droot, e2, os.path.join(d, "out"))
        oc.oracle_cases += 1
        bad = None
        if rc != "0":
            bad = "correction of within-capacity damage exited %s" % rc
        else:
            for p in sorted(damaged):
                o = out.get(p)
                prot = len(tree[p]) if P.tool == "whole" else min(P.size, len(tree[p]))
                if o is None:
                    bad = "no output for %s, damaged in its protected region" % p
                elif o[:prot] != tree[p][:prot]:
                    bad = "protected region of %s not restored bit-exactly" % p
                elif o[prot:] != dmg[p][prot:]:
                    bad = "bytes after the protected region of %s not reproduced verbatim" % p
                if bad:
                    break
        if bad:
            v = {"input": {"params": P.describe(), "tree": {k: v.hex() for k, v in tree.items()},
                           "damaged": {k: v.hex() for k, v in dmg.items()},
                           "ecc": bytes(data).hex()},
                 "impl": {"exit": rc, "stats": st}, "what": bad}
            if P.algo in (1, 2):
                # known finding F19 (unireedsolomon fails within capacity, also errors-only with decode_fast): the identical scenario - same
                # damaged files, same ecc file (codecs 1-3 write the same parity) - must then pass unchanged with --ecc_algo 3
                P3 = eu.Params(**{**P.describe(), "algo": 3})
                rc3, st3, out3, _ = eu.correct(P3, droot, e2, os.path.join(d, "out3"))
                ok3 = rc3 == "0"
                for p_ in sorted(damaged):
                    prot = len(tree[p_]) if P.tool == "whole" else min(P.size, len(tree[p_]))
                    o3 = out3.get(p_)
                    if o3 is None or o3[:prot] != tree[p_][:prot] or o3[prot:] != dmg[p_][prot:]:
                        ok3 = False
                if ok3:
                    v["finding"] = "F19"
            oc.violations.append(v)
        oc.count("tool:" + P.tool)
        oc.count("algo:%d" % P.algo)
        oc.count("erasures" if P.erasures else "errors only")
        if damaged:
            oc.distinct.add((it, P.tool))
        # per-file correspondence: same damage recipe on a single-file ecc
        p = rng.choice(sorted(tree))
        if 0 < len(tree[p]) <= 900:
            sub = os.path.join(d, "one")
            eu.write_tree(os.path.join(sub, "g"), {p: tree[p]})
            e1 = os.path.join(sub, "ecc1.txt")
            if eu.generate(P, os.path.join(sub, "g"), e1) == "0":
                d1 = bytearray(open(e1, "rb").read())
                if not eu.accidental(bytes(d1), 1):
                    try:
                        dm1, _dmgd, _h = es.within_capacity_damage(rng, P, {p: tree[p]}, d1)
                    except KeyError:
                        continue          # recorded path differs from the file's (reported by the oracle above)
                    if not eu.accidental(bytes(d1), 1):
                        res = fx.run_one(P, p, dm1[p], bytes(d1), os.path.join(sub, "run"))
                        if "request" in res and len(res["request"]) < 300000:
                            lines.append(res["request"])
                            impl.append(res["reply"])
        if it % max(1, n // 4) == 0:
            oc.sample({"params": P.describe(), "tree": {k: len(v) for k, v in tree.items()}, "damaged_files": sorted(damaged), "exit": rc, "stats": st})
    oc.extra["damage_totals"] = tot
    # ---- whole-run correspondence: complete `-c` runs replayed into the Lean model of the correction loop (Pff.Run.run)
    os.makedirs(d, exist_ok=True)
    wl, wi = fx.whole_run_cases(rng, (30 if tier == "quick" else 200) * (2 if escalate else 1), ["within", "within", "heavy", "clean"], d, oc)
    lines += wl
    impl += wi
    shutil.rmtree(d, ignore_errors=True)
    if model_available:
        model, err = common.run_driver(lines)
        if model is None:
            oc.x_disagreements.append({"driver_error": err})
        else:
            for l, mm, ii in zip(lines, model, impl):
                oc.x_cases += 1
                if mm != ii:
                    oc.x_disagreements.append({"request": l[:300] + " ...", "model": mm[:200], "impl": ii[:200]})
    else:
        oc.notes.append("Lean model did not build: correspondence X not run")


def replay_finding(f):
    import codec_util
    return codec_util.replay_f19(f)


def search(seed, tier, hints):
    oc = common.Outcome()
    run(oc, "quick", seed + 10101, False, True)
    return oc.violations[0] if oc.violations else None


def replay(payload):
    """re-runs the real tool on the recorded damaged files and damaged ecc file and judges again; exit 1 if the property still fails"""
    inp = payload.get("input", {})
    try:
        P = eu.Params(**inp["params"])
        tree = {k: bytes.fromhex(v) for k, v in inp["tree"].items()}
        dmg = {k: bytes.fromhex(v) for k, v in inp["damaged"].items()}
        data = bytes.fromhex(inp["ecc"])
    except (KeyError, ValueError, TypeError):
        common.say("replay file is not self-contained: re-run the check with the recorded seed")
        return 0
    d = os.path.join(common.scratch(), "c01replay")
    shutil.rmtree(d, ignore_errors=True)
    droot, e2 = os.path.join(d, "dmg"), os.path.join(d, "ecc2.txt")
    eu.write_tree(droot, dmg)
    os.makedirs(d, exist_ok=True)
    open(e2, "wb").write(data)
    rc, st, out, _ = eu.correct(P, droot, e2, os.path.join(d, "out"))
    bad = None
    if rc != "0":
        bad = "correction of within-capacity damage exited %s" % rc
    else:
        for p_ in sorted(tree):
            prot = len(tree[p_]) if P.tool == "whole" else min(P.size, len(tree[p_]))
            if dmg.get(p_, b"")[:prot] == tree[p_][:prot]:
                continue
            o = out.get(p_)
            if o is None:
                bad = "no output for %s, damaged in its protected region" % p_
            elif o[:prot] != tree[p_][:prot]:
                bad = "protected region of %s not restored bit-exactly" % p_
            elif o[prot:] != dmg[p_][prot:]:
                bad = "bytes after the protected region of %s not reproduced verbatim" % p_
            if bad:
                break
    common.say("params:", P.describe())
    common.say("exit %s, stats %s, files written: %s" % (rc, st, sorted(out)))
    common.say("FAILS: %s" % bad if bad else "the property holds on this input now")
    return 1 if bad else 0
