"""C11 — the parity check accepts exactly the valid codewords within detection range (ECCMan.check / encode)."""
import itertools
import random

import codec_util as cu
import common
from common import hx

LEAN_MODULES = ["Pff.Props.C11"]
PROP_MODULE = "Pff.Props.C11"
THEOREMS = ["Pff.RSSpec.C11_consts_tie", "Pff.RSSpec.C11_tables_tie", "Pff.RSSpec.C11_fieldA_ops", "Pff.RSSpec.C11_fieldB_ops",
            "Pff.RSSpec.C11_field_model_ops", "Pff.RSSpec.C11_codecA_good", "Pff.RSSpec.C11_codecB_good", "Pff.RSSpec.C11_accepts",
            "Pff.RSSpec.C11_detects", "Pff.RSSpec.C11_truncated_parity"]
MODELLED = [("pyFileFixity/lib/eccman.py", "ECCMan.encode"), ("pyFileFixity/lib/eccman.py", "ECCMan.check"),
            ("pyFileFixity/lib/eccman.py", "ECCMan.pad"), ("pyFileFixity/lib/eccman.py", "ECCMan.rpad"),
            ("pyFileFixity/lib/eccman.py", "ECCMan.__init__")]
TRUSTED_BASE = [
    "Lean 4.33.0 kernel (finite table facts by `decide +kernel`, no native_decide); axioms per theorem under coverage.theorems",
    "Mathlib v4.33.0 modules imported by lean/Pff/Proofs (Vandermonde determinant, matrix non-degeneracy, big operators, field defs)",
    "GF(2^8) tables regenerated from the (prim, generator) constants of lib/eccman.py by harness/translate.py; Lean proves each table is the "
    "orbit of the generator under carry-less multiplication modulo prim and derives the field laws",
    "the facade (pad, rpad, dispatch, per-call k) is modelled line by line; the third-party encoders / syndrome check are modelled at the "
    "level of the algorithm (LFSR synthetic division, long division, syndromes) and tied by comparing parity bytes and check results with "
    "all four real codecs on every run (incl. all 65 536 products of both fields)",
]
ASSUMPTIONS = ["n <= 255, 1 <= k < n, message length <= k (longer messages are rejected by codecs 1/2 and are outside the property)"]
RULE = ("geometries (n,k) from a grid incl. k=1, k=n-1, n=255; message lengths 1..k, contents random/zero/sparse/0xFF; corruption weights "
        "1..n-k in message, parity or both, truncated parity; per-call k overriding the constructor's; thorough: exhaustive single and double "
        "symbol errors on codes with n <= 12; full multiplication tables of both fields; non-trivial = corrupted word; distinct = distinct request")


def run(oc, tier, seed, model_available, escalate):
    rng = random.Random(seed * 982451653 + 11)
    lines, impl = [], []
    em = cu.eccman()

    def add(l, r):
        lines.append(l)
        impl.append(r)

    # ---- field multiplication: whole tables of both fields against reedsolo.gf_mul (finite, enumerated completely)
    for prim, gen in ((0x11b, 3), (0x187, 2)):
        with common.quiet():
            em.reedsolo.init_tables(prim=prim, generator=gen)
        rows = range(256) if tier == "thorough" else sorted(set([0, 1, 2, 3, 255] + [rng.randrange(256) for _ in range(24)]))
        for a in rows:
            add("gfmulrow %d %d" % (prim, a), ",".join(str(em.reedsolo.gf_mul(a, b)) for b in range(256)))
        oc.count("gf rows (256 products each), prim %#x" % prim, len(list(rows)))
    n_cases = 700 if tier == "quick" else 10000
    if escalate:
        n_cases *= 2
    for i in range(n_cases):
        algo = rng.choice([1, 2, 3, 4])
        n, k0 = cu.gen_geometry(rng, big=(i % 25 == 0))
        percall = rng.random() < 0.3
        k = rng.randint(1, n - 1) if percall else k0
        if i % 7 == 3:
            # a codec object constructed just now, right after one of the other reedsolo field was constructed and used (the field tables of
            # reedsolo are module-wide): a freshly constructed object must work whatever was constructed before it
            with common.quiet():
                other = cu.eccman().ECCMan(n, k0, algo=(4 if algo != 4 else 3))
                other.encode(bytes(range(1, min(k0, 5) + 1)))
                man = cu.eccman().ECCMan(n, k0, algo=algo)
            oc.count("freshly constructed codec object")
        else:
            man = cu.manager(algo, n, k0)
        msg = cu.gen_message(rng, k)
        kw = {"k": k} if percall else {}
        karg = k if percall else 0
        with common.quiet():
            par = bytes(man.encode(msg, **kw))
            ok0 = bool(man.check(bytearray(msg), bytearray(par), **kw))
        oc.oracle_cases += 1
        add("enc %d %d %d %d %s" % (algo, n, k0, karg, hx(msg)), hx(par))
        add("chk %d %d %d %d %s %s" % (algo, n, k0, karg, hx(msg), hx(par)), "1" if ok0 else "0")
        bad = []
        if len(par) != n - k:
            bad.append("encode returned %d parity bytes for n-k=%d" % (len(par), n - k))
        if not ok0:
            bad.append("check rejects a message paired with its own parity")
        # corruption of weight 1..n-k
        word = msg + par
        w = rng.randint(1, n - k)
        where = rng.choice(["msg", "par", "both"])
        pool = list(range(len(msg))) if where == "msg" else (list(range(len(msg), len(word))) if where == "par" else list(range(len(word))))
        w = min(w, len(pool))
        pos = rng.sample(pool, w)
        cw = cu.corrupt(rng, word, pos)
        m2, p2 = bytes(cw[:len(msg)]), bytes(cw[len(msg):])
        with common.quiet():
            ok1 = bool(man.check(bytearray(m2), bytearray(p2), **kw))
        add("chk %d %d %d %d %s %s" % (algo, n, k0, karg, hx(m2), hx(p2)), "1" if ok1 else "0")
        if ok1:
            bad.append("check accepts a word at distance %d <= n-k=%d from a codeword" % (w, n - k))
        # truncated parity
        j = rng.randint(1, n - k)
        pt = par[:len(par) - j]
        with common.quiet():
            ok2 = bool(man.check(bytearray(msg), bytearray(pt), **kw))
        add("chk %d %d %d %d %s %s" % (algo, n, k0, karg, hx(msg), hx(pt)), "1" if ok2 else "0")
        if ok2 != all(b == 0 for b in par[len(par) - j:]):
            bad.append("parity cut by %d symbols: check=%s but cut symbols all zero=%s" % (j, ok2, all(b == 0 for b in par[len(par) - j:])))
        for b in bad:
            oc.violations.append({"input": {"algo": algo, "n": n, "k_ctor": k0, "k_call": k if percall else None, "msg": msg.hex(),
                                            "corrupted": cw.hex(), "positions": pos}, "impl": {"parity": par.hex()}, "what": b})
        oc.count("algo:%d" % algo)
        oc.count("where:" + where)
        oc.count("per-call k" if percall else "ctor k")
        oc.distinct.add(lines[-2])
        if i % max(1, n_cases // 4) == 0:
            oc.sample({"request": lines[-2][:200], "impl_reply": impl[-2]})
    # ---- directed: parities that END with a null symbol (a cut that must be accepted) and parities that BEGIN with one
    #      (dropping the first symbol shifts the parity: must be rejected unless the shifted word is the same codeword)
    nd = 0
    for algo in (1, 2, 3, 4):
        for (n, k) in ((12, 8), (20, 11), (7, 5)) if tier == "quick" else ((12, 8), (20, 11), (7, 5), (30, 20), (6, 2)):
            man = cu.manager(algo, n, k)
            finder = cu.manager(3 if algo in (1, 2, 3) else 4, n, k)   # fast search codec (parity of 1-3 is cross-checked by C12 and below)
            found_end = found_begin = False
            for _try in range(3000):
                if found_end and found_begin:
                    break
                msg = bytes(rng.randrange(256) for _ in range(rng.choice([k, k, max(1, k - 2)])))
                with common.quiet():
                    par = bytes(finder.encode(msg))
                if not ((par[-1] == 0 and not found_end) or (par[0] == 0 and not found_begin)):
                    continue
                cu.manager(algo, n, k)
                with common.quiet():
                    par = bytes(man.encode(msg))
                cases = []
                if par[-1] == 0 and not found_end:
                    found_end = True
                    cut = len(par) - len(par.rstrip(b"\0"))
                    cases.append((par[:len(par) - cut], True, "parity ending in %d null symbol(s), cut off" % cut))
                if par[0] == 0 and par[1:] + b"\0" != par and not found_begin:
                    found_begin = True
                    cases.append((par[1:], False, "parity beginning with a null symbol, first symbol dropped"))
                for pt, want, desc in cases:
                    with common.quiet():
                        ok = bool(man.check(bytearray(msg), bytearray(pt)))
                    oc.oracle_cases += 1
                    nd += 1
                    add("chk %d %d %d 0 %s %s" % (algo, n, k, hx(msg), hx(pt)), "1" if ok else "0")
                    oc.distinct.add(lines[-1])
                    if ok != want:
                        oc.violations.append({"input": {"algo": algo, "n": n, "k_ctor": k, "k_call": None, "msg": msg.hex(),
                                                        "corrupted": (msg + pt).hex(), "positions": []},
                                              "impl": {"parity": par.hex(), "check": ok}, "what": "%s: check returned %s, required %s" % (desc, ok, want)})
    oc.count("directed truncated/shifted parity cases", nd)
    # ---- directed: STRUCTURED words. (a) a non-null message that is itself a codeword of the code with the same number of parity symbols
    # (its parity is all null): the pair must be accepted, and rejected after any change of 1..n-k symbols. (b) a valid word plus a corruption
    # pattern that is itself a codeword of a WEAKER geometry of the same codec (the generator polynomial of the code with n-k' < n-k parity
    # symbols, weight <= n-k'+1 <= n-k, at a random shift): a check that tests too few roots accepts it
    ns = 0
    for it in range(60 if tier == "quick" else 1200):
        algo = rng.choice([1, 2, 3, 4])
        n = rng.choice([12, 20, 27, 40, 255]) if it % 10 else 255
        nsym = rng.randint(2, max(2, min(n - 2, 12)))
        k = n - nsym
        percall = rng.random() < 0.5
        k0 = rng.randint(k, n - 1) if percall else k       # constructor geometry at least as weak as the call's
        if percall and it % 3 == 0:
            k0 = 1 if k > 1 else k0
        man = cu.manager(algo, n, k0)
        kw = {"k": k} if (percall and k0 != k) else {}
        karg = k if kw else 0
        with common.quiet():
            if it % 2 == 0 and k > nsym:
                # (a) message = u ++ parity(u) over the geometry (k, k-nsym): a multiple of the generator polynomial
                u = bytes(rng.randrange(256) for _ in range(k - nsym))
                if not any(u):
                    u = bytes([1]) + u[1:]
                inner = cu.eccman().ECCMan(k, k - nsym, algo=algo)
                msg = u + bytes(inner.encode(u))
                man = cu.eccman().ECCMan(n, k0, algo=algo)
                kind = "message that is itself a codeword"
            else:
                msg = cu.gen_message(rng, k)
                if len(msg) < k:
                    msg = bytes(k - len(msg)) + msg
                kind = "corruption that is a codeword of a weaker geometry"
            par = bytes(man.encode(msg, **kw))
            ok0 = bool(man.check(bytearray(msg), bytearray(par), **kw))
        oc.oracle_cases += 1
        ns += 1
        add("chk %d %d %d %d %s %s" % (algo, n, k0, karg, hx(msg), hx(par)), "1" if ok0 else "0")
        bad = []
        if kind.startswith("message") and any(par):
            oc.count("structured: inner codeword did not give null parity (geometry mismatch) - skipped")
            continue
        if not ok0:
            bad.append("check rejects a message paired with its own parity (%s)" % kind)
        word = bytearray(msg + par)
        if kind.startswith("message"):
            pos = rng.sample(range(len(word)), rng.randint(1, nsym))
            cw = cu.corrupt(rng, word, pos)
        else:
            k2 = rng.randint(k + 1, n - 1) if k + 1 <= n - 1 else None
            if percall and k0 > k:
                k2 = k0                                          # the constructor's own (weaker) geometry
            if k2 is None:
                continue
            with common.quiet():
                weak = cu.eccman().ECCMan(n, k2, algo=algo)
                unit = bytes(k2 - 1) + b"\x01"
                g = unit + bytes(weak.encode(unit))              # coefficients of x^(n-k2) + ... = the generator polynomial, right-aligned
                man = cu.eccman().ECCMan(n, k0, algo=algo)
            g = g.lstrip(b"\x00")
            shift = rng.randint(0, len(word) - len(g))
            scale = rng.randrange(1, 256)
            with common.quiet():
                if algo == 4:
                    cu.eccman().reedsolo.init_tables(0x187)
                else:
                    cu.eccman().reedsolo.init_tables(generator=3, prim=0x11b)
                gs = bytes(cu.eccman().reedsolo.gf_mul(x, scale) for x in g)
                man = cu.eccman().ECCMan(n, k0, algo=algo)
            cw = bytearray(word)
            pos = []
            for j_, x in enumerate(gs):
                cw[len(word) - len(gs) - shift + j_] ^= x
                if x:
                    pos.append(len(word) - len(gs) - shift + j_)
        m2, p2 = bytes(cw[:len(msg)]), bytes(cw[len(msg):])
        with common.quiet():
            ok1 = bool(man.check(bytearray(m2), bytearray(p2), **kw))
        oc.oracle_cases += 1
        add("chk %d %d %d %d %s %s" % (algo, n, k0, karg, hx(m2), hx(p2)), "1" if ok1 else "0")
        oc.distinct.add(lines[-1])
        if ok1 and 1 <= len(pos) <= nsym:
            bad.append("check accepts a word at distance %d <= n-k=%d from a codeword (%s)" % (len(pos), nsym, kind))
        for b in bad:
            oc.violations.append({"input": {"algo": algo, "n": n, "k_ctor": k0, "k_call": k if kw else None, "msg": msg.hex(),
                                            "corrupted": bytes(cw).hex(), "positions": pos}, "impl": {"parity": par.hex()}, "what": b})
        oc.count("structured: " + kind)
    oc.count("directed structured words", ns)
    if tier == "thorough":
        # exhaustive single and double symbol errors on small codes
        cnt = 0
        for algo in (1, 2, 3, 4):
            for (n, k) in ((4, 2), (7, 3), (10, 7), (12, 6), (12, 11), (5, 1)):
                man = cu.manager(algo, n, k)
                msg = bytes(rng.randrange(256) for _ in range(k))
                with common.quiet():
                    par = bytes(man.encode(msg))
                word = msg + par
                for wt in (1, 2):
                    if wt > n - k:
                        continue
                    for pos in itertools.combinations(range(n), wt):
                        for delta in ((1,), (0x80,), (0xFF,)) if wt == 1 else ((1, 1), (0x53, 0xCA)):
                            cw = bytearray(word)
                            for p, dlt in zip(pos, delta):
                                cw[p] ^= dlt
                            with common.quiet():
                                ok = bool(man.check(bytearray(cw[:k]), bytearray(cw[k:])))
                            cnt += 1
                            oc.oracle_cases += 1
                            add("chk %d %d %d 0 %s %s" % (algo, n, k, hx(cw[:k]), hx(cw[k:])), "1" if ok else "0")
                            if ok:
                                oc.violations.append({"input": {"algo": algo, "n": n, "k_ctor": k, "msg": msg.hex(), "corrupted": cw.hex(),
                                                                "positions": list(pos)}, "what": "check accepts a %d-symbol error" % wt})
        oc.notes.append("exhaustive single/double symbol error positions on 6 small codes x 4 codecs: %d words" % cnt)
    if model_available:
        model, err = common.run_driver(lines)
        if model is None:
            oc.x_disagreements.append({"driver_error": err})
        else:
            for l, mm, ii in zip(lines, model, impl):
                oc.x_cases += 1
                if mm != ii:
                    oc.x_disagreements.append({"request": l[:300], "model": mm[:200], "impl": ii[:200]})
    else:
        oc.notes.append("Lean model did not build: correspondence X not run")


def search(seed, tier, hints):
    oc = common.Outcome()
    run(oc, "thorough" if tier == "thorough" else "quick", seed + 111111, False, True)
    return oc.violations[0] if oc.violations else None


def replay(payload):
    inp = payload["input"]
    man = cu.manager(inp["algo"], inp["n"], inp["k_ctor"])
    kw = {"k": inp["k_call"]} if inp.get("k_call") else {}
    msg = bytes.fromhex(inp["msg"])
    with common.quiet():
        par = bytes(man.encode(msg, **kw))
        ok0 = bool(man.check(bytearray(msg), bytearray(par), **kw))
        cw = bytes.fromhex(inp["corrupted"])
        ok1 = bool(man.check(bytearray(cw[:len(msg)]), bytearray(cw[len(msg):]), **kw))
    common.say("parity", par.hex(), "check(valid)=", ok0, "check(corrupted)=", ok1)
    return 0 if (ok0 and not ok1) else 1
