"""C06 — byte-wise majority vote (replication_repair.majority_vote_byte_scan)."""
import io
import itertools
import os
import random

import common
from common import hx, nums

LEAN_MODULES = ["Pff.Props.C06"]
PROP_MODULE = "Pff.Props.C06"
THEOREMS = ["Pff.Vote.C06_chunk_independent", "Pff.Vote.C06_length", "Pff.Vote.C06_plurality",
            "Pff.Vote.C06_ambiguous_reported", "Pff.Vote.C06_majority_restores", "Pff.Vote.C06_status",
            "Pff.Vote.C06_fewer_than_three", "Pff.Vote.C06_pinned_witness"]
MODELLED = [("pyFileFixity/replication_repair.py", "majority_vote_byte_scan")]
TRUSTED_BASE = [
    "Lean 4.33.0 kernel; axioms of each theorem listed under coverage.theorems (subset of propext, Classical.choice, Quot.sound)",
    "hand-written model lean/Pff/Model/Vote.lean of majority_vote_byte_scan, tied to /repo by this run's correspondence cases",
    "Python semantics modelled, not verified: dict insertion order, stability of sorted(reverse=True), file read()/tell()",
]
ASSUMPTIONS = [
    "default_char_null is left at its default (False), as the CLI does",
    "fewer-than-three clause decided for the vote routine (property anchor); `pff dup` copies a path held by one replica with shutil.copyfile (see C07)",
]
RULE = ("copies derived from a random original over a 3-letter alphabet by corruption / truncation / extension / emptying, "
        "1-6 copies, lengths 0-40, read-chunk size 1..45 (thorough: plus exhaustive enumeration of <=4 copies x lengths<=3 x "
        "alphabet 2 x bs 1..4); a case is non-trivial when the copies are not all equal; distinct = distinct (bs, copies)")


def impl_vote(copies, bs, use_files=False):
    """run the real routine; returns (out bytes, status, reported offsets or None)"""
    import re
    from pyFileFixity import replication_repair as rr
    if use_files:
        d = os.path.join(common.scratch(), "c06_%d" % random.getrandbits(40))
        os.makedirs(d)
        paths = []
        for i, c in enumerate(copies):
            p = os.path.join(d, "copy%d.bin" % i)
            open(p, "wb").write(bytes(c))
            paths.append(p)
        outdir = os.path.join(d, "out")
        os.makedirs(outdir)
        rc, msg = rr.majority_vote_byte_scan("merged.bin", paths, outdir, blocksize=bs)
        out = open(os.path.join(outdir, "merged.bin"), "rb").read()
        import shutil
        shutil.rmtree(d, ignore_errors=True)
    else:
        handles = [io.BytesIO(bytes(c)) for c in copies]
        outh = io.BytesIO()
        rc, msg = rr.majority_vote_byte_scan("merged.bin", handles, outh, blocksize=bs)
        out = outh.getvalue()
    errs = None
    if msg and "on characters:" in msg:
        errs = [int(x, 16) for x in re.findall(r"0x[0-9a-fA-F]+", msg.split("on characters:")[1])]
    elif msg is None:
        errs = []
    return out, rc, errs


def spec_vote(copies):
    """independent Python rendering of the property statement (the oracle S)"""
    if len(copies) < 3:
        return (bytes(copies[0]) if copies else b""), 1, None
    n = max(len(c) for c in copies)
    out = bytearray()
    errs = []
    for j in range(n):
        col = [c[j] for c in copies if j < len(c)]
        best = None
        for v in col:  # earliest carrier first
            if best is None or col.count(v) > col.count(best):
                best = v
        out.append(best)
        if len(col) >= 2 and len(set(col)) == len(col):
            errs.append(j)
    return bytes(out), (1 if errs else 0), errs


def gen_case(rng):
    alpha = [0x41, 0x42, 0x00] if rng.random() < 0.7 else [0x41, 0x42, 0x43, 0xFF]
    ncopies = rng.choice([1, 2, 3, 3, 3, 4, 4, 5, 6])
    n = rng.choice([0, 1, 2, 3, 5, 8, 13, 20, 40])
    orig = [rng.choice(alpha) for _ in range(n)]
    copies = []
    kinds = []
    for i in range(ncopies):
        c = list(orig)
        k = rng.choice(["intact", "corrupt", "corrupt", "trunc", "extend", "empty", "heavy"])
        if k == "corrupt":
            for _ in range(rng.randint(1, 3)):
                if c:
                    c[rng.randrange(len(c))] = rng.choice(alpha)
        elif k == "heavy":
            c = [rng.choice(alpha) for _ in c]
        elif k == "trunc":
            c = c[:rng.randint(0, len(c))]
        elif k == "extend":
            c = c + [rng.choice(alpha) for _ in range(rng.randint(1, 12))]
        elif k == "empty":
            c = []
        copies.append(c)
        kinds.append(k)
    bs = rng.choice([1, 1, 2, 3, 4, 5, 7, 8, 9, 16, 45, rng.randint(1, 45)])
    return bs, copies, kinds


def line_of(bs, copies):
    return "vote %d %s" % (bs, " ".join(hx(c) for c in copies)) if copies else "vote %d" % bs


def reply_of(out, rc, errs):
    return "%s %d %s" % (hx(out), rc, nums(errs or []))


def cases(tier, seed, escalate):
    rng = random.Random(seed * 7919 + 6)
    n = 4000 if tier == "quick" else 50000
    if escalate:
        n *= 4
    res = []
    # corpus first
    cdir = os.path.join(common.CORPUS, "C06")
    if os.path.isdir(cdir):
        import json
        for f in sorted(os.listdir(cdir)):
            c = json.load(open(os.path.join(cdir, f)))
            res.append((c["bs"], [list(bytes.fromhex(x)) for x in c["copies"]], ["corpus"]))
    for _ in range(n):
        res.append(gen_case(rng))
    if tier == "thorough":
        # exhaustive small space: 1..4 copies, lengths <= 3, alphabet {1,2}, bs 1..4
        words = [list(w) for L in range(0, 4) for w in itertools.product([1, 2], repeat=L)]
        for k in range(1, 5):
            for cs in itertools.product(words, repeat=k):
                if k == 4 and len(cs[0]) + len(cs[1]) + len(cs[2]) + len(cs[3]) > 9:
                    continue
                for bs in (1, 2, 3, 4):
                    res.append((bs, [list(c) for c in cs], ["exhaustive"]))
    return res


def check_case(bs, copies, oc, use_files):
    """oracle S on the implementation; returns (impl reply, violation or None)"""
    sout, src, serrs = spec_vote(copies)
    try:
        out, rc, errs = impl_vote(copies, bs, use_files)
    except Exception as ex:     # an exception out of the routine is a failure of the property on this input, not of the harness
        v = {"input": {"bs": bs, "copies": [bytes(c).hex() for c in copies], "output": "directory" if use_files else "file handle"},
             "impl": {"raised": "%s: %s" % (type(ex).__name__, str(ex)[:160])},
             "required": {"out": sout.hex(), "status": src, "errors": serrs},
             "what": "majority_vote_byte_scan raised instead of returning the per-offset plurality / the first copy"}
        return "exception", v
    v = None
    if out != sout or rc != src or (serrs is not None and errs != serrs):
        v = {"input": {"bs": bs, "copies": [bytes(c).hex() for c in copies]},
             "impl": {"out": out.hex(), "status": rc, "errors": errs},
             "required": {"out": sout.hex(), "status": src, "errors": serrs},
             "what": "majority_vote_byte_scan output differs from the per-offset plurality"}
    return reply_of(out, rc, errs), v


def run(oc, tier, seed, model_available, escalate):
    cs = cases(tier, seed, escalate)
    lines = []
    impl = []
    for idx, (bs, copies, kinds) in enumerate(cs):
        use_files = (idx % 10 == 0)
        rep, v = check_case(bs, copies, oc, use_files)
        oc.oracle_cases += 1
        if v:
            oc.violations.append(v)
        lines.append(line_of(bs, copies))
        impl.append(rep)
        for k in kinds:
            oc.count("copy_kind:" + k)
        oc.count("ncopies:%d" % len(copies))
        oc.count("bs<=maxlen" if copies and bs <= max([len(c) for c in copies] + [0]) else "bs>maxlen")
        if len(set(map(tuple, copies))) > 1:
            oc.distinct.add((bs, tuple(map(tuple, copies))))
        if idx % max(1, len(cs) // 5) == 0:
            oc.sample({"request": lines[-1], "impl_reply": rep})
    # ---- through the command line: replica folders given in an arbitrary (not alphabetical) order - "order matters": ties and
    # all-different offsets take the byte of the FIRST GIVEN copy
    import os
    import shutil
    from pyFileFixity import replication_repair as rr_
    rngc = random.Random(seed * 7919 + 606)
    dcli = os.path.join(common.scratch(), "c06cli")
    ncli = (25 if tier == "quick" else 300) * (2 if escalate else 1)
    for _ in range(ncli):
        shutil.rmtree(dcli, ignore_errors=True)
        k = rngc.choice([3, 4, 4, 5, 6])
        names = rngc.sample(["vault", "backup", "archive", "disk2", "disk1", "copy10", "copy2", "copy1", "Zeta", "alpha", "m"], k)
        ln = rngc.choice([1, 3, 8, 20])
        base = [rngc.randrange(256) for _ in range(ln)]
        copies = []
        for i in range(k):
            c = list(base)
            for j in range(ln):
                r = rngc.random()
                if r < 0.35:
                    c[j] = rngc.choice([65, 66, 67])      # few values: ties and all-different columns are frequent
            if rngc.random() < 0.2:
                c = c[:rngc.randint(0, ln)]
            copies.append(c)
        dirs = []
        for nm, c in zip(names, copies):
            dd = os.path.join(dcli, nm)
            os.makedirs(dd)
            with open(os.path.join(dd, "f.bin"), "wb") as f:
                f.write(bytes(c))
            dirs.append(dd)
        outd = os.path.join(dcli, "out")
        cwd = os.getcwd()
        os.chdir(dcli)
        try:
            with common.captured():
                rcm = rr_.main(["-i"] + dirs + ["-o", outd, "--silent", "-f"])
        except BaseException as ex:
            rcm = "exception:%s" % type(ex).__name__
        finally:
            os.chdir(cwd)
        op = os.path.join(outd, "f.bin")
        got = open(op, "rb").read() if os.path.exists(op) else None
        sout, src, _serrs = spec_vote(copies)
        oc.oracle_cases += 1
        oc.count("cli: folders in given order")
        if got != bytes(sout) or (rcm not in (0, 1)) or (int(rcm) != (1 if src else 0)):
            oc.violations.append({"input": {"folders_in_given_order": names, "copies": [bytes(c).hex() for c in copies]},
                                  "impl": {"out": None if got is None else got.hex(), "exit": str(rcm)},
                                  "required": {"out": bytes(sout).hex(), "exit": 1 if src else 0},
                                  "what": "`pff dup` on folders given in this order does not give the per-offset plurality with the first given copy "
                                          "breaking ties"})
    shutil.rmtree(dcli, ignore_errors=True)
    if tier == "thorough":
        oc.exhaustive = False
        oc.notes.append("exhaustive sub-space enumerated completely: <=4 copies x lengths<=3 x alphabet{1,2} x bs 1..4 (4-copy total length <= 9)")
    if model_available:
        model, err = common.run_driver(lines)
        if model is None:
            oc.x_disagreements.append({"driver_error": err})
        else:
            for l, m, i in zip(lines, model, impl):
                oc.x_cases += 1
                if m != i:
                    oc.x_disagreements.append({"request": l, "model": m, "impl": i})
    else:
        oc.notes.append("Lean model did not build: correspondence X not run")


def search(seed, tier, hints):
    """larger seeded search on the implementation only"""
    rng = random.Random(seed + 424242)
    for h in hints:
        if "request" in h:
            toks = h["request"].split()
            bs = int(toks[1])
            copies = [list(common.unhx(t)) for t in toks[2:]]
            _, v = check_case(bs, copies, None, False)
            if v:
                return shrink(v)
    for _ in range(20000 if tier == "quick" else 200000):
        bs, copies, _k = gen_case(rng)
        _, v = check_case(bs, copies, None, False)
        if v:
            return shrink(v)
    return None


def shrink(v):
    bs = v["input"]["bs"]
    copies = [list(bytes.fromhex(c)) for c in v["input"]["copies"]]
    best = v
    improved = True
    while improved:
        improved = False
        cands = []
        for i in range(len(copies)):
            if len(copies) > 3:
                cands.append((bs, copies[:i] + copies[i + 1:]))
            if copies[i]:
                cands.append((bs, copies[:i] + [copies[i][:-1]] + copies[i + 1:]))
                cands.append((bs, copies[:i] + [copies[i][1:]] + copies[i + 1:]))
        if bs > 1:
            cands.append((bs - 1, copies))
        for b2, c2 in cands:
            _, v2 = check_case(b2, c2, None, False)
            if v2:
                bs, copies, best = b2, c2, v2
                improved = True
                break
    return best


def replay(payload):
    inp = payload["input"]
    copies = [list(bytes.fromhex(c)) for c in inp["copies"]]
    rep, v = check_case(inp["bs"], copies, None, False)
    print("impl reply:", rep)
    if v:
        print("VIOLATION property=C06 replay=<given> : still fails:", v["required"])
        return 1
    print("no longer fails")
    return 0
