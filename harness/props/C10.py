"""C10 — block layout agrees between generation and correction (both ecc tools)."""
import io
import os
import random
import struct

import common
from common import hx

LEAN_MODULES = ["Pff.Props.C10", "Pff.Props.Hasher"]
PROP_MODULE = "Pff.Props.C10"
THEOREMS = ["Pff.Layout.C10_tiles", "Pff.Layout.C10_agree_whole", "Pff.Layout.C10_track_length",
            "Pff.Layout.C10_header_tiles", "Pff.Layout.C10_agree_header", "Pff.Layout.C10_stage_rule",
            "Pff.Layout.C10_read_rule_agrees",
            "Pff.Layout.C10_layout_congr",
            "Pff.Layout.C10_track_congr",
            "Pff.Hasher.HASH_length", "Pff.Hasher.HASH_table", "Pff.Hasher.HASH_unknown", "Pff.Hasher.HASH_b64_length",
            "Pff.Hasher.HASH_short_prefix", "Pff.Hasher.HASH_mini_prefix"]
MODELLED = [("pyFileFixity/lib/hasher.py", "Hasher.hash"), ("pyFileFixity/lib/hasher.py", "Hasher.__init__"), ("pyFileFixity/structural_adaptive_ecc.py", "stream_compute_ecc_hash"),
            ("pyFileFixity/structural_adaptive_ecc.py", "stream_entry_assemble"),
            ("pyFileFixity/structural_adaptive_ecc.py", "feature_scaling"),
            ("pyFileFixity/header_ecc.py", "compute_ecc_hash"),
            ("pyFileFixity/header_ecc.py", "entry_assemble"),
            ("pyFileFixity/lib/eccman.py", "compute_ecc_params")]
TRUSTED_BASE = [
    "Lean 4.33.0 kernel; axioms per theorem under coverage.theorems (subset of propext, Classical.choice, Quot.sound)",
    "hand-written model lean/Pff/Model/Layout.lean; theorems are over an uninterpreted offset->message-length function, so no float "
    "semantics is trusted by them",
    "the published rule with Python's float rounding (round-half-even of mbs/(1+2*rate), linear interpolation) is checked as a TEST over "
    "a finite grid: Lean Float model vs compute_ecc_params/feature_scaling, bit-for-bit",
    "real stream_compute_ecc_hash / stream_entry_assemble / compute_ecc_hash / entry_assemble run with stub codec and hasher objects "
    "(so only the layout logic is exercised here; the codecs are C02/C11/C12)",
]
ASSUMPTIONS = ["well-formed parameters: message length >= 1 at every offset, hash+parity >= 1 byte per block (k < max_block_size or a hash)",
               "generation and correction see the same file size (the recorded size is the actual size), as in C01/C03"]
RULE = ("sweep over file sizes 0..N (quick N=1500 thinned, thorough N=20000 thinned + all sizes 0..1500), header sizes {1,7,64,1024}, "
        "rate triples on a grid (increasing/decreasing/equal, ties of the rounding rule such as rate 0.5 with odd max_block_size), "
        "max_block_size 2..255, hash lengths {32,8,4}; directed sizes where a block starts exactly where max_block/(1+2*rate) is a half-integer (computed in exact rational arithmetic); plus exhaustive (max_block_size 2..255) x (62 rates) comparison of the rate formula; "
        "non-trivial = file of >= 2 blocks; distinct = distinct request")

RATES = [0.01, 0.05, 0.1, 0.15, 0.2, 0.25, 0.3, 0.4, 0.5, 0.75, 1.0, 1.5, 2.0]


def fbits(x):
    return struct.unpack(">Q", struct.pack(">d", float(x)))[0]


class StubHasher:
    def __init__(self, hl):
        self.hl = hl

    def __len__(self):
        return self.hl

    def hash(self, mes):
        mes = bytes(mes)
        return bytes([(sum(mes) + len(mes)) % 256]) * self.hl


class StubEcc:
    def __init__(self, mbs, k=None):
        self.mbs = mbs
        self.k = k

    def encode(self, mes, k=None):
        mes = bytes(mes)
        if not k:
            k = self.k
        return bytes([(sum(mes) * 3 + k) % 256]) * (self.mbs - k)


class RecFile(io.BytesIO):
    def __init__(self, data):
        super().__init__(data)
        self.log = []

    def read(self, n=-1):
        pos = self.tell()
        r = super().read(n)
        self.log.append((pos, len(r)))
        return r


def saecc():
    from pyFileFixity import structural_adaptive_ecc
    return structural_adaptive_ecc


def hecc():
    from pyFileFixity import header_ecc
    return header_ecc


def show_blocks(bl):
    return " ".join("%d:%d:%d" % b for b in bl) if bl else "-"


def show_asm(al):
    return " ".join("%d:%d:%d:%s:%s" % (o, l, k, hx(h), hx(e)) for (o, l, k, h, e) in al) if al else "-"


def wf_whole(mbs, hdr, size, rates, hl):
    """well-formedness: 1 <= k(x) and hash+parity >= 1 at every reachable offset (cheap sufficient test on the rate range)"""
    from pyFileFixity.lib.eccman import compute_ecc_params
    ks = [compute_ecc_params(mbs, r, StubHasher(hl))["message_size"] for r in rates]
    lo, hi = min(ks), max(ks)
    return lo >= 1 and (hl >= 1 or hi < mbs) and hi <= mbs


def gen_whole(content, mbs, hdr, rates, hl):
    f = RecFile(content)
    blocks = []
    track = b""
    for h, e, params in saecc().stream_compute_ecc_hash(StubEcc(mbs), StubHasher(hl), f, mbs, hdr, rates):
        track += h + e
        blocks.append(params["message_size"])
    reads = [(p, l) for (p, l) in f.log if l > 0 or True]
    # reads of the main loop: one per block, in order (seek/tell do not log)
    reads = [r for r in f.log]
    bl = [(reads[i][0], reads[i][1], blocks[i]) for i in range(len(blocks))]
    return bl, track


def asm_whole(content, track, mbs, hdr, rates, hl, recorded_size=None):
    f = io.BytesIO(content)
    ef = io.BytesIO(track)
    fields = {"ecc_field_pos": [0, len(track)], "filesize": len(content) if recorded_size is None else recorded_size}
    res = []
    with common.captured():
        for e in saecc().stream_entry_assemble(StubHasher(hl), f, ef, fields, mbs, hdr, rates):
            res.append((e["curpos"], len(e["message"]), e["ecc_params"]["message_size"], bytes(e["hash"]), bytes(e["ecc"]), bytes(e["message"])))
    return res


def oracle_whole(content, mbs, hdr, rates, hl, bl, track, asm):
    from pyFileFixity.lib.eccman import compute_ecc_params
    errs = []
    size = len(content)
    pos = 0
    for (o, l, k) in bl:
        if o != pos or l < 1:
            errs.append("generation partition has a gap/overlap/empty block at offset %d" % o)
            break
        rate = rates[0] if o < hdr else rates[1] + float(o - hdr) * (rates[2] - rates[1]) / (size - hdr)
        if k != int(round(float(mbs) / (1 + 2 * rate), 0)):
            errs.append("message length at offset %d is %d, the published rule gives %d" % (o, k, int(round(float(mbs) / (1 + 2 * rate), 0))))
        pos += l
    if not errs and pos != size:
        errs.append("generation partition covers %d of %d bytes" % (pos, size))
    if [(o, l, k) for (o, l, k, _h, _e, _m) in asm] != bl:
        errs.append("partition read back differs from the partition generated")
    else:
        hs, es = StubHasher(hl), StubEcc(mbs)
        exp = b""
        for (o, l, k, h, e, m) in asm:
            if h != hs.hash(m) or e != es.encode(m, k=k):
                errs.append("block at offset %d is paired with a hash/parity that is not its own" % o)
                break
            exp += hs.hash(m) + es.encode(m, k=k)
        if not errs and exp != track:
            errs.append("stored track is not the concatenation of hash+parity of the blocks")
    return errs


def gen_header(content, mbs, k, hdr, hl):
    buf = content[:hdr]
    parts = hecc().compute_ecc_hash(StubEcc(mbs, k), StubHasher(hl), buf, mbs, 0.0, message_size=k, as_string=True)
    return b"".join(parts), len(parts)


def asm_header(path, content, track, mbs, k, hdr, hl):
    fields = {"ecc_field": track, "filesize": len(content)}
    params = {"message_size": k, "hash_size": hl, "ecc_size": mbs - k}
    res = hecc().entry_assemble(fields, params, hdr, path)
    out = []
    off = 0
    for e in res:
        out.append((off, len(e["message"]), k, bytes(e["hash"]), bytes(e["ecc"]), bytes(e["message"])))
        off += len(e["message"])
    return out


def run(oc, tier, seed, model_available, escalate):
    from pyFileFixity.lib.eccman import compute_ecc_params
    rng = random.Random(seed * 49979687 + 10)
    lines, impl = [], []

    def add(l, r):
        lines.append(l)
        impl.append(r)

    # ---- 1. the rate formula, exhaustively over max_block_size x rates (a finite grid: a test, labelled as such)
    rates_grid = [i / 40.0 for i in range(1, 41)] + [1.25, 1.5, 2.0, 3.0, 0.001, 0.3333333333333333, 0.6666666666666666,
                                                      0.7, 0.9, 0.45, 0.55, 0.0001, 10.0] + [rng.random() for _ in range(9)]
    for mbs in range(2, 256):
        for r in rates_grid:
            k = compute_ecc_params(mbs, r, StubHasher(0))["message_size"]
            add("ksize %d %d" % (mbs, fbits(r)), str(k))
    oc.count("rate-formula grid", 254 * len(rates_grid))
    nfs = 3000 if tier == "quick" else 30000
    for _ in range(nfs):
        xmin = rng.choice([1, 7, 64, 1024])
        xmax = xmin + rng.randint(1, 30000)
        x = rng.randint(xmin, xmax - 1)
        a, b = rng.choice(RATES), rng.choice(RATES)
        add("fscale %d %d %d %d %d" % (x, xmin, xmax, fbits(a), fbits(b)), str(fbits(saecc().feature_scaling(x, xmin, xmax, a, b))))
    oc.count("feature_scaling samples", nfs)

    # ---- 1b. the hash kinds (lib/hasher.Hasher): value and declared length vs the model (Pff.Hasher), and the length clause on the real class
    import hashlib
    from pyFileFixity.lib.hasher import Hasher
    for it_ in range(120 if tier == "quick" else 2000):
        algo = rng.choice(["md5", "shortmd5", "shortsha256", "minimd5", "minisha256", "none", "MD5", "ShortMD5", "sha1", "", "md5 "])
        msg = bytes(rng.randrange(256) for _ in range(rng.choice([0, 1, 5, 64, 300])))
        m5, s2 = hashlib.md5(msg).hexdigest().encode(), hashlib.sha256(msg).hexdigest().encode()
        try:
            hs_ = Hasher(algo)
            val, ln = hs_.hash(msg), len(hs_)
            val = val.encode("latin-1") if isinstance(val, str) else bytes(val)
            oc.oracle_cases += 1
            if len(val) != ln:
                oc.violations.append({"input": {"hash_kind": algo, "message": msg.hex()}, "impl": {"hash": val.hex(), "len(hasher)": ln},
                                      "what": "Hasher.hash returns %d bytes but len(hasher) = %d: the stored track is not hash+parity of the declared sizes" % (len(val), ln)})
            rep_ = "%s %d" % (hx(val), ln)
        except NameError:
            rep_ = "NameError NameError"
        # (the class lower-cases the kind it is given)
        add("hasher %s %s %s" % (hx(algo.lower().encode()), hx(m5), hx(s2)), rep_)
    oc.count("hash kinds: Hasher.hash / len(hasher) cases", 120 if tier == "quick" else 2000)

    # ---- 2. whole-file tool: partition sweep over sizes (content irrelevant: zeros)
    N = 1500 if tier == "quick" else 20000
    sizes = sorted(set(list(range(0, 70)) + [rng.randint(0, N) for _ in range(60 if tier == "quick" else 400)] +
                       [N, N - 1, 255, 256, 1023, 1024, 1025] + (list(range(0, 1501)) if tier == "thorough" else [])))
    grid = []
    for mbs in ([2, 3, 5, 10, 27, 50, 101, 254, 255] if tier == "quick" else [2, 3, 4, 5, 7, 10, 16, 27, 50, 64, 101, 128, 200, 254, 255]):
        for hdr in [1, 7, 64, 1024]:
            for _ in range(2 if tier == "quick" else 4):
                tri = rng.choice([(0.3, 0.2, 0.1), (0.1, 0.2, 0.3), (0.5, 0.5, 0.5), (0.25, 0.5, 0.05), (1.0, 0.5, 0.25),
                                  (rng.choice(RATES), rng.choice(RATES), rng.choice(RATES))])
                grid.append((mbs, hdr, tri, rng.choice([32, 8, 4])))
    d = os.path.join(common.scratch(), "c10")
    os.makedirs(d, exist_ok=True)
    hpath = os.path.join(d, "h.bin")
    nlay = 0
    for (mbs, hdr, tri, hl) in grid:
        rates = list(tri)
        if not wf_whole(mbs, hdr, 0, rates, hl):
            oc.count("excluded: ill-formed parameters (k<1 or no parity and no hash)")
            continue
        for size in (sizes if (tier == "quick" and mbs in (5, 255)) or (tier == "thorough" and mbs == 255) else
                     sizes[::(3 if tier == "quick" else (4 if mbs in (5, 50) else 16))]):
            if mbs <= 3 and size > 600:
                continue
            content = bytes(size) if rng.random() < 0.8 else bytes(rng.randrange(256) for _ in range(size))
            bl, track = gen_whole(content, mbs, hdr, rates, hl)
            asm = asm_whole(content, track, mbs, hdr, rates, hl)
            oc.oracle_cases += 1
            for e in oracle_whole(content, mbs, hdr, rates, hl, bl, track, asm):
                oc.violations.append({"input": {"tool": "whole", "size": size, "max_block_size": mbs, "header_size": hdr,
                                                "rates": rates, "hash_len": hl}, "what": e,
                                      "impl": {"generated": show_blocks(bl)[:400], "read_back": show_blocks([a[:3] for a in asm])[:400]}})
            add("layoutw %d %d %d %d %d %d" % (mbs, hdr, size, fbits(rates[0]), fbits(rates[1]), fbits(rates[2])), show_blocks(bl))
            nlay += 1
            if len(bl) >= 2:
                oc.distinct.add(lines[-1])
            if size <= 300 and rng.random() < 0.15:
                add("asmw %d %d %d %d %d %d %s" % (mbs, hdr, hl, fbits(rates[0]), fbits(rates[1]), fbits(rates[2]), hx(content)),
                    "%s %s" % (hx(track), show_asm([a[:5] for a in asm])))
                oc.count("whole: read-back with content")
            if nlay % 4000 == 1:
                oc.sample({"request": lines[-1][:200], "impl_reply": impl[-1][:200]})
    oc.count("whole: layouts", nlay)

    # ---- 2b. directed: file sizes for which some block starts exactly where the ideal message length max_block/(1+2*rate) is a
    # half-integer (the interpolated rate is a rational function of offset and size: those (size, offset) pairs are computed exactly).
    # There the rounding of the last floating-point bit decides the message length, so generation and correction agree only if they
    # evaluate the SAME expression - any algebraically equivalent rewrite of one side (hoisted slope, reordered products) shows here
    from fractions import Fraction
    ncrit = nhit = 0
    crit_budget = 500 if tier == "quick" else 8000
    pairs = [("0.3", "0.2"), ("0.2", "0.1"), ("0.5", "0.1"), ("0.3", "0.1"), ("0.4", "1.0"), ("0.1", "0.3"), ("0.25", "0.05"), ("0.75", "0.25")]
    rng.shuffle(pairs)
    for (a_, b_) in pairs * (1 if tier == "quick" else 3):
        mbs, hdr, hl = rng.choice([(255, 1024, 32), (255, 1024, 32), (255, 64, 8), (101, 1024, 4), (50, 7, 32)])
        r2, r3 = Fraction(a_), Fraction(b_)
        rates = [rng.choice([0.3, 0.5, float(a_)]), float(a_), float(b_)]
        if not wf_whole(mbs, hdr, 0, rates, hl):
            continue
        cands = []
        for m in range(1, mbs):
            r = (Fraction(mbs) / Fraction(2 * m + 1, 2) - 1) / 2
            if not (min(r2, r3) < r < max(r2, r3)):
                continue
            q = (r - r2) / (r3 - r2)
            for j in range(1, (9000 - hdr) // q.denominator + 1):
                cands.append((hdr + q.denominator * j, hdr + q.numerator * j))
        rng.shuffle(cands)

        def starts(size):
            # quick prediction of the block starts (the published rule in plain floating point; only used to pick candidates - the
            # real loops decide)
            out, cur = set(), 0
            while cur < size:
                out.add(cur)
                rate = rates[0] if cur < hdr else rates[1] + (float(cur - hdr) / float(size - hdr)) * (rates[2] - rates[1])
                k = int(round(mbs / (1 + 2 * rate)))
                if k < 1:
                    break
                cur += k
            return out
        picked = 0
        for (size, cstart) in cands[:(6000 if tier == "quick" else 60000)]:
            ncrit += 1
            if cstart not in starts(size):
                continue            # no block is predicted to start at the critical offset for this size
            if picked >= max(8, crit_budget // (10 * len(pairs))):
                break
            picked += 1
            content = bytes(size)
            bl, track = gen_whole(content, mbs, hdr, rates, hl)
            if not any(b[0] == cstart for b in bl):
                continue
            nhit += 1
            asm = asm_whole(content, track, mbs, hdr, rates, hl)
            oc.oracle_cases += 1
            for e in oracle_whole(content, mbs, hdr, rates, hl, bl, track, asm):
                oc.violations.append({"input": {"tool": "whole", "size": size, "max_block_size": mbs, "header_size": hdr,
                                                "rates": rates, "hash_len": hl, "critical_block_start": cstart}, "what": e,
                                      "impl": {"generated": show_blocks(bl)[:400], "read_back": show_blocks([a[:3] for a in asm])[:400]}})
            add("layoutw %d %d %d %d %d %d" % (mbs, hdr, size, fbits(rates[0]), fbits(rates[1]), fbits(rates[2])), show_blocks(bl))
            oc.distinct.add(lines[-1])
    oc.count("directed: candidate sizes for an exact half-integer message length", ncrit)
    oc.count("directed: sizes with a block starting exactly at a half-integer message length", nhit)

    # ---- 3. header tool
    nh = 0
    for (mbs, hdr, tri, hl) in grid:
        k = compute_ecc_params(mbs, tri[0], StubHasher(hl))["message_size"]
        if k < 1 or (hl == 0 and k >= mbs) or k > mbs:
            continue
        for size in sizes[:: (5 if tier == "quick" else 2)]:
            if size > 3000 or (mbs <= 3 and size > 400):
                continue
            content = bytes(rng.randrange(256) for _ in range(size))
            open(hpath, "wb").write(content)
            track, nblocks = gen_header(content, mbs, k, hdr, hl)
            asm = asm_header(hpath, content, track, mbs, k, hdr, hl)
            oc.oracle_cases += 1
            n = min(hdr, size)
            want = [(o, min(k, n - o), k) for o in range(0, n, k)]
            errs = []
            if [a[:3] for a in asm] != want or nblocks != len(want):
                errs.append("header partition differs from range(0, min(size, header), k) on one side")
            else:
                hs, es = StubHasher(hl), StubEcc(mbs)
                if any(a[3] != hs.hash(a[5]) or a[4] != es.encode(a[5], k=k) or a[5] != content[a[0]:a[0] + a[1]] for a in asm):
                    errs.append("a header block is paired with a hash/parity that is not its own")
                if track != b"".join(hs.hash(a[5]) + es.encode(a[5], k=k) for a in asm):
                    errs.append("stored header track is not the concatenation of hash+parity")
            for e in errs:
                oc.violations.append({"input": {"tool": "header", "size": size, "max_block_size": mbs, "header_size": hdr, "k": k,
                                                "hash_len": hl}, "what": e,
                                      "impl": {"read_back": show_blocks([a[:3] for a in asm])[:400]}})
            add("layouth %d %d %d" % (k, hdr, size), show_blocks([a[:3] for a in asm]))
            if size <= 300 and rng.random() < 0.2:
                add("asmh %d %d %d %d %s" % (mbs, k, hdr, hl, hx(content)), "%s %s" % (hx(track), show_asm([a[:5] for a in asm])))
            nh += 1
            if len(want) >= 2:
                oc.distinct.add(lines[-1])
    oc.count("header: layouts", nh)
    oc.sample({"request": lines[-1][:200], "impl_reply": impl[-1][:200]})

    # ---- real generation runs (real codec and hasher): the ecc file equals the model's generated file byte for byte, and every parity the
    # codec returns has the length the rule gives (also for blocks without parity symbols at very low rates)
    import ecc_file_x as fx
    gd = os.path.join(common.scratch(), "c10gen")
    gl, gi = fx.gen_cases(rng, (18 if tier == "quick" else 300) * (2 if escalate else 1), gd, oc, label="real generation")
    lines += gl
    impl += gi
    import shutil
    shutil.rmtree(gd, ignore_errors=True)
    # ---- real tools, read-back of a file that GREW after generation (--ignore_size): the partition read back is that of the recorded
    # size (header tool: the first min(recorded size, --size) bytes in blocks of the message size, the last one short), so an otherwise
    # untouched file verifies clean in its protected part and nothing is written
    import ecc_scen as es
    import ecc_util as eu
    gd2 = os.path.join(common.scratch(), "c10grow")
    for it_ in range(10 if tier == "quick" else 150):
        shutil.rmtree(gd2, ignore_errors=True)
        P = es.gen_params(rng, tool=rng.choice(["header", "header", "whole"]), small=True, erasures=False)
        P.mbs = max(P.mbs, 20)
        P.algo = rng.choice([3, 4])
        if not P.well_formed():
            continue
        k1 = P.k_of_rate(P.r1)
        P.size = max(P.size, 2 * k1 + 3)
        # recorded size below --size and not a multiple of the message size (the last protected block is short)
        s0 = rng.randint(1, P.size - 1)
        if s0 % k1 == 0:
            s0 += 1
        if P.tool == "whole":
            s0 = rng.choice([s0, P.size + 2 * k1 + 1])
        content = bytes(rng.randrange(1, 256) for _ in range(s0))
        root = os.path.join(gd2, "r")
        eu.write_tree(root, {"f.bin": content})
        eccp = os.path.join(gd2, "e.txt")
        if eu.generate(P, root, eccp) != "0" or eu.accidental(open(eccp, "rb").read(), 1):
            continue
        grown = content + bytes(rng.randrange(256) for _ in range(rng.choice([1, 7, k1, 3 * k1 + 5])))
        eu.write_tree(root, {"f.bin": grown})
        P.ignore_size = True
        rc, st, out, _txt = eu.correct(P, root, eccp, os.path.join(gd2, "out"))
        oc.oracle_cases += 1
        oc.count("read-back of a grown file (--ignore_size), %s tool" % P.tool)
        # whole-file tool: the last block of the recorded partition is read at full message length from the longer file (documented
        # behaviour: it then mismatches); only the header tool's partition stops at the recorded size
        if P.tool == "header" and (rc != "0" or st is None or st[:2] != (1, 0) or out):
            oc.violations.append({"input": {"params": P.describe(), "recorded_size": s0, "current_size": len(grown), "content": grown.hex()[:4000]},
                                  "impl": {"exit": rc, "stats": st, "written": sorted(out)},
                                  "required": {"exit": "0", "stats": "(1 processed, 0 corrupted, ...)", "written": []},
                                  "what": "a file that only grew after generation (recorded size below --size, last protected block short) is "
                                          "not read back in the blocks it was generated in: its untouched protected part is reported corrupted"})
    shutil.rmtree(gd2, ignore_errors=True)
    if model_available:
        model, err = common.run_driver(lines)
        if model is None:
            oc.x_disagreements.append({"driver_error": err})
        else:
            for l, mm, ii in zip(lines, model, impl):
                oc.x_cases += 1
                if mm != ii:
                    oc.x_disagreements.append({"request": l[:300], "model": mm[:300], "impl": ii[:300]})
    else:
        oc.notes.append("Lean model did not build: correspondence X not run")


def search(seed, tier, hints):
    oc = common.Outcome()
    run(oc, "quick", seed + 101010, False, True)
    return oc.violations[0] if oc.violations else None


def replay(payload):
    inp = payload["input"]
    print("replay input:", inp)
    if inp["tool"] == "whole":
        content = bytes(inp["size"])
        bl, track = gen_whole(content, inp["max_block_size"], inp["header_size"], inp["rates"], inp["hash_len"])
        asm = asm_whole(content, track, inp["max_block_size"], inp["header_size"], inp["rates"], inp["hash_len"])
        errs = oracle_whole(content, inp["max_block_size"], inp["header_size"], inp["rates"], inp["hash_len"], bl, track, asm)
        print("errors:", errs)
        return 1 if errs else 0
    print("header-tool replay: re-run the check with the recorded seed")
    return 0
