"""C05 — hash audit (`pff hash` generate + check mode)."""
import csv
import os
import random
import shutil

import common
import rfigc_util as ru
from common import hx

LEAN_MODULES = ["Pff.Props.C05", "Pff.Props.Csv", "Pff.Props.Path", "Pff.Props.RfigcDb"]
PROP_MODULE = "Pff.Props.C05"
THEOREMS = ["Pff.Rfigc.C05_rule", "Pff.Rfigc.C05_clean", "Pff.Rfigc.C05_exact", "Pff.Rfigc.C05_single",
            "Pff.Csv.C05_csv_roundtrip",
            "Pff.Csv.C05_csv_cr_witness",
            "Pff.Csv.C05_db_roundtrip",
            "Pff.RfigcDb.C05_hex_roundtrip", "Pff.RfigcDb.C05_row_roundtrip", "Pff.RfigcDb.C05_db_file_roundtrip",
            "Pff.RfigcDb.C05_pipeline", "Pff.RfigcDb.C05_pipeline_clean",
            "Pff.Path.PATH_abspath_good", "Pff.Path.PATH_gen_root_independent", "Pff.Path.PATH_mount_eq", "Pff.Path.PATH_join_injective",
            "Pff.Path.PATH_lookup_relocated", "Pff.Path.PATH_relFS_nodup", "Pff.Path.PATH_single_file"]
MODELLED = [("pyFileFixity/rfigc.py", "main"), ("pyFileFixity/rfigc.py", "generate_hashes"), ("pyFileFixity/lib/_compat.py", "_csv_writer")]
TRUSTED_BASE = [
    "Lean 4.33.0 kernel; axioms per theorem under coverage.theorems (subset of propext, Classical.choice, Quot.sound)",
    "hand-written model lean/Pff/Model/Rfigc.lean (rows, difference rules, single-file filter), tied to /repo by running the real "
    "`pff hash -g` / check on generated trees and mutations and comparing reported paths, errors file and exit status",
    "hashlib md5/sha1 are a parameter (any deterministic function); detection of a content change assumes the two contents do not collide",
    "the csv layer (delimiter |, quote \", minimal quoting) is exercised with hostile names by every case, not modelled in Lean",
    "mtime comparison modelled with round(mtime) supplied by the harness (mtimes are chosen at .0/.25/.75 s so that rounding is unambiguous)",
]
ASSUMPTIONS = ["touch mutations move the modification time by >= 1 s (smaller moves that round to the same second are deliberately ignored by the tool)",
               "structure check (-s, PIL) not exercised"]
RULE = ("trees of 1-6 files with csv-hostile printable names (|, quotes, spaces, CJK, accents, leading dot, nested dirs), mutation sets over "
        "{bit flip with size+mtime restored at offsets incl. 0/65535/65536/last, md5-colliding twin (same md5, size and time), append, truncate, delete, rename, touch}, option combinations "
        "(-m, --skip_missing, --skip_hash), folder and single-file input, original and relocated (copy2) root; non-trivial = at least one "
        "mutation; distinct = distinct request")


def cps(s):
    return ".".join(str(ord(c)) for c in s) or "-"


def mutate(rng, tree):
    """returns (new tree, set of recorded paths that were changed/removed)"""
    t = dict(tree)
    touched = set()
    kinds = []
    for p in sorted(tree):
        if rng.random() < 0.45:
            c, m = t[p]
            k = rng.choice(["flip", "append", "truncate", "delete", "rename", "touch"])
            if k == "flip":
                if not c:
                    continue
                off = rng.choice([0, len(c) - 1, rng.randrange(len(c))] + ([65535, 65536] if len(c) > 65536 else []))
                cc = bytearray(c)
                cc[off] ^= 1 << rng.randrange(8)
                t[p] = (bytes(cc), m)
            elif k == "append":
                t[p] = (c + b"+", m)
            elif k == "truncate":
                if not c:
                    continue
                t[p] = (c[:-1], m)
            elif k == "delete":
                del t[p]
            elif k == "rename":
                del t[p]
                t[p + ".renamed"] = (c, m)
            elif k == "touch":
                dt = rng.choice([1, 2, 3600, -1, -2, -3600, -86400]) * 10**9             # later AND earlier than recorded
                t[p] = (c, m + dt if m + dt >= 0 else m - dt)                              # (never before the epoch: not expressible in the driver protocol)
            touched.add(p)
            kinds.append(k)
    return t, touched, kinds


def run(oc, tier, seed, model_available, escalate):
    rng = random.Random(seed * 67867967 + 5)
    n = 200 if tier == "quick" else 2500
    if escalate:
        n *= 3
    d = os.path.join(common.scratch(), "c05")
    lines, impl = [], []
    for i in range(n):
        ru.rmtree(d)
        tree = ru.gen_tree(rng)
        if i % 9 == 0:  # a file crossing the 65536-byte hashing buffer
            big = bytes(rng.randrange(256) for _ in range(65536 + rng.choice([-1, 0, 1, 500])))
            tree["big.bin"] = (big, ru.BASE_NS)
        root = os.path.join(d, "orig")
        ru.write_tree(root, tree)
        db = os.path.join(d, "db.csv")
        rc, _ = ru.run_main(["-i", root, "-d", db, "-g", "-f", "--silent"])
        if rc != "0":
            oc.violations.append({"input": {"tree": sorted(tree)}, "what": "generation failed: %s" % rc})
            continue
        if i % 11 == 3:
            # a file replaced by its md5-colliding twin (Wang et al.): same md5, same size, time restored - only the sha1 tells
            # (the "one of the hashes failed but not the other" rule)
            suffix = bytes(rng.randrange(256) for _ in range(rng.choice([0, 1, 40])))
            tree["twin.bin"] = (ru.MD5_TWINS[0] + suffix, ru.BASE_NS)
            ru.write_tree(root, {"twin.bin": tree["twin.bin"]})
            rc, _ = ru.run_main(["-i", root, "-d", db, "-g", "-f", "--silent"])
            t2, touched, kinds = dict(tree), {"twin.bin"}, ["md5-twin"]
            t2["twin.bin"] = (ru.MD5_TWINS[1] + suffix, ru.BASE_NS)
        else:
            t2, touched, kinds = mutate(rng, tree) if i % 5 else (dict(tree), set(), [])
        if i % 4 == 0:
            # ---- the database file itself: header and the fields of every row as the tool wrote them vs the model of the file (Pff.RfigcDb)
            raw = ru.read_rows(db)
            if raw:
                lines.append("rfdbhdr")
                impl.append(",".join(cps(x) for x in raw[0]))
                for r_ in raw[1:]:
                    if len(r_) != 7:
                        continue
                    try:
                        lines.append("rfdbrow %s %d %d 0 %d %s" % (hx(r_[0].encode()), int(r_[1], 16), int(r_[2], 16), int(r_[5]), hx(r_[6].encode())))
                    except ValueError:
                        continue
                    impl.append(",".join(cps(x) for x in (r_[0], r_[1], r_[2], "0", "", r_[5], r_[6])) + " roundtrip")
                    oc.count("database file: rows compared field by field")
        relocated = rng.random() < 0.4
        chk_root = os.path.join(d, "moved here") if relocated else root
        if relocated:
            ru.write_tree(chk_root, t2)
        else:
            ru.rmtree(root)
            ru.write_tree(root, t2)
        opts = {"m": rng.random() < 0.25, "sm": rng.random() < 0.25, "sh": rng.random() < 0.25}
        single = None
        top = [p for p in tree if "/" not in p]
        if top and rng.random() < 0.25:
            single = rng.choice(top)
            if single not in t2:
                single = None
        efile = os.path.join(d, "errors.csv")
        inpath = chk_root
        if single:
            # the same file spelled in different ways (the tool compares paths as strings in single-file mode)
            sp = rng.choice(["plain", "plain", "double-slash", "dot-component", "relative"])
            inpath = {"plain": os.path.join(chk_root, single), "double-slash": chk_root + "//" + single,
                      "dot-component": os.path.join(chk_root, ".", single),
                      "relative": os.path.relpath(os.path.join(chk_root, single), os.getcwd())}[sp]
            oc.count("single-file path spelling:" + sp)
        argv = ["-i", inpath, "-d", db, "-e", efile, "--silent"]
        if opts["m"]:
            argv.append("-m")
        if opts["sm"]:
            argv.append("--skip_missing")
        if opts["sh"]:
            argv.append("--skip_hash")
        rc, _ = ru.run_main(argv)
        oc.oracle_cases += 1
        reported = []
        if os.path.exists(efile):
            with open(efile, newline="", encoding="utf-8") as f:
                reported = [r[0] for r in csv.reader(f, delimiter="|", quotechar='"', lineterminator="\n") if r]
        # ---- property oracle (independent of the model)
        want = []
        dbpaths_ = [r["path"] for r in ru.read_db(db)]
        if sorted(dbpaths_) != sorted(tree):
            oc.violations.append({"input": {"tree": sorted(tree)}, "impl": {"recorded_paths": sorted(dbpaths_)},
                                  "what": "the generated database does not record exactly the relative paths of the tree (as the file system holds them)"})
            continue
        for p in dbpaths_:
            if single is not None and p != single:
                continue
            c0, m0 = tree[p]
            if p not in t2:
                ch = not opts["sm"]
            else:
                c1, m1 = t2[p]
                ch = (not opts["sh"] and c1 != c0) or len(c1) != len(c0) or (not opts["m"] and round(m1 / 1e9) != round(m0 / 1e9))
            if ch:
                want.append(p)
        wantrc = "1" if want else "0"
        if reported != want or rc != wantrc:
            oc.violations.append({"input": {"tree": {p: [c.hex(), m] for p, (c, m) in tree.items()},
                                            "mutations": kinds, "changed": sorted(touched), "opts": opts, "single": single, "relocated": relocated},
                                  "impl": {"exit": rc, "reported": reported}, "required": {"exit": wantrc, "reported": want},
                                  "what": "check mode did not report exactly the changed recorded files"})
        # ---- model request
        if max(len(c) for c, _ in list(tree.values()) + [(b"", 0)]) < 2000:
            allc = [c for c, _ in tree.values()] + [c for c, _ in t2.values()]
            lines.append("rfcheck %d %d %d %s %s ; %s ; %s" % (opts["m"], opts["sm"], opts["sh"], hx(single.encode()) if single else "-",
                                                            ru.file_tokens(tree), ru.file_tokens(t2), ru.ht_tokens(allc)))
            # the model reports in database order = walk order; compare as the tool wrote them (same order as db rows)
            dbpaths = [r["path"] for r in ru.read_db(db)]
            impl.append("%s %s" % (rc, ",".join(hx(p.encode()) for p in reported) if reported else "-"))
            # request trees are sorted by path, the db is in walk order: canonicalise both sides by sorting reported paths
            lines[-1] = lines[-1]
            if touched:
                oc.distinct.add(lines[-1])
            if i % max(1, n // 4) == 0:
                oc.sample({"request": lines[-1][:400], "impl_reply": impl[-1][:200]})
        for k in kinds:
            oc.count("mutation:" + k)
        oc.count("relocated" if relocated else "in-place")
        oc.count("single-file" if single else "folder")
        for o, v in opts.items():
            if v:
                oc.count("opt:" + o)
    # ---- path layer: the repo's fullpath / path2unix / recwalk / relpath_posix and the os.path functions under them vs the Lean model
    # (Pff.Path), and the relocation statement on the real functions
    import path_x
    pl, pi, pbad = path_x.cases(rng, (400 if tier == "quick" else 6000) * (2 if escalate else 1), common.scratch(), oc)
    lines += pl
    impl += pi
    for b_ in pbad[:3]:
        oc.violations.append({"input": {k: v for k, v in b_.items() if k != "what"}, "what": b_["what"]})
    # ---- csv layer: the repo's writer and Python's reader with the tools' parameters vs the Lean model (Pff.Csv), and the real round trip
    import csv_x
    cl, ci, cbad = csv_x.cases(rng, (150 if tier == "quick" else 2500) * (2 if escalate else 1), os.path.join(d, "csv"), oc)
    lines += cl
    impl += ci
    for b_ in cbad[:3]:
        oc.violations.append({"input": {"rows": b_["rows"]}, "impl": {"text": b_["text"], "read_back": b_["read_back"]},
                              "what": "rows written to a csv file with the tools' writer are not read back identically by the tools' reader"})
    ru.rmtree(d)
    if model_available:
        model, err = common.run_driver(lines)
        if model is None:
            oc.x_disagreements.append({"driver_error": err})
        else:
            for l, mm, ii in zip(lines, model, impl):
                oc.x_cases += 1
                if canon(mm) != canon(ii):
                    oc.x_disagreements.append({"request": l[:600], "model": mm[:300], "impl": ii[:300]})
    else:
        oc.notes.append("Lean model did not build: correspondence X not run")


def canon(rep):
    parts = rep.split(" ")
    if len(parts) == 2 and parts[1] != "-":
        return parts[0] + " " + ",".join(sorted(parts[1].split(",")))
    return rep


def search(seed, tier, hints):
    oc = common.Outcome()
    run(oc, "quick", seed + 50505, False, True)
    return oc.violations[0] if oc.violations else None


def replay(payload):
    print("replay input:", payload.get("input"))
    print("re-running the check with the recorded seed and tier (real files and mtimes are involved)")
    return common.replay_by_rerun("C05", payload)
