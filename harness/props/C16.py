"""C16 — database updates converge (`pff hash --update -a/-r`)."""
import os
import random

import common
import rfigc_util as ru
from common import hx

LEAN_MODULES = ["Pff.Props.C16", "Pff.Props.Csv", "Pff.Props.Path", "Pff.Props.RfigcDb"]
PROP_MODULE = "Pff.Props.C16"
THEOREMS = ["Pff.Rfigc.C16_remove_only_missing", "Pff.Rfigc.C16_append_once", "Pff.Rfigc.C16_initial_consistent",
            "Pff.Rfigc.C16_converge", "Pff.Rfigc.C16_stale_witness",
            "Pff.Csv.C05_csv_roundtrip",
            "Pff.Csv.C16_csv_append",
            "Pff.Csv.C05_db_roundtrip",
            "Pff.RfigcDb.C16_db_file_append", "Pff.RfigcDb.C05_db_file_roundtrip",
            "Pff.Path.PATH_gen_root_independent", "Pff.Path.PATH_single_file"]
MODELLED = [("pyFileFixity/rfigc.py", "main"), ("pyFileFixity/lib/_compat.py", "_csv_writer")]
TRUSTED_BASE = [
    "Lean 4.33.0 kernel; axioms per theorem under coverage.theorems (subset of propext, Classical.choice, Quot.sound)",
    "hand-written model lean/Pff/Model/Rfigc.lean (update = removal pass then append pass, single-file filter), tied to /repo by running "
    "real histories step by step and comparing the row set (path, hashes, size, extension) after every update",
    "csv layer, os.walk order and file system exercised, not modelled; hashlib is a parameter",
]
ASSUMPTIONS = ["convergence is proved for admissible histories: a path is never re-created with other content while its old row survives "
               "(forced by the property's own clause that append never alters an existing row; witness C16_stale_witness); the generator "
               "labels inadmissible histories and checks them against the model only",
               "single-file input = a file directly inside the database's root folder"]
RULE = ("random histories of length <= 12 over <= 6 paths (depth 0-2, csv-hostile names) with ops add / delete / update -a / -r / -a -r and "
        "folder or single top-level file input, final update -a -r on the folder; two oracles on the real tool: the final database equals a fresh "
        "generation, and every single update is judged against the rows it found (no row of an existing file dropped or altered, nothing dropped "
        "without --remove, nothing added without --append, order kept, no path twice); non-trivial = history with at least one add, one delete "
        "and two updates; distinct = distinct request")


def run(oc, tier, seed, model_available, escalate):
    rng = random.Random(seed * 2750159 + 16)
    n = 150 if tier == "quick" else 2000
    if escalate:
        n *= 3
    d = os.path.join(common.scratch(), "c16")
    lines, impl = [], []
    for i in range(n):
        ru.rmtree(d)
        tree = ru.gen_tree(rng, nfiles=rng.randint(0, 4))
        root = os.path.join(d, "root")
        ru.write_tree(root, tree)
        db = os.path.join(d, "db.csv")
        rc, _ = ru.run_main(["-i", root, "-d", db, "-g", "-f", "--silent"])
        snaps = [ru.core_rows(ru.read_db(db))]
        cur = dict(tree)
        rows_have = set(cur)         # paths with a row
        row_content = {p: c for p, (c, _m) in cur.items()}
        optoks = []
        admissible = True
        allc = [c for c, _ in tree.values()]
        # names that can be a file at one time and a directory at another (delete `photos`, later add `photos/img1.raw`)
        pool = sorted(set(list(tree) + list(ru.gen_tree(rng, nfiles=4)) + ["photos", "photos/img1.raw", "d", "d/inner.txt", "D2", "D2/x/y.bin"]))
        nops = rng.randint(1, 12)
        hist = []
        nstore = 0
        # a share of histories starts with a scripted pattern: a recorded file is replaced by a directory of the same name (or the reverse)
        script = []
        if i % 5 == 0:
            fd = rng.choice([("photos", "photos/img1.raw"), ("d", "d/inner.txt"), ("D2", "D2/x/y.bin")])
            a, b_ = fd if rng.random() < 0.6 else (fd[1], fd[0])
            script = [("A", a), ("U", None), ("D", a), ("A", b_)] + ([("U", None)] if rng.random() < 0.5 else [])
            nops = max(nops, len(script) + 1)
        for j in range(nops + 1):
            last = (j == nops)
            forced = script[j] if j < len(script) else None
            k = "U" if last else (forced[0] if forced else rng.choice(["A", "A", "D", "U", "U"]))
            if k == "A":
                p = forced[1] if forced else rng.choice(pool)
                if any(p != q and (q.startswith(p + "/") or p.startswith(q + "/")) for q in cur):
                    continue
                if p in cur and rng.random() < 0.9:
                    continue                      # "add file" = create; overwriting is left to a small share of inadmissible histories
                tgt = os.path.join(root, *p.split("/"))
                if os.path.isdir(tgt):
                    import shutil
                    shutil.rmtree(tgt)            # an empty directory left behind by deletions (cur holds no file below it)
                stale_ok = rng.random() < 0.85
                if p in rows_have and stale_ok and p not in cur:
                    c = row_content[p]           # re-create with the recorded content: admissible
                else:
                    c = bytes(rng.randrange(256) for _ in range(rng.choice([0, 3, 30]))) + b"@%d.%d" % (i, j)
                if p in rows_have and row_content.get(p) != c:
                    admissible = False
                m = ru.BASE_NS + (j + 1) * 10**9
                cur[p] = (c, m)
                allc.append(c)
                if "/" not in p and rng.random() < 0.25:
                    # the file is a symbolic link to a regular file kept elsewhere (the walk lists it as a file, its row is that of the target's content)
                    store = os.path.join(d, "store")
                    os.makedirs(store, exist_ok=True)
                    nstore += 1
                    sp_ = os.path.join(store, "s%d.bin" % nstore)
                    with open(sp_, "wb") as f_:
                        f_.write(c)
                    os.utime(sp_, ns=(m, m))
                    if os.path.lexists(os.path.join(root, p)):
                        os.remove(os.path.join(root, p))
                    os.symlink(os.path.join("..", "store", "s%d.bin" % nstore), os.path.join(root, p))
                    oc.count("file added as a symbolic link")
                else:
                    ru.write_tree(root, {p: (c, m)})
                optoks.append("A:%s:%s:%d" % (hx(p.encode()), hx(c), m))
                hist.append("add")
            elif k == "D":
                if not cur:
                    continue
                p = forced[1] if (forced and forced[1] in cur) else rng.choice(sorted(cur))
                del cur[p]
                os.remove(os.path.join(root, *p.split("/")))
                optoks.append("D:%s" % hx(p.encode()))
                hist.append("delete")
            else:
                a, r = (True, True) if last else rng.choice([(True, False), (False, True), (True, True)])
                top = [p for p in set(cur) | rows_have if "/" not in p]
                single = None
                if not last and top and rng.random() < 0.35:
                    single = rng.choice(sorted(top))
                    if single not in cur:
                        single = None     # argparse requires an existing input path
                argv = ["-i", os.path.join(root, single) if single else root, "-d", db, "-u", "--silent"]
                if a:
                    argv.append("-a")
                if r:
                    argv.append("-r")
                before = [ru.core_rows([r_]) for r_ in ru.read_db(db)]
                rc, _ = ru.run_main(argv)
                if rc != "0":
                    oc.violations.append({"input": {"ops": optoks, "argv": argv[4:]}, "what": "update failed: %s" % rc})
                rows = ru.read_db(db)
                # ---- step oracle (second sentence of the property): what one update may and may not do to the rows it found
                after = [ru.core_rows([r_]) for r_ in rows]
                path_of = lambda t: t.split(":")[0]
                on_disk = set(hx(q.encode()) for q in cur)
                kept = [t for t in before if t in after]
                lost = [t for t in before if t not in after]
                new = [t for t in after if t not in before]
                what = None
                if any(path_of(t) in on_disk for t in lost):
                    what = "an update dropped or altered the row of a file that still exists"
                elif lost and not r:
                    what = "an update without --remove dropped or altered a row"
                elif [t for t in after if t in before] != kept:
                    what = "an update reordered the surviving rows"
                elif new and not a:
                    what = "an update without --append added a row"
                elif len(set(path_of(t) for t in after)) != len(after) and len(set(path_of(t) for t in before)) == len(before):
                    what = "an update duplicated a path"
                elif any(path_of(t) in set(path_of(u) for u in before) for t in new):
                    what = "append mode added a second row for a path that already had one"
                if what and not any(t.startswith("malformed-row") for t in before):
                    oc.violations.append({"input": {"initial": sorted(tree), "ops": optoks, "argv": argv[4:], "single": single},
                                          "impl": {"before": before[:200], "after": after[:200]}, "what": what})
                snaps.append(ru.core_rows(rows))
                rows_have = set(r_["path"] for r_ in rows)
                for r_ in rows:
                    if r_["path"] in cur and r_["path"] not in row_content:
                        row_content[r_["path"]] = cur[r_["path"]][0]
                for p in list(row_content):
                    if p not in rows_have:
                        del row_content[p]
                for r_ in rows:
                    if r_["path"] in cur and r_["path"] not in row_content:
                        row_content[r_["path"]] = cur[r_["path"]][0]
                optoks.append("U:%d:%d:%s" % (a, r, hx(single.encode()) if single else "-"))
                hist.append("update%s%s%s" % ("-a" if a else "", "-r" if r else "", "(file)" if single else ""))
        oc.oracle_cases += 1
        # ---- property oracle: final db = fresh generation on the current tree (admissible histories)
        fresh = os.path.join(d, "fresh.csv")
        ru.run_main(["-i", root, "-d", fresh, "-g", "-f", "--silent"])
        final_rows = ru.read_db(db)
        paths = [r_["path"] for r_ in final_rows]
        if admissible and (ru.core_rows(final_rows) != ru.core_rows(ru.read_db(fresh)) or len(paths) != len(set(paths))):
            oc.violations.append({"input": {"initial": sorted(tree), "ops": optoks},
                                  "impl": {"final": ru.core_rows(final_rows)[:500]},
                                  "required": {"fresh": ru.core_rows(ru.read_db(fresh))[:500]},
                                  "what": "final `update -a -r` does not leave exactly the rows of a fresh generation"})
        lines.append("rfhist %s ; %s ; %s" % (ru.file_tokens(tree), " ".join(optoks), ru.ht_tokens(allc)))
        impl.append(" | ".join(snaps))
        oc.count("admissible" if admissible else "inadmissible (model comparison only)")
        for h in hist:
            oc.count("op:" + h)
        if "add" in hist and "delete" in hist and sum(1 for h in hist if h.startswith("update")) >= 2:
            oc.distinct.add(lines[-1])
        if i % max(1, n // 4) == 0:
            oc.sample({"request": lines[-1][:500], "impl_reply": impl[-1][:300]})
    # ---- csv layer: the repo's writer and Python's reader with the tools' parameters vs the Lean model (Pff.Csv), and the real round trip
    import csv_x
    cl, ci, cbad = csv_x.cases(rng, (100 if tier == "quick" else 1500) * (2 if escalate else 1), os.path.join(d, "csv"), oc)
    lines += cl
    impl += ci
    for b_ in cbad[:3]:
        oc.violations.append({"input": {"rows": b_["rows"]}, "impl": {"text": b_["text"], "read_back": b_["read_back"]},
                              "what": "rows written to a csv file with the tools' writer are not read back identically by the tools' reader"})
    ru.rmtree(d)
    if model_available:
        model, err = common.run_driver(lines)
        if model is None:
            oc.x_disagreements.append({"driver_error": err})
        else:
            for l, mm, ii in zip(lines, model, impl):
                oc.x_cases += 1
                if mm != ii:
                    oc.x_disagreements.append({"request": l[:700], "model": mm[:400], "impl": ii[:400]})
    else:
        oc.notes.append("Lean model did not build: correspondence X not run")


def search(seed, tier, hints):
    oc = common.Outcome()
    run(oc, "quick", seed + 161616, False, True)
    return oc.violations[0] if oc.violations else None


def replay(payload):
    print("replay input:", payload.get("input"))
    print("re-running the check with the recorded seed and tier (a real directory history is involved)")
    return common.replay_by_rerun("C16", payload)
