"""C13 — every prefix of an ecc file is a usable ecc file (both ecc tools)."""
import os
import random
import shutil

import common
import ecc_file_x as fx
import ecc_scen as es
import ecc_util as eu

LEAN_MODULES = ["Pff.Props.C13", "Pff.Props.C14", "Pff.Props.RunB", "Pff.Props.RunE"]
PROP_MODULE = "Pff.Props.C13"
THEOREMS = ["Pff.Ecc.C13_cut_block_safe", "Pff.Ecc.C13_assemble_prefix_whole", "Pff.Ecc.C13_assemble_prefix_header", "Pff.Ecc.C13_loop_prefix", "Pff.Ecc.C13_length",
            "Pff.Ecc.C04_length_header", "Pff.Ecc.C04_length_whole",
            "Pff.Run.C13_run_cut_prefix",
            "Pff.Run.C13_run_output_length",
            "Pff.Run.C13_fields_no_fourth_delim",
            "Pff.Run.C13_run_no_track_no_write",
            "Pff.Run.C13_fields_missing_delim"]
MODELLED = [("pyFileFixity/header_ecc.py", "main"), ("pyFileFixity/structural_adaptive_ecc.py", "main"),
            ("pyFileFixity/lib/aux_funcs.py", "get_next_entry")]
MODELLED = sorted(set(MODELLED + fx.WHOLE_RUN_MODELLED))
TRUSTED_BASE = [
    "Lean 4.33.0 kernel; axioms per theorem under coverage.theorems (subset of propext, Classical.choice, Quot.sound)",
    "PROVED PART: on a truncated track (any cut offset) the blocks whose hash+parity lie wholly before the cut are assembled and handled "
    "identically, and any output has the length of the input (for every hash and every decoder), so the file of the cut entry is never "
    "damaged; entries wholly before the cut are returned with the same bounds by the scanner (C14_call: the answer depends only on the "
    "stream up to the next marker)",
    "NOT PROVED, decided by differential execution each run: normal termination of the real tools on every cut offset sampled (inside "
    "the preamble, a marker, each field, between hash and parity, at entry boundaries) and equality of the results for entries before the cut",
]
ASSUMPTIONS = ["no accidental marker/delimiter in the complete ecc file"]
RULE = ("trees of 2-4 files with some files damaged within capacity, both tools; cut offsets: 0, 1, len-1, inside the preamble, inside/at the "
        "end of every marker, inside each metadata field, inside the track (between hash and parity), at every entry boundary +-1, plus random "
        "offsets (thorough: every offset of small files); compared with the run on the complete file; non-trivial = cut inside an entry; "
        "distinct = distinct (scenario, cut)")


def damaged_tree(tree):
    dmg = dict(tree)
    for p in [q for q in sorted(tree) if not q.startswith("zz_nul")][:2]:
        if tree[p]:
            c = bytearray(tree[p])
            c[0] ^= 0x41
            dmg[p] = bytes(c)
    return dmg


def judge_cut(c, rc, out, out0, bounds, order, dmg, droot, tree=None):
    """the property on one real run with the ecc file cut at offset c (out0 = outputs with the complete ecc file)"""
    if rc.startswith("exception"):
        return "correction did not terminate normally on the prefix: %s" % rc
    bad = None
    for i, (s, e) in enumerate(bounds):
        if e <= c and out.get(order[i]) != out0.get(order[i]):
            bad = "file %s, whose entry lies wholly before the cut, is not handled as with the complete ecc file" % order[i]
            break
    for p, v in out.items():
        if len(v) != len(dmg.get(p, b"")):
            bad = "output %s has a different length than its input (file damaged on account of the incomplete entry)" % p
    if tree is not None:
        for p, v in out.items():
            if dmg.get(p) == tree.get(p) and v != tree.get(p):
                bad = "the undamaged file %s was written back altered on account of the incomplete ecc file" % p
    if eu.read_tree(droot) != dmg:
        bad = "an input file was modified"
    return bad


def run(oc, tier, seed, model_available, escalate):
    rng = random.Random(seed * 1000003 + 13)
    n = 12 if tier == "quick" else 60
    if escalate:
        n *= 2
    full_sweeps = 0
    d = os.path.join(common.scratch(), "c13")
    lines, impl = [], []
    for it in range(n):
        shutil.rmtree(d, ignore_errors=True)
        P = es.gen_params(rng, small=True, erasures=False)
        P.mbs = max(P.mbs, 20)
        P.algo = rng.choice([3, 4, 3, 1])
        if not P.well_formed():
            continue
        if it % 2 == 1 and P.algo in (3, 4):
            # erasure handling on (null bytes are erasures: a block of null bytes is "repaired" from whatever is taken for its parity) and
            # the slow check: the options under which a mis-parsed cut entry does harm
            P.erasures, P.only_erasures, P.erasure_symbol = rng.choice([(True, False, 0), (True, False, 0), (False, True, 0), (True, True, 0)])
            P.no_fast_check = rng.random() < 0.6
        tree = es.gen_tree(rng, P, nfiles=rng.randint(2, 4), maxsize=300)
        nulfile = None
        if it % 4 == 3 and P.algo in (3, 4):
            # directed: a file of null bytes (every symbol an erasure), erasure handling and the slow check on, and EVERY cut offset inside the
            # metadata of its entry (whatever is then taken for its ecc track must not make the tool write anything)
            P = eu.Params(tool=P.tool, algo=rng.choice([3, 4]), mbs=rng.choice([20, 20, 50]), size=rng.choice([20, 64]), r1=0.5, r2=0.2, r3=0.1,
                          ri=rng.choice([0.3, 0.5]), hash=rng.choice(["minimd5", "shortmd5"]), erasures=True, no_fast_check=True)
            nulfile = "zz_nul.bin"
            tree = {"a.bin": bytes(rng.randrange(256) for _ in range(30)), nulfile: bytes(rng.choice([1, 2]) * P.k_of_rate(P.r1))}
        if len(tree) < 2:
            continue
        root = os.path.join(d, "root")
        eu.write_tree(root, tree)
        ecc = os.path.join(d, "ecc.txt")
        if eu.generate(P, root, ecc) != "0":
            # generation of a well-formed parameter set on a latin-1 tree never fails on the unchanged code: a failure is a violation
            oc.violations.append({"input": {"params": P.describe(), "tree": {k_: v_.hex()[:200] for k_, v_ in (tree if isinstance(tree, dict) else {}).items()}},
                                  "what": "generation of the ecc file failed on a well-formed parameter set"})
            oc.count("excluded: generation failed")
            continue
        data = open(ecc, "rb").read()
        if eu.accidental(data, len(tree)):
            oc.count("excluded: accidental marker/delimiter")
            continue
        bounds = eu.entry_bounds(data)
        fields = [eu.parse_entry(data, s, e) for s, e in bounds]
        order = [f["relpath"].decode("latin-1") for f in fields]
        dmg = damaged_tree(tree)
        droot = os.path.join(d, "dmg")
        eu.write_tree(droot, dmg)
        rc0, st0, out0, _ = eu.correct(P, droot, ecc, os.path.join(d, "out0"))
        cuts = set([0, 1, len(data) - 1, len(data), bounds[0][0] // 2])
        for (s, e), f in zip(bounds, fields):
            cuts |= {s, s + 3, s + 10, s + 11, e - 1, e, f["delims"][0] + 2, f["size"][0], f["path_ecc"][0] + 1, f["size_ecc"][0] + 1,
                     f["track"][0], f["track"][0] + 1, f["track"][0] + eu.HASHLEN[P.hash], min(e, f["track"][0] + eu.HASHLEN[P.hash] + 3)}
        cuts |= {rng.randrange(len(data) + 1) for _ in range(10)}
        forced = set()
        if nulfile is not None:
            for (s_, e_), f_ in zip(bounds, fields):
                if f_["relpath"].decode("latin-1") == nulfile:
                    forced = set(range(s_, min(e_, f_["track"][0] + 3) + 1))
            cuts |= forced
        if tier == "thorough" and len(data) < 1500 and full_sweeps < 8:
            cuts |= set(range(len(data) + 1))      # every offset (about 3 min per ecc file): the first 8 small ecc files
            full_sweeps += 1
        elif tier == "thorough":
            cuts |= {rng.randrange(len(data) + 1) for _ in range(120)}
        cuts = sorted(x for x in cuts if 0 <= x <= len(data))
        if tier == "quick" and len(cuts) > 22:
            cuts = sorted(set(rng.sample(sorted(set(cuts) - forced), min(22, len(set(cuts) - forced)))) | forced)
        for c in cuts:
            e2 = os.path.join(d, "cut.txt")
            open(e2, "wb").write(data[:c])
            rc, st, out, txt = eu.correct(P, droot, e2, os.path.join(d, "out"))
            oc.oracle_cases += 1
            bad = judge_cut(c, rc, out, out0, bounds, order, dmg, droot, tree)
            if bad:
                oc.violations.append({"input": {"params": P.describe(), "tree": {k: v.hex() for k, v in tree.items()}, "cut": c, "ecc_len": len(data),
                                                "entry_bounds": bounds}, "impl": {"exit": rc, "stats": st}, "what": bad})
            inside = any(s < c < e for s, e in bounds)
            oc.count("cut inside an entry" if inside else "cut at boundary/preamble")
            if inside:
                oc.distinct.add((it, c))
        oc.count("tool:" + P.tool)
        # per-file correspondence on a truncated single-entry ecc
        p = order[-1]
        if 0 < len(tree[p]) <= 400:
            sub = os.path.join(d, "one")
            eu.write_tree(os.path.join(sub, "g"), {p: tree[p]})
            e1 = os.path.join(sub, "ecc1.txt")
            if eu.generate(P, os.path.join(sub, "g"), e1) == "0":
                d1 = open(e1, "rb").read()
                if not eu.accidental(d1, 1):
                    f1 = eu.parse_entry(d1, *eu.entry_bounds(d1)[0])
                    for _ in range(4):
                        c = rng.randint(f1["track"][0], len(d1))
                        res = fx.run_one(P, p, dmg[p], d1[:c], os.path.join(sub, "run"), recorded_size=len(tree[p]))
                        if "request" in res:
                            lines.append(res["request"])
                            impl.append(res["reply"])
        if it % max(1, n // 3) == 0:
            oc.sample({"params": P.describe(), "tree": {k: len(v) for k, v in tree.items()}, "cuts": len(cuts), "ecc_len": len(data)})
    # ---- whole-run correspondence: complete `-c` runs replayed into the Lean model of the correction loop (Pff.Run.run)
    os.makedirs(d, exist_ok=True)
    wl, wi = fx.whole_run_cases(rng, (40 if tier == "quick" else 300) * (2 if escalate else 1), ["cut"], d, oc)
    lines += wl
    impl += wi
    shutil.rmtree(d, ignore_errors=True)
    if model_available:
        model, err = common.run_driver(lines)
        if model is None:
            oc.x_disagreements.append({"driver_error": err})
        else:
            for l, mm, ii in zip(lines, model, impl):
                oc.x_cases += 1
                if mm != ii:
                    oc.x_disagreements.append({"request": l[:300] + " ...", "model": mm[:200], "impl": ii[:200]})
    else:
        oc.notes.append("Lean model did not build: correspondence X not run")


def search(seed, tier, hints):
    oc = common.Outcome()
    run(oc, "quick", seed + 131313, False, True)
    return oc.violations[0] if oc.violations else None


def replay(payload):
    """regenerates the ecc file of the recorded tree (generation is deterministic), cuts it at the recorded offset, runs the real tool
    and judges again; exit 1 if the property still fails"""
    inp = payload.get("input", {})
    try:
        P = eu.Params(**inp["params"])
        tree = {k: bytes.fromhex(v) for k, v in inp["tree"].items()}
        c = int(inp["cut"])
    except (KeyError, ValueError, TypeError):
        common.say("replay file is not self-contained: re-run the check with the recorded seed")
        return 0
    d = os.path.join(common.scratch(), "c13replay")
    shutil.rmtree(d, ignore_errors=True)
    root, ecc = os.path.join(d, "root"), os.path.join(d, "ecc.txt")
    eu.write_tree(root, tree)
    if eu.generate(P, root, ecc) != "0":
        common.say("generation failed")
        return 1
    data = open(ecc, "rb").read()
    bounds = eu.entry_bounds(data)
    order = [eu.parse_entry(data, s, e)["relpath"].decode("latin-1") for s, e in bounds]
    # the preamble repeats the command line (scratch paths differ from run to run): keep the cut at the same place relative to the entries
    ob0 = inp.get("entry_bounds", [[None]])[0][0]
    if ob0 is not None and bounds:
        nb0 = bounds[0][0]
        c = c - ob0 + nb0 if c >= ob0 else (c * nb0) // max(1, ob0)
    dmg = damaged_tree(tree)
    droot = os.path.join(d, "dmg")
    eu.write_tree(droot, dmg)
    rc0, st0, out0, _ = eu.correct(P, droot, ecc, os.path.join(d, "out0"))
    e2 = os.path.join(d, "cut.txt")
    open(e2, "wb").write(data[:c])
    rc, st, out, _ = eu.correct(P, droot, e2, os.path.join(d, "out"))
    bad = judge_cut(c, rc, out, out0, bounds, order, dmg, droot, tree)
    common.say("params:", P.describe())
    common.say("ecc file of %d bytes cut at %d: exit %s, stats %s (complete file: exit %s, stats %s)" % (len(data), c, rc, st, rc0, st0))
    common.say("FAILS: %s" % bad if bad else "the property holds on this input now")
    return 1 if bad else 0
