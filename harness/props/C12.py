"""C12 — codecs 1-3 are interchangeable and the ecc body is deterministic."""
import os
import random
import shutil
import struct

import codec_util as cu
import common
import ecc_util as eu
from common import hx

LEAN_MODULES = ["Pff.Props.C12", "Pff.Props.Path"]
PROP_MODULE = "Pff.Props.C12"
THEOREMS = ["Pff.RSSpec.C12_parity_identical", "Pff.RSSpec.C12_parity_unique", "Pff.RSSpec.C12_codecs_1_2_3", "Pff.RSSpec.C11_codecA_good",
            "Pff.Path.C12_recorded_root_independent", "Pff.Path.PATH_gen_root_independent"]
MODELLED = [("pyFileFixity/lib/eccman.py", "ECCMan.encode"), ("pyFileFixity/lib/eccman.py", "ECCMan.__init__")]
TRUSTED_BASE = [
    "Lean 4.33.0 kernel; axioms per theorem under coverage.theorems; Mathlib v4.33.0 modules imported by lean/Pff/Proofs",
    "the three encoders are modelled separately (long division on stripped polynomials, synthetic division of the stripped dividend, "
    "in-place LFSR) at the level of the algorithm and each is proved to produce the unique systematic parity; tied to the real codecs by "
    "comparing parity bytes on every run",
    "ecc-body determinism (moved / time-touched tree, codecs 1-3) and cross-codec correction are decided by running the real tools "
    "(evidence by differential execution; the model of the tools has no absolute root, time or codec-dependent term by construction)",
]
ASSUMPTIONS = ["the index companion stores absolute offsets that include the comment preamble (which repeats the command line): index equality "
               "is judged relative to the end of the preamble; the raw difference for a moved tree is known finding F20"]
RULE = ("codec level: geometries incl. n=255, per-call k, message lengths 1..k, all three codecs on the same input; tool level: small trees, "
        "both tools, generation from the tree, from a moved copy (different path length) and from a time-touched copy with each of codecs "
        "1-3; all 9 ordered pairs (generating codec, correcting codec) on a damaged copy; non-trivial = tree with >= 2 files or message of "
        ">= 2 symbols; distinct = distinct request/scenario")


def idx_records(idx, body_off):
    recs = []
    for i in range(0, len(idx) - len(idx) % 27, 27):
        r = idx[i:i + 27]
        recs.append((r[0:1], struct.unpack(">Q", r[1:9])[0] - body_off))
    return recs


def run(oc, tier, seed, model_available, escalate):
    rng = random.Random(seed * 217645199 + 12)
    lines, impl = [], []
    n_cases = 150 if tier == "quick" else 2500
    for i in range(n_cases):
        n, k0 = cu.gen_geometry(rng, big=(i % 20 == 0))
        percall = rng.random() < 0.3
        k = rng.randint(1, n - 1) if percall else k0
        msg = cu.gen_message(rng, k)
        kw = {"k": k} if percall else {}
        pars = []
        raised = None
        for algo in (1, 2, 3):
            try:
                man = cu.manager(algo, n, k0)
                with common.quiet():
                    pars.append(bytes(man.encode(msg, **kw)))
            except Exception as ex:     # a codec that cannot be built or cannot encode a geometry the others handle is not interchangeable
                raised = "codec %d raised %s: %s" % (algo, type(ex).__name__, str(ex)[:120])
                break
            lines.append("enc %d %d %d %d %s" % (algo, n, k0, k if percall else 0, hx(msg)))
            impl.append(hx(pars[-1]))
        oc.oracle_cases += 1
        if raised:
            oc.violations.append({"input": {"n": n, "k_ctor": k0, "k_call": k if percall else None, "msg": msg.hex()}, "impl": {"raised": raised},
                                  "what": "codecs 1, 2 and 3 do not all encode this geometry (1 <= k < n <= 255): %s" % raised})
            continue
        if not (pars[0] == pars[1] == pars[2]):
            oc.violations.append({"input": {"n": n, "k_ctor": k0, "k_call": k if percall else None, "msg": msg.hex()},
                                  "impl": {"parity_1": pars[0].hex(), "parity_2": pars[1].hex(), "parity_3": pars[2].hex()},
                                  "what": "codecs 1, 2 and 3 do not produce byte-identical parity"})
        # each codec accepts the parity of the others
        a, b = rng.sample([1, 2, 3], 2)
        with common.quiet():
            okx = bool(cu.manager(a, n, k0).check(bytearray(msg), bytearray(pars[b - 1]), **kw))
        if not okx:
            oc.violations.append({"input": {"n": n, "k_ctor": k0, "msg": msg.hex(), "checker": a, "generator": b},
                                  "what": "codec %d rejects the parity produced by codec %d" % (a, b)})
        oc.count("codec-level cases")
        if len(msg) >= 2:
            oc.distinct.add(lines[-1])
        if i % max(1, n_cases // 3) == 0:
            oc.sample({"request": lines[-1][:200], "impl_reply": impl[-1][:120]})
    # ---- tool level
    n_tool = 10 if tier == "quick" else 120
    d = os.path.join(common.scratch(), "c12")
    f20_seen = False
    for i in range(n_tool):
        shutil.rmtree(d, ignore_errors=True)
        tool = "header" if i % 2 == 0 else "whole"
        P0 = eu.Params(tool=tool, mbs=rng.choice([50, 128, 255]), size=rng.choice([64, 300]), hash=rng.choice(eu.HASHES))
        tree = {}
        # (names with latin-1 letters beyond ASCII: the path is handed to the codec as text, one byte per character in every codec branch)
        for nm in rng.sample(["a.bin", "sub/b.txt", "sub/deep/c", "z.dat", "caf\xe9.txt", "sub/r\xe9sum\xe9 \xfc.bin"], rng.randint(2, 5)):
            tree[nm] = bytes(rng.randrange(256) for _ in range(rng.choice([0, 1, 100, 700])))
        if i % 2 == 1:
            # directed: a file whose whole content equals the last (partial) block of the file walked just before it - the same bytes are
            # then encoded twice in a row at two different rates by the one variable-rate codec object of the whole-file tool
            import ecc_scen as es_
            big = bytes(rng.randrange(256) for _ in range(P0.size + rng.choice([700, 900, 1300]) + rng.randint(1, 40)))
            lay = es_.layout(P0, len(big))
            if lay and lay[-1][1] < P0.k_of_rate(P0.r1):
                tree = {"a1.bin": big, "a2.bin": big[lay[-1][0]:]}
        if i % 3 == 0:
            # directed: many sibling sub-directories, created in a scrambled order (the raw listing order of a directory depends on the file
            # system and on the creation history: only the sorted walk makes the entry order a function of the tree)
            sibs = ["d%02d" % j_ for j_ in range(rng.randint(5, 9))] + ["Zeta", "alpha", "_u"]
            rng.shuffle(sibs)
            for sd in sibs[:rng.randint(4, len(sibs))]:
                tree["%s/f.bin" % sd] = bytes(rng.randrange(256) for _ in range(rng.choice([0, 3, 60])))
                if rng.random() < 0.3:
                    tree["%s/in/g" % sd] = bytes(rng.randrange(256) for _ in range(5))
            oc.count("directed: many sibling sub-directories (entry order = sorted walk)")
        roots = {"orig": os.path.join(d, "t"), "moved": os.path.join(d, "a much longer directory name", "t_moved"), "touched": os.path.join(d, "u")}
        if i % 3 == 1:
            # directed: the tree holds a mirror of its own absolute location (backups of backups): the recorded paths must still be the
            # paths relative to the root, wherever the tree is mounted
            mirror = "mirror" + roots["orig"] + "/readme.txt"
            tree[mirror] = b"mirrored " + bytes(rng.randrange(256) for _ in range(9))
            oc.count("directed: tree holding a mirror of its own absolute path")
        for r in roots.values():
            eu.write_tree(r, tree)
        # the same tree reached through a symbolic link in the path (a relocation as far as the tool can tell)
        os.makedirs(os.path.join(d, "real", "deeper"), exist_ok=True)
        eu.write_tree(os.path.join(d, "real", "deeper", "t"), tree)
        os.symlink(os.path.join(d, "real", "deeper"), os.path.join(d, "lnk"))
        roots["symlinked"] = os.path.join(d, "lnk", "t")
        for r_, _ds, fs in os.walk(roots["touched"]):
            for f in fs:
                os.utime(os.path.join(r_, f), (1, 1))
        bodies, idxs, raw_idx = {}, {}, {}
        for algo in (1, 2, 3):
            for rn, r in roots.items():
                P = eu.Params(**{**P0.describe(), "algo": algo})
                ecc = os.path.join(d, "ecc_%d_%s.txt" % (algo, rn))
                if rn == "moved" and algo == 3:
                    # the ecc file stored next to the folder and named after the beginning of its name (its path is then a string prefix of
                    # every file path): a relocation like any other
                    ecc = os.path.join(d, "a much longer directory name", "t_mo")
                g = eu.generate(P, r, ecc)
                if g != "0":
                    oc.violations.append({"input": {"params": P.describe(), "tree": sorted(tree)}, "what": "generation failed: %s" % g})
                    continue
                data = open(ecc, "rb").read()
                off = eu.body_offset(data)
                bodies[(algo, rn)] = data[off:]
                raw = open(ecc + ".idx", "rb").read()
                raw_idx[(algo, rn)] = raw
                idxs[(algo, rn)] = idx_records(raw, off)
        oc.oracle_cases += 1
        # the entries of the ecc file are the files of the tree in the order of the sorted walk (files of a directory in code-point order,
        # then its sub-directories in code-point order, depth first), under their relative posix paths - whatever the root
        def sorted_walk(prefix, names):
            files = sorted(n_ for n_ in names if "/" not in n_)
            subs = sorted(set(n_.split("/", 1)[0] for n_ in names if "/" in n_))
            out_ = [prefix + f_ for f_ in files]
            for sd_ in subs:
                out_ += sorted_walk(prefix + sd_ + "/", [n_.split("/", 1)[1] for n_ in names if n_.startswith(sd_ + "/")])
            return out_
        want_order = sorted_walk("", list(tree))
        for key_, body_ in sorted(bodies.items()):
            if eu.accidental(body_, len(tree)):
                continue        # (a parity spelling a marker or delimiter: the format's documented limit, the entries cannot be told apart)
            try:
                got_order = [eu.parse_entry(body_, s_, e_)["relpath"].decode("latin-1") for (s_, e_) in eu.entry_bounds(body_)]
            except Exception:
                got_order = None
            if got_order != want_order:
                oc.violations.append({"input": {"params": P0.describe(), "tree": {p: c.hex()[:40] for p, c in tree.items()}, "codec": key_[0], "root": roots[key_[1]]},
                                      "impl": {"recorded_paths_in_order": got_order}, "required": {"recorded_paths_in_order": want_order},
                                      "what": "the entries of the generated ecc file are not the files of the tree under their relative paths in sorted-walk order"})
                break
        if len(set(bodies.values())) > 1:
            diff = sorted(k_ for k_, v in bodies.items() if v != bodies[(3, "orig")])
            oc.violations.append({"input": {"params": P0.describe(), "tree": {p: c.hex()[:80] for p, c in tree.items()}},
                                  "impl": {"differing (codec, root)": diff},
                                  "what": "ecc body (bytes after the comment preamble) differs between codecs 1-3 or for a moved/time-touched copy"})
        if len(set(map(tuple, idxs.values()))) > 1:
            oc.violations.append({"input": {"params": P0.describe(), "tree": sorted(tree)},
                                  "what": "index records (kinds and offsets relative to the end of the preamble) differ between codecs or roots"})
        elif raw_idx[(3, "orig")] != raw_idx[(3, "moved")]:
            f20_seen = True
        oc.count("tool-level determinism scenarios (%s)" % tool)
        # cross-codec correction: damage one byte of one non-empty file within capacity, all 9 pairs
        victim = next((p for p, c in sorted(tree.items()) if len(c) >= 1), None)
        if victim:
            dmg = dict(tree)
            c = bytearray(tree[victim])
            c[rng.randrange(min(len(c), P0.size))] ^= 0x5A
            dmg[victim] = bytes(c)
            droot = os.path.join(d, "damaged")
            eu.write_tree(droot, dmg)
            results = {}
            for ga in (1, 2, 3):
                for ca in (1, 2, 3):
                    Pc = eu.Params(**{**P0.describe(), "algo": ca})
                    rc, stats, out, _ = eu.correct(Pc, droot, os.path.join(d, "ecc_%d_orig.txt" % ga), os.path.join(d, "out"))
                    results[(ga, ca)] = (rc, stats, tuple(sorted((p, v) for p, v in out.items())))
            oc.oracle_cases += 1
            if len(set(results.values())) > 1 or results[(1, 1)][2] != ((victim, tree[victim]),):
                oc.violations.append({"input": {"params": P0.describe(), "victim": victim},
                                      "impl": {str(k_): (v[0], v[1]) for k_, v in results.items()},
                                      "what": "codecs 1-3 do not verify/repair identically with ecc produced by one another"})
            oc.count("cross-codec correction scenarios")
            # the ecc file itself damaged beyond repair in one place (the parity of one entry's path, or one stored block hash): every codec
            # must report it and carry on alike - same exit status, same counters, same files written
            data3 = bytearray(open(os.path.join(d, "ecc_3_orig.txt"), "rb").read())
            bnds = eu.entry_bounds(bytes(data3))
            if bnds and not eu.accidental(bytes(data3), len(tree)):
                fe = eu.parse_entry(bytes(data3), *rng.choice(bnds))
                what = rng.choice(["path_ecc", "hash"])
                if what == "path_ecc":
                    a_, b_ = fe["path_ecc"]
                    for q in range(a_, b_):
                        data3[q] = rng.choice([0x41, 0x7e, 0x33, 0xc3])
                else:
                    a_ = fe["track"][0]
                    if a_ < fe["track"][1]:
                        data3[a_] ^= 0x21
                if not eu.accidental(bytes(data3), len(tree)):
                    e3 = os.path.join(d, "ecc_damaged.txt")
                    open(e3, "wb").write(bytes(data3))
                    res2 = {}
                    for ca in (1, 2, 3):
                        Pc = eu.Params(**{**P0.describe(), "algo": ca})
                        rc, stats, out, _ = eu.correct(Pc, droot, e3, os.path.join(d, "out"))
                        res2[ca] = (rc, stats, tuple(sorted((p, v) for p, v in out.items())))
                    oc.oracle_cases += 1
                    if len(set(res2.values())) > 1 or any(v[0].startswith("exception") for v in res2.values()):
                        oc.violations.append({"input": {"params": P0.describe(), "victim": victim, "ecc_damage": what,
                                                        "tree": {p: c.hex() for p, c in tree.items()}, "ecc": bytes(data3).hex()},
                                              "impl": {str(k_): (v[0], v[1]) for k_, v in res2.items()},
                                              "what": "codecs 1-3 do not handle an ecc file damaged beyond repair in its %s alike" % what})
                    oc.count("cross-codec: ecc file damaged in %s" % what)
        oc.distinct.add(("tool", i, tool))
    # ---- path layer: the repo's fullpath / path2unix / recwalk / relpath_posix and the os.path functions under them vs the Lean model
    # (Pff.Path), and the relocation statement on the real functions
    import path_x
    pl, pi, pbad = path_x.cases(rng, (400 if tier == "quick" else 6000) * (2 if escalate else 1), common.scratch(), oc)
    lines += pl
    impl += pi
    for b_ in pbad[:3]:
        oc.violations.append({"input": {k: v for k, v in b_.items() if k != "what"}, "what": b_["what"]})
    shutil.rmtree(d, ignore_errors=True)
    if f20_seen:
        oc.violations.append({"finding": "F20", "what": "raw .idx differs for a moved tree (absolute offsets include the preamble)"})
    if model_available:
        model, err = common.run_driver(lines)
        if model is None:
            oc.x_disagreements.append({"driver_error": err})
        else:
            for l, mm, ii in zip(lines, model, impl):
                oc.x_cases += 1
                if mm != ii:
                    oc.x_disagreements.append({"request": l[:300], "model": mm[:200], "impl": ii[:200]})
    else:
        oc.notes.append("Lean model did not build: correspondence X not run")


def replay_finding(f):
    return None  # F20 is re-observed by every run's tool-level scenarios (reported through oc.violations with finding=F20)


def search(seed, tier, hints):
    oc = common.Outcome()
    run(oc, "quick", seed + 121212, False, True)
    vs = [v for v in oc.violations if v.get("finding") != "F20"]
    return vs[0] if vs else None


def replay(payload):
    common.say("replay input:", payload.get("input"))
    common.say("re-running the check with the recorded seed and tier")
    return common.replay_by_rerun("C12", payload)
