"""scenario generation shared by the ecc-tool checks: parameter sets, trees, block layout (computed from the
published rule, independently of the tools), damage helpers"""
import os
import random

import common
import ecc_util as eu
from ecc_util import Params

NAMES = ["a.bin", "b.txt", "sub/c.dat", "sub/deep/d", "z", "\xfastart", "\xffy.bin", "end\xfa", "sp ace.txt", "caf\xe9.doc", "sub/e\xfe.x",
         "back\\slash.bin", "win\\dir/f.txt",
         "x" * 40 + ".long", "n" * 130 + ".verylong", "dir with space/f", "0",
         # names beginning with dots or holding them where a path operation might eat them (leading '.', '..x', './/' never occurs in a recorded path)
         ".hidden", ".cfg/settings.ini", "..data", "sub/.keep", "...", "a./b.", "-dash", "~tilde", " lead", "trail "]


def gen_params(rng, tool=None, small=False, erasures=None):
    tool = tool or rng.choice(["header", "whole"])
    for _ in range(100):
        mbs = rng.choice([255, 255, 128, 50, 27, 10, 5, 3, 2] if not small else [255, 100, 50, 20])
        rates = [rng.choice([0.1, 0.2, 0.25, 0.3, 0.5, 0.75, 1.0]) for _ in range(3)]
        ri = rng.choice([0.1, 0.3, 0.5, 0.5, 1.0, 1.5])
        size = rng.choice([1, 7, 64, 300, 1024])
        P = Params(tool=tool, algo=rng.choice([1, 2, 3, 3, 4, 4]), mbs=mbs, size=size, r1=rates[0], r2=rates[1], r3=rates[2], ri=ri,
                   hash=rng.choice(eu.HASHES))
        if erasures is None:
            er = rng.random() < 0.25
        else:
            er = erasures
        if er:
            P.erasures = True
            P.erasure_symbol = rng.choice([0, 0, 0x20])
        elif rng.random() < 0.15:
            # an erasure symbol given without erasure handling (must change nothing), one that occurs in ordinary names
            P.erasure_symbol = rng.choice([0x20, 0x61, 0x2e])
        if P.well_formed():
            if rng.random() < 0.3:
                # header size an exact multiple of the stage-1 message size: a block then starts exactly at offset `--size`
                P.size = P.k_of_rate(P.r1) * rng.randint(1, 3)
            return P
    return Params(tool=tool)


def gen_tree(rng, P, nfiles=None, maxsize=2000):
    n = nfiles if nfiles is not None else rng.randint(1, 4)
    tree = {}
    k1 = P.k_of_rate(P.r1)
    for _ in range(60):
        if len(tree) >= n:
            break
        nm = rng.choice(NAMES)
        if any(nm == q or q.startswith(nm + "/") or nm.startswith(q + "/") for q in tree):
            continue
        sz = rng.choice([0, 1, k1 - 1, k1, k1 + 1, 2 * k1, P.size - 1, P.size, P.size + 1, P.size + k1, P.size + 3 * k1 + 7, rng.randint(0, maxsize)])
        sz = max(0, min(sz, maxsize))
        kind = rng.choice(["random", "random", "zeros", "text", "sparse"])
        if kind == "zeros":
            c = bytes(sz)
        elif kind == "sparse":
            # mostly null bytes with a few short non-null runs (sparse files, zero-filled sectors): a block whose null-padded short parity
            # decodes to the all-null codeword is then close to a real block
            c = bytearray(sz)
            for _r in range(rng.randint(1, 3)):
                if sz:
                    a_ = rng.randrange(sz)
                    w_ = b"hello world"[:rng.randint(1, 11)]
                    c[a_:a_ + len(w_)] = w_[:max(0, sz - a_)]
            c = bytes(c[:sz])
        elif kind == "text":
            c = (b"lorem ipsum dolor " * (sz // 18 + 1))[:sz]
        else:
            c = bytes(rng.randrange(256) for _ in range(sz))
        tree[nm] = c
    return tree


def layout(P, size):
    """[(offset, length, k)] of the protected blocks of a file of `size` bytes, from the published rule"""
    res = []
    if P.tool == "header":
        k = P.k_of_rate(P.r1)
        n = min(P.size, size)
        off = 0
        while off < n:
            res.append((off, min(k, n - off), k))
            off += k
        return res
    cur = 0
    while cur < size:
        if cur < P.size:
            rate = P.r1
        else:
            rate = P.r2 + float(cur - P.size) * (P.r3 - P.r2) / (size - P.size)
        k = int(round(float(P.mbs) / (1 + 2 * rate), 0))
        ln = min(k, size - cur)
        res.append((cur, ln, k))
        cur += ln
    return res


def track_layout(P, size):
    """[(block, hash_offset_in_track, parity_offset_in_track, parity_len)]"""
    hl = eu.HASHLEN[P.hash]
    res = []
    t = 0
    for (off, ln, k) in layout(P, size):
        res.append(((off, ln, k), t, t + hl, P.mbs - k))
        t += hl + (P.mbs - k)
    return res, t


def k_intra(P):
    return P.k_of_rate(P.ri)


def within_capacity_damage(rng, P, tree, data, only_files=None):
    """damage the files (dict of bytearray) and the ecc body `data` (bytearray) block by block within capacity;
    returns (damaged tree, set of files whose protected region changed). Natural occurrences of the erasure
    symbol are counted into f."""
    bounds = eu.entry_bounds(bytes(data))
    dmg = {p: bytearray(c) for p, c in tree.items()}
    damaged = set()
    ec = P.erasure_symbol if P.erasures else None
    hist = {"blocks_damaged": 0, "at_capacity": 0, "hash_damaged": 0, "parity_damaged": 0}
    for (s, e) in bounds:
        f = eu.parse_entry(bytes(data), s, e)
        p = f["relpath"].decode("latin-1")
        if (only_files is not None and p not in only_files) or rng.random() < 0.25:
            continue
        tl, _tot = track_layout(P, len(tree[p]))
        t0 = f["track"][0]
        if e - t0 != _tot:
            # the track generated by the real tool is not the concatenation of hash+parity over the published partition of the file:
            # no block can be located in it (and correction, which follows the rule, cannot either)
            raise common.PropertyFailure({
                "input": {"params": P.describe(), "file": p, "size": len(tree[p]), "content": bytes(tree[p]).hex()[:4000]},
                "impl": {"generated_track_length": e - t0}, "required": {"track_length": _tot},
                "what": "the ecc track generated for an undamaged file does not have the length the block layout rule gives "
                        "(hash + parity for every block of the partition): generation and correction disagree on the layout"})
        for (off, ln, k), ho, po, pl in tl:
            if rng.random() < 0.4:
                continue
            cand = [("m", off + i) for i in range(ln)] + [("p", t0 + po + i) for i in range(pl)]

            def cur(ps):
                return dmg[p][ps[1]] if ps[0] == "m" else data[ps[1]]

            def setv(ps, v):
                if ps[0] == "m":
                    dmg[p][ps[1]] = v
                else:
                    data[ps[1]] = v
                    hist["parity_damaged"] += 1
            if ec is None:
                e_ = rng.choice([pl // 2, pl // 2, rng.randint(0, pl // 2)])
                pos = rng.sample(cand, min(e_, len(cand)))
                for ps in pos:
                    v = cur(ps)
                    setv(ps, rng.choice([x for x in (v ^ 0xFF, (v + 1) % 256, (v + 101) % 256) if x != v]))
                if pos:
                    hist["blocks_damaged"] += 1
                    hist["at_capacity"] += (len(pos) == pl // 2)
            else:
                fnat = sum(1 for ps in cand if cur(ps) == ec)
                if fnat > pl:
                    continue
                c2 = [ps for ps in cand if cur(ps) != ec]
                for ps in rng.sample(c2, min(rng.randint(0, pl - fnat), len(c2))):
                    setv(ps, ec)
                fcur = sum(1 for ps in cand if cur(ps) == ec)
                emax = (pl - fcur) // 2
                c2 = [ps for ps in cand if cur(ps) != ec]
                pos = rng.sample(c2, min(rng.choice([emax, rng.randint(0, emax)]), len(c2)))
                for ps in pos:
                    v = cur(ps)
                    setv(ps, rng.choice([x for x in (v ^ 0xFF, (v + 1) % 256, (v + 7) % 256) if x != v and x != ec]))
                hist["blocks_damaged"] += 1
                hist["at_capacity"] += (2 * len(pos) + fcur >= pl - 1)
            if rng.random() < 0.1:
                hl = eu.HASHLEN[P.hash]
                data[t0 + ho + rng.randrange(hl)] ^= 0x55
                hist["hash_damaged"] += 1
    out = {p: bytes(c) for p, c in dmg.items()}
    for p in tree:
        prot = len(tree[p]) if P.tool == "whole" else min(P.size, len(tree[p]))
        if out[p][:prot] != tree[p][:prot]:
            damaged.add(p)
    return out, damaged, hist


def boundary_params(rng, P):
    """directed: whole-file tool, `--size` an exact multiple of the stage-1 message size, stage-1 and stage-2 message sizes different;
    returns (P, file size) with the file reaching well beyond the header"""
    P.tool = "whole"
    for _ in range(50):
        P.r1, P.r2, P.r3 = rng.choice([0.3, 0.5, 0.25]), rng.choice([0.2, 0.1, 0.75]), rng.choice([0.1, 0.3])
        if P.well_formed() and P.k_of_rate(P.r1) != P.k_of_rate(P.r2):
            break
    k1 = P.k_of_rate(P.r1)
    P.size = k1 * rng.randint(1, 3)
    return P, P.size + 2 * P.k_of_rate(P.r2) + rng.randint(1, k1)
