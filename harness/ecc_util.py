"""helpers shared by the ecc-tool checks (C01, C03, C04, C08, C09, C12, C13, C15): drive `pff header` /
`pff whole` / `pff recover` through their real main() in-process on real files."""
import os
import re
import shutil

import common
common.memo_generator_polys()

MARKER = bytes([0xFE, 0xFF] * 5)
DELIM = bytes([0xFA, 0xFF, 0xFA, 0xFF, 0xFA])
HASHES = ["md5", "shortmd5", "shortsha256", "minimd5", "minisha256"]
HASHLEN = {"md5": 32, "shortmd5": 8, "shortsha256": 8, "minimd5": 4, "minisha256": 4}


def tool(name):
    if name == "header":
        from pyFileFixity import header_ecc as m
    else:
        from pyFileFixity import structural_adaptive_ecc as m
    return m


class Params:
    def __init__(self, tool="header", algo=3, mbs=255, size=1024, r1=0.3, r2=0.2, r3=0.1, ri=0.5, hash="md5",
                 erasures=False, only_erasures=False, erasure_symbol=0, no_fast_check=False, ignore_size=False, skip_missing=False):
        self.tool, self.algo, self.mbs, self.size = tool, algo, mbs, size
        self.r1, self.r2, self.r3, self.ri, self.hash = r1, r2, r3, ri, hash
        self.erasures, self.only_erasures, self.erasure_symbol = erasures, only_erasures, erasure_symbol
        self.no_fast_check, self.ignore_size, self.skip_missing = no_fast_check, ignore_size, skip_missing

    def common_args(self):
        a = ["--ecc_algo", str(self.algo), "--max_block_size", str(self.mbs), "-s", str(self.size), "-ri", repr(self.ri), "--hash", self.hash]
        if self.tool == "header":
            a += ["-r", repr(self.r1)]
        else:
            a += ["-r1", repr(self.r1), "-r2", repr(self.r2), "-r3", repr(self.r3)]
        return a

    def correct_args(self):
        a = []
        if self.erasures:
            a.append("--enable_erasures")
        if self.only_erasures:
            a.append("--only_erasures")
        if self.erasure_symbol:
            a += ["--erasure_symbol", str(self.erasure_symbol)]
        if self.no_fast_check:
            a.append("--no_fast_check")
        if self.ignore_size:
            a.append("--ignore_size")
        if self.skip_missing:
            a.append("--skip_missing")
        return a

    def k_of_rate(self, rate):
        return int(round(float(self.mbs) / (1 + 2 * rate), 0))

    def well_formed(self):
        rates = [self.r1, self.ri] if self.tool == "header" else [self.r1, self.r2, self.r3, self.ri]
        ks = [self.k_of_rate(r) for r in rates]
        return all(1 <= k < self.mbs for k in ks)

    def describe(self):
        return {k: getattr(self, k) for k in ("tool", "algo", "mbs", "size", "r1", "r2", "r3", "ri", "hash", "erasures", "only_erasures",
                                              "erasure_symbol", "no_fast_check", "ignore_size")}


def write_tree(root, tree):
    os.makedirs(root, exist_ok=True)
    for rel, c in tree.items():
        p = os.path.join(root, *rel.split("/"))
        os.makedirs(os.path.dirname(p), exist_ok=True)
        with open(p, "wb") as f:
            f.write(c)


def read_tree(root):
    res = {}
    for r, _d, fs in os.walk(root):
        for f in fs:
            p = os.path.join(r, f)
            res[os.path.relpath(p, root).replace(os.sep, "/")] = open(p, "rb").read()
    return res


def generate(P, inp, eccfile, extra=None):
    """returns exit status text ('0' / 'exception:Type: msg'); `extra` = further generation options"""
    m = tool(P.tool)
    argv = ["-i", inp, "-d", eccfile, "-g", "-f", "--silent"] + P.common_args() + list(extra or [])
    try:
        with common.captured():
            rc = m.main(argv)
        return str(int(rc))
    except BaseException as e:
        return "exception:%s: %s" % (type(e).__name__, str(e)[:200])


STAT_RE = re.compile(r"Total files processed: (\d+)\s*- Total files corrupted: (\d+)\s*- Total files repaired completely: (\d+)\s*"
                     r"- Total files repaired partially: (\d+)\s*- Total files corrupted but not repaired at all: (-?\d+)\s*- Total files skipped: (\d+)")


def correct(P, inp, eccfile, outdir):
    """returns (exit text, stats tuple or None, output tree, captured text)"""
    m = tool(P.tool)
    shutil.rmtree(outdir, ignore_errors=True)
    os.makedirs(outdir)
    argv = ["-i", inp, "-d", eccfile, "-c", "-o", outdir] + P.common_args() + P.correct_args()
    txt = ""
    try:
        with common.captured() as buf:
            try:
                rc = m.main(argv)
            finally:
                txt = buf.getvalue()
        rc = str(int(rc))
    except BaseException as e:
        rc = "exception:%s: %s" % (type(e).__name__, str(e)[:200])
    mm = STAT_RE.search(txt)
    stats = tuple(int(x) for x in mm.groups()) if mm else None
    return rc, stats, read_tree(outdir), txt


def body_offset(ecc):
    """offset of the first entry marker = end of the comment preamble"""
    i = ecc.find(MARKER)
    return len(ecc) if i < 0 else i


def entry_bounds(ecc):
    """[(marker_start, end)] of every entry (no accidental marker assumed)"""
    occ = []
    i = ecc.find(MARKER)
    while i >= 0:
        occ.append(i)
        i = ecc.find(MARKER, i + len(MARKER))
    return [(o, occ[j + 1] if j + 1 < len(occ) else len(ecc)) for j, o in enumerate(occ)]


def parse_entry(ecc, start, end):
    """fields of a pristine entry: dict with absolute offsets"""
    e = ecc[start + len(MARKER):end]
    pos = []
    i = -len(DELIM)
    for _ in range(4):
        i = e.find(DELIM, i + len(DELIM))
        pos.append(i)
    base = start + len(MARKER)
    return {"path": (base, base + pos[0]), "size": (base + pos[0] + 5, base + pos[1]), "path_ecc": (base + pos[1] + 5, base + pos[2]),
            "size_ecc": (base + pos[2] + 5, base + pos[3]), "track": (base + pos[3] + 5, end),
            "delims": [base + p for p in pos], "marker": start,
            "relpath": e[:pos[0]], "sizetxt": e[pos[0] + 5:pos[1]]}


def accidental(ecc, nfiles):
    """True if the ecc body contains a marker/delimiter that generation did not write as such"""
    b = entry_bounds(ecc)
    if len(b) != nfiles:
        return True
    for (s, e) in b:
        ent = ecc[s + len(MARKER):e]
        # exactly four delimiters in the metadata part, none overlapping oddly
        f = parse_entry(ecc, s, e)
        if min(f["delims"]) < 0:
            return True
        meta = ecc[s + len(MARKER):f["track"][0]]
        if meta.count(DELIM) != 4:
            return True
        # a field (or the previous entry) ending in a proper prefix of the delimiter / marker makes the search find it EARLY: the
        # occurrence found is then overlapped by the real one, two or four bytes (marker: up to eight) further on
        for q in f["delims"]:
            if any(ecc[q + sh:q + sh + len(DELIM)] == DELIM for sh in (2, 4)):
                return True
        if any(ecc[s + sh:s + sh + len(MARKER)] == MARKER for sh in (2, 4, 6, 8)):
            return True
    return False
