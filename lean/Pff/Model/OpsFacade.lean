import Pff.Model.GF
import Pff.Model.Facade
import Pff.Model.Ecc
/-
The hash / codec operations `Ops` that the per-file logic of the ecc tools is parameterised by,
instantiated with the *facade model* (`Pff.Facade`, = `lib/eccman.ECCMan`) over one of the two
byte fields: this is what the tools actually call (`ecc_manager.encode/check/decode(..., k=k)`
on byte strings).  Core Lean only.  The third-party decoder stays the parameter `core`.
-/
namespace Pff.Bridge

open Pff.GF Pff.Facade Pff.Ecc

abbrev Bytes := List Nat

def toElts (p : Params) (l : Bytes) : List (Elt p) := l.map (Elt.ofNat p)
def ofElts {p : Params} (l : List (Elt p)) : Bytes := l.map Elt.toNat

/-- `Ops` of a tool run with codec object `c` (`n = max_block_size`), third-party decoder `core`,
hash `H`, and the erasure options of the command line (`--enable_erasures`, `--erasure_symbol`,
`--only_erasures`).  `dec = none` ≙ the decoder raised `ReedSolomonError` / `RSCodecError`
(the exceptions the tools catch). -/
def opsOfFacade {p : Params} (c : Codec (Elt p)) (core : Core (Elt p)) (H : Bytes → Bytes)
    (enableErasures : Bool) (erasureSym : Nat) (onlyErasures : Bool) : Ops :=
  { H := H,
    enc := fun k m => ofElts (encode c (toElts p m) k),
    chk := fun k m e => check c (toElts p m) (toElts p e) k,
    dec := fun k m e =>
      match decode core c (toElts p m) (toElts p e) k enableErasures (Elt.ofNat p erasureSym) onlyErasures with
      | .ok (a, b) => some (ofElts a, ofElts b)
      | .error _ => none }

end Pff.Bridge
