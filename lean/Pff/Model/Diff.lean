/-
Model of the resilience-tester metrics (`resiliency_tester.py`: `diff_bytes_files`,
`diff_count_files`, `diff_bytes_dir`, `diff_count_dir`, exit status of `main`) — C20.
Core Lean only.
-/
namespace Pff.Diff

abbrev Bytes := List Nat

/-! ## Spec -/

/-- number of differing positions over the common length -/
def hamming : Bytes → Bytes → Nat
  | x :: xs, y :: ys => (if x = y then 0 else 1) + hamming xs ys
  | _, _ => 0

def absDiff (m n : Nat) : Nat := (m - n) + (n - m)

/-- differing positions over the common length plus the difference of the lengths, over a total
of the longer length -/
def diffBytesSpec (a b : Bytes) : Nat × Nat :=
  (hamming a b + absDiff a.length b.length, max a.length b.length)

/-! ## Implementation model -/

/-- the `while 1:` loop of `diff_bytes_files` after the two `seek`s, reading `bs` bytes from each
file per round (as fixed: `os.fstat`, surplus of the longer buffer counted) -/
def diffBytesChunked (bs : Nat) (a b : Bytes) : Nat × Nat :=
  if hbs : bs = 0 then (0, 0) else
  let b1 := a.take bs
  let b2 := b.take bs
  if b1 ≠ [] ∧ b2 = [] then
    -- size_remaining = fstat(f1).st_size - f1.tell() + len(buf1)
    (a.length, a.length)
  else if b2 ≠ [] ∧ b1 = [] then (b.length, b.length)
  else if h : b1 = [] ∧ b2 = [] then (0, 0)
  else
    let r := diffBytesChunked bs (a.drop bs) (b.drop bs)
    let surplus := absDiff b1.length b2.length
    (hamming b1 b2 + surplus + r.1, min b1.length b2.length + surplus + r.2)
termination_by a.length + b.length
decreasing_by
  have hpos : 0 < bs := Nat.pos_of_ne_zero hbs
  simp only [List.length_drop]
  have : a ≠ [] ∨ b ≠ [] := by
    by_cases ha : a = []
    · by_cases hb : b = []
      · exfalso; apply h; subst ha; subst hb; simp [b1, b2]
      · exact Or.inr hb
    · exact Or.inl ha
  rcases this with h' | h'
  · have : 0 < a.length := List.length_pos_iff.mpr h'
    omega
  · have : 0 < b.length := List.length_pos_iff.mpr h'
    omega

/-- `diff_bytes_files(path1, path2, blocksize, startpos1, startpos2)` -/
def diffBytesFiles (bs s1 s2 : Nat) (a b : Bytes) : Nat × Nat :=
  diffBytesChunked bs (a.drop s1) (b.drop s2)

/-- the loop of `diff_count_files`: `True` iff no round differs -/
def diffCountChunked (bs : Nat) (a b : Bytes) : Bool :=
  if hbs : bs = 0 then true else
  let b1 := a.take bs
  let b2 := b.take bs
  if b1 ≠ b2 then false
  else if h : b1 = [] ∧ b2 = [] then true
  else diffCountChunked bs (a.drop bs) (b.drop bs)
termination_by a.length + b.length
decreasing_by
  have hpos : 0 < bs := Nat.pos_of_ne_zero hbs
  simp only [List.length_drop]
  have : a ≠ [] ∨ b ≠ [] := by
    by_cases ha : a = []
    · by_cases hb : b = []
      · exfalso; apply h; subst ha; subst hb; simp [b1, b2]
      · exact Or.inr hb
    · exact Or.inl ha
  rcases this with h' | h'
  · have : 0 < a.length := List.length_pos_iff.mpr h'
    omega
  · have : 0 < b.length := List.length_pos_iff.mpr h'
    omega

def diffCountFiles (bs s1 s2 : Nat) (a b : Bytes) : Bool :=
  diffCountChunked bs (a.drop s1) (b.drop s2)

/-- a tree as the list of (relative path, content) in walk order -/
abbrev Tree := List (String × Bytes)

def lookup (t : Tree) (p : String) : Option Bytes := (t.find? (fun e => e.1 == p)).map (·.2)

/-- `diff_bytes_dir(dir1, dir2)`: sum over the files of the reference tree `t1`; a file missing
from `t2` counts as wholly different -/
def diffBytesDir (bs : Nat) (t1 t2 : Tree) : Nat × Nat :=
  t1.foldl (fun acc e =>
    match lookup t2 e.1 with
    | none => (acc.1 + e.2.length, acc.2 + e.2.length)
    | some c2 => let r := diffBytesChunked bs e.2 c2; (acc.1 + r.1, acc.2 + r.2)) (0, 0)

/-- `diff_count_dir(dir1, dir2)` -/
def diffCountDir (bs : Nat) (t1 t2 : Tree) : Nat × Nat :=
  t1.foldl (fun acc e =>
    match lookup t2 e.1 with
    | none => (acc.1 + 1, acc.2 + 1)
    | some c2 => (if diffCountChunked bs e.2 c2 then acc.1 else acc.1 + 1, acc.2 + 1)) (0, 0)

/-- exit status of `pff restest` from the final stage's `diff_bytes = (d, t)`:
`error = d / t * 100` (ZeroDivisionError when `t = 0`), `return 0 if error == 0 else 1`.
`none` = the run aborts with an exception. The step `d / t * 100 == 0 ↔ d = 0` for floats is the
one IEEE-754 fact assumed (integers below 2^53); it is exercised by the correspondence check. -/
def restestExit (dt : Nat × Nat) : Option Nat :=
  if dt.2 = 0 then none else if dt.1 = 0 then some 0 else some 1

end Pff.Diff
