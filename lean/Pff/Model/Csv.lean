/-
The csv layer of the hash database, the errors file and the replication report (C05, C16, C17,
C18): Python's `csv.writer` / `csv.reader` with the dialect the tools use everywhere
(`delimiter='|'`, `quotechar='"'`, `lineterminator='\n'`, minimal quoting, doubled quotes, not
strict), the files opened with `newline=''`, and the tools' own wrapper `lib/_compat._csv_writer`
(a row with a field containing a carriage return is written with every field quoted).
Core Lean only.  Characters are code points (`Nat`).

The reader is the state machine of CPython's `_csv.c` (`parse_process_char`), fed line by line by
the text file iterator (universal newlines without translation: a line ends after `\n`, after
`\r\n`, or after a `\r` not followed by `\n`), with the end-of-line pseudo character after each
line, as `Reader_iternext` does.
-/
namespace Pff.Csv

abbrev Str := List Nat

def cDelim : Nat := 124     -- '|'
def cQuote : Nat := 34      -- '"'
def cLF : Nat := 10
def cCR : Nat := 13

/-! ## writer -/

/-- minimal quoting: the field contains the delimiter, the quote character or a character of the
line terminator (`\n`) -/
def needsQuote (f : Str) : Bool := f.any (fun c => c == cDelim || c == cQuote || c == cLF)

def quoteField (f : Str) : Str :=
  [cQuote] ++ f.flatMap (fun c => if c == cQuote then [cQuote, cQuote] else [c]) ++ [cQuote]

/-- one field; `all` = `QUOTE_ALL` -/
def writeField (all : Bool) (f : Str) : Str := if all || needsQuote f then quoteField f else f

def joinFields : List Str → Str
  | [] => []
  | [f] => f
  | f :: fs => f ++ [cDelim] ++ joinFields fs

/-- `csv.writer.writerow(row)` with the given quoting; a row made of one empty field is written as
`""` (`_csv.c`: "if the record is empty after all fields are joined, quote it") -/
def writeRowWith (all : Bool) (row : List Str) : Str :=
  match row with
  | [[]] => [cQuote, cQuote, cLF]
  | _ => joinFields (row.map (writeField all)) ++ [cLF]

/-- `_csv_writer.writerow`: every field quoted when some field contains a carriage return -/
def writeRow (row : List Str) : Str := writeRowWith (row.any (fun f => f.contains cCR)) row

def writeRows (rows : List (List Str)) : Str := (rows.map writeRow).flatten

/-! ## reader -/

/-- the lines the file iterator yields with `newline=''` (terminators kept) -/
def splitLines : Str → Str → List Str
  | [], [] => []
  | cur, [] => [cur]
  | cur, [c] => [cur ++ [c]]
  | cur, c :: d :: rest =>
    if c == cLF then (cur ++ [c]) :: splitLines [] (d :: rest)
    else if c == cCR then
      if d == cLF then (cur ++ [c, d]) :: splitLines [] rest else (cur ++ [c]) :: splitLines [] (d :: rest)
    else splitLines (cur ++ [c]) (d :: rest)
termination_by _ s => s.length
decreasing_by all_goals simp_wf <;> omega

inductive St where
  | startRecord | startField | inField | inQuoted | quoteInQuoted | eatCRNL
  deriving DecidableEq, Repr

structure RSt where
  st     : St := .startRecord
  field  : Str := []
  fields : List Str := []
  deriving Repr

/-- `parse_save_field` -/
def saveField (s : RSt) : RSt := { s with fields := s.fields ++ [s.field], field := [] }

/-- `parse_process_char`; `none` = the end-of-line pseudo character; result `none` = `csv.Error` -/
def step (s : RSt) (c : Option Nat) : Option RSt :=
  let isNL := c == some cLF || c == some cCR
  let startField (s : RSt) : Option RSt :=
    if isNL || c.isNone then some { saveField s with st := if c.isNone then .startRecord else .eatCRNL }
    else if c == some cQuote then some { s with st := .inQuoted }
    else if c == some cDelim then some (saveField s)
    else some { s with field := s.field ++ [c.getD 0], st := .inField }
  match s.st with
  | .startRecord =>
    if c.isNone then some s
    else if isNL then some { s with st := .eatCRNL }
    else startField { s with st := .startField }
  | .startField => startField s
  | .inField =>
    if isNL || c.isNone then some { saveField s with st := if c.isNone then .startRecord else .eatCRNL }
    else if c == some cDelim then some { saveField s with st := .startField }
    else some { s with field := s.field ++ [c.getD 0] }
  | .inQuoted =>
    if c.isNone then some s
    else if c == some cQuote then some { s with st := .quoteInQuoted }
    else some { s with field := s.field ++ [c.getD 0] }
  | .quoteInQuoted =>
    if c == some cQuote then some { s with field := s.field ++ [cQuote], st := .inQuoted }
    else if c == some cDelim then some { saveField s with st := .startField }
    else if isNL || c.isNone then some { saveField s with st := if c.isNone then .startRecord else .eatCRNL }
    else some { s with field := s.field ++ [c.getD 0], st := .inField }
  | .eatCRNL =>
    if isNL then some s
    else if c.isNone then some { s with st := .startRecord }
    else none

/-- feed the characters of one line, then the end-of-line pseudo character -/
def feedLine (s : RSt) (line : Str) : Option RSt :=
  (line.foldlM (fun s c => step s (some c)) s).bind (fun s => step s none)

/-- `Reader_iternext` repeated until the input is exhausted: the records read (`[]` for a blank
line, as `csv.reader` yields), or `none` on `csv.Error` -/
def readLines : RSt → List Str → Option (List (List Str))
  | s, [] =>
    -- end of input inside a record: `if field_len != 0 or state == IN_QUOTED_FIELD: save the field, return the record`
    if s.st == .startRecord then some []
    else if s.field != [] || s.st == .inQuoted then some [(saveField s).fields]
    else some []
  | s, line :: rest =>
    match feedLine s line with
    | none => none
    | some s' =>
      if s'.st == .startRecord then (readLines {} rest).map (fun rs => s'.fields :: rs)
      else readLines s' rest

def readAll (text : Str) : Option (List (List Str)) := readLines {} (splitLines [] text)

/-! ## `csv.DictReader` (how every tool reads the database) -/

/-- one record as `DictReader` yields it: the values by field name (`none` ≙ `None`: the row was
shorter than the header), and the surplus fields of a row longer than the header (stored under
the key `None`) -/
structure DictRow where
  vals  : List (Str × Option Str)
  extra : List Str
  deriving DecidableEq, Repr

def zipPad : List Str → List Str → List (Str × Option Str)
  | [], _ => []
  | h :: hs, [] => (h, none) :: zipPad hs []
  | h :: hs, v :: vs => (h, some v) :: zipPad hs vs

/-- the first row read is the list of field names; blank rows (`[]`) after it are skipped -/
def dictRows : List (List Str) → List DictRow
  | [] => []
  | hdr :: rest => (rest.filter (fun r => !r.isEmpty)).map
      (fun r => { vals := zipPad hdr r, extra := r.drop hdr.length })

def dictRead (text : Str) : Option (List DictRow) := (readAll text).map dictRows

end Pff.Csv
