/-
Model of `rfigc.py` (`pff hash`): generation, check mode, `--update` (append / remove),
`--filescraping_recovery` — C05, C16, C17 (and the single-file check used by C18). Core Lean only.

The hash functions (`hashlib` md5 + sha1 over the streamed file) are the parameter
`H : Bytes → Nat × Nat` (any deterministic function); `extOf : String → String` stands for
`os.path.splitext(path)[1]`; `roundSec : Nat → Nat` for `round(mtime, 0)`. The csv layer is not
part of this file: a database is the list of its rows.
-/
namespace Pff.Rfigc

abbrev Bytes := List Nat

structure File where
  path    : String      -- relative posix path
  content : Bytes
  mtime   : Nat         -- an identifier of the modification time (see `roundSec`)
  deriving DecidableEq, Repr

/-- a tree: its files (the walk order is irrelevant for everything proved here) -/
abbrev Tree := List File

structure Row where
  path  : String
  md5   : Nat
  sha1  : Nat
  mtime : Nat
  size  : Nat
  ext   : String
  deriving DecidableEq, Repr

structure Env where
  H        : Bytes → Nat × Nat
  extOf    : String → String
  roundSec : Nat → Nat

def lookup (t : Tree) (p : String) : Option File := t.find? (fun f => f.path = p)

def rowOf (E : Env) (f : File) : Row :=
  { path := f.path, md5 := (E.H f.content).1, sha1 := (E.H f.content).2, mtime := f.mtime,
    size := f.content.length, ext := E.extOf f.path }

/-- `pff hash -g`: one row per file of the walk -/
def genDb (E : Env) (t : Tree) : List Row := t.map (rowOf E)

/-- the input argument: the folder, or a single file directly inside it -/
inductive Input where
  | folder
  | file (name : String)
  deriving DecidableEq, Repr

/-- "Single-file mode: skip if this is not the file we are looking for" -/
def concerns (inp : Input) (r : Row) : Bool :=
  match inp with
  | .folder => true
  | .file n => r.path = n

/-! ## check mode (C05) -/

structure CheckOpts where
  noMtime     : Bool := false   -- `-m`
  skipMissing : Bool := false
  skipHash    : Bool := false
  deriving Repr

inductive Err where
  | missing | bothHash | oneHash | ext | size | mtime
  deriving DecidableEq, Repr

/-- the difference rules of check mode for one database row -/
def rowErrors (E : Env) (o : CheckOpts) (t : Tree) (r : Row) : List Err :=
  match lookup t r.path with
  | none => if o.skipMissing then [] else [.missing]
  | some f =>
    let h := E.H f.content
    (if !o.skipHash && decide (h.1 ≠ r.md5) && decide (h.2 ≠ r.sha1) then [Err.bothHash]
     else if !o.skipHash && ((decide (h.1 = r.md5) && decide (h.2 ≠ r.sha1)) ||
                             (decide (h.1 ≠ r.md5) && decide (h.2 = r.sha1))) then [Err.oneHash]
     else []) ++
    (if E.extOf f.path ≠ r.ext then [Err.ext] else []) ++
    (if f.content.length ≠ r.size then [Err.size] else []) ++
    (if !o.noMtime && decide (f.mtime ≠ r.mtime) && decide (E.roundSec f.mtime ≠ E.roundSec r.mtime)
     then [Err.mtime] else [])

structure CheckResult where
  reported : List String     -- paths with an error, in database order (= the errors file)
  exit     : Nat
  deriving DecidableEq, Repr

def check (E : Env) (o : CheckOpts) (db : List Row) (t : Tree) (inp : Input) : CheckResult :=
  let bad := (db.filter (concerns inp)).filter (fun r => !(rowErrors E o t r).isEmpty)
  { reported := bad.map (·.path), exit := if bad.isEmpty then 0 else 1 }

/-! ## update (C16) -/

/-- `--update --remove` (as repaired: rows of other files are kept in single-file mode) -/
def updRemove (db : List Row) (t : Tree) (inp : Input) : List Row :=
  db.filter (fun r => !concerns inp r || (lookup t r.path).isSome)

/-- `--update --append`: rows of the walked files whose path is not in the database yet -/
def updAppend (E : Env) (db : List Row) (t : Tree) (inp : Input) : List Row :=
  let walked := match inp with
    | .folder => t
    | .file n => t.filter (fun f => f.path = n)
  db ++ ((walked.filter (fun f => !(db.map (·.path)).contains f.path)).map (rowOf E))

inductive Op where
  | add (f : File)            -- create a file (overwrites a file of the same path)
  | delete (path : String)
  | update (append remove : Bool) (inp : Input)
  deriving Repr

structure State where
  tree : Tree
  db   : List Row
  deriving Repr

def step (E : Env) (s : State) : Op → State
  | .add f => { s with tree := f :: s.tree.filter (fun g => g.path ≠ f.path) }
  | .delete p => { s with tree := s.tree.filter (fun g => g.path ≠ p) }
  | .update a r inp =>
    let db1 := if r then updRemove s.db s.tree inp else s.db     -- removal first, then append
    let db2 := if a then updAppend E db1 s.tree inp else db1
    { s with db := db2 }

def run (E : Env) (s : State) (ops : List Op) : State := ops.foldl (step E) s

/-- the columns the property compares -/
def core (r : Row) : String × Nat × Nat × Nat × String := (r.path, r.md5, r.sha1, r.size, r.ext)

/-! ## file-scraping recovery (C17) -/

/-- `hashlist[(row['md5'], row['sha1'])] = id` — the last row with a given pair of hashes wins
(as repaired: a file is recognised by both hashes together; before, two separate dictionaries had
to point to the same row, so a recorded file sharing ONE hash with a later row was never found) -/
def lastIndex (keys : List (Nat × Nat)) (k : Nat × Nat) : Option Nat :=
  (keys.zipIdx.filter (fun ki => ki.1 = k)).getLast?.map (·.2)

/-- the row a scraped content is recognised as, if any -/
def recognise (E : Env) (db : List Row) (c : Bytes) : Option Row :=
  match lastIndex (db.map (fun r => (r.md5, r.sha1))) (E.H c) with
  | some i => db[i]?
  | none => none

structure OutFile where
  path : String
  content : Bytes
  mtime : Nat
  deriving DecidableEq, Repr

/-- writes performed, in walk order of the scraped folder (a later write to the same path
overwrites an earlier one) -/
def scrapeWrites (E : Env) (db : List Row) (scraped : List Bytes) : List OutFile :=
  scraped.filterMap (fun c => (recognise E db c).map (fun r => { path := r.path, content := c, mtime := r.mtime }))

/-- the output folder after the run: the last write to each path -/
def scrapeOutput (E : Env) (db : List Row) (scraped : List Bytes) : String → Option OutFile :=
  fun p => ((scrapeWrites E db scraped).filter (fun w => w.path = p)).getLast?

end Pff.Rfigc
