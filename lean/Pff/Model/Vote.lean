/-
Model of `replication_repair.majority_vote_byte_scan` (C06).

Two layers:
* `Spec`  – the declarative meaning of the property (plurality per offset, earliest on ties).
* `Impl`  – a line-for-line functional rendering of the Python loop (read `bs` bytes from every
  copy, all-empty → stop, single-survivor shortcut, column histogram as an insertion-ordered
  dict, stable reverse sort), parametrised by the read-chunk size `bs`.

Core Lean only (no Mathlib) so that the driver can import it.
-/
namespace Pff.Vote

abbrev Bytes := List Nat

/-! ## Spec -/

/-- the values carried at offset `j` by the copies that reach `j`, in the given copy order -/
def column (copies : List Bytes) (j : Nat) : List Nat :=
  copies.filterMap (fun c => c[j]?)

def maxLen (copies : List Bytes) : Nat :=
  copies.foldr (fun c m => max c.length m) 0

/-- `v` is carried by at least as many copies as any other value of the column -/
def isPlurality (col : List Nat) (v : Nat) : Bool :=
  col.all (fun w => col.count w ≤ col.count v)

/-- plurality value; among tied values the one whose first carrier is earliest -/
def specVal (col : List Nat) : Option Nat := col.find? (isPlurality col)

/-- "all copies differ": at least two copies reach the offset and no two agree -/
def specAmbiguous (col : List Nat) : Bool :=
  decide (2 ≤ col.length) && decide (col.Nodup)

structure Result where
  out    : Bytes
  errors : List Nat      -- offsets reported as ambiguous, ascending
  deriving DecidableEq, Repr

def voteSpec (copies : List Bytes) : Result :=
  let n := maxLen copies
  { out    := (List.range n).filterMap (fun j => specVal (column copies j))
    errors := (List.range n).filter (fun j => specAmbiguous (column copies j)) }

/-! ## Implementation model -/

/-- `hist[key] = hist.get(key, 0) + 1` on an insertion-ordered dict -/
def histAdd : List (Nat × Nat) → Nat → List (Nat × Nat)
  | [], v => [(v, 1)]
  | (k, c) :: t, v => if k = v then (k, c + 1) :: t else (k, c) :: histAdd t v

def histOf (col : List Nat) : List (Nat × Nat) := col.foldl histAdd []

/-- head of `sorted(hist, key=hist.get, reverse=True)`; Python's sort is stable also with
`reverse=True`, so among equal counts the first inserted key stays first -/
def topAux : Nat × Nat → List (Nat × Nat) → Nat × Nat
  | best, [] => best
  | best, (k, c) :: t => if best.2 < c then topAux (k, c) t else topAux best t

/-- one column of the vote: `(byte written, ambiguity reported)`; `none` when no copy reaches -/
def voteCol (col : List Nat) : Option (Nat × Bool) :=
  match histOf col with
  | [] => none
  | [kc] => some (kc.1, false)
  | x :: y :: t =>
    let b := topAux x (y :: t)
    if b.2 = 1 then
      -- ambiguity: "use the entry of the first file that is still open"
      some (col.headD 0, true)
    else some (b.1, false)

/-- the `for i in range(max(len(entry)))` loop on one round of chunks; `base = outfile.tell()` -/
def voteBlock (entries : List Bytes) (base : Nat) : Result :=
  let n := maxLen entries
  { out    := (List.range n).filterMap (fun i => (voteCol (column entries i)).map (·.1))
    errors := ((List.range n).filter
                 (fun i => ((voteCol (column entries i)).map (·.2)).getD false)).map (base + ·) }

def allEmpty (entries : List Bytes) : Bool := entries.all (·.isEmpty)

def countEmpty (entries : List Bytes) : Nat := entries.countP (·.isEmpty)

/-- sum of the remaining lengths: the termination measure of the read loop -/
def remaining (copies : List Bytes) : Nat := (copies.map List.length).foldr (· + ·) 0

theorem remaining_drop_lt (bs : Nat) (hbs : 0 < bs) (copies : List Bytes)
    (h : allEmpty copies = false) :
    remaining (copies.map (List.drop bs)) < remaining copies := by
  induction copies with
  | nil => simp [allEmpty] at h
  | cons c cs ih =>
    simp only [allEmpty, List.all_cons, Bool.and_eq_false_iff] at h
    simp only [remaining, List.map_cons, List.foldr_cons, List.length_drop] at *
    have hle : ∀ l : List Bytes,
        ((l.map (List.drop bs)).map List.length).foldr (· + ·) 0 ≤
          (l.map List.length).foldr (· + ·) 0 := by
      intro l
      induction l with
      | nil => simp
      | cons a l ihl => simp only [List.map_cons, List.foldr_cons, List.length_drop]; omega
    rcases h with h | h
    · have : 0 < c.length := by
        cases c with
        | nil => simp at h
        | cons _ _ => simp
      have := hle cs
      omega
    · have := ih (by simpa [allEmpty] using h)
      omega

/-- every handle advanced by one `read(bs)` -/
def dropAll (bs : Nat) (copies : List Bytes) : List Bytes := copies.map (List.drop bs)
/-- what one round of `read(bs)` returns -/
def takeAll (bs : Nat) (copies : List Bytes) : List Bytes := copies.map (List.take bs)

/-- The main `while` loop of the routine for ≥ 3 handles, as fixed (single-survivor shortcut
writes the one non-empty chunk). `bs = 0` reads nothing, exactly like `read(0)`. -/
def voteChunked (bs : Nat) (copies : List Bytes) (base : Nat) : Result :=
  if h0 : bs = 0 then { out := [], errors := [] } else
  let entries := takeAll bs copies
  if h : allEmpty copies then { out := [], errors := [] }
  else
    let blk : Result :=
      if countEmpty entries + 1 = entries.length then
        { out := (entries.find? (fun e => !e.isEmpty)).getD [], errors := [] }
      else voteBlock entries base
    let rest := voteChunked bs (dropAll bs copies) (base + blk.out.length)
    { out := blk.out ++ rest.out, errors := blk.errors ++ rest.errors }
termination_by remaining copies
decreasing_by
  exact remaining_drop_lt bs (Nat.pos_of_ne_zero h0) copies (by simpa using h)

/-- The pinned (pre-fix) loop: the shortcut wrote `entries[0]` whatever copy survived. Kept only
for the regression witness `C06_pinned_witness`. -/
def voteChunkedPinned (bs : Nat) (copies : List Bytes) (base : Nat) : Result :=
  if h0 : bs = 0 then { out := [], errors := [] } else
  let entries := takeAll bs copies
  if h : allEmpty copies then { out := [], errors := [] }
  else
    let blk : Result :=
      if countEmpty entries + 1 = entries.length then
        { out := entries.headD [], errors := [] }
      else voteBlock entries base
    let rest := voteChunkedPinned bs (dropAll bs copies) (base + blk.out.length)
    { out := blk.out ++ rest.out, errors := blk.errors ++ rest.errors }
termination_by remaining copies
decreasing_by
  exact remaining_drop_lt bs (Nat.pos_of_ne_zero h0) copies (by simpa using h)

/-- whole routine: `(bytes written, return status, reported offsets)` -/
structure Outcome where
  out    : Bytes
  status : Nat
  errors : List Nat
  deriving DecidableEq, Repr

def majorityVote (bs : Nat) (copies : List Bytes) : Outcome :=
  if copies.length < 3 then
    { out := copies.headD [], status := 1, errors := [] }
  else
    let r := voteChunked bs copies 0
    { out := r.out, status := if r.errors.isEmpty then 0 else 1, errors := r.errors }

end Pff.Vote
