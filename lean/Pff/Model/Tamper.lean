/-
Model of `filetamper.tamper_file` / `tamper_dir` (C19). Core Lean only.

Randomness is an *arbitrary oracle stream* `ρ : List Nat`, consumed in program order:
* every evaluation of `random.random() < x` consumes one element, read as its boolean outcome
  (`0` = False, anything else = True);
* every `random.randint(lo, hi)` consumes one element, read as the value returned.
An exhausted stream answers `0`.  The theorems quantify over every stream, so they hold for every
seed and every probability setting; "probability 0" is the case where every outcome is False
(`random.random() < 0` is never true: the only fact about `random` that is used).
-/
namespace Pff.Tamper

abbrev Bytes := List Nat

inductive Mode where
  | erasure      -- 'e' / 'erasure': buf[pos] = 0
  | noise        -- 'n' / 'noise': buf[pos] = randint(0,255)
  | other        -- any other string: positions are counted, nothing is written over them
  deriving DecidableEq, Repr

structure Params where
  mode : Mode
  /-- `block_proba` is set and non-zero (a coin is drawn per block) -/
  blockCoin : Bool
  /-- `burst_length = [lo, hi]` when given -/
  burst : Bool
  /-- `header` when given and > 0 (then `blocksize = header` and only one block is read) -/
  header : Option Nat
  blocksize : Nat
  deriving Repr

def draw (ρ : List Nat) : Nat × List Nat :=
  match ρ with
  | [] => (0, [])
  | x :: t => (x, t)

/-- the `for i in range(len(buf))` loop that builds `pos2tamper`; `i` is the current index,
`n` the number of remaining positions, `burstRemain` as in the code -/
def selectPositions (burst : Bool) : (n i burstRemain : Nat) → List Nat → List Nat × List Nat
  | 0, _, _, ρ => ([], ρ)
  | n + 1, i, burstRemain, ρ =>
    if burstRemain > 0 then
      -- inside a burst: no draw (short-circuit `or`)
      let (ps, ρ') := selectPositions burst n (i + 1) (burstRemain - 1) ρ
      (i :: ps, ρ')
    else
      let (c, ρ1) := draw ρ
      if c ≠ 0 then
        if burst then
          let (r, ρ2) := draw ρ1         -- randint(burst_length[0], burst_length[1])
          let (ps, ρ') := selectPositions burst n (i + 1) (r - 1) ρ2
          (i :: ps, ρ')
        else
          let (ps, ρ') := selectPositions burst n (i + 1) 0 ρ1
          (i :: ps, ρ')
      else selectPositions burst n (i + 1) 0 ρ1

/-- `for pos in pos2tamper: buf[pos] = ...` -/
def applyPositions (mode : Mode) : List Nat → Bytes → List Nat → Bytes × List Nat
  | [], buf, ρ => (buf, ρ)
  | p :: ps, buf, ρ =>
    match mode with
    | .erasure => applyPositions mode ps (buf.set p 0) ρ
    | .noise =>
      let (v, ρ') := draw ρ
      applyPositions mode ps (buf.set p v) ρ'
    | .other => applyPositions mode ps buf ρ

/-- one block: returns (new block, number of positions selected, remaining oracle) -/
def tamperBlock (P : Params) (buf : Bytes) (ρ : List Nat) : Bytes × Nat × List Nat :=
  let (go, ρ1) := if P.blockCoin then (let (c, r) := draw ρ; (c ≠ 0, r)) else (true, ρ)
  if go then
    let (ps, ρ2) := selectPositions P.burst buf.length 0 0 ρ1
    let (buf', ρ3) := applyPositions P.mode ps buf ρ2
    (buf', ps.length, ρ3)
  else (buf, 0, ρ1)

structure FileResult where
  content : Bytes
  count : Nat          -- tamper_count
  total : Nat          -- total_size
  rest : List Nat      -- oracle left
  deriving Repr

/-- the block loop on the not-yet-read rest of the file -/
def tamperLoop (P : Params) (bs : Nat) : (fuel : Nat) → Bytes → List Nat → Bytes × Nat × Nat × List Nat
  | 0, rest, ρ => (rest, 0, 0, ρ)
  | fuel + 1, rest, ρ =>
    let buf := rest.take bs
    if buf.isEmpty then (rest, 0, 0, ρ)
    else
      let (buf', c, ρ1) := tamperBlock P buf ρ
      let (tail, c2, t2, ρ2) := tamperLoop P bs fuel (rest.drop bs) ρ1
      (buf' ++ tail, c + c2, buf.length + t2, ρ2)

/-- `tamper_file(filepath, mode, proba, block_proba, blocksize, burst_length, header)` -/
def tamperFile (P : Params) (content : Bytes) (ρ : List Nat) : FileResult :=
  match P.header with
  | some h =>
    -- blocksize = header; one block, then `buf = ''`
    let buf := content.take h
    if buf.isEmpty then { content := content, count := 0, total := 0, rest := ρ }
    else
      let (buf', c, ρ1) := tamperBlock P buf ρ
      { content := buf' ++ content.drop h, count := c, total := buf.length, rest := ρ1 }
  | none =>
    let (out, c, t, ρ') := tamperLoop P P.blocksize (content.length + 1) content ρ
    { content := out, count := c, total := t, rest := ρ' }

structure DirResult where
  files : List (String × Bytes)
  filesTampered : Nat
  filesCount : Nat
  count : Nat
  total : Nat
  rest : List Nat
  deriving Repr

/-- `tamper_dir`: `tamper_file` on every file of the walk, in walk order, threading the oracle -/
def tamperDir (P : Params) : List (String × Bytes) → List Nat → DirResult
  | [], ρ => { files := [], filesTampered := 0, filesCount := 0, count := 0, total := 0, rest := ρ }
  | (p, c) :: fs, ρ =>
    let r := tamperFile P c ρ
    let d := tamperDir P fs r.rest
    { files := (p, r.content) :: d.files
      filesTampered := (if r.count > 0 then 1 else 0) + d.filesTampered
      filesCount := 1 + d.filesCount
      count := (if r.count > 0 then r.count else 0) + d.count
      total := r.total + d.total
      rest := d.rest }

/-- number of positions where two byte lists of the same length differ -/
def diffCount : Bytes → Bytes → Nat
  | x :: xs, y :: ys => (if x = y then 0 else 1) + diffCount xs ys
  | _, _ => 0

end Pff.Tamper
