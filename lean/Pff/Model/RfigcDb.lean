import Pff.Model.Rfigc
import Pff.Model.Csv
import Pff.Model.Entry
/-
The database FILE of `pff hash` (C05, C16, C17, C18): how the rows of `Pff.Rfigc` are written as csv
text and read back (`rfigc.py`: `csv_writer.writerow([path, md5, sha1, last_modification_timestamp,
last_modification_date, size, ext])` after the header row; read with `csv.DictReader`, fields
used by name, `int(row['size'])`, digests compared as text).  Core Lean only.

Text is a list of code points (`Pff.Csv.Str`).  Digests are the hex text `hashlib` returns (32 and
40 lower-case digits); the size is `str(int)`.  The modification time is an abstract identifier in
`Pff.Rfigc` (a float in the tool, written with `str()` and read with `float()`): it is written here
as the decimal text of the identifier — the round trip of Python's float repr is not modelled.
The human-readable date column is written as an empty field (it is never read back by the tool
except to be copied).
-/
namespace Pff.RfigcDb

open Pff.Rfigc Pff.Csv

def strOf (s : String) : Str := s.toList.map Char.toNat

def hexDigit (n : Nat) : Nat := if n < 10 then 48 + n else 87 + n      -- '0'..'9', 'a'..'f'

/-- `w` hex digits of `n`, most significant first (`'%0{w}x'`) -/
def hexOf : Nat → Nat → Str
  | 0, _ => []
  | w + 1, n => hexOf w (n / 16) ++ [hexDigit (n % 16)]

def hexVal (c : Nat) : Option Nat :=
  if 48 ≤ c ∧ c ≤ 57 then some (c - 48) else if 97 ≤ c ∧ c ≤ 102 then some (c - 87) else none

def parseHexText : Str → Option Nat
  | s => s.foldl (fun acc c => match acc, hexVal c with
      | some a, some v => some (a * 16 + v)
      | _, _ => none) (some 0)

def header : List Str :=
  [strOf "path", strOf "md5", strOf "sha1", strOf "last_modification_timestamp", strOf "last_modification_date",
   strOf "size", strOf "ext"]

/-- the csv fields of one row, in the order the tool writes them -/
def rowFields (r : Row) : List Str :=
  [strOf r.path, hexOf 32 r.md5, hexOf 40 r.sha1, Pff.Entry.digitsOf r.mtime, [], Pff.Entry.digitsOf r.size, strOf r.ext]

/-- the database file generated for a tree -/
def dbText (E : Env) (t : Tree) : Str := writeRows (header :: (genDb E t).map rowFields)

def field (d : DictRow) (name : Str) : Option Str :=
  match d.vals.find? (fun kv => kv.1 == name) with
  | some (_, some v) => some v
  | _ => none

def natOfText (s : Str) : Option Nat :=
  match Pff.Entry.pyInt s with
  | some (Int.ofNat n) => some n
  | _ => none

/-- one record of the DictReader back to a row (`none`: a field is missing or malformed — the tool
raises there) -/
def parseRow (d : DictRow) : Option Row := do
  let p ← field d (strOf "path")
  let m ← (field d (strOf "md5")).bind parseHexText
  let s ← (field d (strOf "sha1")).bind parseHexText
  let t ← (field d (strOf "last_modification_timestamp")).bind natOfText
  let z ← (field d (strOf "size")).bind natOfText
  let e ← field d (strOf "ext")
  some { path := String.ofList (p.map Char.ofNat), md5 := m, sha1 := s, mtime := t, size := z,
         ext := String.ofList (e.map Char.ofNat) }

/-- the database as the tool reads it -/
def readDb (text : Str) : Option (List Row) := (dictRead text).bind (fun ds => ds.mapM parseRow)

/-- digests of the width `hashlib` gives -/
def HashWidth (E : Env) : Prop := ∀ c, (E.H c).1 < 16 ^ 32 ∧ (E.H c).2 < 16 ^ 40

end Pff.RfigcDb
