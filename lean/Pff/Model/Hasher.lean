import Pff.Consts
/-
`lib/hasher.Hasher` (the hash kinds of the ecc tools; C10 quantifies over them, C01/C04 rely on the
stored hash having exactly `len(hasher)` bytes).  Core Lean only.

`hashlib` is a parameter: the hex digests (`hashlib.md5(m).hexdigest()`, 32 characters, and
`hashlib.sha256(m).hexdigest()`, 64 characters) are arguments.  `b64encode` is modelled exactly.
-/
namespace Pff.Hasher

abbrev Bytes := List Nat

/-- the base64 alphabet: `A–Z a–z 0–9 + /` -/
def b64char (v : Nat) : Nat :=
  if v < 26 then 65 + v else if v < 52 then 97 + (v - 26) else if v < 62 then 48 + (v - 52)
  else if v = 62 then 43 else 47

/-- `base64.b64encode` -/
def b64encode : Bytes → Bytes
  | [] => []
  | [a] => [b64char (a / 4), b64char ((a % 4) * 16), 61, 61]
  | [a, b] => [b64char (a / 4), b64char ((a % 4) * 16 + b / 16), b64char ((b % 16) * 4), 61]
  | a :: b :: c :: rest =>
    b64char (a / 4) :: b64char ((a % 4) * 16 + b / 16) :: b64char ((b % 16) * 4 + c / 64) :: b64char (c % 64) :: b64encode rest

/-- `Hasher(algo).hash(mes)` given the two hex digests of `mes`; `none` = `NameError` (unknown kind) -/
def hash (algo : String) (md5hex sha256hex : Bytes) : Option Bytes :=
  if algo = "md5" then some md5hex
  else if algo = "shortmd5" then some ((b64encode md5hex).take 8)
  else if algo = "shortsha256" then some ((b64encode sha256hex).take 8)
  else if algo = "minimd5" then some ((b64encode md5hex).take 4)
  else if algo = "minisha256" then some ((b64encode sha256hex).take 4)
  else if algo = "none" then some []
  else none

/-- `len(Hasher(algo))` as set in `__init__` -/
def length (algo : String) : Option Nat :=
  if algo = "md5" then some 32
  else if algo = "shortmd5" ∨ algo = "shortsha256" then some 8
  else if algo = "minimd5" ∨ algo = "minisha256" then some 4
  else if algo = "none" then some 0
  else none

end Pff.Hasher
