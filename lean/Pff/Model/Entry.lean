import Pff.Consts
import Pff.Model.Scan
import Pff.Model.Ecc
/-
Entry level of the two ecc tools and of `pff recover` (C08, C09, C15; the glue of C01/C03/C13):
entry format and generation (`genEntry`, `genEcc`, index records), field splitting
(`entry_fields`), intra-ecc of path and size (`ecc_correct_intra(_stream)`), lenient `int()`,
processing of one entry, the loop over all entries with counters and exit status, and the index
based marker recovery.  Core Lean only.  Python conventions (`find` returning -1, slices with
negative bounds) are modelled with `Int`, so damaged entries behave as in the tools.
-/
namespace Pff.Entry

open Pff.Ecc Pff.Layout

abbrev Bytes := List Nat

def marker : Bytes := Pff.Consts.heccMarker
def delim : Bytes := Pff.Consts.heccDelim

/-! ## Python helpers -/

/-- `s.find(sub, start)` with Python's treatment of a negative `start`; `-1` when not found -/
def pyFind (sub s : Bytes) (start : Int) : Int :=
  let st : Nat := if start < 0 then (s.length - (-start).toNat) else start.toNat
  match Pff.Scan.find sub s st with
  | some i => (i : Int)
  | none => -1

/-- normalise a slice bound -/
def pyBound (len : Nat) (i : Int) : Nat :=
  if i < 0 then (len - (-i).toNat) else min i.toNat len

/-- `s[a:b]` -/
def pySlice (s : Bytes) (a b : Int) : Bytes :=
  let a' := pyBound s.length a
  let b' := pyBound s.length b
  (s.drop a').take (b' - a')

/-- `s[a:]` -/
def pyFrom (s : Bytes) (a : Int) : Bytes := s.drop (pyBound s.length a)

def isSpace (c : Nat) : Bool := c = 32 || (9 ≤ c && c ≤ 13)
def isDigit (c : Nat) : Bool := 48 ≤ c && c ≤ 57

/-- digits with single underscores between digits -/
def digitsVal : List Nat → Bool → Nat → Option Nat
  | [], prevDigit, acc => if prevDigit then some acc else none
  | c :: cs, prevDigit, acc =>
    if isDigit c then digitsVal cs true (acc * 10 + (c - 48))
    else if c = 95 && prevDigit then
      match cs with
      | d :: _ => if isDigit d then digitsVal cs false acc else none
      | [] => none
    else none

/-- Python `int(b)` on a bytes object (base 10): surrounding ASCII whitespace, optional sign,
digits with single underscores. `none` = `ValueError`. -/
def pyInt (b : Bytes) : Option Int :=
  let s := (b.dropWhile isSpace).reverse.dropWhile isSpace |>.reverse
  match s with
  | [] => none
  | c :: rest =>
    if c = 45 then (digitsVal rest false 0).map (fun n => -(n : Int))
    else if c = 43 then (digitsVal rest false 0).map (fun n => (n : Int))
    else (digitsVal s false 0).map (fun n => (n : Int))

/-- decimal digits, least significant first -/
def digitsRev : Nat → Nat → List Nat
  | 0, _ => []
  | fuel + 1, n => if n < 10 then [48 + n] else (48 + n % 10) :: digitsRev fuel (n / 10)

/-- decimal text of a size (`str(filesize)`) -/
def digitsOf (n : Nat) : Bytes := (digitsRev (n + 1) n).reverse

/-! ## generation -/

structure EntryParts where
  path    : Bytes
  sizeTxt : Bytes
  pathEcc : Bytes
  sizeEcc : Bytes
  track   : Bytes
  deriving Repr, DecidableEq

def genEntry (p : EntryParts) : Bytes :=
  marker ++ p.path ++ delim ++ p.sizeTxt ++ delim ++ p.pathEcc ++ delim ++ p.sizeEcc ++ delim ++ p.track

/-- offsets (relative to the start of the entry) of the entry marker and the four delimiters -/
def markerOffsets (p : EntryParts) : List (Nat × Nat) :=
  let o1 := marker.length + p.path.length
  let o2 := o1 + delim.length + p.sizeTxt.length
  let o3 := o2 + delim.length + p.pathEcc.length
  let o4 := o3 + delim.length + p.sizeEcc.length
  [(1, 0), (2, o1), (2, o2), (2, o3), (2, o4)]

def genEcc (pre : Bytes) (es : List EntryParts) : Bytes := pre ++ (es.map genEntry).flatten

/-- index records `(kind, absolute offset)` of `genEcc pre es`, in file order -/
def genIdx : Nat → List EntryParts → List (Nat × Nat)
  | _, [] => []
  | off, p :: ps => (markerOffsets p).map (fun ko => (ko.1, off + ko.2)) ++ genIdx (off + (genEntry p).length) ps

/-- the 9 marker-info bytes of an index record: kind digit, 8-byte big-endian offset -/
def recBytes (kind pos : Nat) : Bytes :=
  (48 + kind) :: (List.range 8).map (fun i => (pos / 256 ^ (7 - i)) % 256)

/-- the index file generation writes for the records `recs`: per record the 9 marker-info bytes
and their 18 parity bytes (code (27,9)) -/
def genIdxFile (enc : Nat → Bytes → Bytes) (recs : List (Nat × Nat)) : Bytes :=
  (recs.map (fun ko => recBytes ko.1 ko.2 ++ enc 9 (recBytes ko.1 ko.2))).flatten

/-- intra-ecc of a metadata field: parity of consecutive blocks of `k` symbols, concatenated -/
def intraEcc (enc : Nat → Bytes → Bytes) (k : Nat) (field : Bytes) : Bytes :=
  ((layoutHeader k field.length field.length (field.length + 1) 0).map (fun b => enc k (slice field b))).flatten

/-- the parts of the entry generated for a file (`path` latin-1 encoded relative path) -/
def partsOf (O : Ops) (kIntra : Nat) (path : Bytes) (content : Bytes) (track : Bytes) : EntryParts :=
  { path := path, sizeTxt := digitsOf content.length,
    pathEcc := intraEcc O.enc kIntra path, sizeEcc := intraEcc O.enc kIntra (digitsOf content.length),
    track := track }

/-! ## field splitting -/

structure Fields where
  path    : Bytes
  sizeRaw : Bytes
  pathEcc : Bytes
  sizeEcc : Bytes
  /-- offset of the ecc track inside the entry content (before clamping) -/
  trackOff : Int
  stripped : Nat
  deriving Repr, DecidableEq

/-- `while entry.startswith(field_delim): entry = entry[len(field_delim):]` -/
def stripDelims : Nat → Bytes → Bytes
  | 0, e => e
  | fuel + 1, e => if delim.isPrefixOf e && !delim.isEmpty then stripDelims fuel (e.drop delim.length) else e

/-- `entry_fields` of both tools on the entry content `e0` (bytes after the marker, up to the
end of the entry) -/
def entryFields (e0 : Bytes) : Fields :=
  let e := stripDelims e0.length e0
  let d : Int := delim.length
  let first := pyFind delim e 0
  let second := pyFind delim e (first + d)
  let third := pyFind delim e (second + d)
  let fourth := pyFind delim e (third + d)
  { path := pySlice e 0 first, sizeRaw := pySlice e (first + d) second,
    pathEcc := pySlice e (second + d) third, sizeEcc := pySlice e (third + d) fourth,
    -- (as repaired: if any of the four delimiters is missing there is no ecc track - its offset is the end of the entry; after a
    -- failed search the next one starts over from index 4 and may find an earlier delimiter again, hence all four are tested)
    trackOff := if first < 0 ∨ second < 0 ∨ third < 0 ∨ fourth < 0 then (e.length : Int) else fourth + d,
    stripped := e0.length - e.length }

/-! ## intra-ecc correction of a metadata field -/

structure IntraResult where
  field     : Bytes
  corrupted : Bool
  corrected : Bool
  deriving Repr, DecidableEq

/-- per block: `check` → keep; else `decode` → keep the repaired block if it checks, else the
original block (and the field is "not corrected") -/
def intraBlock (O : Ops) (k : Nat) (acc : IntraResult) (msg ecc : Bytes) : IntraResult :=
  if O.chk k msg ecc then { acc with field := acc.field ++ msg }
  else
    match O.dec k msg ecc with
    | some (m', e') =>
      if O.chk k m' e' then { acc with field := acc.field ++ m', corrupted := true }
      else { field := acc.field ++ msg, corrupted := true, corrected := false }
    | none => { field := acc.field ++ msg, corrupted := true, corrected := false }

/-- header tool: `ecc_correct_intra` = `entry_assemble` with `fileheader = field`,
`header_size = len(field)`, no hash -/
def correctIntraHeader (O : Ops) (k mbs : Nat) (field ecc : Bytes) : IntraResult :=
  (assembleHeader k 0 mbs field.length field ecc (field.length + 1) 0 0).foldl
    (fun acc b => intraBlock O k acc b.msg b.ecc) { field := [], corrupted := false, corrected := true }

/-- whole-file tool: `ecc_correct_intra_stream` = `stream_entry_assemble` in constant mode over
the field and its ecc (as repaired: bounded by the length of the ecc) -/
def correctIntraWhole (O : Ops) (k mbs : Nat) (field ecc : Bytes) : IntraResult :=
  (assemble (fun _ => k) 0 mbs field ecc (field.length + 1) 0 0).foldl
    (fun acc b => intraBlock O k acc b.msg b.ecc) { field := [], corrupted := false, corrected := true }

/-! ## index based marker recovery (`pff recover --index`, threshold 0) -/

def markerOfKind (kind : Nat) : Option Bytes :=
  if kind = 1 then some marker else if kind = 2 then some delim else none

/-- `db.seek(pos); db.write(m)` on a file opened `r+b` (writing past the end pads with nulls) -/
def writeAt (file : Bytes) (pos : Nat) (m : Bytes) : Bytes :=
  if pos ≤ file.length then file.take pos ++ m ++ file.drop (pos + m.length)
  else file ++ List.replicate (pos - file.length) 0 ++ m

def beNat (bs : Bytes) : Nat := bs.foldl (fun acc b => acc * 256 + b) 0

/-- one index block (27 bytes, possibly truncated): check, decode when needed, re-check; the
marker infos (9 bytes) when usable -/
def decodeRecord (O : Ops) (kIdx : Nat) (block : Bytes) : Option Bytes :=
  let m := block.take kIdx
  let e := block.drop kIdx
  let m' : Option Bytes :=
    if O.chk kIdx m e then some m
    else match O.dec kIdx m e with
      | some (mr, er) => if O.chk kIdx mr er then some mr else none
      | none => none
  match m' with
  | some x => if x.isEmpty || x.length ≠ kIdx then none else some x
  | none => none

/-- apply one usable record: `int(chr(marker_str[0]))`, `struct.unpack('>Q', marker_str[1:])`; records
whose kind is not 1 or 2 or whose marker would not lie inside the file are skipped (sanity check of
a possibly mis-repaired block); otherwise the marker is rewritten when the bytes at that position
differ. Always `some` (the tool no longer raises here); the `Option` is kept for the fold. -/
def applyRecord (file : Bytes) (rec : Bytes) : Option Bytes :=
  match rec with
  | [] => some file
  | c :: posBytes =>
    if !isDigit c then some file
    else
      match markerOfKind (c - 48) with
      | none => some file
      | some m =>
        let pos := beNat posBytes
        if pos + m.length > file.length then some file
        else if (file.drop pos).take m.length = m then some file else some (writeAt file pos m)

def chunks (n : Nat) : Nat → Bytes → List Bytes
  | 0, _ => []
  | fuel + 1, l => if l.isEmpty || n = 0 then [] else l.take n :: chunks n fuel (l.drop n)

/-- the index pass of `pff recover`; `none` = aborted by an exception -/
def recoverIdx (O : Ops) (nIdx kIdx : Nat) (idx file : Bytes) : Option Bytes :=
  (chunks nIdx idx.length idx).foldl
    (fun acc block => match acc with
      | none => none
      | some f => match decodeRecord O kIdx block with
        | none => some f
        | some r => applyRecord f r) (some file)

end Pff.Entry
