import Pff.Model.Entry
/-
The correction run of `pff header -c` / `pff whole -c` as a whole (C01, C03, C08, C13 composed):
the loop over the entries of the ecc file (scanner, cursor, field splitting, intra-ecc of path and
size, lenient `int()`, file lookup, size check, per-file block logic), the five counters, the files
written and the exit status.  Core Lean only.

The file system is a finite map from relative path (latin-1 bytes) to content.  The scanner is the
*specification* `Pff.Scan.specNext` (equal to the buffered `get_next_entry` for every buffer size
by theorem `C14_call`).  The whole-file tool works on file positions: `assembleAt` reads the ecc
track straight from the ecc file, so its last read may run past the end of the entry exactly as
`stream_entry_assemble` does, and the reading cursor left behind is tracked (it decides where the
next scan starts).
-/
namespace Pff.Run

open Pff.Ecc Pff.Layout Pff.Entry Pff.Scan

abbrev Bytes := List Nat

inductive Tool where
  | header | whole
  deriving DecidableEq, Repr

structure Params where
  tool       : Tool
  fast       : Bool                 -- not --no_fast_check
  thr        : Nat                  -- consecutive-failures threshold
  hashLen    : Nat
  mbs        : Nat
  headerSize : Nat
  kMain      : Nat                  -- header tool: message size of the (constant) header rate
  /-- whole tool: message size at a file offset, given the recorded file size -/
  kOfFor     : Nat → Nat → Nat
  kIntra     : Nat
  ignoreSize : Bool

abbrev FS := List (Bytes × Bytes)

def fsLookup (fs : FS) (p : Bytes) : Option Bytes := (fs.find? (fun e => e.1 == p)).map (·.2)

/-- what one entry did to the output folder -/
inductive Effect where
  | none                     -- nothing written
  | wrote (b : Bytes)        -- output file written
  | removed                  -- whole tool: output created then removed again (no block repaired)
  deriving DecidableEq, Repr

structure EntryOutcome where
  path      : Bytes
  skipped   : Bool
  processed : Bool
  result    : FileResult
  effect    : Effect
  /-- position of the reading cursor in the ecc file after this entry -/
  cursor    : Nat
  deriving Repr

/-! ## whole-file tool: reading the track from the ecc file by position -/

/-- `stream_entry_assemble(hasher, file, db, entry_p, …)`: `eccpos`/`endpos` are absolute positions
in the ecc file `stream`; the loop test is `ecc_curpos < endpos`, a read takes up to
`hash_size + ecc_size` bytes wherever they are. Returns the blocks and, for each, the position of
the cursor after reading it. -/
def assembleAt (kOf : Nat → Nat) (hashLen mbs : Nat) (content stream : Bytes) (endpos : Nat) :
    (fuel curpos eccpos : Nat) → List (AsmBlock × Nat)
  | 0, _, _ => []
  | fuel + 1, curpos, eccpos =>
    if eccpos < endpos then
      let k := kOf curpos
      let mes := (content.drop curpos).take k
      if mes.isEmpty then []
      else
        let buf := (stream.drop eccpos).take (hashLen + (mbs - k))
        ({ off := curpos, msg := mes, k := k, hash := buf.take hashLen, ecc := buf.drop hashLen }, eccpos + buf.length)
          :: assembleAt kOf hashLen mbs content stream endpos fuel (curpos + mes.length) (eccpos + buf.length)
    else []

/-- `correctWholeFile` on positions; also returns the cursor left in the ecc file -/
def correctWholeAt (O : Ops) (fast : Bool) (thr : Nat) (kOf : Nat → Nat) (hashLen mbs : Nat)
    (content stream : Bytes) (trackStart endpos : Nat) : FileResult × Nat :=
  let bc := assembleAt kOf hashLen mbs content stream endpos (content.length + 1) 0 trackStart
  let blocks := bc.map (·.1)
  -- first pass: read blocks until the first one that needs repair (inclusive)
  let firstBad := blocks.findIdx? (needsRepair O fast)
  match firstBad with
  | none =>
    let cur := (bc.getLast?.map (·.2)).getD trackStart
    ({ output := none, corrupted := false, complete := false, partialRep := false }, min cur endpos)
  | some _ =>
    let s := runLoop O fast mbs thr blocks
    let body := s.written.flatten
    let out := body ++ content.drop body.length
    -- second pass cursor: after the last block read; the bail-out seeks to the end of the entry
    let nread := s.written.length
    let cur := if s.stopped then endpos else ((bc.take nread).getLast?.map (·.2)).getD trackStart
    let r : FileResult :=
      if s.repairedOne then { output := some out, corrupted := true, complete := !s.partialFail, partialRep := s.partialFail }
      else { output := none, corrupted := true, complete := false, partialRep := false }
    (r, min cur endpos)

/-! ## one entry -/

/-- what the loop knows about an entry before touching its ecc track -/
structure Located where
  path          : Bytes
  /-- the fields as split by `entry_fields` -/
  fields        : Fields
  /-- the entry content after leading delimiters were stripped -/
  body          : Bytes
  /-- absolute position of the ecc track in the ecc file (clamped to the end of the entry) -/
  trackStartAbs : Nat
  /-- recorded size and current content of the file to process; `none` = the entry is skipped -/
  target        : Option (Int × Bytes)

/-- scanner result `[a, b)` → fields, intra-ecc of path and size, lenient `int()`, file lookup, size check -/
def locate (O : Ops) (P : Params) (fs : FS) (stream : Bytes) (a b : Nat) : Located :=
  -- header tool: the whole entry content; whole tool: `file.read(min(65535, end - start))`
  let e0 := match P.tool with
    | .header => (stream.drop a).take (b - a)
    | .whole => ((stream.drop a).take (b - a)).take 65535
  let f := entryFields e0
  let e := e0.drop f.stripped
  let intra := fun (fld ecc : Bytes) => match P.tool with
    | .header => correctIntraHeader O P.kIntra P.mbs fld ecc
    | .whole => correctIntraWhole O P.kIntra P.mbs fld ecc
  let path := (intra f.path f.pathEcc).field
  let sizeTxt := (intra f.sizeRaw f.sizeEcc).field
  let target : Option (Int × Bytes) :=
    match pyInt sizeTxt with
    | none => none
    | some size =>
      if path.contains 0 then none
      else match fsLookup fs path with
        | none => none
        | some content => if size ≠ (content.length : Int) && !P.ignoreSize then none else some (size, content)
  { path := path, fields := f, body := e,
    trackStartAbs := min (a + f.stripped + f.trackOff.toNat) b, target := target }

/-- process the entry whose content occupies `[a, b)` of the ecc file -/
def processEntry (O : Ops) (P : Params) (fs : FS) (stream : Bytes) (a b : Nat) : EntryOutcome :=
  let L := locate O P fs stream a b
  match L.target with
  | none =>
    -- cursor when the entry is skipped: header tool = end of the entry (content mode already read it);
    -- whole tool = start of the ecc track as computed by entry_fields (clamped to the end of the entry)
    { path := L.path, skipped := true, processed := false,
      result := { output := none, corrupted := false, complete := false, partialRep := false },
      effect := .none, cursor := match P.tool with | .header => b | .whole => L.trackStartAbs }
  | some (size, content) =>
    match P.tool with
    | .header =>
      let track := pyFrom L.body L.fields.trackOff
      let readLen := if 0 < size ∧ size < (P.headerSize : Int) then size.toNat else P.headerSize
      let r := correctHeaderFile O P.fast P.thr P.kMain P.hashLen P.mbs readLen content track
      { path := L.path, skipped := false, processed := true, result := r,
        effect := match r.output with | some o => .wrote o | none => .none, cursor := b }
    | .whole =>
      let rc := correctWholeAt O P.fast P.thr (P.kOfFor size.toNat) P.hashLen P.mbs content stream L.trackStartAbs b
      { path := L.path, skipped := false, processed := true, result := rc.1,
        effect := match rc.1.output with
          | some o => .wrote o
          | none => if rc.1.corrupted then .removed else .none,
        cursor := rc.2 }

/-- the reads of the ecc track of this entry stay inside the entry (always so for the header tool, which works on the entry's bytes; for the
whole-file tool: the track is not shorter than the blocks of the file require) -/
def readsInside (O : Ops) (P : Params) (fs : FS) (stream : Bytes) (a b : Nat) : Prop :=
  match P.tool, (locate O P fs stream a b).target with
  | .header, _ => True
  | .whole, none => True
  | .whole, some (size, content) =>
    ∀ bp ∈ assembleAt (P.kOfFor size.toNat) P.hashLen P.mbs content stream b (content.length + 1) 0
        (locate O P fs stream a b).trackStartAbs, bp.2 ≤ b

/-- an outcome without the position of the cursor -/
def view (o : EntryOutcome) : Bytes × Bool × Bool × FileResult × Effect :=
  (o.path, o.skipped, o.processed, o.result, o.effect)

/-! ## the run -/

structure RunResult where
  outcomes : List EntryOutcome
  deriving Repr

/-- the `while entry:` loop: scan from the cursor, process, continue from the cursor left behind -/
def runLoopEntries (O : Ops) (P : Params) (fs : FS) (stream : Bytes) : (fuel cursor : Nat) → List EntryOutcome
  | 0, _ => []
  | fuel + 1, cursor =>
    match specNext stream marker cursor with
    | none => []
    | some (a, b) =>
      -- (as repaired: an empty entry no longer ends the run of the header tool; it is processed, and skipped, like any other)
      let o := processEntry O P fs stream a b
      o :: runLoopEntries O P fs stream fuel o.cursor

def run (O : Ops) (P : Params) (fs : FS) (stream : Bytes) : RunResult :=
  { outcomes := runLoopEntries O P fs stream (stream.length + 2) 0 }

/-- the six numbers printed at the end: processed, corrupted, repaired completely, repaired
partially, (corrupted − partially − completely), skipped -/
def counters (r : RunResult) : Nat × Nat × Nat × Nat × Nat :=
  let ps := r.outcomes.filter (·.processed)
  ( ps.length,
    (ps.filter (·.result.corrupted)).length,
    (ps.filter (·.result.complete)).length,
    (ps.filter (·.result.partialRep)).length,
    (r.outcomes.filter (·.skipped)).length )

def exitOf (r : RunResult) : Nat := exitStatus ((r.outcomes.filter (·.processed)).map (·.result))

/-- the output folder at the end: effects applied in order -/
def outputs (r : RunResult) : FS :=
  r.outcomes.foldl (fun out o =>
    match o.effect with
    | .none => out
    | .wrote b => (o.path, b) :: out.filter (fun e => e.1 != o.path)
    | .removed => out.filter (fun e => e.1 != o.path)) []

/-! ## generation (`-g`): the ecc file written for a list of files -/

/-- the ecc track generated for one file -/
def genTrackFor (O : Ops) (P : Params) (content : Bytes) : Bytes :=
  match P.tool with
  | .header => genTrackHeader O.H O.enc P.kMain P.headerSize content
  | .whole => genTrack O.H O.enc (P.kOfFor content.length) content

/-- the entry (without its marker) of a file with the given track -/
def bodyWith (O : Ops) (P : Params) (path content track : Bytes) : Bytes :=
  (genEntry (partsOf O P.kIntra path content track)).drop marker.length

/-- the entry (without its marker) generated for one file -/
def genBody (O : Ops) (P : Params) (path content : Bytes) : Bytes :=
  bodyWith O P path content (genTrackFor O P content)

/-- the ecc file generated for the files `fs` -/
def genStream (O : Ops) (P : Params) (pre : Bytes) (fs : FS) : Bytes :=
  build pre marker (fs.map (fun pc => genBody O P pc.1 pc.2))

end Pff.Run
