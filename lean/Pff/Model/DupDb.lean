import Pff.Model.Merge
/-
`pff dup` with a hash database (C18): what `synchronize_files` does with one group of copies of a
relative path when a database is supplied (as repaired: each file is compared with the row of its
own relative path, at any depth).  Core Lean only.

`Hf : Bytes → Nat × Nat` is the (md5, sha1) pair of a content (any deterministic function);
`recorded : Option (Nat × Nat)` is the row of this path, `none` when the database does not cover it.
-/
namespace Pff.DupDb

open Pff.Merge

inductive Mark where
  | ok        -- "OK" in the hash-correct column
  | ko        -- "KO"
  | unknown   -- "-": path not covered by the database
  deriving DecidableEq, Repr

structure GroupResult where
  out     : Bytes       -- content written to the output tree
  errcode : Nat         -- contributes to the exit status when non-zero
  mark    : Mark
  /-- index (in the group) of the copy taken as already correct, if any -/
  usedCorrect : Option Nat
  deriving DecidableEq, Repr

/-- first copy of the group whose hashes are the recorded ones -/
def findCorrect (Hf : Bytes → Nat × Nat) (r : Nat × Nat) : List Bytes → Nat → Option (Nat × Bytes)
  | [], _ => none
  | c :: cs, i => if Hf c = r then some (i, c) else findCorrect Hf r cs (i + 1)

def processGroupDb (bs : Nat) (Hf : Bytes → Nat × Nat) (recorded : Option (Nat × Nat)) (g : List (Nat × Bytes)) :
    GroupResult :=
  let copies := g.map (·.2)
  -- before the merge: a single copy is copied over; else a copy that is already correct; else the vote
  let (out, err, used) : Bytes × Nat × Option Nat :=
    match g with
    | [(_, c)] => (c, 0, none)
    | _ =>
      match recorded.bind (fun r => findCorrect Hf r copies 0) with
      | some (i, c) => (c, 0, some i)
      | none =>
        let v := Pff.Vote.majorityVote bs copies
        (v.out, v.status, none)
  -- after the merge: compare what was written with the database
  match recorded with
  | none => { out := out, errcode := err, mark := .unknown, usedCorrect := used }
  | some r =>
    if Hf out = r then { out := out, errcode := err, mark := .ok, usedCorrect := used }
    else { out := out, errcode := 1, mark := .ko, usedCorrect := used }

/-! ## the whole run of `pff dup -d database` -/

/-- one row of the report -/
structure Row where
  path    : Path
  out     : Bytes            -- file written to the output tree
  used    : List Nat         -- replicas that held the path
  mark    : Mark             -- hash-correct column
  errcode : Nat
  deriving DecidableEq, Repr

structure RunResult where
  rows : List Row
  exit : Nat
  deriving Repr

/-- the database row of a relative path: rows are keyed by the '/'-joined posix path
(`relfilepath = path2unix(os.path.join(*components))`) -/
def dbLookup (db : List (String × Nat × Nat)) (p : Path) : Option (Nat × Nat) :=
  (db.find? (fun e => e.1 == "/".intercalate p)).map (·.2)

/-- `synchronize_files` with a database on replicas given as trees: the alignment loop of C07, each
group processed by `processGroupDb` with the row of its own path; exit status non-zero iff some
group reported an error -/
def dupWithDb (bs : Nat) (Hf : Bytes → Nat × Nat) (db : List (String × Nat × Nat)) (replicas : List Tree) :
    RunResult :=
  let cursors := replicas.map walk
  let groups := align (remaining cursors + 1) cursors
  let rows := groups.map (fun pg =>
    let r := processGroupDb bs Hf (dbLookup db pg.1) pg.2
    ({ path := pg.1, out := r.out, used := pg.2.map (·.1), mark := r.mark, errcode := r.errcode } : Row))
  { rows := rows, exit := if rows.any (fun r => r.errcode ≠ 0) then 1 else 0 }

end Pff.DupDb
