import Pff.Model.Merge
/-
`pff dup` with a hash database (C18): what `synchronize_files` does with one group of copies of a
relative path when a database is supplied (as repaired: each file is compared with the row of its
own relative path, at any depth).  Core Lean only.

`Hf : Bytes → Nat × Nat` is the (md5, sha1) pair of a content (any deterministic function);
`recorded : Option (Nat × Nat)` is the row of this path, `none` when the database does not cover it.
-/
namespace Pff.DupDb

open Pff.Merge

inductive Mark where
  | ok        -- "OK" in the hash-correct column
  | ko        -- "KO"
  | unknown   -- "-": path not covered by the database
  deriving DecidableEq, Repr

structure GroupResult where
  out     : Bytes       -- content written to the output tree
  errcode : Nat         -- contributes to the exit status when non-zero
  mark    : Mark
  /-- index (in the group) of the copy taken as already correct, if any -/
  usedCorrect : Option Nat
  deriving DecidableEq, Repr

/-- first copy of the group whose hashes are the recorded ones -/
def findCorrect (Hf : Bytes → Nat × Nat) (r : Nat × Nat) : List Bytes → Nat → Option (Nat × Bytes)
  | [], _ => none
  | c :: cs, i => if Hf c = r then some (i, c) else findCorrect Hf r cs (i + 1)

def processGroupDb (bs : Nat) (Hf : Bytes → Nat × Nat) (recorded : Option (Nat × Nat)) (g : List (Nat × Bytes)) :
    GroupResult :=
  let copies := g.map (·.2)
  -- before the merge: a single copy is copied over; else a copy that is already correct; else the vote
  let (out, err, used) : Bytes × Nat × Option Nat :=
    match g with
    | [(_, c)] => (c, 0, none)
    | _ =>
      match recorded.bind (fun r => findCorrect Hf r copies 0) with
      | some (i, c) => (c, 0, some i)
      | none =>
        let v := Pff.Vote.majorityVote bs copies
        (v.out, v.status, none)
  -- after the merge: compare what was written with the database
  match recorded with
  | none => { out := out, errcode := err, mark := .unknown, usedCorrect := used }
  | some r =>
    if Hf out = r then { out := out, errcode := err, mark := .ok, usedCorrect := used }
    else { out := out, errcode := 1, mark := .ko, usedCorrect := used }

end Pff.DupDb
