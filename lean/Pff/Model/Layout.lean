/-
Block layout of the two ecc tools (C10), reused by C01/C03/C04/C13.  Core Lean only.

The message length at a file offset is an *uninterpreted* function `kOf : Nat → Nat` in every
theorem (so the theorems hold whatever the floating-point semantics of the rate formula are);
the executable `kOfStaged` / `msgSize` (Lean `Float`, hand-written round-half-to-even) exist only
for the correspondence check against `compute_ecc_params` / `feature_scaling`.
-/
namespace Pff.Layout

abbrev Bytes := List Nat

structure Block where
  off : Nat     -- file offset of the block (curpos)
  len : Nat     -- message length actually read
  k   : Nat     -- message_size used for the block (parity length = max_block_size - k)
  deriving DecidableEq, Repr

/-! ## whole-file tool -/

/-- the `while curpos < size` loop of `stream_compute_ecc_hash`; `mes = file.read(k)` -/
def layoutGen (kOf : Nat → Nat) (size : Nat) : (fuel curpos : Nat) → List Block
  | 0, _ => []
  | fuel + 1, curpos =>
    if curpos < size then
      let k := kOf curpos
      let len := min k (size - curpos)
      { off := curpos, len := len, k := k } :: layoutGen kOf size fuel (curpos + len)
    else []

def slice (content : Bytes) (b : Block) : Bytes := (content.drop b.off).take b.len

/-- the ecc track written for one file: `hash ++ ecc` of every block, in order -/
def genTrack (H : Bytes → Bytes) (enc : Nat → Bytes → Bytes) (kOf : Nat → Nat) (content : Bytes) : Bytes :=
  ((layoutGen kOf content.length (content.length + 1) 0).map
      (fun b => H (slice content b) ++ enc b.k (slice content b))).flatten

structure AsmBlock where
  off  : Nat
  msg  : Bytes
  k    : Nat
  hash : Bytes
  ecc  : Bytes
  deriving DecidableEq, Repr

/-- the `while ecc_curpos < end` loop of `stream_entry_assemble` on the file `content` and the
track `track` (positions relative to the start of the track): `mes = file.read(k)`, stop on an
empty message, `buf = eccfile.read(hash_size + ecc_size)` -/
def assemble (kOf : Nat → Nat) (hashLen mbs : Nat) (content track : Bytes) :
    (fuel curpos eccpos : Nat) → List AsmBlock
  | 0, _, _ => []
  | fuel + 1, curpos, eccpos =>
    if eccpos < track.length then
      let k := kOf curpos
      let mes := (content.drop curpos).take k
      if mes.isEmpty then []
      else
        let buf := (track.drop eccpos).take (hashLen + (mbs - k))
        { off := curpos, msg := mes, k := k, hash := buf.take hashLen, ecc := buf.drop hashLen }
          :: assemble kOf hashLen mbs content track fuel (curpos + mes.length) (eccpos + buf.length)
    else []

/-- `L` tiles `[s, e)` exactly once: contiguous, no gap, no overlap, no empty block -/
def Tiles : List Block → Nat → Nat → Prop
  | [], s, e => s = e
  | b :: bs, s, e => b.off = s ∧ 1 ≤ b.len ∧ Tiles bs (s + b.len) e

/-! ## header tool -/

/-- `for i in range(0, len(buf), message_size)` over `buf = file.read(header_size)` -/
def layoutHeader (k headerSize size : Nat) : (fuel i : Nat) → List Block
  | 0, _ => []
  | fuel + 1, i =>
    let n := min headerSize size
    if i < n then { off := i, len := min k (n - i), k := k } :: layoutHeader k headerSize size fuel (i + k)
    else []

def genTrackHeader (H : Bytes → Bytes) (enc : Nat → Bytes → Bytes) (k headerSize : Nat) (content : Bytes) : Bytes :=
  ((layoutHeader k headerSize content.length (content.length + 1) 0).map
      (fun b => H (slice content b) ++ enc b.k (slice content b))).flatten

/-- `entry_assemble`: the zipped ranges over the file header (step `k`) and the ecc field (step
`hash_size + ecc_size`); `fileheader = file.read(readLen)` where `readLen` is the recorded file size
when that is positive and below `header_size`, else `header_size` -/
def assembleHeader (k hashLen mbs readLen : Nat) (content track : Bytes) :
    (fuel i j : Nat) → List AsmBlock
  | 0, _, _ => []
  | fuel + 1, i, j =>
    let header := content.take readLen
    if i < header.length ∧ j < track.length then
      { off := i, msg := (header.drop i).take k, k := k,
        hash := (track.drop j).take hashLen,
        ecc := (track.drop (j + hashLen)).take (mbs - k) }
        :: assembleHeader k hashLen mbs readLen content track fuel (i + k) (j + hashLen + (mbs - k))
    else []

/-! ## the published rule (staged rates) over an abstract rate→size function -/

/-- `kOf` of the whole-file tool: stage-1 rate below the header size, interpolation afterwards.
`K` = `compute_ecc_params(...)["message_size"]` as a function of the rate, `scale` =
`feature_scaling`; both uninterpreted. -/
def kOfStaged {R : Type} (K : R → Nat) (scale : Nat → Nat → Nat → R → R → R)
    (headerSize size : Nat) (r1 r2 r3 : R) (curpos : Nat) : Nat :=
  if curpos < headerSize then K r1 else K (scale curpos headerSize size r2 r3)

/-! ## executable rate formula (driver only) -/

def roundHalfEven (x : Float) : Nat :=
  let f := x.floor
  let d := x - f
  let fi := f.toUInt64.toNat
  if d < 0.5 then fi else if d > 0.5 then fi + 1 else (if fi % 2 == 0 then fi else fi + 1)

/-- `int(round(float(max_block_size) / (1 + 2*rate), 0))` -/
def msgSize (mbs : Nat) (rate : Float) : Nat :=
  roundHalfEven (Float.ofNat mbs / (1.0 + 2.0 * rate))

/-- `a + float(x - xmin) * (b - a) / (xmax - xmin)` -/
def featureScaling (x xmin xmax : Nat) (a b : Float) : Float :=
  if xmax = xmin then a   -- `if xmax == xmin: return a`
  else a + Float.ofInt ((x : Int) - (xmin : Int)) * (b - a) / Float.ofInt ((xmax : Int) - (xmin : Int))

def kOfFloat (mbs headerSize size : Nat) (r1 r2 r3 : Float) : Nat → Nat :=
  kOfStaged (msgSize mbs) featureScaling headerSize size r1 r2 r3

/-- correction side (`stream_entry_assemble`): the position used for the interpolation is capped to
the recorded file size `size` (identical to `kOfFloat` at every offset below `size`) -/
def kOfFloatRead (mbs headerSize size : Nat) (r1 r2 r3 : Float) : Nat → Nat :=
  kOfStaged (msgSize mbs) (fun x xmin xmax a b => featureScaling (min x xmax) xmin xmax a b)
    headerSize size r1 r2 r3

end Pff.Layout
