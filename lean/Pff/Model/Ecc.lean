import Pff.Model.Layout
/-
Per-file correction logic of `pff header` and `pff whole` (C01, C03, C04, C13): the block decision
procedure, the two block loops (ten-consecutive-failures bail-out included), reconstruction of the
output file, per-file counters and the exit status.  Core Lean only.

Hash and codec are a record of *arbitrary* functions (`Ops`): `dec` may return anything or fail;
theorems state as hypotheses exactly what they need of them.
-/
namespace Pff.Ecc

open Pff.Layout

abbrev Bytes := List Nat

structure Ops where
  /-- `hasher.hash` -/
  H   : Bytes → Bytes
  /-- `ecc_manager.encode(mes, k=k)` -/
  enc : Nat → Bytes → Bytes
  /-- `ecc_manager.check(mes, ecc, k=k)` -/
  chk : Nat → Bytes → Bytes → Bool
  /-- `ecc_manager.decode(mes, ecc, k=k, …)`; `none` = `ReedSolomonError` / `RSCodecError` -/
  dec : Nat → Bytes → Bytes → Option (Bytes × Bytes)

inductive BlockStatus where
  | intact      -- passes the check(s): copied as it is
  | repaired    -- decoder result committed (hash or ecc check matches)
  | failed      -- could not be repaired: original block copied through
  deriving DecidableEq, Repr

/-- does the block need repair?  `hash(mes) != hash or (not fast_check and not check(mes, ecc))` -/
def needsRepair (O : Ops) (fast : Bool) (b : AsmBlock) : Bool :=
  decide (O.H b.msg ≠ b.hash) || (!fast && !O.chk b.k b.msg b.ecc)

/-- the stored ecc of the block is complete (`len(e["ecc"]) >= ecc_size`); with a truncated ecc
file the missing symbols were null-padded for the decoding and the ecc check of the repaired
block proves nothing -/
def eccComplete (mbs : Nat) (b : AsmBlock) : Bool := decide (mbs - b.k ≤ b.ecc.length)

/-- the decision for one block: what is written and how it is reported -/
def processBlock (O : Ops) (fast : Bool) (mbs : Nat) (b : AsmBlock) : Bytes × BlockStatus :=
  if needsRepair O fast b then
    match O.dec b.k b.msg b.ecc with
    | none => (b.msg, .failed)
    | some (m', e') =>
      if decide (O.H m' = b.hash) || (O.chk b.k m' e' && eccComplete mbs b) then (m', .repaired) else (b.msg, .failed)
  else (b.msg, .intact)

structure FileResult where
  /-- file written to the output folder (`none`: nothing written / removed again) -/
  output    : Option Bytes
  corrupted : Bool        -- counted in files_corrupted
  complete  : Bool        -- counted in files_repaired_completely
  partialRep : Bool       -- counted in files_repaired_partially
  deriving DecidableEq, Repr

/-- loop state shared by both tools: blocks written so far (in order), flags -/
structure LoopSt where
  written      : List Bytes
  anyRepair    : Bool := false      -- a block needed repair (header tool: `corrupted`)
  repairedOne  : Bool := false
  partialFail  : Bool := false
  errConsec    : Bool := true
  stopped      : Bool := false      -- the ten-consecutive-failures `break` was taken

/-- one iteration of the repair loop on block number `i` -/
def loopStep (O : Ops) (fast : Bool) (mbs thr : Nat) (s : LoopSt) (i : Nat) (b : AsmBlock) : LoopSt :=
  if s.stopped then s else
  match processBlock O fast mbs b with
  | (w, .intact) => { s with written := s.written ++ [w], errConsec := false }
  | (w, .repaired) =>
    { s with written := s.written ++ [w], anyRepair := true, repairedOne := true, errConsec := false }
  | (w, .failed) =>
    { s with written := s.written ++ [w], anyRepair := true, partialFail := true,
             stopped := s.errConsec && decide (thr ≤ i) }

def runLoop (O : Ops) (fast : Bool) (mbs thr : Nat) (blocks : List AsmBlock) : LoopSt :=
  (blocks.zipIdx).foldl (fun s bi => loopStep O fast mbs thr s bi.2 bi.1) { written := [] }

/-- `pff header -c` on one file whose entry was located: `k` message size, `readLen` bytes read as
header (`file.read(filesize)` when `0 < filesize < header_size`, else `file.read(header_size)`) -/
def correctHeaderFile (O : Ops) (fast : Bool) (thr k hashLen mbs readLen : Nat) (content track : Bytes) : FileResult :=
  let blocks := assembleHeader k hashLen mbs readLen content track (content.length + 1) 0 0
  let s := runLoop O fast mbs thr blocks
  if s.anyRepair then
    -- header tool: blocks after the bail-out are written unchanged, then the rest of the file
    let done := s.written
    let rest := (blocks.drop done.length).map (·.msg)
    let body := (done ++ rest).flatten
    let consumed := ((blocks.map (·.msg)).flatten).length
    { output := some (body ++ content.drop consumed), corrupted := true,
      complete := !s.partialFail, partialRep := s.partialFail }
  else { output := none, corrupted := false, complete := false, partialRep := false }

/-- `pff whole -c` on one file: first pass = detection, second pass = streaming repair; the rest of
the file after the last block processed is copied over; the output is removed again when no block
could be repaired -/
def correctWholeFile (O : Ops) (fast : Bool) (thr : Nat) (kOf : Nat → Nat) (hashLen mbs : Nat) (content track : Bytes) : FileResult :=
  let blocks := assemble kOf hashLen mbs content track (content.length + 1) 0 0
  if blocks.any (needsRepair O fast) then
    let s := runLoop O fast mbs thr blocks
    let body := s.written.flatten
    let out := body ++ content.drop body.length
    if s.repairedOne then
      { output := some out, corrupted := true, complete := !s.partialFail, partialRep := s.partialFail }
    else { output := none, corrupted := true, complete := false, partialRep := false }
  else { output := none, corrupted := false, complete := false, partialRep := false }

/-- exit status of a correction run from the per-file results of the files processed:
`0 if files_corrupted == 0 or files_repaired_completely == files_corrupted else 1` -/
def exitStatus (rs : List FileResult) : Nat :=
  let corrupted := (rs.filter (·.corrupted)).length
  let complete := (rs.filter (·.complete)).length
  if corrupted = 0 ∨ complete = corrupted then 0 else 1

end Pff.Ecc
