import Pff.Model.RS
/-
The codec facade `lib/eccman.ECCMan` (C02 / C11 / C12), generic over the symbol type `F`.
Core Lean only.  The third-party *decoders* are a parameter `core` (see `Core`); everything
else — padding, right-padding, erasure detection before padding, position shift, early return,
dispatch, stripping of the pad, per-call `k` — is modelled line by line.
-/
namespace Pff.Facade

open Pff.RS

variable {F : Type} [Zero F] [One F] [Add F] [Mul F] [DecidableEq F]

/-- an `ECCMan(n, k, algo)` object: `pw i = generator ** i`, `fcr` from the constructor -/
structure Codec (F : Type) where
  algo : Nat
  n    : Nat
  k    : Nat          -- constructor's k
  pw   : Nat → F
  fcr  : Nat

/-- `if not k: k = self.k` -/
def effK (c : Codec F) (k : Nat) : Nat := if k = 0 then c.k else k

/-- `ECCMan.pad`: left-pad with nulls to `k`; returns the padded message and the pad length -/
def pad (msg : List F) (k : Nat) : List F × Nat :=
  if msg.length < k then (List.replicate (k - msg.length) 0 ++ msg, k - msg.length) else (msg, 0)

/-- `ECCMan.rpad`: right-pad the ecc with nulls to `n - k` -/
def rpad (ecc : List F) (n k : Nat) : List F :=
  if ecc.length < n - k then ecc ++ List.replicate (n - k - ecc.length) 0 else ecc

/-- what the selected library returns for `encode`: a word whose last `n-k` symbols are the parity -/
def libParity (c : Codec F) (k : Nat) (m : List F) : List F :=
  let g := genPoly c.pw c.fcr (c.n - k)
  if c.algo = 1 then longDivEncode g m
  else if c.algo = 2 then fastModEncode g m
  else lfsrEncode g m

/-- `ECCMan.encode(message, k)`: the `n-k` parity symbols -/
def encode (c : Codec F) (msg : List F) (k : Nat := 0) : List F :=
  let k := effK c k
  let (m, _) := pad msg k
  libParity c k m

/-- `ECCMan.check(message, ecc, k)` -/
def check (c : Codec F) (msg ecc : List F) (k : Nat := 0) : Bool :=
  let k := effK c k
  let (m, _) := pad msg k
  let e := rpad ecc c.n k
  rsCheck c.pw c.fcr (c.n - k) (m ++ e)

inductive DecErr where
  | reedSolomonError     -- reedsolo.ReedSolomonError
  | rsCodecError         -- unireedsolomon.RSCodecError
  | other                -- anything else escaping the library
  deriving DecidableEq, Repr

/-- The third-party decoder as a parameter: given the algorithm number, the padded received word
(`message + ecc`, `n` symbols), `nsym = n-k`, the erasure positions handed over (`none` ≙ `None`,
i.e. erasure handling off) and the `only_erasures` flag, it returns `(msg_repaired, ecc_repaired)`
or raises. Nothing is assumed of it here. -/
abbrev Core (F : Type) := Nat → List F → Nat → Option (List Nat) → Bool → Except DecErr (List F × List F)

/-- what `ECCMan.decode` hands to the library -/
structure CoreCall (F : Type) where
  word : List F
  nsym : Nat
  erasePos : Option (List Nat)
  onlyErasures : Bool
  padLen : Nat
  deriving Repr

/-- argument preparation of `ECCMan.decode`; `none` = the early return `return message, ecc`
(`only_erasures` with no erasure found) -/
def prepareDecode (c : Codec F) (msg ecc : List F) (k : Nat) (enableErasures : Bool) (erasureChar : F)
    (onlyErasures : Bool) : Option (CoreCall F) :=
  let k := effK c k
  -- erasure positions are detected on `message + ecc` *before* padding
  let mesecc := msg ++ ecc
  -- (as repaired: `if enable_erasures or only_erasures` - correcting only the erasures implies detecting them)
  let erasePos : Option (List Nat) :=
    if enableErasures || onlyErasures then
      some ((List.range mesecc.length).filter (fun i => mesecc[i]? = some erasureChar))
    else none
  if onlyErasures && (erasePos.getD []).isEmpty then none
  else
    let (m, padLen) := pad msg k
    let e := rpad ecc c.n k
    -- `if erasures_pos and pad:` shift by the pad length (an empty list is left as it is)
    let erasePos := erasePos.map (fun l => if l.isEmpty || padLen = 0 then l else l.map (· + padLen))
    some { word := m ++ e, nsym := c.n - k, erasePos := erasePos, onlyErasures := onlyErasures, padLen := padLen }

/-- number of positions (below both lengths) outside the erasure list where the repaired word
differs from the received one: `sum(1 for i in range(min(len(received), len(repaired))) if
received[i] != repaired[i] and i not in erased)` -/
def correctedErrors (received repaired : List F) (erased : List Nat) : Nat :=
  ((List.range (min received.length repaired.length)).filter
    (fun i => decide (received[i]? ≠ repaired[i]?) && !erased.contains i)).length

/-- `ECCMan.decode(message, ecc, k, enable_erasures, erasures_char, only_erasures)` -/
def decode (core : Core F) (c : Codec F) (msg ecc : List F) (k : Nat := 0) (enableErasures : Bool := false)
    (erasureChar : F := 0) (onlyErasures : Bool := false) : Except DecErr (List F × List F) :=
  match prepareDecode c msg ecc k enableErasures erasureChar onlyErasures with
  | none => .ok (msg, ecc)
  | some call =>
    match core c.algo call.word call.nsym call.erasePos call.onlyErasures with
    | .error e => .error e
    | .ok (mr, er) =>
      -- codecs 1/2: left-pad the returned ecc back to `n-k` (the library strips leading nulls)
      let er := if c.algo = 1 ∨ c.algo = 2 then List.replicate (call.nsym - er.length) 0 ++ er else er
      -- sanity check against miscorrections (as repaired): the corrections actually made must fit in the
      -- capacity of the code, `2*errors + erasures <= n-k`, else `ReedSolomonError`
      if 2 * correctedErrors call.word (mr ++ er) (call.erasePos.getD []) + (call.erasePos.getD []).length > call.nsym then
        .error .reedSolomonError
      else
        -- `if pad: msg_repaired = msg_repaired[len(pad):]`
        .ok (mr.drop call.padLen, er)

end Pff.Facade
