import Pff.Model.Vote
/-
Model of the replica alignment of `pff dup` (`replication_repair.synchronize_files`,
`sort_group`, `sort_dict_of_paths`, `lib/aux_funcs.recwalk`) — C07.  Core Lean only.

A relative path is its list of components.  `walk` is `recwalk(sorting=True)` on a finite tree:
the files of a directory in sorted order, then its sub-directories in sorted order, depth first.
`key` is the sort key used (after the repair "fix: replica alignment order") to pick the next
group: `(1, dir) … (1, dir), (0, file)` compared lexicographically — i.e. inside a directory files
come before sub-directories, names in code-point order — which is the order `walk` produces.
-/
namespace Pff.Merge

abbrev Path := List String
abbrev Bytes := List Nat

/-! ## trees and the walk -/

inductive Tree where
  | node (files : List (String × Bytes)) (dirs : List (String × Tree))

/-- `recwalk`: relative paths (with contents) in walk order -/
def walk : Tree → List (Path × Bytes)
  | .node files dirs => files.map (fun fc => ([fc.1], fc.2)) ++ walkDirs dirs
where
  walkDirs : List (String × Tree) → List (Path × Bytes)
    | [] => []
    | (d, t) :: rest => (walk t).map (fun pc => (d :: pc.1, pc.2)) ++ walkDirs rest

/-- names strictly increasing (sorted, distinct) at every level, as `files.sort()` / `dirs.sort()`
produce from a real directory -/
def Sorted : Tree → Prop
  | .node files dirs =>
    (files.map (·.1)).Pairwise (· < ·) ∧ (dirs.map (·.1)).Pairwise (· < ·) ∧ SortedDirs dirs
where
  SortedDirs : List (String × Tree) → Prop
    | [] => True
    | (_, t) :: rest => Sorted t ∧ SortedDirs rest

/-! ## the order used to align replicas -/

/-- sort key of a path: directories flagged 1, the final (file) component flagged 0 -/
def key : Path → List (Nat × String)
  | [] => [(0, "")]
  | [f] => [(0, f)]
  | d :: rest => (1, d) :: key rest

def cmpComp (a b : Nat × String) : Ordering :=
  if a.1 < b.1 then .lt else if b.1 < a.1 then .gt
  else if a.2 < b.2 then .lt else if b.2 < a.2 then .gt else .eq

/-- lexicographic comparison of keys (Python list comparison) -/
def cmpKey : List (Nat × String) → List (Nat × String) → Ordering
  | [], [] => .eq
  | [], _ :: _ => .lt
  | _ :: _, [] => .gt
  | a :: as, b :: bs =>
    match cmpComp a b with
    | .lt => .lt
    | .gt => .gt
    | .eq => cmpKey as bs

def pathLt (p q : Path) : Bool := cmpKey (key p) (key q) == .lt

/-! ## the alignment loop -/

/-- minimum (w.r.t. `pathLt`) of the heads that are present; `sorted` is stable, so among equal
paths the lowest replica index stays first — irrelevant for the minimum *path* -/
def minHead : List (Option Path) → Option Path
  | [] => none
  | none :: rest => minHead rest
  | some p :: rest =>
    match minHead rest with
    | none => some p
    | some q => if pathLt q p then some q else some p

/-- one replica's remaining walk: head = `curfiles[i]` -/
abbrev Cursor := List (Path × Bytes)

/-- indices (ascending) of the replicas whose head is `p`, with the head's content -/
def groupOf (p : Path) (cursors : List Cursor) : List (Nat × Bytes) :=
  (cursors.zipIdx).filterMap (fun ci =>
    match ci.1 with
    | (q, c) :: _ => if q = p then some (ci.2, c) else none
    | [] => none)

def advance (p : Path) (cursors : List Cursor) : List Cursor :=
  cursors.map (fun c =>
    match c with
    | (q, _) :: rest => if q = p then rest else c
    | [] => [])

def remaining (cursors : List Cursor) : Nat := (cursors.map List.length).foldr (· + ·) 0

/-- the `while recgen_exhausted_count < nbpaths` loop: emits `(path, [(replica index, content)])` -/
def align : (fuel : Nat) → List Cursor → List (Path × List (Nat × Bytes))
  | 0, _ => []
  | fuel + 1, cursors =>
    match minHead (cursors.map (fun c => c.head?.map (·.1))) with
    | none => []
    | some p => (p, groupOf p cursors) :: align fuel (advance p cursors)

/-- what is written for one group: a single copy is copied over; otherwise the byte-wise
majority vote (`Pff.Vote.majorityVote`, which itself copies the first file when fewer than three).
Returns (content written, error code). No database here (see C18). -/
def processGroup (bs : Nat) (g : List (Nat × Bytes)) : Bytes × Nat :=
  match g with
  | [(_, c)] => (c, 0)
  | _ =>
    let r := Pff.Vote.majorityVote bs (g.map (·.2))
    (r.out, r.status)

structure DupResult where
  files : List (Path × Bytes)             -- output tree, in processing order
  used  : List (Path × List Nat)          -- report: which replicas held each path
  exit  : Nat
  deriving Repr

/-- `pff dup` without database on replicas given as trees -/
def dup (bs : Nat) (replicas : List Tree) : DupResult :=
  let cursors := replicas.map walk
  let groups := align (remaining cursors + 1) cursors
  let outs := groups.map (fun pg => (pg.1, processGroup bs pg.2))
  { files := outs.map (fun o => (o.1, o.2.1))
    used := groups.map (fun pg => (pg.1, pg.2.map (·.1)))
    exit := if outs.any (fun o => o.2.2 ≠ 0) then 1 else 0 }

/-! ## building a tree from a set of files (driver / harness side) -/

def insertFile (name : String) (c : Bytes) : List (String × Bytes) → List (String × Bytes)
  | [] => [(name, c)]
  | (n, c') :: rest =>
    if name < n then (name, c) :: (n, c') :: rest
    else if name = n then (name, c) :: rest
    else (n, c') :: insertFile name c rest

partial def insertPath (t : Tree) (p : Path) (c : Bytes) : Tree :=
  match t, p with
  | .node files dirs, [] => .node files dirs
  | .node files dirs, [f] => .node (insertFile f c files) dirs
  | .node files dirs, d :: rest =>
    let rec go : List (String × Tree) → List (String × Tree)
      | [] => [(d, insertPath (.node [] []) rest c)]
      | (n, t') :: more =>
        if d < n then (d, insertPath (.node [] []) rest c) :: (n, t') :: more
        else if d = n then (n, insertPath t' rest c) :: more
        else (n, t') :: go more
    .node files (go dirs)

end Pff.Merge
