/-
Path handling of the tools (C03 / C05 / C12 / C16 / C17 relocation clauses; C07 relative
components): `lib/aux_funcs.fullpath`, `recwalk`, `path2unix`, `replication_repair.relpath_posix`
and the POSIX `os.path` functions they are built from (`join`, `normpath`, `abspath`, `relpath`,
`dirname`, `basename`, `PurePosixPath(...).parts`).  Core Lean only.

A path is the list of its bytes (`47` = '/', `46` = '.').  The library functions are modelled line
by line after CPython 3.12's `posixpath.py` / `pathlib.py`; they are third-party code and are tied
to the real ones by the correspondence check (driver op `pathop`), like every other model.
-/
namespace Pff.Path

abbrev Bytes := List Nat

def sep : Nat := 47
def dot : Nat := 46

/-- `p.split('/')` -/
def splitSlash : Bytes → List Bytes
  | [] => [[]]
  | c :: rest =>
    if c = sep then [] :: splitSlash rest
    else match splitSlash rest with
      | [] => [[c]]
      | h :: t => (c :: h) :: t

/-- `'/'.join(comps)` -/
def joinSlash : List Bytes → Bytes
  | [] => []
  | [c] => c
  | c :: rest => c ++ sep :: joinSlash rest

/-- one step of `posixpath.join(a, b)` -/
def join2 (a b : Bytes) : Bytes :=
  if b.head? = some sep then b
  else if a.isEmpty || a.getLast? = some sep then a ++ b
  else a ++ sep :: b

/-- `posixpath.join(a, *p)` -/
def join (a : Bytes) (p : List Bytes) : Bytes := p.foldl join2 a

/-- number of slashes `normpath` keeps in front: 0, 1, or 2 (exactly two leading slashes) -/
def initialSlashes (p : Bytes) : Nat :=
  match p with
  | 47 :: 47 :: 47 :: _ => 1
  | 47 :: 47 :: _ => 2
  | 47 :: _ => 1
  | _ => 0

/-- the loop of `normpath` over the components, `acc` = `new_comps` (in order) -/
def normComps (initial : Nat) : List Bytes → List Bytes → List Bytes
  | [], acc => acc
  | comp :: rest, acc =>
    if comp = [] ∨ comp = [dot] then normComps initial rest acc
    else if comp ≠ [dot, dot] ∨ (initial = 0 ∧ acc = []) ∨ (acc.getLast? = some [dot, dot]) then
      normComps initial rest (acc ++ [comp])
    else normComps initial rest acc.dropLast

/-- `posixpath.normpath` -/
def normpath (p : Bytes) : Bytes :=
  if p.isEmpty then [dot]
  else
    let ini := initialSlashes p
    let comps := normComps ini (splitSlash p) []
    let r := List.replicate ini sep ++ joinSlash comps
    if r.isEmpty then [dot] else r

/-- `posixpath.abspath` with the current directory as a parameter -/
def abspath (cwd p : Bytes) : Bytes :=
  if p.head? = some sep then normpath p else normpath (join2 cwd p)

/-- `lib/aux_funcs.fullpath` on a path string not beginning with '~' -/
def fullpath (cwd p : Bytes) : Bytes := abspath cwd p

/-- length of the common prefix of two component lists (`len(commonprefix([a, b]))`) -/
def commonLen : List Bytes → List Bytes → Nat
  | x :: xs, y :: ys => if x = y then commonLen xs ys + 1 else 0
  | _, _ => 0

/-- `posixpath.relpath(path, start)`; `none` = `ValueError` on an empty path -/
def relpath (cwd path start : Bytes) : Option Bytes :=
  if path.isEmpty then none
  else
    let startList := (splitSlash (abspath cwd start)).filter (fun x => !x.isEmpty)
    let pathList := (splitSlash (abspath cwd path)).filter (fun x => !x.isEmpty)
    let i := commonLen startList pathList
    let rel := List.replicate (startList.length - i) [dot, dot] ++ pathList.drop i
    match rel with
    | [] => some [dot]
    | a :: more => some (join a more)

/-- index after the last '/' (`p.rfind('/') + 1`) -/
def afterLastSlash (p : Bytes) : Nat :=
  p.length - (p.reverse.takeWhile (· ≠ sep)).length

/-- `posixpath.basename` -/
def basename (p : Bytes) : Bytes := p.drop (afterLastSlash p)

/-- `posixpath.dirname` -/
def dirname (p : Bytes) : Bytes :=
  let head := p.take (afterLastSlash p)
  if !head.isEmpty && head.any (· ≠ sep) then (head.reverse.dropWhile (· = sep)).reverse else head

/-- `PurePosixPath(p).parts` (Python 3.12: `splitroot`, then the components that are neither empty
nor '.') -/
def pureParts (p : Bytes) : List Bytes :=
  let (root, rel) : Bytes × Bytes :=
    match p with
    | 47 :: 47 :: 47 :: _ => ([sep], p.drop 1)
    | 47 :: 47 :: _ => ([sep, sep], p.drop 2)
    | 47 :: _ => ([sep], p.drop 1)
    | _ => ([], p)
  let parsed := (splitSlash rel).filter (fun x => !x.isEmpty && x ≠ [dot])
  if root.isEmpty then parsed else root :: parsed

/-- `path2unix(path)` = `posixpath.join(*parts)`; `none` = the `TypeError` raised for a path
without any part ('' or '.') -/
def path2unix (p : Bytes) : Option Bytes :=
  match pureParts p with
  | [] => none
  | a :: more => some (join a more)

/-- `path2unix(path, nojoin=True)` -/
def path2unixParts (p : Bytes) : List Bytes := pureParts p

/-! ## a directory tree mounted at a root, the walk, relative paths -/

inductive PTree where
  | node (files : List (Bytes × Bytes)) (dirs : List (Bytes × PTree))

/-- `recwalk(root)`: `(dirpath, filename, content)`; `os.walk` forms `dirpath` of a sub-directory as
`join(dirpath, name)`. (The order inside a directory is the given one; sorting is C07's matter.) -/
def recwalk (dirpath : Bytes) : PTree → List (Bytes × Bytes × Bytes)
  | .node files dirs => files.map (fun fc => (dirpath, fc.1, fc.2)) ++ walkDirs dirpath dirs
where
  walkDirs (dirpath : Bytes) : List (Bytes × PTree) → List (Bytes × Bytes × Bytes)
    | [] => []
    | (d, t) :: rest => recwalk (join2 dirpath d) t ++ walkDirs dirpath rest

/-- the same walk in relative components: `(directory components, filename, content)` -/
def relwalk (ds : List Bytes) : PTree → List (List Bytes × Bytes × Bytes)
  | .node files dirs => files.map (fun fc => (ds, fc.1, fc.2)) ++ walkDirs ds dirs
where
  walkDirs (ds : List Bytes) : List (Bytes × PTree) → List (List Bytes × Bytes × Bytes)
    | [] => []
    | (d, t) :: rest => relwalk (ds ++ [d]) t ++ walkDirs ds rest

/-- relative posix path → content, as the tools intend it: components joined by '/' -/
def relFS (t : PTree) : List (Bytes × Bytes) :=
  (relwalk [] t).map (fun e => (joinSlash (e.1 ++ [e.2.1]), e.2.2))

/-- what generation records for the tree mounted at `root`:
`relfilepath = path2unix(os.path.relpath(os.path.join(dirpath, filename), rootfolderpath))`;
an entry is `none` where `relpath` / `path2unix` would raise -/
def genFS (cwd root : Bytes) (t : PTree) : List (Option Bytes × Bytes) :=
  (recwalk root t).map (fun e =>
    ((relpath cwd (join2 e.1 e.2.1) root).bind path2unix, e.2.2))

/-- absolute path → content for the tree mounted at `root` (what `open()` sees) -/
def mountAbs (root : Bytes) (t : PTree) : List (Bytes × Bytes) :=
  (recwalk root t).map (fun e => (join2 e.1 e.2.1, e.2.2))

/-- what `pff dup` computes for a walked file: `relpath_posix((dirpath, filename), pardir)[1]`
= `path2unix(join(relpath(dirpath, pardir), filename), nojoin=True)` -/
def relpathPosix (cwd dirpath filename pardir : Bytes) : Option (List Bytes) :=
  (relpath cwd dirpath pardir).map (fun r => path2unixParts (join2 r filename))

/-! ## well-formedness -/

/-- a file or directory name: non-empty, without '/', neither '.' nor '..' -/
def Plain (c : Bytes) : Prop := c ≠ [] ∧ sep ∉ c ∧ c ≠ [dot] ∧ c ≠ [dot, dot]

instance (c : Bytes) : Decidable (Plain c) := by unfold Plain; infer_instance

/-- a normalised absolute path (what `fullpath` returns): one or two slashes, then plain
components joined by single slashes -/
def GoodRoot (r : Bytes) : Prop :=
  ∃ pre comps, (pre = [sep] ∨ pre = [sep, sep]) ∧ (∀ c ∈ comps, Plain c) ∧ r = pre ++ joinSlash comps

/-- every name of the tree is plain -/
def PlainTree : PTree → Prop
  | .node files dirs => (∀ fc ∈ files, Plain fc.1) ∧ PlainDirs dirs
where
  PlainDirs : List (Bytes × PTree) → Prop
    | [] => True
    | (d, t) :: rest => Plain d ∧ PlainTree t ∧ PlainDirs rest

/-- names are pairwise different inside every directory (files among files, directories among
directories), as in any real directory -/
def DistinctTree : PTree → Prop
  | .node files dirs => (files.map (·.1)).Nodup ∧ (dirs.map (·.1)).Nodup ∧ DistinctDirs dirs
where
  DistinctDirs : List (Bytes × PTree) → Prop
    | [] => True
    | (_, t) :: rest => DistinctTree t ∧ DistinctDirs rest

end Pff.Path
