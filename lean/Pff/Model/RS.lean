/-
Reed–Solomon encoders and syndrome check, generic over a type `F` carrying `0 1 + *` (core type
classes only, so that the driver can run it on `Pff.GF.Elt p` and the proofs can instantiate `F` with
any Mathlib `Field`).  Polynomials are coefficient lists, highest degree first, as in both libraries.

* `polyEval`     = `reedsolo.gf_poly_eval` = `Polynomial.evaluate` (Horner)
* `genPoly`      = `reedsolo.rs_generator_poly` = the product built in `RSCoder.__init__`
* `lfsrEncode`   = `reedsolo.rs_encode_msg` (extended synthetic division, in place)  — codecs 3, 4
* `longDivEncode`= `RSCoder.encode` (`mprime % g`, schoolbook long division on stripped polynomials,
                    result right-justified)                                           — codec 1
* `fastModEncode`= `RSCoder.encode_fast` (`_gffastmod`: synthetic division on the stripped dividend)
                                                                                      — codec 2
* `rsCheck`      = `reedsolo.rs_check` = `RSCoder.check_fast` (all syndromes zero)
The third-party arithmetic is modelled at the level of the algorithm, not line by line; the
correspondence check compares parity bytes and check results with all four real codecs.
-/
namespace Pff.RS

variable {F : Type} [Zero F] [One F] [Add F] [Mul F] [DecidableEq F]

/-- Horner evaluation, highest degree first -/
def polyEval (w : List F) (x : F) : F := w.foldl (fun acc c => acc * x + c) 0

/-- elementwise sum of two lists of the same length (longer tail kept) -/
def addLists : List F → List F → List F
  | a :: as, b :: bs => (a + b) :: addLists as bs
  | [], bs => bs
  | as, [] => as

/-- `gf_poly_mul(g, [1, c])` -/
def mulLinear (g : List F) (c : F) : List F := addLists (g ++ [0]) (0 :: g.map (· * c))

/-- `rs_generator_poly(nsym, fcr, generator)`: `∏_{i<nsym} (x + pw (i+fcr))`, `pw i = generator^i` -/
def genPoly (pw : Nat → F) (fcr : Nat) : Nat → List F
  | 0 => [1]
  | nsym + 1 => mulLinear (genPoly pw fcr nsym) (pw (nsym + fcr))

/-- `l[j] += v[j]` for `j < v.length` (the inner `for j` loop of the synthetic division) -/
def addPrefix : List F → List F → List F
  | a :: as, b :: bs => (a + b) :: addPrefix as bs
  | as, _ => as

/-- the outer loop of `rs_encode_msg`: consume `k` leading coefficients of `l`; each non-zero one
is multiplied into the tail of the (monic) generator and added to what follows -/
def synthDiv (genTail : List F) : List F → Nat → List F
  | l, 0 => l
  | [], _ => []
  | c :: rest, k + 1 =>
    synthDiv genTail (if c = 0 then rest else addPrefix rest (genTail.map (c * ·))) k

/-- parity produced by `rs_encode_msg(msg, nsym, gen=gen)`: the last `nsym` symbols of `msg_out` -/
def lfsrEncode (gen : List F) (msg : List F) : List F :=
  synthDiv gen.tail (msg ++ List.replicate (gen.length - 1) 0) msg.length

/-- drop leading zeros (`Polynomial.__init__` without `keep_zero`) -/
def strip : List F → List F
  | [] => []
  | c :: rest => if c = 0 then strip rest else c :: rest

/-- schoolbook long division remainder of `p` by the monic `gen` (`Polynomial.__divmod__`):
while the (stripped) remainder is at least as long as the divisor, subtract lead·x^d·gen -/
def longDivRem (gen : List F) : (fuel : Nat) → List F → List F
  | 0, r => r
  | fuel + 1, r =>
    let r := strip r
    if r.length < gen.length then r
    else
      match r with
      | [] => []
      | c :: _ => longDivRem gen fuel (addPrefix r (gen.map (c * ·)))

/-- right-justify to `width` with zeros (`_list_rjust`) -/
def rjust (l : List F) (width : Nat) : List F := List.replicate (width - l.length) 0 ++ l

/-- parity part of `RSCoder.encode`: last `nsym` symbols of `rjust(mprime - mprime % g, n)` -/
def longDivEncode (gen : List F) (msg : List F) : List F :=
  let nsym := gen.length - 1
  let mprime := msg ++ List.replicate nsym 0
  let b := longDivRem gen (mprime.length + 1) mprime
  let b := rjust b nsym
  b.drop (b.length - nsym)

/-- parity part of `RSCoder.encode_fast`: synthetic division of the stripped dividend -/
def fastModEncode (gen : List F) (msg : List F) : List F :=
  let nsym := gen.length - 1
  let mprime := strip (msg ++ List.replicate nsym 0)
  let b := if mprime.length < gen.length then mprime
           else synthDiv gen.tail mprime (mprime.length - nsym)
  let b := rjust (strip b) nsym
  b.drop (b.length - nsym)

/-- syndromes `S_i = w(pw (i + fcr))`, `i < nsym` -/
def syndromes (pw : Nat → F) (fcr nsym : Nat) (w : List F) : List F :=
  (List.range nsym).map (fun i => polyEval w (pw (i + fcr)))

/-- `rs_check` / `check_fast`: every syndrome is zero -/
def rsCheck (pw : Nat → F) (fcr nsym : Nat) (w : List F) : Bool :=
  (syndromes pw fcr nsym w).all (· = 0)

end Pff.RS
