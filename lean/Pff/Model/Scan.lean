/-
Model of `lib/aux_funcs.get_next_entry` (C14): the buffered search for the next ecc entry.
Core Lean only.

`scanLoop` mirrors the `while (not found and buf)` loop assignment by assignment.  The flag
`pinned = true` gives the loop as it was before the repair ("fix: get_next_entry re-detected the
start marker as end marker"): no lower bound on the end-marker search and the stale `endcursor`
(the `encursor = None` typo) — kept only for the regression witness.
-/
namespace Pff.Scan

abbrev Bytes := List Nat

/-- Python `buf.find(sub, begin)`: least `i ≥ begin` (`i ≤ len buf`) such that `sub` is a prefix of
`buf[i:]`; `none` ≙ `-1`. -/
def find (sub buf : Bytes) (begin : Nat) : Option Nat :=
  (List.range' begin (buf.length + 1 - begin)).find? (fun i => sub.isPrefixOf (buf.drop i))

/-- loop-carried variables of `get_next_entry` -/
structure St where
  /-- `start`: `none` ≙ `None`/`-1` (search again), `some n` ≙ relative position -/
  start : Option Nat
  startcursor : Option Nat
  endcursor : Option Nat
  /-- file position before the next `read` -/
  pos : Nat
  deriving Repr, DecidableEq

inductive Step where
  | found (a b : Nat)          -- `[startcursor + len(marker), endcursor]`
  | stop (pos : Nat)           -- loop left without an entry; file position
  | continue (st : St)
  deriving Repr, DecidableEq

/-- one iteration of the `while` loop -/
def scanStep (pinned : Bool) (stream marker : Bytes) (bs : Nat) (st : St) : Step :=
  let mlen := marker.length
  let buf := (stream.drop st.pos).take bs
  let pos' := st.pos + buf.length            -- file.tell() after the read
  -- find the start marker (if not found already)
  let (start, startcursor) :=
    match st.start with
    | none =>
      match find marker buf 0 with
      | none => ((none : Option Nat), st.startcursor)
      | some s =>
        -- `if start >= 0 and not startcursor` (`not` is also true for 0)
        (some (s + mlen),
         match st.startcursor with
         | none => some (st.pos + s)
         | some 0 => some (st.pos + s)
         | some c => some c)
    | some s => (some s, st.startcursor)
  -- find the end marker
  let (fin, endcursor) : Option (Nat × Nat) × Option Nat :=
    match startcursor with
    | none => (none, st.endcursor)
    | some sc =>
      let begin :=
        if pinned then start.getD 0
        else max (start.getD 0) ((sc + mlen) - st.pos)   -- max(start, minend, 0)
      let e := find marker buf begin
      let e := if e.isNone && decide (buf.length < bs) then some buf.length else e
      match e with
      | none => (none, st.endcursor)
      | some e =>
        let ec := st.pos + e
        if sc < ec then (some (sc + mlen, ec), some ec)
        else (none, if pinned then some ec else none)
  match fin with
  | some (a, b) => .found a b
  | none =>
    if buf.length < bs then .stop pos'
    else
      let start := match start with
        | some (_ + 1) => some 0
        | s => s
      -- `if not endcursor: file.seek(file.tell()-len(entrymarker))`
      let rewind := match endcursor with
        | none => true
        | some 0 => true
        | some _ => false
      .continue { start := start, startcursor := startcursor, endcursor := endcursor,
                  pos := if rewind then pos' - mlen else pos' }

def scanLoop (pinned : Bool) (stream marker : Bytes) (bs : Nat) : Nat → St → Option (Nat × Nat) × Nat
  | 0, st => (none, st.pos)
  | fuel + 1, st =>
    match scanStep pinned stream marker bs st with
    | .found a b => (some (a, b), a)
    | .stop p => (none, p)
    | .continue st' => scanLoop pinned stream marker bs fuel st'

/-- `get_next_entry(file, marker, only_coord=True, blocksize)` called with the file cursor at
`pos`: returns the entry bounds (or `none`) and the file position left behind (the start of the
entry's content). Blocksizes not larger than the marker are raised to `len(marker)+1`. -/
def getNextEntry (pinned : Bool) (stream marker : Bytes) (blocksize pos : Nat) :
    Option (Nat × Nat) × Nat :=
  let bs := if blocksize ≤ marker.length then marker.length + 1 else blocksize
  scanLoop pinned stream marker bs (stream.length + 2)
    { start := none, startcursor := none, endcursor := none, pos := pos }

/-- content mode (`only_coord=False`): the bytes between the bounds; cursor left at the end -/
def getNextEntryContent (pinned : Bool) (stream marker : Bytes) (blocksize pos : Nat) :
    Option Bytes × Nat :=
  match getNextEntry pinned stream marker blocksize pos with
  | (some (a, b), _) => (some ((stream.drop a).take (b - a)), b)
  | (none, p) => (none, p)

/-- repeated calls on one file handle from position `pos` until `None` -/
def scanAll (pinned : Bool) (stream marker : Bytes) (blocksize : Nat) : Nat → Nat → List (Nat × Nat)
  | 0, _ => []
  | fuel + 1, pos =>
    match getNextEntry pinned stream marker blocksize pos with
    | (some (a, b), p) => (a, b) :: scanAll pinned stream marker blocksize fuel p
    | (none, _) => []

/-! ## Spec -/

/-- one call, declaratively: the first marker occurrence at or after `pos` starts the entry, the
first occurrence at or after its end (or the end of the stream) ends it -/
def specNext (stream marker : Bytes) (pos : Nat) : Option (Nat × Nat) :=
  match find marker stream pos with
  | none => none
  | some s =>
    let a := s + marker.length
    some (a, (find marker stream a).getD stream.length)

def specAll (stream marker : Bytes) : Nat → Nat → List (Nat × Nat)
  | 0, _ => []
  | fuel + 1, pos =>
    match specNext stream marker pos with
    | some (a, b) => (a, b) :: specAll stream marker fuel a
    | none => []

/-- the stream built by generation: preamble, then `marker ++ entry` for each entry -/
def build (pre marker : Bytes) (entries : List Bytes) : Bytes :=
  pre ++ (entries.map (fun e => marker ++ e)).flatten

/-- the intended bounds of the entries of `build pre marker entries` -/
def intended (marker : Bytes) : Nat → List Bytes → List (Nat × Nat)
  | _, [] => []
  | off, e :: es =>
    (off + marker.length, off + marker.length + e.length) :: intended marker (off + marker.length + e.length) es

/-- all positions where the marker occurs (overlaps included) -/
def occurrences (stream marker : Bytes) : List Nat :=
  (List.range (stream.length + 1)).filter (fun i => marker.isPrefixOf (stream.drop i))

/-- "no full accidental marker": the marker occurs exactly where generation wrote one -/
def NoAccidental (pre marker : Bytes) (entries : List Bytes) : Prop :=
  occurrences (build pre marker entries) marker = (intended marker pre.length entries).map (fun ab => ab.1 - marker.length)

end Pff.Scan
