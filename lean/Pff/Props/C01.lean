import Pff.Model.Ecc
import Pff.Proofs.EccB
/-!
# C01 — within-capacity damage is repaired bit-exactly (per-file logic)

Proved part of C01: if every block of the damaged file (as assembled from the damaged file and the
damaged ecc track) is either intact-and-accepted or detected-and-decoded to the original block with
a parity/hash that verifies, then the file written is **exactly** the original (whole-file tool) /
the original protected region followed by the damaged tail verbatim (header tool), the file is
counted as completely repaired, and a run of such files exits 0.
The per-block hypothesis is what `C02_decode_exact_errors/_erasures` + `C11_accepts` give for the
real facade under contract W when the block+parity suffered at most ⌊parity/2⌋ wrong symbols
(2e+f ≤ parity with erasures) and — in default mode — the damaged block does not collide with the
stored hash; that instantiation, the entry scanning and the metadata handling are covered by the
correspondence check of this property on the real tools (see DESIGN.md).
-/
namespace Pff.Ecc

open Pff.Layout Pff.Ecc.B

/-- block `b` (assembled from the damaged inputs) is handled correctly w.r.t. the original file -/
def BlockOK (O : Ops) (fast : Bool) (mbs : Nat) (orig : Bytes) (b : AsmBlock) : Prop :=
  let m := (orig.drop b.off).take b.msg.length
  (b.msg = m ∧ needsRepair O fast b = false) ∨
  (needsRepair O fast b = true ∧ ∃ p, O.dec b.k b.msg b.ecc = some (m, p) ∧
      (O.H m = b.hash ∨ (O.chk b.k m p = true ∧ eccComplete mbs b = true)))

theorem C01_whole_file_partial (O : Ops) (fast : Bool) (thr hashLen mbs : Nat) (kOf : Nat → Nat)
    (orig damaged trackD : Bytes) (hlen : damaged.length = orig.length)
    (hcover : ((assemble kOf hashLen mbs damaged trackD (damaged.length + 1) 0 0).map (·.msg)).flatten = damaged)
    (hok : ∀ b ∈ assemble kOf hashLen mbs damaged trackD (damaged.length + 1) 0 0, BlockOK O fast mbs orig b) :
    (damaged ≠ orig →
      correctWholeFile O fast thr kOf hashLen mbs damaged trackD =
        { output := some orig, corrupted := true, complete := true, partialRep := false }) ∧
    (∀ out, (correctWholeFile O fast thr kOf hashLen mbs damaged trackD).output = some out → out = orig) ∧
    ((correctWholeFile O fast thr kOf hashLen mbs damaged trackD).corrupted = true →
      (correctWholeFile O fast thr kOf hashLen mbs damaged trackD).complete = true) := by
  obtain ⟨h1, h2⟩ := correctWholeFile_ok O fast thr hashLen mbs kOf orig damaged trackD hlen hcover
    (fun b hb => hok b hb)
  cases hany : (assemble kOf hashLen mbs damaged trackD (damaged.length + 1) 0 0).any
      (needsRepair O fast) with
  | true =>
    rw [h1 hany]
    refine ⟨fun _ => rfl, ?_, fun _ => rfl⟩
    intro out ho
    exact (Option.some.inj ho).symm
  | false =>
    obtain ⟨hr, he⟩ := h2 hany
    rw [hr]
    refine ⟨fun hne => absurd he hne, ?_, ?_⟩
    · intro out ho
      exact absurd ho (by simp only [reduceCtorEq, not_false_eq_true])
    · intro hc
      exact absurd hc (by simp only [Bool.false_eq_true, not_false_eq_true])

theorem C01_header_file_partial (O : Ops) (fast : Bool) (thr k hashLen mbs readLen : Nat)
    (orig damaged trackD : Bytes) (hlen : damaged.length = orig.length)
    (hcover : ((assembleHeader k hashLen mbs readLen damaged trackD (damaged.length + 1) 0 0).map (·.msg)).flatten
                = damaged.take readLen)
    (hok : ∀ b ∈ assembleHeader k hashLen mbs readLen damaged trackD (damaged.length + 1) 0 0, BlockOK O fast mbs orig b) :
    (damaged.take readLen ≠ orig.take readLen →
      correctHeaderFile O fast thr k hashLen mbs readLen damaged trackD =
        { output := some (orig.take readLen ++ damaged.drop readLen), corrupted := true, complete := true,
          partialRep := false }) ∧
    (∀ out, (correctHeaderFile O fast thr k hashLen mbs readLen damaged trackD).output = some out →
        out = orig.take readLen ++ damaged.drop readLen) ∧
    ((correctHeaderFile O fast thr k hashLen mbs readLen damaged trackD).corrupted = true →
      (correctHeaderFile O fast thr k hashLen mbs readLen damaged trackD).complete = true) := by
  obtain ⟨h1, h2⟩ := correctHeaderFile_ok O fast thr k hashLen mbs readLen orig damaged trackD hlen
    hcover (fun b hb => hok b hb)
  cases hany : (assembleHeader k hashLen mbs readLen damaged trackD (damaged.length + 1) 0 0).any
      (needsRepair O fast) with
  | true =>
    rw [h1 hany]
    refine ⟨fun _ => rfl, ?_, fun _ => rfl⟩
    intro out ho
    exact (Option.some.inj ho).symm
  | false =>
    obtain ⟨hr, he⟩ := h2 hany
    rw [hr]
    refine ⟨fun hne => absurd he hne, ?_, ?_⟩
    · intro out ho
      exact absurd ho (by simp only [reduceCtorEq, not_false_eq_true])
    · intro hc
      exact absurd hc (by simp only [Bool.false_eq_true, not_false_eq_true])

/-- a run in which every corrupted file is completely repaired exits 0 -/
theorem C01_exit (rs : List FileResult)
    (hwf : ∀ r ∈ rs, r.complete = true → r.corrupted = true)
    (h : ∀ r ∈ rs, r.corrupted = true → r.complete = true) : exitStatus rs = 0 := by
  apply exitStatus_of_iff
  intro r hr
  cases hc : r.corrupted with
  | true => exact (h r hr hc).symm
  | false =>
    cases hd : r.complete with
    | false => rfl
    | true => rw [hwf r hr hd] at hc; exact absurd hc (by simp only [Bool.true_eq_false, not_false_eq_true])

end Pff.Ecc
