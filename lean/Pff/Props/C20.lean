import Pff.Model.Diff
import Pff.Proofs.Diff
/-!
# C20 — resilience-tester metrics are exact, so "error 0" means identical trees

Property theorems only. Quantifiers: all pairs of files (equal, prefix, different lengths,
empty), all read-chunk sizes `bs ≥ 1`, all start offsets, all trees.
-/
namespace Pff.Diff

/-- The byte-difference metric equals the number of differing positions over the common length
plus the difference of the lengths, over a total of the longer length — for every chunk size. -/
theorem C20_file (bs : Nat) (hbs : 0 < bs) (a b : Bytes) :
    diffBytesChunked bs a b = diffBytesSpec a b := by
  exact diffBytesChunked_eq_spec bs hbs a b

/-- Same with start offsets: the metric of the two suffixes. -/
theorem C20_file_offsets (bs : Nat) (hbs : 0 < bs) (s1 s2 : Nat) (a b : Bytes) :
    diffBytesFiles bs s1 s2 a b = diffBytesSpec (a.drop s1) (b.drop s2) := by
  exact diffBytesChunked_eq_spec bs hbs (a.drop s1) (b.drop s2)

/-- The metric of a file pair is zero exactly for byte-identical files. -/
theorem C20_file_zero_iff (a b : Bytes) : (diffBytesSpec a b).1 = 0 ↔ a = b := by
  exact diffBytesSpec_fst_eq_zero_iff a b

/-- The file-identity test is exact for every chunk size. -/
theorem C20_count_file (bs : Nat) (hbs : 0 < bs) (a b : Bytes) :
    diffCountChunked bs a b = true ↔ a = b := by
  exact diffCountChunked_iff bs hbs a b

/-- The tree metric is the sum of the file metric over the reference tree's files, a missing
file counting as wholly different. -/
theorem C20_tree (bs : Nat) (hbs : 0 < bs) (t1 t2 : Tree) :
    diffBytesDir bs t1 t2 =
      ( (t1.map (fun e => match lookup t2 e.1 with
                          | none => e.2.length
                          | some c2 => (diffBytesSpec e.2 c2).1)).sum,
        (t1.map (fun e => match lookup t2 e.1 with
                          | none => e.2.length
                          | some c2 => (diffBytesSpec e.2 c2).2)).sum ) := by
  unfold diffBytesDir
  apply foldl_pair_sum
  intro acc e
  cases lookup t2 e.1 with
  | none => rfl
  | some c2 => simp only [diffBytesChunked_eq_spec bs hbs]

/-- The file-difference count is the number of reference files without an identical
counterpart, out of the number of reference files. -/
theorem C20_count_tree (bs : Nat) (hbs : 0 < bs) (t1 t2 : Tree) :
    diffCountDir bs t1 t2 =
      ((t1.filter (fun e => decide (lookup t2 e.1 ≠ some e.2))).length, t1.length) := by
  unfold diffCountDir
  apply foldl_pair_count
  intro acc e
  cases hl : lookup t2 e.1 with
  | none => simp
  | some c2 =>
    simp only [diffCountChunked_iff bs hbs]
    by_cases h : e.2 = c2
    · subst h
      simp only [if_true, ne_eq, not_true_eq_false, decide_false, Bool.false_eq_true, if_false]
    · have h' : some c2 ≠ some e.2 := fun h'' => h (Option.some.inj h'').symm
      rw [if_neg h, if_pos (decide_eq_true h')]

/-- Total difference zero ⇔ every reference file has a byte-identical counterpart (an *empty*
reference file may also be missing: "wholly different" is then zero bytes). -/
theorem C20_zero_iff_identical (bs : Nat) (hbs : 0 < bs) (t1 t2 : Tree) :
    (diffBytesDir bs t1 t2).1 = 0 ↔
      ∀ e ∈ t1, lookup t2 e.1 = some e.2 ∨ (e.2 = [] ∧ lookup t2 e.1 = none) := by
  rw [C20_tree bs hbs]
  simp only
  rw [sum_map_eq_zero_iff]
  constructor
  · intro h e he
    have he' := h e he
    cases hl : lookup t2 e.1 with
    | none =>
      rw [hl] at he'
      simp only [List.length_eq_zero_iff] at he'
      exact Or.inr ⟨he', rfl⟩
    | some c2 =>
      rw [hl] at he'
      simp only [diffBytesSpec_fst_eq_zero_iff] at he'
      exact Or.inl (by rw [he'])
  · intro h e he
    rcases h e he with hl | ⟨hnil, hl⟩
    · rw [hl]
      simp only [diffBytesSpec_fst_eq_zero_iff]
    · rw [hl]
      simp only [hnil, List.length_nil]

/-- `pff restest` exits 0 only if every file of the final tree that corresponds to a reference
file is byte-identical to it. -/
theorem C20_exit_zero (bs : Nat) (hbs : 0 < bs) (orig final : Tree)
    (h : restestExit (diffBytesDir bs orig final) = some 0) :
    ∀ e ∈ orig, ∀ c, lookup final e.1 = some c → c = e.2 := by
  have hz : (diffBytesDir bs orig final).1 = 0 := by
    unfold restestExit at h
    by_cases h2 : (diffBytesDir bs orig final).2 = 0
    · simp [h2] at h
    · by_cases h1 : (diffBytesDir bs orig final).1 = 0
      · exact h1
      · simp [h1, h2] at h
  intro e he c hc
  rcases (C20_zero_iff_identical bs hbs orig final).mp hz e he with hl | ⟨_, hl⟩
  · rw [hl] at hc
    exact (Option.some.inj hc).symm
  · rw [hl] at hc
    cases hc

/-- Non-vacuity / sanity: a concrete pair with different lengths and one differing byte. -/
example : diffBytesSpec [1,2,3,4,5] [1,9,3] = (3, 5) := by
  decide

end Pff.Diff
