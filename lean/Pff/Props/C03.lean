import Pff.Model.Ecc
import Pff.Proofs.EccB
import Pff.Props.C10
/-!
# C03 — undamaged files verify clean: no false corruption report, nothing written (per-file logic)

Proved part of C03: for a file whose entry has been located and whose recorded size is its size,
the block loops of both tools report no corruption and write nothing — for **every** file content
and size (empty included), every message-length function, every deterministic hash, every encoder
with the right output length, and **every decoder** (it is never consulted).  The entry-level part
(scanning = C14, field splitting, intra-ecc of path and size, relocation of the root) is covered by
the correspondence check of this property on the real tools; see DESIGN.md.
-/
namespace Pff.Ecc

open Pff.Layout Pff.Ecc.B

/-- what C03 needs of hash and codec: lengths, and (only with `--no_fast_check`) that a parity
just produced passes the check — which is `C11_accepts` for the real codecs -/
structure CleanOps (O : Ops) (hashLen mbs : Nat) (fast : Bool) : Prop where
  hashLen : ∀ m, (O.H m).length = hashLen
  encLen  : ∀ k m, 1 ≤ m.length → m.length ≤ k → (O.enc k m).length = mbs - k
  accepts : fast = false → ∀ k m, 1 ≤ m.length → m.length ≤ k → O.chk k m (O.enc k m) = true

theorem C03_whole_file_partial (O : Ops) (fast : Bool) (thr hashLen mbs : Nat) (kOf : Nat → Nat)
    (hk : ∀ x, 1 ≤ kOf x) (hpos : ∀ x, 1 ≤ hashLen + (mbs - kOf x))
    (hO : CleanOps O hashLen mbs fast) (content : Bytes) :
    correctWholeFile O fast thr kOf hashLen mbs content (genTrack O.H O.enc kOf content) =
      { output := none, corrupted := false, complete := false, partialRep := false } := by
  exact correctWholeFile_clean O fast thr kOf hashLen mbs content _
    (whole_gen_clean O fast hashLen mbs kOf hk hpos hO.hashLen hO.encLen hO.accepts content)

theorem C03_header_file_partial (O : Ops) (fast : Bool) (thr k hashLen mbs headerSize : Nat)
    (hk : 1 ≤ k) (hpos : 1 ≤ hashLen + (mbs - k))
    (hO : CleanOps O hashLen mbs fast) (content : Bytes) :
    correctHeaderFile O fast thr k hashLen mbs
        (if 0 < content.length ∧ content.length < headerSize then content.length else headerSize)
        content (genTrackHeader O.H O.enc k headerSize content) =
      { output := none, corrupted := false, complete := false, partialRep := false } := by
  apply correctHeaderFile_clean
  rw [assembleHeader_congr_take k hashLen mbs _ headerSize content _ (take_readLen content headerSize)]
  exact header_gen_clean O fast k hashLen mbs headerSize hk hpos hO.hashLen hO.encLen hO.accepts content

/-- a run in which no file is corrupted exits 0 -/
theorem C03_exit (rs : List FileResult) (h : ∀ r ∈ rs, r.corrupted = false) : exitStatus rs = 0 := by
  exact exitStatus_of_none_corrupted rs h

end Pff.Ecc
