import Pff.Props.Chain2
import Pff.Props.RunD
import Pff.Proofs.NonVacuity
/-!
# The hypotheses of the run-level and chain theorems are satisfiable

An implication whose premises no archive meets would prove nothing.  Here: every *undamaged*
archive meets the premises of the within-capacity theorems (distance 0 is within capacity), so
they are satisfiable for every parameter set and every list of admissible files; and a fully
concrete two-file archive (toy hash and parity functions, both tools) meets the remaining side
conditions (`ParamsOK`, `FileOK`, distinct paths, `NoAccidental`) by kernel computation.
-/
namespace Pff.NonVacuity

open Pff.GF Pff.Facade Pff.Ecc Pff.Layout Pff.RSSpec Pff.Entry Pff.Scan Pff.Run Pff.Bridge Pff.Chain

/-- an undamaged file with its generated track is "within capacity" (run-level premise of
`C01_run_within_capacity`) -/
theorem pristine_withinCapacity (O : Ops) (P : Pff.Run.Params) (hP : ParamsOK O P) (d : Damaged)
    (h1 : d.now = d.orig) (h2 : d.trackD = genTrackFor O P d.orig) : WithinCapacity O P d := by
  exact Pff.NonVacuityProofs.withinCapacity O P hP d h1 h2

/-- … and meets the byte-level premise of the chain `C01_chain_A` (codecs 1–3) -/
theorem pristine_withinCapacityBytes_A (algo k0 : Nat) (ha : algo = 1 ∨ algo = 2 ∨ algo = 3)
    (core : Core (Elt pA)) (H : List Nat → List Nat) (hashLen : Nat) (hH : ∀ m, (H m).length = hashLen)
    (hHb : ∀ m, IsBytes (H m))
    (P : Pff.Run.Params) (hP : ParamsGeom P hashLen) (d : Damaged) (hb : IsBytes d.orig)
    (h1 : d.now = d.orig)
    (h2 : d.trackD = genTrackFor (opsOfFacade (codecA algo P.mbs k0) core H false 0 false) P d.orig) :
    WithinCapacityBytes (opsOfFacade (codecA algo P.mbs k0) core H false 0 false) P d := by
  exact Pff.NonVacuityProofs.withinCapacityBytes _ P
    (Pff.ChainProofs.paramsOK_facade (codecA algo P.mbs k0) core
      (Pff.ChainProofs.codecLenA algo P.mbs k0 ha hP.mbs) H hashLen hH P rfl hP.hash hP.kMain hP.kOf hP.kIntra)
    hHb (fun _ _ => Pff.BridgeProofs.bytes_ofElts _) d hb h1 h2

/-- the undamaged index file is within capacity (premise of `C15_chain_*`) -/
theorem pristine_idxWithinCapacity (O : Ops) (recs : List (Nat × Nat))
    (hb : IsBytes (genIdxFile O.enc recs)) : IdxWithinCapacity O recs (genIdxFile O.enc recs) := by
  exact Pff.NonVacuityProofs.idxWithinCapacity O recs hb

/-- undamaged metadata is "within the intra capacity" (premise of `C09_run_metadata_within_capacity`) -/
theorem pristine_metaWithinCapacity (O : Ops) (P : Pff.Run.Params) (hI : IntraOps O P.kIntra P.mbs)
    (path content track : List Nat) (hne : path ≠ [])
    (hc : Clean path ∧ Clean (intraEcc O.enc P.kIntra path) ∧ Clean (intraEcc O.enc P.kIntra (digitsOf content.length)))
    (hs : path.length + (digitsOf content.length).length + (intraEcc O.enc P.kIntra path).length
          + (intraEcc O.enc P.kIntra (digitsOf content.length)).length + 4 * delim.length ≤ 65535) :
    MetaPristine O P (partsOf O P.kIntra path content track) ∧
    MetaWithinCapacity O P (partsOf O P.kIntra path content track) (partsOf O P.kIntra path content track) := by
  exact Pff.NonVacuityProofs.metaWithinCapacity O P hI path content track hne hc hs

/-! ## a fully concrete archive -/

/-- toy hash: two bytes -/
def tH (m : List Nat) : List Nat := [m.foldl (· + ·) 7 % 256, (m.foldl (fun a x => a * 3 + x) 1) % 256]
/-- toy parity: `6 - k` symbols -/
def tEnc (k : Nat) (m : List Nat) : List Nat := (List.range (6 - k)).map (fun i => (m.foldl (· + ·) i) % 250)
def tO : Ops := { H := tH, enc := tEnc, chk := fun k m e => e == tEnc k m, dec := fun _ _ _ => none }
def tP (t : Tool) : Pff.Run.Params where
  tool := t
  fast := true
  thr := 10
  hashLen := 2
  mbs := 6
  headerSize := 5
  kMain := 3
  kOfFor := fun size x => if x < 5 then 3 else if size < 12 then 4 else 2
  kIntra := 3
  ignoreSize := false
def tFs : FS := [([97, 98], [1, 2, 3, 4, 5, 6, 7, 8, 9, 10, 11, 12, 13]), ([100, 47, 101], [9, 8, 7, 6, 5, 4, 3, 2, 1])]

/-- the toy archive meets every premise of `C03_run_pristine`, for both tools -/
theorem toy_premises (t : Tool) :
    ParamsOK tO (tP t) ∧ (∀ pc ∈ tFs, FileOK tO (tP t) pc.1 pc.2) ∧ (tFs.map (·.1)).Nodup ∧
    NoAccidental [35, 35, 10] marker (tFs.map (fun pc => genBody tO (tP t) pc.1 pc.2)) := by
  have hH : ∀ m, (tH m).length = 2 := fun _ => rfl
  have hE : ∀ k m, (tEnc k m).length = 6 - k := fun k m => by
    simp only [tEnc, List.length_map, List.length_range]
  have hfiles : ∀ pc ∈ tFs, pc.1 ≠ [] ∧ pc.1.contains 0 = false ∧ Clean pc.1 ∧
      Clean (intraEcc tEnc 3 pc.1) ∧ Clean (intraEcc tEnc 3 (digitsOf pc.2.length)) ∧
      pc.1.length + (digitsOf pc.2.length).length + (intraEcc tEnc 3 pc.1).length
        + (intraEcc tEnc 3 (digitsOf pc.2.length)).length + 4 * delim.length ≤ 65535 := by
    unfold Clean
    decide
  refine ⟨⟨by show 1 ≤ 3; omega, ?_, by show 1 ≤ 2 + (6 - 3); omega, ?_,
    ⟨hH, fun k m _ _ => hE k m, ?_⟩,
    ⟨by show 1 ≤ 3; omega, by show 1 ≤ 6 - 3; omega, fun m _ _ => hE 3 m, fun m _ _ => ?_⟩⟩, ?_, by decide, ?_⟩
  · intro size x
    show 1 ≤ if x < 5 then 3 else if size < 12 then 4 else 2
    split
    · omega
    · split <;> omega
  · intro size x
    show 1 ≤ 2 + (6 - (if x < 5 then 3 else if size < 12 then 4 else 2))
    omega
  · intro h
    exact absurd (show true = false from h) (by decide)
  · show (tEnc 3 m == tEnc 3 m) = true
    exact beq_self_eq_true _
  · intro pc hpc
    obtain ⟨h1, h2, h3, h4, h5, h6⟩ := hfiles pc hpc
    exact ⟨h1, h2, h3, h4, h5, h6⟩
  · unfold NoAccidental
    cases t <;> decide +kernel

/-- … so its conclusion holds of it (and it is what running the model gives) -/
theorem toy_run (t : Tool) :
    counters (run tO (tP t) tFs (genStream tO (tP t) [35, 35, 10] tFs)) = (2, 0, 0, 0, 0) ∧
    exitOf (run tO (tP t) tFs (genStream tO (tP t) [35, 35, 10] tFs)) = 0 := by
  obtain ⟨h1, h2, h3, h4⟩ := toy_premises t
  obtain ⟨_, hc, he, _⟩ := C03_run_pristine tO (tP t) [35, 35, 10] tFs h1 h2 h3 h4
  exact ⟨hc, he⟩

/-- replacing the first entry by garbage (no marker spelled): both streams are free of accidental
markers — the premises of `C08_run_independent` are met -/
theorem toy_independence_premises (t : Tool) :
    let es := tFs.map (fun pc => genBody tO (tP t) pc.1 pc.2)
    NoAccidental [35, 35, 10] marker es ∧ NoAccidental [35, 35, 10] marker (es.set 0 [1, 2, 3, 250, 255, 250, 255, 250, 9, 9]) := by
  unfold NoAccidental
  cases t <;> decide +kernel

end Pff.NonVacuity
