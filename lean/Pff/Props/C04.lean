import Pff.Model.Ecc
import Pff.Proofs.Ecc
/-!
# C04 — repairs are conservative: nothing unverified is ever written

Property theorems only. `O : Ops` is arbitrary: the hash is any function and the decoder `O.dec`
may return **anything** (any bytes, or fail) — so the statements cover damage of any weight to the
file, to the parity/hash bytes of the ecc track, or both, including truncated and over-long tracks.
-/
namespace Pff.Ecc

open Pff.Layout

/-- Each block written either equals the input block, or matches the stored hash, or passes the
ecc check together with the parity the decoder returned. -/
theorem C04_block (O : Ops) (fast : Bool) (mbs : Nat) (b : AsmBlock) :
    (processBlock O fast mbs b).1 = b.msg ∨ O.H (processBlock O fast mbs b).1 = b.hash ∨
      ∃ e', O.chk b.k (processBlock O fast mbs b).1 e' = true := by
  rcases processBlock_cases O fast mbs b with h | h | ⟨m', e', _, hc, h⟩
  · exact Or.inl (by rw [h])
  · exact Or.inl (by rw [h])
  · rw [h]
    rcases hc with hc | ⟨hc, _⟩
    · exact Or.inr (Or.inl hc)
    · exact Or.inr (Or.inr ⟨e', hc⟩)

/-- A block that still matches its stored hash is never altered in the default checking mode. -/
theorem C04_intact_untouched (O : Ops) (mbs : Nat) (b : AsmBlock) (h : O.H b.msg = b.hash) :
    processBlock O true mbs b = (b.msg, .intact) := by
  have hn : needsRepair O true b = false := by
    simp only [needsRepair, h, ne_eq, not_true_eq_false, decide_false, Bool.not_true,
      Bool.false_and, Bool.or_false]
  unfold processBlock
  rw [hn]
  rfl

/-- A block reported unrepairable is copied through unchanged. -/
theorem C04_failed_copied (O : Ops) (fast : Bool) (mbs : Nat) (b : AsmBlock)
    (h : (processBlock O fast mbs b).2 = .failed) : (processBlock O fast mbs b).1 = b.msg := by
  rcases processBlock_cases O fast mbs b with h1 | h1 | ⟨m', e', _, _, h1⟩
  · rw [h1]
  · rw [h1]
  · rw [h1] at h
    cases h

/-- With an incomplete stored ecc (truncated ecc file) the ecc check alone never commits a block:
what is written is the input block or a value matching the stored hash. -/
theorem C04_truncated_ecc_needs_hash (O : Ops) (fast : Bool) (mbs : Nat) (b : AsmBlock)
    (h : eccComplete mbs b = false) :
    (processBlock O fast mbs b).1 = b.msg ∨ O.H (processBlock O fast mbs b).1 = b.hash := by
  rcases processBlock_cases O fast mbs b with h1 | h1 | ⟨m', e', _, hc, h1⟩
  · exact Or.inl (by rw [h1])
  · exact Or.inl (by rw [h1])
  · rw [h1]
    rcases hc with hc | ⟨_, he⟩
    · exact Or.inr hc
    · rw [h] at he
      cases he

/-- decoders return a message of the length they were given (the only thing assumed of them) -/
def DecLen (O : Ops) : Prop := ∀ k m e m' e', O.dec k m e = some (m', e') → m'.length = m.length

/-- Header tool: every output file has the length of the (damaged) input file, whatever the ecc
track holds (garbage, truncated, longer than needed) and whatever `readLen` is. -/
theorem C04_length_header (O : Ops) (hlen : DecLen O) (fast : Bool) (thr k hashLen mbs readLen : Nat)
    (content track out : Bytes)
    (h : (correctHeaderFile O fast thr k hashLen mbs readLen content track).output = some out) :
    out.length = content.length := by
  rw [correctHeaderFile_output O fast thr k hashLen mbs readLen content track out h,
    List.length_append, header_body_length O hlen fast mbs thr, List.length_drop]
  have := assembleHeader_msgs_length k hashLen mbs readLen content track (content.length + 1) 0 0
  simp only [List.length_take] at this
  omega

/-- Whole-file tool: same. -/
theorem C04_length_whole (O : Ops) (hlen : DecLen O) (fast : Bool) (thr : Nat) (kOf : Nat → Nat)
    (hashLen mbs : Nat) (content track out : Bytes)
    (h : (correctWholeFile O fast thr kOf hashLen mbs content track).output = some out) :
    out.length = content.length := by
  rw [correctWholeFile_output O fast thr kOf hashLen mbs content track out h,
    List.length_append, List.length_drop]
  have h1 := whole_body_length_le O hlen fast mbs thr
    (assemble kOf hashLen mbs content track (content.length + 1) 0 0)
  have h2 := assemble_msgs_length kOf hashLen mbs content track (content.length + 1) 0 0
  omega

/-- Header tool, partial recovery: the output is the block-wise concatenation where every block is
either the input block or the committed repair of that block, followed by the untouched rest. -/
theorem C04_blockwise_header (O : Ops) (fast : Bool) (thr k hashLen mbs readLen : Nat)
    (content track out : Bytes)
    (h : (correctHeaderFile O fast thr k hashLen mbs readLen content track).output = some out) :
    let blocks := assembleHeader k hashLen mbs readLen content track (content.length + 1) 0 0
    ∃ ws : List Bytes, ws.length = blocks.length ∧
      out = ws.flatten ++ content.drop ((blocks.map (·.msg)).flatten).length ∧
      ∀ i (hi : i < blocks.length), ws[i]? = some blocks[i].msg ∨
        ws[i]? = some (processBlock O fast mbs blocks[i]).1 := by
  intro blocks
  have hle := runLoop_written_length_le O fast mbs thr blocks
  refine ⟨(runLoop O fast mbs thr blocks).written ++
    (blocks.drop (runLoop O fast mbs thr blocks).written.length).map (·.msg), ?_, ?_, ?_⟩
  · simp only [List.length_append, List.length_map, List.length_drop]
    omega
  · exact correctHeaderFile_output O fast thr k hashLen mbs readLen content track out h
  · intro i hi
    by_cases hiw : i < (runLoop O fast mbs thr blocks).written.length
    · right
      obtain ⟨b, hb, hw⟩ := runLoop_written_getElem? O fast mbs thr blocks i hiw
      rw [List.getElem?_eq_getElem hi, Option.some.injEq] at hb
      rw [List.getElem?_append_left hiw, hw, hb]
    · left
      rw [List.getElem?_append_right (by omega), List.getElem?_map, List.getElem?_drop,
        show (runLoop O fast mbs thr blocks).written.length +
          (i - (runLoop O fast mbs thr blocks).written.length) = i by omega,
        List.getElem?_eq_getElem hi]
      rfl

/-- Whole-file tool, partial recovery: a prefix of the blocks, each either the input block or its
committed repair, followed by the rest of the input file verbatim. -/
theorem C04_blockwise_whole (O : Ops) (fast : Bool) (thr : Nat) (kOf : Nat → Nat) (hashLen mbs : Nat)
    (content track out : Bytes)
    (h : (correctWholeFile O fast thr kOf hashLen mbs content track).output = some out) :
    let blocks := assemble kOf hashLen mbs content track (content.length + 1) 0 0
    ∃ ws : List Bytes, ws.length ≤ blocks.length ∧
      out = ws.flatten ++ content.drop ws.flatten.length ∧
      ∀ i, i < ws.length → ∃ b, blocks[i]? = some b ∧ ws[i]? = some (processBlock O fast mbs b).1 := by
  intro blocks
  refine ⟨(runLoop O fast mbs thr blocks).written, runLoop_written_length_le O fast mbs thr blocks, ?_, ?_⟩
  · exact correctWholeFile_output O fast thr kOf hashLen mbs content track out h
  · intro i hi
    exact runLoop_written_getElem? O fast mbs thr blocks i hi

/-- A file in which some processed block was reported unrepairable is never counted as completely
repaired (both tools)… -/
theorem C04_failed_not_complete (O : Ops) (fast : Bool) (mbs thr : Nat) (blocks : List AsmBlock)
    (i : Nat) (hi : i < blocks.length) (hproc : i < (runLoop O fast mbs thr blocks).written.length)
    (hf : (processBlock O fast mbs blocks[i]).2 = .failed) :
    (runLoop O fast mbs thr blocks).partialFail = true := by
  exact runLoop_partialFail O fast mbs thr blocks i hi hproc hf

/-- … and a run with a corrupted file that is not completely repaired exits non-zero. -/
theorem C04_exit (rs : List FileResult) (hwf : ∀ r ∈ rs, r.complete = true → r.corrupted = true)
    (h : ∃ r ∈ rs, r.corrupted = true ∧ r.complete = false) : exitStatus rs = 1 := by
  exact exitStatus_one rs hwf h

/-- well-formedness used by `C04_exit` holds for both tools -/
theorem C04_results_wf (O : Ops) (fast : Bool) (thr k hashLen mbs readLen : Nat) (kOf : Nat → Nat)
    (content track : Bytes) :
    ((correctHeaderFile O fast thr k hashLen mbs readLen content track).complete = true →
      (correctHeaderFile O fast thr k hashLen mbs readLen content track).corrupted = true) ∧
    ((correctWholeFile O fast thr kOf hashLen mbs content track).complete = true →
      (correctWholeFile O fast thr kOf hashLen mbs content track).corrupted = true) := by
  constructor
  · unfold correctHeaderFile
    simp only
    split
    · intro _; rfl
    · intro h; cases h
  · unfold correctWholeFile
    simp only
    split
    · split
      · intro _; rfl
      · intro h; cases h
    · intro h; cases h

end Pff.Ecc
