import Pff.Props.RunA
import Pff.Props.C01
import Pff.Props.C03
import Pff.Props.C09
import Pff.Props.C04
import Pff.Proofs.RunC
/-!
# The correction run as a whole — C03 and C01 end to end

The per-file theorems of C03 / C01 start from "the entry of the file has been located".  Here the
run is taken from the bytes of the ecc file: the file written by generation (`genStream`: comment
preamble, then for every file the marker, path, size text, their intra parities and the track) is
scanned, split, decoded and looked up by the model of the real loop.

* `C03_run_pristine` — undamaged files and undamaged ecc file: every file is found, processed,
  reported uncorrupted, nothing is written, nothing is skipped, exit status 0; for every number of
  files, every content (empty files included), both tools, every admissible parameter set.
* `C01_run_within_capacity` — files and tracks damaged in place such that every block satisfies
  the per-block premise `BlockOK` (supplied by the codec contract for damage within capacity),
  metadata undamaged: every damaged file is written back equal to the original, nothing else is
  written, exit status 0.

Side conditions, all decidable on a given ecc file: the format's documented limit (no accidental
entry marker in the file, no field delimiter spelled inside a metadata field or across its end),
paths non-empty, without NUL and pairwise different, metadata shorter than the 65535 bytes the
whole-file tool reads.
-/
namespace Pff.Run

open Pff.Ecc Pff.Layout Pff.Entry Pff.Scan

/-- what the tools need of the parameters and of hash and codec (lengths; a parity just produced
passes the check = `C11_accepts` for the real codecs) -/
structure ParamsOK (O : Ops) (P : Params) : Prop where
  kMain   : 1 ≤ P.kMain
  kOf     : ∀ size x, 1 ≤ P.kOfFor size x
  posMain : 1 ≤ P.hashLen + (P.mbs - P.kMain)
  posOf   : ∀ size x, 1 ≤ P.hashLen + (P.mbs - P.kOfFor size x)
  ops     : CleanOps O P.hashLen P.mbs P.fast
  intra   : IntraOps O P.kIntra P.mbs

/-- what the format needs of one file's metadata -/
structure FileOK (O : Ops) (P : Params) (path content : Bytes) : Prop where
  nonempty     : path ≠ []
  noNul        : path.contains 0 = false
  cleanPath    : Clean path
  cleanPathEcc : Clean (intraEcc O.enc P.kIntra path)
  cleanSizeEcc : Clean (intraEcc O.enc P.kIntra (digitsOf content.length))
  short        : path.length + (digitsOf content.length).length + (intraEcc O.enc P.kIntra path).length
                   + (intraEcc O.enc P.kIntra (digitsOf content.length)).length + 4 * delim.length ≤ 65535

def cleanResult : FileResult := { output := none, corrupted := false, complete := false, partialRep := false }

theorem C03_run_pristine (O : Ops) (P : Params) (pre : Bytes) (fs : FS)
    (hP : ParamsOK O P)
    (hfiles : ∀ pc ∈ fs, FileOK O P pc.1 pc.2)
    (hdistinct : (fs.map (·.1)).Nodup)
    (hacc : NoAccidental pre marker (fs.map (fun pc => genBody O P pc.1 pc.2))) :
    (run O P fs (genStream O P pre fs)).outcomes.map view =
        fs.map (fun pc => (pc.1, false, true, cleanResult, Effect.none)) ∧
    counters (run O P fs (genStream O P pre fs)) = (fs.length, 0, 0, 0, 0) ∧
    exitOf (run O P fs (genStream O P pre fs)) = 0 ∧
    outputs (run O P fs (genStream O P pre fs)) = [] := by
  have hv : (run O P fs (genStream O P pre fs)).outcomes.map view =
      fs.map (fun pc => (pc.1, false, true, cleanResult, Effect.none)) := by
    apply C.run_views O P fs pre fs (fun pc => genBody O P pc.1 pc.2) _ hacc
    intro pc hpc a b hab hb hS
    have hf := hfiles pc hpc
    have hlook := C.fsLookup_of_mem fs hdistinct pc.1 pc.2 hpc
    cases htool : P.tool with
    | header =>
      have hbody : genBody O P pc.1 pc.2 = (genEntry (partsOf O P.kIntra pc.1 pc.2
          (genTrackHeader O.H O.enc P.kMain P.headerSize pc.2))).drop marker.length := by
        simp only [genBody, bodyWith, genTrackFor, htool]
      rw [hbody] at hS
      exact C.entry_clean_header O P fs _ a b pc.1 pc.2 htool hP.kMain hP.posMain hP.ops hP.intra
        hf.nonempty hf.noNul hf.cleanPath hf.cleanPathEcc hf.cleanSizeEcc hlook hS
    | whole =>
      have hbody : genBody O P pc.1 pc.2 = (genEntry (partsOf O P.kIntra pc.1 pc.2
          (genTrack O.H O.enc (P.kOfFor pc.2.length) pc.2))).drop marker.length := by
        simp only [genBody, bodyWith, genTrackFor, htool]
      rw [hbody] at hS
      exact C.entry_clean_whole O P fs _ a b pc.1 pc.2 htool (hP.kOf _) (hP.posOf _) hP.ops hP.intra
        hf.nonempty hf.noNul hf.cleanPath hf.cleanPathEcc hf.cleanSizeEcc hf.short hlook hab hb hS
  exact ⟨hv, C.views_clean _ fs (·.1) hv⟩

/-- one file of a damaged archive: original content, content now, track now -/
structure Damaged where
  path    : Bytes
  orig    : Bytes
  now     : Bytes
  trackD  : Bytes

/-- damage in place within capacity: lengths unchanged, and every assembled block satisfies the
per-block premise of C01 -/
def WithinCapacity (O : Ops) (P : Params) (d : Damaged) : Prop :=
  d.now.length = d.orig.length ∧ d.trackD.length = (genTrackFor O P d.orig).length ∧
  match P.tool with
  | .header =>
    let readLen := if 0 < d.orig.length ∧ d.orig.length < P.headerSize then d.orig.length else P.headerSize
    ((assembleHeader P.kMain P.hashLen P.mbs readLen d.now d.trackD (d.now.length + 1) 0 0).map (·.msg)).flatten
        = d.now.take readLen ∧
    ∀ b ∈ assembleHeader P.kMain P.hashLen P.mbs readLen d.now d.trackD (d.now.length + 1) 0 0,
      BlockOK O P.fast P.mbs d.orig b
  | .whole =>
    ((assemble (P.kOfFor d.orig.length) P.hashLen P.mbs d.now d.trackD (d.now.length + 1) 0 0).map (·.msg)).flatten
        = d.now ∧
    ∀ b ∈ assemble (P.kOfFor d.orig.length) P.hashLen P.mbs d.now d.trackD (d.now.length + 1) 0 0,
      BlockOK O P.fast P.mbs d.orig b

/-- what the tool is expected to restore of a file: the whole file (whole-file tool) or its
header with the rest of the current file (header tool) -/
def restored (P : Params) (d : Damaged) : Bytes :=
  match P.tool with
  | .header =>
    let readLen := if 0 < d.orig.length ∧ d.orig.length < P.headerSize then d.orig.length else P.headerSize
    d.orig.take readLen ++ d.now.drop readLen
  | .whole => d.orig

/-- is the protected part of the file damaged? -/
def protectedDamaged (P : Params) (d : Damaged) : Prop :=
  match P.tool with
  | .header =>
    let readLen := if 0 < d.orig.length ∧ d.orig.length < P.headerSize then d.orig.length else P.headerSize
    d.now.take readLen ≠ d.orig.take readLen
  | .whole => d.now ≠ d.orig

theorem C01_run_within_capacity (O : Ops) (P : Params) (pre : Bytes) (ds : List Damaged)
    (hP : ParamsOK O P)
    (hfiles : ∀ d ∈ ds, FileOK O P d.path d.orig)
    (hdistinct : (ds.map (·.path)).Nodup)
    (hcap : ∀ d ∈ ds, WithinCapacity O P d)
    (hacc : NoAccidental pre marker (ds.map (fun d => bodyWith O P d.path d.orig d.trackD))) :
    let stream := build pre marker (ds.map (fun d => bodyWith O P d.path d.orig d.trackD))
    let r := run O P (ds.map (fun d => (d.path, d.now))) stream
    r.outcomes.length = ds.length ∧
    (∀ i (hi : i < ds.length), ∃ o, r.outcomes[i]? = some o ∧ o.path = ds[i].path ∧ o.skipped = false ∧ o.processed = true ∧
        (protectedDamaged P ds[i] →
          o.result = { output := some (restored P ds[i]), corrupted := true, complete := true, partialRep := false } ∧
          o.effect = .wrote (restored P ds[i])) ∧
        (∀ out, o.result.output = some out → out = restored P ds[i]) ∧
        (o.result.corrupted = true → o.result.complete = true)) ∧
    exitOf r = 0 := by
  intro stream r
  have hfs : ((ds.map (fun d => (d.path, d.now))).map (·.1)).Nodup := by
    rw [List.map_map]; exact hdistinct
  have hlook : ∀ d ∈ ds, fsLookup (ds.map (fun d => (d.path, d.now))) d.path = some d.now := fun d hd =>
    C.fsLookup_of_mem _ hfs d.path d.now (List.mem_map.mpr ⟨d, hd, rfl⟩)
  cases htool : P.tool with
  | header =>
    have hv : r.outcomes.map view = ds.map (fun d => (d.path, false, true,
        correctHeaderFile O P.fast P.thr P.kMain P.hashLen P.mbs
          (if 0 < d.orig.length ∧ d.orig.length < P.headerSize then d.orig.length else P.headerSize) d.now d.trackD,
        C.effHeader (correctHeaderFile O P.fast P.thr P.kMain P.hashLen P.mbs
          (if 0 < d.orig.length ∧ d.orig.length < P.headerSize then d.orig.length else P.headerSize) d.now d.trackD))) := by
      apply C.run_views O P _ pre ds (fun d => bodyWith O P d.path d.orig d.trackD) _ hacc
      intro d hd a b _ _ hS
      have hf := hfiles d hd
      exact C.processEntry_header O P _ _ a b (partsOf O P.kIntra d.path d.orig d.trackD) d.orig.length d.now htool
        hP.intra rfl rfl rfl hf.nonempty hf.noNul hf.cleanPath hf.cleanPathEcc hf.cleanSizeEcc (hlook d hd)
        (hcap d hd).1 hS
    refine C.views_repaired r ds (·.path) _ C.effHeader (protectedDamaged P) (restored P) C.effHeader_some hv ?_
      (fun d _ => (C04_results_wf O P.fast P.thr P.kMain P.hashLen P.mbs _ (fun _ => 0) d.now d.trackD).1)
    intro d hd
    obtain ⟨h1, _, h3⟩ := hcap d hd
    simp only [htool] at h3
    simp only [restored, protectedDamaged, htool]
    exact C01_header_file_partial O P.fast P.thr P.kMain P.hashLen P.mbs _ d.orig d.now d.trackD h1 h3.1 h3.2
  | whole =>
    have hv : r.outcomes.map view = ds.map (fun d => (d.path, false, true,
        correctWholeFile O P.fast P.thr (P.kOfFor d.orig.length) P.hashLen P.mbs d.now d.trackD,
        C.effWhole (correctWholeFile O P.fast P.thr (P.kOfFor d.orig.length) P.hashLen P.mbs d.now d.trackD))) := by
      apply C.run_views O P _ pre ds (fun d => bodyWith O P d.path d.orig d.trackD) _ hacc
      intro d hd a b hab hb hS
      have hf := hfiles d hd
      have htl : d.trackD.length = trackLen (P.kOfFor d.orig.length) P.hashLen P.mbs d.orig.length := by
        rw [(hcap d hd).2.1]
        simp only [genTrackFor, htool]
        exact C.genTrack_length O.H O.enc _ P.hashLen P.mbs (hP.kOf _) hP.ops.hashLen hP.ops.encLen d.orig
      exact C.processEntry_whole O P _ _ a b (partsOf O P.kIntra d.path d.orig d.trackD) d.orig.length d.now htool
        hP.intra rfl rfl rfl hf.nonempty hf.noNul hf.cleanPath hf.cleanPathEcc hf.cleanSizeEcc (hlook d hd)
        (hcap d hd).1 (by rw [C.metaOf_length]; have := hf.short; simp only [partsOf]; omega) (hP.kOf _) htl hab hb hS
    refine C.views_repaired r ds (·.path) _ C.effWhole (protectedDamaged P) (restored P) C.effWhole_some hv ?_
      (fun d _ => (C04_results_wf O P.fast P.thr 0 P.hashLen P.mbs 0 _ d.now d.trackD).2)
    intro d hd
    obtain ⟨h1, _, h3⟩ := hcap d hd
    simp only [htool] at h3
    simp only [restored, protectedDamaged, htool]
    exact C01_whole_file_partial O P.fast P.thr P.hashLen P.mbs _ d.orig d.now d.trackD h1 h3.1 h3.2

end Pff.Run
