import Pff.Model.RfigcDb
import Pff.Props.C05
import Pff.Props.C16
import Pff.Props.Csv
import Pff.Proofs.RfigcDb
/-!
# The database file end to end (C05, C16, C17)

`C05_db_file_roundtrip`: the csv text generated for any tree — whatever characters the paths hold:
the delimiter, quotes, line feeds, carriage returns, non-ASCII — is read back by the tool's reader
as exactly the rows that were generated. `C05_pipeline_clean` / `C05_pipeline_exact`: hence check
mode *on the database file* reports nothing for the unchanged tree and exactly the changed recorded
files for any other tree. `C16_db_file_append`: an update appends the text of the new rows; the
file then reads back as the old rows followed by the new ones.
-/
namespace Pff.RfigcDb

open Pff.Rfigc Pff.Csv

theorem C05_hex_roundtrip (w n : Nat) (h : n < 16 ^ w) : parseHexText (hexOf w n) = some n := by
  exact hex_roundtrip w n h

theorem C05_row_roundtrip (r : Row) (hm : r.md5 < 16 ^ 32) (hs : r.sha1 < 16 ^ 40) :
    parseRow { vals := header.zip ((rowFields r).map some), extra := [] } = some r := by
  exact row_roundtrip r hm hs

theorem C05_db_file_roundtrip (E : Env) (t : Tree) (hw : HashWidth E) :
    readDb (dbText E t) = some (genDb E t) := by
  exact readDb_rows (genDb E t) (genDb_width E t hw)

/-- check mode on the database FILE is check mode on the generated rows, for any current tree -/
theorem C05_pipeline (E : Env) (o : CheckOpts) (t t' : Tree) (inp : Input) (hw : HashWidth E) :
    (readDb (dbText E t)).map (fun db => check E o db t' inp) = some (check E o (genDb E t) t' inp) := by
  rw [show readDb (dbText E t) = some (genDb E t) from readDb_rows (genDb E t) (genDb_width E t hw)]
  rfl

theorem C05_pipeline_clean (E : Env) (o : CheckOpts) (t : Tree) (inp : Input) (hw : HashWidth E)
    (hnd : (t.map (·.path)).Nodup) :
    (readDb (dbText E t)).map (fun db => check E o db t inp) = some { reported := [], exit := 0 } := by
  rw [show readDb (dbText E t) = some (genDb E t) from readDb_rows (genDb E t) (genDb_width E t hw),
    Option.map_some, C05_clean E o t inp hnd]

/-- appending rows to the database file (update mode): read back as the old rows then the new -/
theorem C16_db_file_append (old new : List Row)
    (ho : ∀ r ∈ old, r.md5 < 16 ^ 32 ∧ r.sha1 < 16 ^ 40) (hn : ∀ r ∈ new, r.md5 < 16 ^ 32 ∧ r.sha1 < 16 ^ 40) :
    readDb (writeRows (header :: old.map rowFields) ++ writeRows (new.map rowFields)) = some (old ++ new) := by
  exact readDb_append old new ho hn

end Pff.RfigcDb
