import Pff.Model.Run
import Pff.Props.C14
import Pff.Proofs.RunA
import Pff.Proofs.RunA2
/-!
# The correction run as a whole — entries are independent (C08 at the level of the run)

`Pff.Run.run` is the model of the complete `-c` loop of both ecc tools (scanner, cursor, field
splitting, intra-ecc, lenient `int()`, file lookup, size check, block logic, counters, outputs).
The earlier C08 theorems treat "what is done with an entry" as an arbitrary function of the
entry's bytes; here that assumption is *proved* of the model of the real per-entry code, including
the whole-file tool, which works on positions of the ecc file and whose last read may run past the
end of the entry.

* `C08_run_cursor_bounds` — wherever the processing of an entry leaves the cursor, it is inside
  `[a, b]`: the next scan cannot start before the entry nor skip the next marker;
* `C08_run_visits` — on a file without accidental markers the loop processes exactly the intended
  entries, in order, whatever each entry holds and wherever the cursor is left;
* `C08_run_local` — what is done with an entry depends only on the bytes of the entry and on at
  most `hash_size + max_block_size` bytes after it;
* `C08_run_header_own_bytes` — header tool: only on the bytes of the entry;
* `C08_run_reads_inside` / `C08_run_long_enough_reads_inside` — whole-file tool: only on the bytes
  of the entry when its track is not shorter than the blocks of the file require (every generated
  entry);
* `C08_run_independent` — headline: replacing one entry by arbitrary bytes leaves what is done
  with every other entry unchanged.
-/
namespace Pff.Run

open Pff.Ecc Pff.Layout Pff.Entry Pff.Scan

theorem C08_run_cursor_bounds (O : Ops) (P : Params) (fs : FS) (stream : Bytes) (a b : Nat) (hab : a ≤ b) :
    a ≤ (processEntry O P fs stream a b).cursor ∧ (processEntry O P fs stream a b).cursor ≤ b := by
  exact cursor_bounds O P fs stream a b hab

theorem C08_run_visits (O : Ops) (P : Params) (fs : FS) (pre : Bytes) (entries : List Bytes)
    (h : NoAccidental pre marker entries) :
    (run O P fs (build pre marker entries)).outcomes =
      (intended marker pre.length entries).map
        (fun ab => processEntry O P fs (build pre marker entries) ab.1 ab.2) := by
  exact run_visits O P fs pre entries h

theorem C08_run_local (O : Ops) (P : Params) (fs : FS) (s1 s2 : Bytes) (a1 b1 a2 b2 : Nat)
    (h1 : a1 ≤ b1) (h2 : a2 ≤ b2) (hl : b1 - a1 = b2 - a2)
    (hw : (s1.drop a1).take (b1 - a1 + (P.hashLen + P.mbs)) = (s2.drop a2).take (b2 - a2 + (P.hashLen + P.mbs))) :
    view (processEntry O P fs s1 a1 b1) = view (processEntry O P fs s2 a2 b2) ∧
    (processEntry O P fs s1 a1 b1).cursor - a1 = (processEntry O P fs s2 a2 b2).cursor - a2 := by
  exact run_local O P fs s1 s2 a1 b1 a2 b2 h1 h2 hl hw

theorem C08_run_header_own_bytes (O : Ops) (P : Params) (fs : FS) (stream : Bytes) (a b : Nat)
    (hP : P.tool = .header) :
    view (processEntry O P fs stream a b) =
      view (processEntry O P fs ((stream.drop a).take (b - a)) 0 ((stream.drop a).take (b - a)).length) := by
  exact header_own_bytes O P fs stream a b hP

/-- an entry whose track reads stay inside it is processed the same whatever follows it (`hY`: for the
last entry of the file `readsInside` holds vacuously — reads are clipped at the end of the file — so
bytes may only be appended after an entry that is not the last; regression witness
`reads_inside_needs_hY` in `Pff/Proofs/RunA2.lean`) -/
theorem C08_run_reads_inside (O : Ops) (P : Params) (fs : FS) (S Y : Bytes) (a b : Nat)
    (hab : a ≤ b) (hb : b ≤ S.length) (hY : b < S.length ∨ Y = []) (hin : readsInside O P fs S a b) :
    view (processEntry O P fs (S.take b ++ Y) a b) = view (processEntry O P fs S a b) ∧
    (processEntry O P fs (S.take b ++ Y) a b).cursor = (processEntry O P fs S a b).cursor := by
  rw [reads_inside O P fs S Y a b hab hb hY hin]
  exact ⟨rfl, rfl⟩

/-- Bridge between the position-based reading of the whole-file tool and the per-file theorems
(C01, C03, C04, C13, which speak of `correctWholeFile` on a track given as a list of bytes): when
the reads stay inside the entry, the result is that of `correctWholeFile` on the bytes of the
entry from the start of the track. -/
theorem C08_run_whole_file_bridge (O : Ops) (fast : Bool) (thr : Nat) (kOf : Nat → Nat) (hashLen mbs : Nat)
    (content stream : Bytes) (ts b : Nat) (hts : ts ≤ b) (hb : b ≤ stream.length)
    (hin : ∀ bp ∈ assembleAt kOf hashLen mbs content stream b (content.length + 1) 0 ts, bp.2 ≤ b) :
    (correctWholeAt O fast thr kOf hashLen mbs content stream ts b).1 =
      correctWholeFile O fast thr kOf hashLen mbs content ((stream.drop ts).take (b - ts)) := by
  exact whole_file_bridge O fast thr kOf hashLen mbs content stream ts b hts hb hin

/-- length of the ecc track of a file of `n` bytes -/
def trackLen (kOf : Nat → Nat) (hashLen mbs n : Nat) : Nat :=
  ((layoutGen kOf n (n + 1) 0).map (fun blk => hashLen + (mbs - blk.k))).sum

/-- the whole-file tool reads inside the entry as soon as the track is as long as the blocks of
the file require (in particular for every entry as generated, damaged in place or not) -/
theorem C08_run_long_enough_reads_inside (O : Ops) (P : Params) (fs : FS) (S : Bytes) (a b : Nat)
    (size : Int) (content : Bytes)
    (ht : (locate O P fs S a b).target = some (size, content))
    (hlong : (locate O P fs S a b).trackStartAbs + trackLen (P.kOfFor size.toNat) P.hashLen P.mbs content.length ≤ b) :
    readsInside O P fs S a b := by
  exact long_enough_reads_inside O P fs S a b size content ht hlong

/-- Headline.  `entries` with entry `v` replaced by arbitrary bytes `V'` of any length (no
additional marker spelled): every other entry `j` whose track reads stay inside it (always, for
the header tool) is processed exactly as with the pristine file — same path, same skipped /
processed status, same per-file result, same effect on the output folder. -/
theorem C08_run_independent (O : Ops) (P : Params) (fs : FS) (pre : Bytes) (entries : List Bytes)
    (v j : Nat) (V' : Bytes) (hv : v < entries.length) (hj : j < entries.length) (hjv : j ≠ v)
    (h : NoAccidental pre marker entries) (h' : NoAccidental pre marker (entries.set v V'))
    (hin : ∀ ab, (intended marker pre.length entries)[j]? = some ab →
      readsInside O P fs (build pre marker entries) ab.1 ab.2) :
    ((run O P fs (build pre marker (entries.set v V'))).outcomes[j]?).map view =
      ((run O P fs (build pre marker entries)).outcomes[j]?).map view ∧
    (run O P fs (build pre marker (entries.set v V'))).outcomes.length = entries.length := by
  exact run_independent O P fs pre entries v j V' hv hj hjv h h' hin

/-- header tool: no side condition at all -/
theorem C08_run_independent_header (O : Ops) (P : Params) (fs : FS) (pre : Bytes) (entries : List Bytes)
    (v j : Nat) (V' : Bytes) (hP : P.tool = .header) (hv : v < entries.length) (hj : j < entries.length) (hjv : j ≠ v)
    (h : NoAccidental pre marker entries) (h' : NoAccidental pre marker (entries.set v V')) :
    ((run O P fs (build pre marker (entries.set v V'))).outcomes[j]?).map view =
      ((run O P fs (build pre marker entries)).outcomes[j]?).map view := by
  refine (run_independent O P fs pre entries v j V' hv hj hjv h h' ?_).1
  intro ab _
  unfold readsInside
  rw [hP]
  trivial

end Pff.Run
