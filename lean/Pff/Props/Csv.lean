import Pff.Model.Csv
import Pff.Proofs.Csv
/-!
# The csv layer round-trips every row (C05, C16, C17, C18)

Every row the tools write to the hash database, the errors file or the replication report — any
number of fields, every field any string of characters whatsoever (delimiter, quotes, line feeds,
carriage returns, NUL, empty fields, empty rows) — is read back exactly, in order, by the reader
with the tools' parameters; and appending rows to an existing file (update mode) is the same as
writing them all at once.  The model is tied to Python's `csv` module and to the repo's
`_csv_writer` by the correspondence check (writer and reader separately; the reader also on
arbitrary and mutated text).

`C05_csv_cr_witness` is the regression witness of the defect repaired in /repo: with minimal
quoting alone a field containing a carriage return is written bare and read back as two rows.
-/
namespace Pff.Csv

theorem C05_csv_roundtrip (rows : List (List Str)) : readAll (writeRows rows) = some rows := by
  exact readAll_writeRows rows

/-- update mode appends to the file: same as writing all rows at once, hence read back as the
old rows followed by the new ones -/
theorem C16_csv_append (old new : List (List Str)) :
    readAll (writeRows old ++ writeRows new) = some (old ++ new) := by
  rw [writeRows_append]; exact readAll_writeRows (old ++ new)

theorem C05_csv_cr_witness :
    readAll (writeRowWith false [[97, 13, 98], [120]]) = some [[[97]], [[98], [120]]] := by
  rw [readAll_eq_go]; decide

end Pff.Csv
