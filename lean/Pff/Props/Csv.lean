import Pff.Model.Csv
import Pff.Proofs.Csv
/-!
# The csv layer round-trips every row (C05, C16, C17, C18)

Every row the tools write to the hash database, the errors file or the replication report — any
number of fields, every field any string of characters whatsoever (delimiter, quotes, line feeds,
carriage returns, NUL, empty fields, empty rows) — is read back exactly, in order, by the reader
with the tools' parameters; and appending rows to an existing file (update mode) is the same as
writing them all at once.  The model is tied to Python's `csv` module and to the repo's
`_csv_writer` by the correspondence check (writer and reader separately; the reader also on
arbitrary and mutated text).

`C05_csv_cr_witness` is the regression witness of the defect repaired in /repo: with minimal
quoting alone a field containing a carriage return is written bare and read back as two rows.
-/
namespace Pff.Csv

theorem C05_csv_roundtrip (rows : List (List Str)) : readAll (writeRows rows) = some rows := by
  exact readAll_writeRows rows

/-- update mode appends to the file: same as writing all rows at once, hence read back as the
old rows followed by the new ones -/
theorem C16_csv_append (old new : List (List Str)) :
    readAll (writeRows old ++ writeRows new) = some (old ++ new) := by
  rw [writeRows_append]; exact readAll_writeRows (old ++ new)

theorem C05_csv_cr_witness :
    readAll (writeRowWith false [[97, 13, 98], [120]]) = some [[[97]], [[98], [120]]] := by
  rw [readAll_eq_go]; decide

theorem zipPad_eq_zip (hdr r : List Str) (h : r.length = hdr.length) :
    zipPad hdr r = hdr.zip (r.map some) := by
  induction hdr generalizing r with
  | nil => cases r with
    | nil => rfl
    | cons v vs => simp at h
  | cons x xs ih => cases r with
    | nil => simp at h
    | cons v vs =>
      simp only [zipPad, List.map_cons, List.zip_cons_cons]
      rw [ih vs (by simpa using h)]

/-- The database as the tools see it: a header and rows of as many fields, written by the tools'
writer, are read back by `csv.DictReader` as exactly those rows, every value under its field name,
nothing missing (`None`) and nothing surplus — whatever characters the fields hold. -/
theorem C05_db_roundtrip (hdr : List Str) (rows : List (List Str)) (hne : hdr ≠ [])
    (hl : ∀ r ∈ rows, r.length = hdr.length) :
    dictRead (writeRows (hdr :: rows)) =
      some (rows.map (fun r => { vals := hdr.zip (r.map some), extra := [] })) := by
  unfold dictRead
  rw [C05_csv_roundtrip]
  simp only [Option.map_some, dictRows, Option.some.injEq]
  have hpos : 0 < hdr.length := List.length_pos_iff.mpr hne
  have hf : rows.filter (fun r => !r.isEmpty) = rows := by
    apply List.filter_eq_self.mpr
    intro r hr
    have : r.length = hdr.length := hl r hr
    cases r with
    | nil => simp at this; omega
    | cons _ _ => rfl
  rw [hf]
  apply List.map_congr_left
  intro r hr
  have hlen := hl r hr
  rw [zipPad_eq_zip hdr r hlen, List.drop_of_length_le (by omega)]

end Pff.Csv
