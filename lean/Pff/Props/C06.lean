import Pff.Model.Vote
import Pff.Proofs.Vote
/-!
# C06 — byte-wise majority vote returns the plurality value at every offset

Property theorems only (helper lemmas live in `Pff/Proofs/Vote.lean`).
`voteChunked bs` is the model of the read loop of `majority_vote_byte_scan` with read-chunk size
`bs`; `voteSpec` is the declarative per-offset plurality.  Quantifiers: every number of copies,
every content and length (empty and truncated copies in any position), every `bs ≥ 1`.
-/
namespace Pff.Vote

/-- The result never depends on how the copies are chunked while reading: for every chunk size
`bs ≥ 1` the loop computes exactly the per-offset plurality spec (bytes and reported offsets). -/
theorem C06_chunk_independent (bs : Nat) (hbs : 0 < bs) (copies : List Bytes) :
    voteChunked bs copies 0 = voteSpec copies := by
  rw [voteChunked_eq bs hbs copies 0]
  have h0 : (fun x : Nat => 0 + x) = id := by funext x; simp
  simp only [h0, List.map_id]

/-- The merged output has the length of the longest copy. -/
theorem C06_length (bs : Nat) (hbs : 0 < bs) (copies : List Bytes) :
    (voteChunked bs copies 0).out.length = maxLen copies := by
  rw [C06_chunk_independent bs hbs]
  exact voteSpec_out_length copies

/-- At every offset the output holds a value carried by the largest number of the copies that
reach that offset, and among tied values the one carried by the earliest copy. -/
theorem C06_plurality (bs : Nat) (hbs : 0 < bs) (copies : List Bytes) (j : Nat)
    (hj : j < maxLen copies) :
    ∃ v, (voteChunked bs copies 0).out[j]? = some v ∧ v ∈ column copies j ∧
      (∀ w ∈ column copies j, (column copies j).count w ≤ (column copies j).count v) ∧
      (∀ w ∈ (column copies j).takeWhile (· ≠ v),
          (column copies j).count w < (column copies j).count v) := by
  rw [C06_chunk_independent bs hbs, voteSpec_out_getElem? copies j hj]
  obtain ⟨v, hv⟩ := specVal_isSome _ ((column_ne_nil_iff copies j).2 hj)
  exact ⟨v, hv, specVal_props _ _ hv⟩

/-- Exactly the offsets where at least two copies reach and all of them differ are reported. -/
theorem C06_ambiguous_reported (bs : Nat) (hbs : 0 < bs) (copies : List Bytes) (j : Nat) :
    j ∈ (voteChunked bs copies 0).errors ↔
      j < maxLen copies ∧ 2 ≤ (column copies j).length ∧ (column copies j).Nodup := by
  rw [C06_chunk_independent bs hbs]
  exact mem_voteSpec_errors copies j

/-- If at every offset more than half of the copies reaching it carry the original byte, the
original is reproduced exactly and nothing is reported. -/
theorem C06_majority_restores (bs : Nat) (hbs : 0 < bs) (copies : List Bytes) (orig : Bytes)
    (hlen : orig.length = maxLen copies)
    (hmaj : ∀ j (hj : j < orig.length),
        (column copies j).length < 2 * (column copies j).count orig[j]) :
    (voteChunked bs copies 0).out = orig ∧ (voteChunked bs copies 0).errors = [] := by
  rw [C06_chunk_independent bs hbs]
  constructor
  · apply List.ext_getElem?
    intro j
    by_cases hj : j < orig.length
    · rw [voteSpec_out_getElem? copies j (hlen ▸ hj), (specVal_of_majority _ _ (hmaj j hj)).1,
        List.getElem?_eq_getElem hj]
    · rw [List.getElem?_eq_none (by rw [voteSpec_out_length]; omega),
        List.getElem?_eq_none (by omega)]
  · apply List.eq_nil_iff_forall_not_mem.2
    intro j hjm
    obtain ⟨hj, h2, hnd⟩ := (mem_voteSpec_errors copies j).1 hjm
    have := (specVal_of_majority _ _ (hmaj j (hlen ▸ hj))).2
    simp [specAmbiguous, h2, hnd] at this

/-- Status is zero exactly when there are at least three copies and no offset is ambiguous. -/
theorem C06_status (bs : Nat) (hbs : 0 < bs) (copies : List Bytes) :
    (majorityVote bs copies).status = 0 ↔
      3 ≤ copies.length ∧
      ∀ j, j < maxLen copies → ¬ (2 ≤ (column copies j).length ∧ (column copies j).Nodup) := by
  unfold majorityVote
  split
  · next hlt =>
    constructor
    · intro h; simp at h
    · intro h; omega
  · next hge =>
    simp only [C06_chunk_independent bs hbs]
    have hiff : (voteSpec copies).errors = [] ↔
        ∀ j, j < maxLen copies →
          ¬ (2 ≤ (column copies j).length ∧ (column copies j).Nodup) := by
      rw [List.eq_nil_iff_forall_not_mem]
      constructor
      · intro h j hj hc
        exact h j ((mem_voteSpec_errors copies j).2 ⟨hj, hc⟩)
      · intro h j hjm
        have := (mem_voteSpec_errors copies j).1 hjm
        exact h j this.1 this.2
    rw [← hiff]
    cases herr : (voteSpec copies).errors with
    | nil => simp; omega
    | cons a l => simp

/-- With fewer than three copies the first copy is reproduced verbatim with a non-zero status. -/
theorem C06_fewer_than_three (bs : Nat) (copies : List Bytes) (h : copies.length < 3) :
    majorityVote bs copies = { out := copies.headD [], status := 1, errors := [] } := by
  simp [majorityVote, h]

/-- Regression witness for the defect fixed in /repo ("fix: majority vote single-survivor
shortcut"): on the pinned loop, copies of 10, 10 and 20 bytes read 8 at a time lose bytes. -/
theorem C06_pinned_witness :
    (voteChunkedPinned 8 [List.replicate 10 1, List.replicate 10 1, List.replicate 20 1] 0).out.length
      = 16 := by
  rw [voteChunkedPinned_step _ _ _ (by decide) (by decide),
    voteChunkedPinned_step _ _ _ (by decide) (by decide),
    voteChunkedPinned_step _ _ _ (by decide) (by decide),
    voteChunkedPinned_stop _ _ _ (by decide)]
  decide

/-- Non-vacuity: a concrete instance of the hypotheses of `C06_majority_restores` with copies of
different lengths, a corrupted byte and a truncated copy. -/
example : let copies : List Bytes := [[1,2,9,4], [1,2,3,4,5], [1,2,3], [7,2,3,4,5]]
    let orig : Bytes := [1,2,3,4,5]
    orig.length = maxLen copies ∧
    ∀ j (hj : j < orig.length), (column copies j).length < 2 * (column copies j).count orig[j] := by
  decide

end Pff.Vote
