import Pff.Model.Entry
import Pff.Proofs.EntryA
/-!
# C09 — entry metadata (path, size) is itself ECC-protected and round-trips exactly

Property theorems only. Field splitting, size text and intra-ecc of both tools; `O : Ops` is an
arbitrary codec record, theorems state what they need of it (`C11_accepts` / `C02_decode_exact_*`
supply it for the real facade under contract W).
-/
namespace Pff.Entry

open Pff.Ecc Pff.Layout Pff.Entry.A

/-- no field delimiter starts inside `f`, even when `f` is followed by a delimiter (so names may
start or end with bytes of the delimiter, but not spell one together with it) -/
def Clean (f : Bytes) : Prop := ∀ i, i < f.length → ¬ delim.isPrefixOf ((f ++ delim).drop i) = true

/-- Splitting a generated entry recovers exactly the recorded path, size text and their parities,
and the offset of the ecc track — for every path length and every track. -/
theorem C09_fields_roundtrip (p : EntryParts) (hp : p.path ≠ [])
    (h1 : Clean p.path) (h2 : Clean p.sizeTxt) (h3 : Clean p.pathEcc) (h4 : Clean p.sizeEcc) :
    entryFields ((genEntry p).drop marker.length) =
      { path := p.path, sizeRaw := p.sizeTxt, pathEcc := p.pathEcc, sizeEcc := p.sizeEcc,
        trackOff := ((p.path.length + delim.length + p.sizeTxt.length + delim.length + p.pathEcc.length
                      + delim.length + p.sizeEcc.length + delim.length : Nat) : Int),
        stripped := 0 } := by
  have hdrop : (genEntry p).drop marker.length =
      p.path ++ delim ++ p.sizeTxt ++ delim ++ p.pathEcc ++ delim ++ p.sizeEcc ++ delim ++ p.track := by
    simp only [genEntry, List.append_assoc, List.drop_left]
  rw [hdrop]
  exact entryFields_gen p.path p.sizeTxt p.pathEcc p.sizeEcc p.track hp h1 h2 h3 h4

/-- The size text round-trips: `int(str(n)) = n` for every size. -/
theorem C09_size_roundtrip (n : Nat) : pyInt (digitsOf n) = some (n : Int) := by
  rw [pyInt_digits (digitsOf n) (digitsOf_ne_nil n) (digitsOf_digits n), dval_digitsOf]

/-- the size text is digits only (so it never contains a delimiter byte) -/
theorem C09_size_digits (n : Nat) : ∀ c ∈ digitsOf n, isDigit c = true := by
  exact digitsOf_digits n

/-- what the round trip needs of the codec at the intra rate -/
structure IntraOps (O : Ops) (k mbs : Nat) : Prop where
  kpos    : 1 ≤ k
  parity  : 1 ≤ mbs - k
  encLen  : ∀ m, 1 ≤ m.length → m.length ≤ k → (O.enc k m).length = mbs - k
  accepts : ∀ m, 1 ≤ m.length → m.length ≤ k → O.chk k m (O.enc k m) = true

/-- Undamaged, a field decodes to itself for every field length (one or several intra blocks),
both tools, without consulting the decoder. -/
theorem C09_intra_roundtrip (O : Ops) (k mbs : Nat) (hO : IntraOps O k mbs) (field : Bytes) :
    correctIntraHeader O k mbs field (intraEcc O.enc k field) = { field := field, corrupted := false, corrected := true } ∧
    correctIntraWhole O k mbs field (intraEcc O.enc k field) = { field := field, corrupted := false, corrected := true } := by
  unfold correctIntraHeader correctIntraWhole
  rw [assembleHeader_clean O.enc k mbs hO.kpos hO.parity hO.encLen field,
    assemble_clean O.enc k mbs hO.kpos hO.parity hO.encLen field,
    fold_clean O k hO.kpos hO.accepts field]
  exact ⟨rfl, rfl⟩

/-- every intra block of the received field/parity is accepted as it is with the original bytes,
or is repaired by the decoder to the original bytes with a parity that checks -/
def IntraBlockOK (O : Ops) (k : Nat) (orig : Bytes) (b : AsmBlock) : Prop :=
  let m := (orig.drop b.off).take b.msg.length
  (b.msg = m ∧ O.chk k b.msg b.ecc = true) ∨
  (O.chk k b.msg b.ecc = false ∧ ∃ p, O.dec k b.msg b.ecc = some (m, p) ∧ O.chk k m p = true)

/-- Damage within the intra capacity (per-block premise `IntraBlockOK`, supplied by contract W
for ≤ ⌊parity/2⌋ wrong symbols per block): the exact field is recovered and reported corrected. -/
theorem C09_intra_repair_header (O : Ops) (k mbs : Nat) (orig field' ecc' : Bytes)
    (hlen : field'.length = orig.length)
    (hcover : ((assembleHeader k 0 mbs field'.length field' ecc' (field'.length + 1) 0 0).map (·.msg)).flatten = field')
    (hok : ∀ b ∈ assembleHeader k 0 mbs field'.length field' ecc' (field'.length + 1) 0 0, IntraBlockOK O k orig b) :
    (correctIntraHeader O k mbs field' ecc').field = orig ∧
    (correctIntraHeader O k mbs field' ecc').corrected = true := by
  unfold correctIntraHeader
  exact repair_of_blocks O k orig field' _ hlen hcover
    (assembleHeader_pieces k 0 mbs field'.length field' ecc' orig _ 0 0) hok

theorem C09_intra_repair_whole (O : Ops) (k mbs : Nat) (orig field' ecc' : Bytes)
    (hlen : field'.length = orig.length)
    (hcover : ((assemble (fun _ => k) 0 mbs field' ecc' (field'.length + 1) 0 0).map (·.msg)).flatten = field')
    (hok : ∀ b ∈ assemble (fun _ => k) 0 mbs field' ecc' (field'.length + 1) 0 0, IntraBlockOK O k orig b) :
    (correctIntraWhole O k mbs field' ecc').field = orig ∧
    (correctIntraWhole O k mbs field' ecc').corrected = true := by
  unfold correctIntraWhole
  exact repair_of_blocks O k orig field' _ hlen hcover
    (assemble_pieces (fun _ => k) 0 mbs field' ecc' orig _ 0 0) hok

end Pff.Entry
