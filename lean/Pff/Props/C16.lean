import Pff.Model.Rfigc
import Pff.Proofs.Rfigc
/-!
# C16 — database updates converge to a fresh generation for every history

Property theorems only. Histories are arbitrary finite lists over
{add file, delete file, update -a, update -r, update -a -r} with folder or single-file input.
-/
namespace Pff.Rfigc

/-- Remove mode keeps the database order, never drops the row of an existing file, and drops
only rows whose file no longer exists (and that the input concerns). -/
theorem C16_remove_only_missing (db : List Row) (t : Tree) (inp : Input) :
    (updRemove db t inp).Sublist db ∧
    (∀ r ∈ db, (lookup t r.path).isSome → r ∈ updRemove db t inp) ∧
    (∀ r ∈ db, r ∉ updRemove db t inp → (lookup t r.path).isNone ∧ concerns inp r = true) := by
  exact updRemove_spec db t inp

/-- Append mode never alters or duplicates an existing row: the old database is a prefix, every
appended row is the fresh row of a walked file whose path was absent, each such file once. -/
theorem C16_append_once (E : Env) (db : List Row) (t : Tree) (inp : Input)
    (hdb : (db.map (·.path)).Nodup) (ht : (t.map (·.path)).Nodup) :
    ∃ new, updAppend E db t inp = db ++ new ∧
      ((db ++ new).map (·.path)).Nodup ∧
      (∀ r, r ∈ new ↔ ∃ f ∈ t, r = rowOf E f ∧ f.path ∉ db.map (·.path) ∧
          (match inp with | .folder => True | .file n => f.path = n)) := by
  exact updAppend_spec E db t inp hdb ht

/-- every row of an existing file describes that file (path, hashes, size, extension) -/
def Consistent (E : Env) (s : State) : Prop :=
  (s.db.map (·.path)).Nodup ∧ (s.tree.map (·.path)).Nodup ∧
  ∀ r ∈ s.db, ∀ f, lookup s.tree r.path = some f → core r = core (rowOf E f)

/-- the history never (re-)creates a file at a path whose surviving row describes other content
(the property's own clause "append never alters an existing row" makes such a row unrepairable) -/
def Admissible (E : Env) : State → List Op → Prop
  | _, [] => True
  | s, op :: ops =>
    (match op with
     | .add f => ∀ r ∈ s.db, r.path = f.path → core r = core (rowOf E f)
     | _ => True) ∧ Admissible E (step E s op) ops

/-- A freshly generated database is consistent with its tree. -/
theorem C16_initial_consistent (E : Env) (t : Tree) (ht : (t.map (·.path)).Nodup) :
    Consistent E { tree := t, db := genDb E t } := by
  exact genDb_consistent E t ht

/-- Convergence: after any admissible history, a final append+remove update on the folder leaves
exactly the rows (path, hashes, size, extension) that generating from scratch on the current tree
would give, each once. -/
theorem C16_converge (E : Env) (s0 : State) (ops : List Op) (h0 : Consistent E s0)
    (hadm : Admissible E s0 ops) :
    let s := run E s0 (ops ++ [.update true true .folder])
    (s.db.map (·.path)).Nodup ∧
    ∀ x, x ∈ s.db.map core ↔ x ∈ (genDb E s.tree).map core := by
  have hrun : ∀ (ops : List Op) (s0 : State), Consistent E s0 → Admissible E s0 ops →
      Consistent E (run E s0 ops) := by
    intro ops
    induction ops with
    | nil => intro s0 h _; exact h
    | cons op ops ih =>
      intro s0 h ha
      rw [run_cons]
      refine ih _ (consistent_step E s0 op h ?_) ha.2
      cases op
      · exact ha.1
      · trivial
      · trivial
  intro s
  have hs : s = step E (run E s0 ops) (.update true true .folder) :=
    run_append_singleton E s0 ops _
  obtain ⟨ht, hnd, hx⟩ := converge_final E (run E s0 ops).tree (run E s0 ops).db (hrun ops s0 h0 hadm)
  rw [hs]
  exact ⟨hnd, fun x => by rw [hx x, ht]⟩

/-- Why admissibility is needed: delete, re-create with other content while the row survives. -/
theorem C16_stale_witness :
    let E : Env := { H := fun c => (c.sum, c.length), extOf := fun _ => "", roundSec := id }
    let s0 : State := { tree := [⟨"a", [1], 0⟩], db := genDb E [⟨"a", [1], 0⟩] }
    let s := run E s0 [.delete "a", .add ⟨"a", [2], 1⟩, .update true true .folder]
    s.db.map core ≠ (genDb E s.tree).map core := by
  decide

end Pff.Rfigc
