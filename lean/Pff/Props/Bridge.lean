import Pff.Model.OpsFacade
import Pff.Props.C01
import Pff.Props.C02
import Pff.Props.C09
import Pff.Props.C11
import Pff.Proofs.Bridge
/-!
# Bridge: facade under contract W ⇒ the per-block premises of C01 / C09

The per-file theorems of C01 (`C01_whole_file_partial`, `C01_header_file_partial`,
`C01_run_within_capacity`) and C09 (`C09_intra_repair_*`) assume, per assembled block, `BlockOK`
/ `IntraBlockOK` of an abstract `Ops`.  Here these premises are *derived* for the `Ops` the tools
actually use — the facade model `opsOfFacade` over the byte field of the selected codec — from
"the received block is within the correction capacity", using `C02_decode_exact_errors`,
`C02_decode_exact_erasures` (contract W for the third-party decoder), `C11_accepts` and
`C11_detects`.  With these, "damage within capacity ⇒ exact repair" is one chain of theorems from
the byte-level facade to the run.

Capacity is counted on the received `message ++ parity` of the block against the original message
and the parity generated for it: `2·errors ≤ n−k` (default mode), `2·errors + erasures ≤ n−k`
(`--enable_erasures`: erasures = received positions holding the erasure symbol).  The stored hash
of the block may be damaged too: it is then not trusted, the parity check decides.  With the
default fast check a block is accepted on its hash alone, hence the explicit no-collision
hypothesis `hhash` *for this block* (not needed with `--no_fast_check`).
-/
namespace Pff.Bridge

open Pff.GF Pff.Facade Pff.Ecc Pff.Layout Pff.RSSpec Pff.Entry

/-- bytes -/
def IsBytes (l : Bytes) : Prop := ∀ x ∈ l, x < 256

/-- the original message of the block: the slice of the original file at the block's offset -/
def origMsg (orig : Bytes) (b : AsmBlock) : Bytes := (orig.drop b.off).take b.msg.length

/-- geometry of a complete block of a codec with `n = max_block_size` -/
structure BlockGeom (n : Nat) (orig : Bytes) (b : AsmBlock) : Prop where
  bytesOrig : IsBytes orig
  bytesMsg  : IsBytes b.msg
  bytesEcc  : IsBytes b.ecc
  kpos      : 1 ≤ b.k
  kle       : b.k ≤ n
  msgpos    : 1 ≤ b.msg.length
  msgle     : b.msg.length ≤ b.k
  inside    : b.off + b.msg.length ≤ orig.length
  eccLen    : b.ecc.length = n - b.k

/-- codecs 1–3 (`--ecc_algo 1|2|3`), default mode (no erasure handling) -/
theorem C01_block_premise_A (algo n k0 : Nat) (ha : algo = 1 ∨ algo = 2 ∨ algo = 3) (hn : n ≤ 255)
    (core : Core (Elt pA)) (hW : CoreW (codecA algo n k0) core) (H : Bytes → Bytes) (fast : Bool)
    (orig : Bytes) (b : AsmBlock) (hg : BlockGeom n orig b)
    (hcap : 2 * hdist (b.msg ++ b.ecc)
        (origMsg orig b ++ (opsOfFacade (codecA algo n k0) core H false 0 false).enc b.k (origMsg orig b)) ≤ n - b.k)
    (hhash : fast = true → H b.msg = b.hash → b.msg = origMsg orig b) :
    BlockOK (opsOfFacade (codecA algo n k0) core H false 0 false) fast n orig b := by
  exact Pff.BridgeProofs.blockOK_errors (codecA algo n k0) core
    (Pff.BridgeProofs.codecFactsA algo n k0 ha hn) (Pff.BridgeProofs.decFactsA algo n k0 ha hn core hW)
    H fast orig b hg.bytesOrig hg.bytesMsg hg.bytesEcc hg.kpos hg.kle hg.msgle hg.inside hg.eccLen
    hcap hhash

/-- codec 4 (`--ecc_algo 4`), default mode -/
theorem C01_block_premise_B (n k0 : Nat) (hn : n ≤ 255)
    (core : Core (Elt pB)) (hW : CoreW (codecB n k0) core) (H : Bytes → Bytes) (fast : Bool)
    (orig : Bytes) (b : AsmBlock) (hg : BlockGeom n orig b)
    (hcap : 2 * hdist (b.msg ++ b.ecc)
        (origMsg orig b ++ (opsOfFacade (codecB n k0) core H false 0 false).enc b.k (origMsg orig b)) ≤ n - b.k)
    (hhash : fast = true → H b.msg = b.hash → b.msg = origMsg orig b) :
    BlockOK (opsOfFacade (codecB n k0) core H false 0 false) fast n orig b := by
  exact Pff.BridgeProofs.blockOK_errors (codecB n k0) core
    (Pff.BridgeProofs.codecFactsB n k0 hn) (Pff.BridgeProofs.decFactsB n k0 hn core hW)
    H fast orig b hg.bytesOrig hg.bytesMsg hg.bytesEcc hg.kpos hg.kle hg.msgle hg.inside hg.eccLen
    hcap hhash

/-- received positions holding the erasure symbol -/
def erasedPos (word : Bytes) (sym : Nat) : List Nat :=
  (List.range word.length).filter (fun i => word[i]? = some sym)

/-- codecs 1–3 with `--enable_erasures` (erasure symbol `sym < 256`): `2·errors + erasures ≤ n−k` -/
theorem C01_block_premise_A_erasures (algo n k0 sym : Nat) (ha : algo = 1 ∨ algo = 2 ∨ algo = 3) (hn : n ≤ 255)
    (hsym : sym < 256)
    (core : Core (Elt pA)) (hW : CoreW (codecA algo n k0) core) (H : Bytes → Bytes) (fast : Bool)
    (orig : Bytes) (b : AsmBlock) (hg : BlockGeom n orig b)
    (hcap : 2 * errorsOutside (b.msg ++ b.ecc)
          (origMsg orig b ++ (opsOfFacade (codecA algo n k0) core H true sym false).enc b.k (origMsg orig b))
          (erasedPos (b.msg ++ b.ecc) sym)
        + (erasedPos (b.msg ++ b.ecc) sym).length ≤ n - b.k)
    (hhash : fast = true → H b.msg = b.hash → b.msg = origMsg orig b) :
    BlockOK (opsOfFacade (codecA algo n k0) core H true sym false) fast n orig b := by
  exact Pff.BridgeProofs.blockOK_erasures (codecA algo n k0) core
    (Pff.BridgeProofs.codecFactsA algo n k0 ha hn) (Pff.BridgeProofs.decFactsA algo n k0 ha hn core hW)
    H sym hsym fast orig b hg.bytesOrig hg.bytesMsg hg.bytesEcc hg.kpos hg.kle hg.msgle hg.inside
    hg.eccLen hcap hhash

/-- codec 4 with `--enable_erasures` -/
theorem C01_block_premise_B_erasures (n k0 sym : Nat) (hn : n ≤ 255) (hsym : sym < 256)
    (core : Core (Elt pB)) (hW : CoreW (codecB n k0) core) (H : Bytes → Bytes) (fast : Bool)
    (orig : Bytes) (b : AsmBlock) (hg : BlockGeom n orig b)
    (hcap : 2 * errorsOutside (b.msg ++ b.ecc)
          (origMsg orig b ++ (opsOfFacade (codecB n k0) core H true sym false).enc b.k (origMsg orig b))
          (erasedPos (b.msg ++ b.ecc) sym)
        + (erasedPos (b.msg ++ b.ecc) sym).length ≤ n - b.k)
    (hhash : fast = true → H b.msg = b.hash → b.msg = origMsg orig b) :
    BlockOK (opsOfFacade (codecB n k0) core H true sym false) fast n orig b := by
  exact Pff.BridgeProofs.blockOK_erasures (codecB n k0) core
    (Pff.BridgeProofs.codecFactsB n k0 hn) (Pff.BridgeProofs.decFactsB n k0 hn core hW)
    H sym hsym fast orig b hg.bytesOrig hg.bytesMsg hg.bytesEcc hg.kpos hg.kle hg.msgle hg.inside
    hg.eccLen hcap hhash

/-- metadata fields (path, size): the intra blocks have no hash; the premise of
`C09_intra_repair_*` from "within ⌊parity/2⌋ wrong symbols" — codecs 1–3 -/
theorem C09_intra_block_premise_A (algo n k0 k : Nat) (ha : algo = 1 ∨ algo = 2 ∨ algo = 3) (hn : n ≤ 255)
    (core : Core (Elt pA)) (hW : CoreW (codecA algo n k0) core) (H : Bytes → Bytes)
    (orig : Bytes) (b : AsmBlock) (hk : b.k = k) (hg : BlockGeom n orig b)
    (hcap : 2 * hdist (b.msg ++ b.ecc)
        (origMsg orig b ++ (opsOfFacade (codecA algo n k0) core H false 0 false).enc k (origMsg orig b)) ≤ n - k) :
    IntraBlockOK (opsOfFacade (codecA algo n k0) core H false 0 false) k orig b := by
  subst hk
  exact Pff.BridgeProofs.intraBlockOK_errors (codecA algo n k0) core
    (Pff.BridgeProofs.codecFactsA algo n k0 ha hn) (Pff.BridgeProofs.decFactsA algo n k0 ha hn core hW)
    H orig b hg.bytesOrig hg.bytesMsg hg.bytesEcc hg.kpos hg.kle hg.msgle hg.inside hg.eccLen hcap

/-- … codec 4 -/
theorem C09_intra_block_premise_B (n k0 k : Nat) (hn : n ≤ 255)
    (core : Core (Elt pB)) (hW : CoreW (codecB n k0) core) (H : Bytes → Bytes)
    (orig : Bytes) (b : AsmBlock) (hk : b.k = k) (hg : BlockGeom n orig b)
    (hcap : 2 * hdist (b.msg ++ b.ecc)
        (origMsg orig b ++ (opsOfFacade (codecB n k0) core H false 0 false).enc k (origMsg orig b)) ≤ n - k) :
    IntraBlockOK (opsOfFacade (codecB n k0) core H false 0 false) k orig b := by
  subst hk
  exact Pff.BridgeProofs.intraBlockOK_errors (codecB n k0) core
    (Pff.BridgeProofs.codecFactsB n k0 hn) (Pff.BridgeProofs.decFactsB n k0 hn core hW)
    H orig b hg.bytesOrig hg.bytesMsg hg.bytesEcc hg.kpos hg.kle hg.msgle hg.inside hg.eccLen hcap

/-- what C03 / C09 need of the codec (`CleanOps`, `IntraOps`) holds of the facade: lengths and
"a parity just produced passes the check" -/
theorem C03_clean_ops_A (algo n k0 : Nat) (ha : algo = 1 ∨ algo = 2 ∨ algo = 3) (hn : n ≤ 255)
    (core : Core (Elt pA)) (H : Bytes → Bytes)
    (en : Bool) (sym : Nat) (oe : Bool) :
    (∀ k m, 1 ≤ m.length → m.length ≤ k → k ≤ n → IsBytes m →
      ((opsOfFacade (codecA algo n k0) core H en sym oe).enc k m).length = n - k ∧
      (opsOfFacade (codecA algo n k0) core H en sym oe).chk k m ((opsOfFacade (codecA algo n k0) core H en sym oe).enc k m) = true) := by
  intro k m h1 h2 h3 _
  exact Pff.BridgeProofs.clean_ops (codecA algo n k0) core
    (Pff.BridgeProofs.codecFactsA algo n k0 ha hn) H en sym oe k m h1 h2 h3

theorem C03_clean_ops_B (n k0 : Nat) (hn : n ≤ 255)
    (core : Core (Elt pB)) (H : Bytes → Bytes) (en : Bool) (sym : Nat) (oe : Bool) :
    (∀ k m, 1 ≤ m.length → m.length ≤ k → k ≤ n → IsBytes m →
      ((opsOfFacade (codecB n k0) core H en sym oe).enc k m).length = n - k ∧
      (opsOfFacade (codecB n k0) core H en sym oe).chk k m ((opsOfFacade (codecB n k0) core H en sym oe).enc k m) = true) := by
  intro k m h1 h2 h3 _
  exact Pff.BridgeProofs.clean_ops (codecB n k0) core
    (Pff.BridgeProofs.codecFactsB n k0 hn) H en sym oe k m h1 h2 h3

end Pff.Bridge
