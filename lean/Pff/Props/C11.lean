import Pff.Props.RSSpec
import Pff.Proofs.RS
/-!
# C11 — the parity check accepts exactly the valid codewords within detection range

Property theorems only. General statements are over any `GoodCodec` (any field of characteristic 2
with a generator of order ≥ 255, any of the four algorithms, any `n ≤ 255`, any per-call `k`,
any message length `≤ k`); `C11_codecA_good` / `C11_codecB_good` instantiate them at the two
concrete GF(2^8) of `lib/eccman.py` (tables regenerated from the source constants).
-/
namespace Pff.RSSpec

open Pff.RS Pff.Facade Pff.GF

variable {F : Type} [Field F] [DecidableEq F]

/-- The source constants the concrete codec objects below are built from. -/
theorem C11_consts_tie :
    Pff.Consts.codecs = [(1, 3, 283, 1), (2, 3, 283, 1), (3, 3, 283, 1), (4, 2, 391, 120)] ∧
    Pff.Consts.fields = [(283, 3), (391, 2)] := by
  exact ⟨rfl, rfl⟩

/-- The tables of the two fields are the orbit of the generator under carry-less multiplication
modulo the primitive polynomial (ties the literals in `Consts.lean` to `prim` and `generator`). -/
theorem C11_tables_tie :
    (∀ i, i < 254 → gexp pA (i + 1) = clmulmod pA.prim 8 (gexp pA i) pA.gen) ∧ gexp pA 0 = 1 ∧
    (∀ i, i < 254 → gexp pB (i + 1) = clmulmod pB.prim 8 (gexp pB i) pB.gen) ∧ gexp pB 0 = 1 := by
  exact ⟨Pff.GFProofs.tie_spec Pff.GFProofs.chkTie_A, Pff.GFProofs.gexp_zero_A,
    Pff.GFProofs.tie_spec Pff.GFProofs.chkTie_B, Pff.GFProofs.gexp_zero_B⟩

/-- The byte type with the table multiplication of field A (0x11b, generator 3) is a field, with
exactly the model's `+` and `*`. -/
instance instFieldA : Field (Elt pA) := Pff.RSProofs.fieldA

instance instFieldB : Field (Elt pB) := Pff.RSProofs.fieldB

/-- `+ * 0 1 - / ⁻¹` of the two field instances are the model's own operations (by `rfl`). -/
theorem C11_fieldA_ops (a b : Elt pA) :
    instFieldA.toDistrib.toAdd.add a b = Pff.GF.Elt.instAdd.add a b ∧
    instFieldA.toDistrib.toMul.mul a b = Pff.GF.Elt.instMul.mul a b ∧
    instFieldA.toCommRing.toCommMonoid.toMonoid.toOne.one = (Pff.GF.Elt.instOne (p := pA)).one ∧
    instFieldA.toCommRing.toRing.toAddCommGroup.toAddGroup.toSubNegMonoid.toAddMonoid.toZero.zero
      = (Pff.GF.Elt.instZero (p := pA)).zero ∧
    instFieldA.toCommRing.toRing.toNeg.neg a = Pff.GF.Elt.instNeg.neg a ∧
    instFieldA.toCommRing.toRing.toSub.sub a b = Pff.GF.Elt.instSub.sub a b ∧
    instFieldA.toInv.inv a = Pff.GF.Elt.instInv.inv a ∧
    instFieldA.toDiv.div a b = Pff.GF.Elt.instDiv.div a b :=
  ⟨rfl, rfl, rfl, rfl, rfl, rfl, rfl, rfl⟩

theorem C11_fieldB_ops (a b : Elt pB) :
    instFieldB.toDistrib.toAdd.add a b = Pff.GF.Elt.instAdd.add a b ∧
    instFieldB.toDistrib.toMul.mul a b = Pff.GF.Elt.instMul.mul a b ∧
    instFieldB.toCommRing.toCommMonoid.toMonoid.toOne.one = (Pff.GF.Elt.instOne (p := pB)).one ∧
    instFieldB.toCommRing.toRing.toAddCommGroup.toAddGroup.toSubNegMonoid.toAddMonoid.toZero.zero
      = (Pff.GF.Elt.instZero (p := pB)).zero ∧
    instFieldB.toCommRing.toRing.toNeg.neg a = Pff.GF.Elt.instNeg.neg a ∧
    instFieldB.toCommRing.toRing.toSub.sub a b = Pff.GF.Elt.instSub.sub a b ∧
    instFieldB.toInv.inv a = Pff.GF.Elt.instInv.inv a ∧
    instFieldB.toDiv.div a b = Pff.GF.Elt.instDiv.div a b :=
  ⟨rfl, rfl, rfl, rfl, rfl, rfl, rfl, rfl⟩

/-- the `Zero One Add Mul` instances the generic model functions receive when they are elaborated
over a type carrying a `Field` instance (as in every general theorem below) -/
def opsOfField (F : Type) [Field F] : Zero F × One F × Add F × Mul F :=
  (inferInstance, inferInstance, inferInstance, inferInstance)

/-- … at the two concrete fields they are the model's own instances (by `rfl`). -/
theorem C11_field_model_ops :
    @opsOfField (Elt pA) instFieldA =
      (Pff.GF.Elt.instZero, Pff.GF.Elt.instOne, Pff.GF.Elt.instAdd, Pff.GF.Elt.instMul) ∧
    @opsOfField (Elt pB) instFieldB =
      (Pff.GF.Elt.instZero, Pff.GF.Elt.instOne, Pff.GF.Elt.instAdd, Pff.GF.Elt.instMul) :=
  ⟨rfl, rfl⟩

/-- codecs 1–3 are good codecs for every `n ≤ 255` -/
theorem C11_codecA_good (algo n k : Nat) (ha : algo = 1 ∨ algo = 2 ∨ algo = 3) (hn : n ≤ 255) :
    GoodCodec (codecA algo n k) := by
  exact Pff.RSProofs.goodCodec_of pA Pff.GFProofs.factsA (codecA algo n k) rfl
    (by rcases ha with h | h | h <;> simp [codecA, h]) hn

/-- codec 4 is a good codec for every `n ≤ 255` -/
theorem C11_codecB_good (n k : Nat) (hn : n ≤ 255) : GoodCodec (codecB n k) := by
  exact Pff.RSProofs.goodCodec_of pB Pff.GFProofs.factsB (codecB n k) rfl (by simp [codecB]) hn

/-- Intact data is never flagged: the check is true for every message paired with the parity
produced for it (any message length ≤ k, any per-call k). -/
theorem C11_accepts (c : Codec F) (hc : GoodCodec c) (msg : List F) (k : Nat)
    (hm : msg.length ≤ effK c k) (hk : effK c k ≤ c.n) :
    check c msg (encode c msg k) k = true := by
  have _ := hm; have _ := hk   -- (not needed: the check accepts whatever the lengths)
  exact Pff.RSProofs.check_encode c hc msg k

/-- Any corruption of between 1 and n−k symbols of message+parity (wherever they lie; the zero
padding of a short message is not part of the word) is detected. -/
theorem C11_detects (c : Codec F) (hc : GoodCodec c) (msg : List F) (k : Nat)
    (hm : msg.length ≤ effK c k) (hk : effK c k ≤ c.n)
    (msg' ecc' : List F) (hl : msg'.length = msg.length) (he : ecc'.length = c.n - effK c k)
    (h1 : 1 ≤ hdist (msg' ++ ecc') (msg ++ encode c msg k))
    (h2 : hdist (msg' ++ ecc') (msg ++ encode c msg k) ≤ c.n - effK c k) :
    check c msg' ecc' k = false := by
  exact Pff.RSProofs.detects c hc msg k hm hk msg' ecc' hl he h1 h2

/-- Truncated parity: a parity cut by `j` symbols is accepted iff the cut symbols were all zero. -/
theorem C11_truncated_parity (c : Codec F) (hc : GoodCodec c) (msg : List F) (k : Nat)
    (hm : msg.length ≤ effK c k) (hk : effK c k ≤ c.n) (j : Nat) (hj : j ≤ c.n - effK c k) :
    check c msg ((encode c msg k).take (c.n - effK c k - j)) k = true ↔
      ∀ x ∈ (encode c msg k).drop (c.n - effK c k - j), x = 0 := by
  exact Pff.RSProofs.truncated_parity c hc msg k hm hk j hj

end Pff.RSSpec
