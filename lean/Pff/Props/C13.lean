import Pff.Model.Ecc
import Pff.Proofs.Ecc
import Pff.Props.C04
/-!
# C13 — every prefix of an ecc file is usable (per-file logic on a truncated track)

Proved part of C13: for the (at most one) entry cut by the truncation, the block loops see a
truncated track. Whatever the cut offset: the blocks whose hash+parity lie wholly before the cut
are assembled identically and handled identically (same bytes written), and the output — if any —
has the length of the input file (`C04_length_*`, which hold for every track), so no file is
damaged on account of the incomplete last entry.  That entries lying wholly before the cut are
returned by the scanner with the same bounds is `C14_call` (the scanner's answer depends only on
the stream up to the next marker); termination and the entry-level glue are covered by the
correspondence check of this property on the real tools (every cut offset of generated files).
-/
namespace Pff.Ecc

open Pff.Layout

/-- length of the track consumed by the first `j` blocks -/
def consumed (blocks : List AsmBlock) (j : Nat) : Nat :=
  ((blocks.take j).map (fun b => b.hash.length + b.ecc.length)).sum

/-- Whole-file tool: blocks whose hash+parity end at or before the cut are assembled identically. -/
theorem C13_assemble_prefix_whole (kOf : Nat → Nat) (hashLen mbs : Nat) (content track : Bytes) (c j : Nat)
    (hpos : ∀ x, 1 ≤ hashLen + (mbs - kOf x))
    (hj : consumed (assemble kOf hashLen mbs content track (content.length + 1) 0 0) j ≤ c) :
    (assemble kOf hashLen mbs content (track.take c) (content.length + 1) 0 0).take j =
      (assemble kOf hashLen mbs content track (content.length + 1) 0 0).take j := by
  apply assemble_take_prefix kOf hashLen mbs content track c hpos
  unfold consumed at hj
  omega

/-- Header tool: same. -/
theorem C13_assemble_prefix_header (k hashLen mbs readLen : Nat) (content track : Bytes) (c j : Nat)
    (hpos : 1 ≤ hashLen + (mbs - k))
    (hj : consumed (assembleHeader k hashLen mbs readLen content track (content.length + 1) 0 0) j ≤ c) :
    (assembleHeader k hashLen mbs readLen content (track.take c) (content.length + 1) 0 0).take j =
      (assembleHeader k hashLen mbs readLen content track (content.length + 1) 0 0).take j := by
  apply assembleHeader_take_prefix k hashLen mbs readLen content track c hpos
  unfold consumed at hj
  exact Or.inr (by omega)

/-- The repair loop is sequential: block lists sharing their first `j` blocks write the same first
`j` blocks. -/
theorem C13_loop_prefix (O : Ops) (fast : Bool) (mbs thr : Nat) (l1 l2 : List AsmBlock) (j : Nat)
    (h : l1.take j = l2.take j) :
    (runLoop O fast mbs thr l1).written.take j = (runLoop O fast mbs thr l2).written.take j := by
  rw [runLoop_take O fast mbs thr l1 j, runLoop_take O fast mbs thr l2 j, h]

/-- The block cut by the truncation (incomplete stored ecc) is never replaced on the strength of
the ecc check: it is written as it is, or as a value matching its (complete) stored hash — so an
intact block is not damaged on account of the incomplete entry. -/
theorem C13_cut_block_safe (O : Ops) (fast : Bool) (mbs : Nat) (b : AsmBlock)
    (h : b.ecc.length < mbs - b.k) :
    (processBlock O fast mbs b).1 = b.msg ∨ O.H (processBlock O fast mbs b).1 = b.hash := by
  apply C04_truncated_ecc_needs_hash
  simp only [eccComplete, decide_eq_false_iff_not]
  omega

/-- No file is damaged on account of a truncated track: output length = input length (both tools). -/
theorem C13_length (O : Ops) (hlen : DecLen O) (fast : Bool) (thr k hashLen mbs readLen : Nat) (kOf : Nat → Nat)
    (content track : Bytes) (c : Nat) :
    (∀ out, (correctHeaderFile O fast thr k hashLen mbs readLen content (track.take c)).output = some out →
        out.length = content.length) ∧
    (∀ out, (correctWholeFile O fast thr kOf hashLen mbs content (track.take c)).output = some out →
        out.length = content.length) := by
  exact ⟨fun out h => C04_length_header O hlen fast thr k hashLen mbs readLen content _ out h,
    fun out h => C04_length_whole O hlen fast thr kOf hashLen mbs content _ out h⟩

end Pff.Ecc
