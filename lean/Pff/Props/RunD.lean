import Pff.Props.RunB
import Pff.Proofs.RunD
/-!
# The correction run as a whole — conservative repairs for ANY ecc file (C04 at the level of the run)

`C04_run_blockwise`: whatever bytes the ecc file holds (damaged anyhow, cut anywhere, entries
glued, garbage), whatever the decoder returns, every file the run writes is the *current* file of
that path in which a prefix of its blocks (header tool: the blocks of the protected header) was
replaced, block by block, by either the block itself or the value `processBlock` commits for it —
and by `C04_block` such a value is the block itself, or matches the stored hash, or passes the ecc
check with a complete stored parity (and by `C02_decode_within_radius` it then lies within the
capacity of the code for the real facade).  Nothing else is ever written: no byte outside those
blocks changes, no length changes.  `DecLen`: the decoder returns a message of the length it was
given (true of the facade).
-/
namespace Pff.Run

open Pff.Ecc Pff.Layout Pff.Entry Pff.Scan

theorem C04_run_blockwise (O : Ops) (hlen : DecLen O) (P : Params) (fs : FS) (stream : Bytes) :
    ∀ o ∈ (run O P fs stream).outcomes, ∀ out, o.effect = .wrote out →
      ∃ (content : Bytes) (blocks : List AsmBlock) (ws : List Bytes),
        fsLookup fs o.path = some content ∧
        ws.length ≤ blocks.length ∧
        (∀ i (b : AsmBlock), blocks[i]? = some b →
          b.off = ((blocks.take i).map (fun x => x.msg.length)).sum ∧
          b.msg = (content.drop b.off).take b.msg.length ∧ b.off + b.msg.length ≤ content.length) ∧
        out = ws.flatten ++ content.drop ws.flatten.length ∧
        (∀ (i : Nat) (w : Bytes), ws[i]? = some w → ∃ b, blocks[i]? = some b ∧
          (w = b.msg ∨ w = (processBlock O P.fast P.mbs b).1)) := by
  intro o ho out hout
  obtain ⟨content, hl, blocks, ws, h1, h2, h3, h4⟩ :=
    RunD.runLoopEntries_blockwise O hlen P fs stream _ _ o ho out hout
  exact ⟨content, blocks, ws, hl, h1, h2, h3, h4⟩

/-- … hence, block by block: unchanged, or hash-verified, or ecc-verified against a complete
stored parity. -/
theorem C04_run_conservative (O : Ops) (hlen : DecLen O) (P : Params) (fs : FS) (stream : Bytes) :
    ∀ o ∈ (run O P fs stream).outcomes, ∀ out, o.effect = .wrote out →
      ∃ (content : Bytes) (blocks : List AsmBlock) (ws : List Bytes),
        fsLookup fs o.path = some content ∧ out.length = content.length ∧
        out = ws.flatten ++ content.drop ws.flatten.length ∧ ws.length ≤ blocks.length ∧
        (∀ (i : Nat) (w : Bytes), ws[i]? = some w → ∃ b, blocks[i]? = some b ∧
          b.msg = (content.drop b.off).take b.msg.length ∧ w.length = b.msg.length ∧
          (w = b.msg ∨ O.H w = b.hash ∨
            ∃ e', O.dec b.k b.msg b.ecc = some (w, e') ∧ O.chk b.k w e' = true ∧ eccComplete P.mbs b = true)) := by
  intro o ho out hout
  obtain ⟨content, blocks, ws, hl, h1, h2, h3, h4⟩ := C04_run_blockwise O hlen P fs stream o ho out hout
  obtain ⟨content', hl', hlen'⟩ := C13_run_output_length O hlen P fs stream o ho out hout
  rw [hl] at hl'
  simp only [Option.some.injEq] at hl'
  subst hl'
  refine ⟨content, blocks, ws, hl, hlen', h3, h1, ?_⟩
  intro i w hw
  obtain ⟨b, hb, hwb⟩ := h4 i w hw
  obtain ⟨e1, e2⟩ := RunD.block_conservative O hlen P.fast P.mbs b w hwb
  exact ⟨b, hb, (h2 i b hb).2.1, e1, e2⟩

end Pff.Run
