import Pff.Model.Entry
import Pff.Proofs.EntryB
/-!
# C15 — the index companion locates every marker and restores them all

Property theorems only. `genIdx` = the records generation writes; `recoverIdx` = the index pass
of `pff recover` (the Hamming heuristic does nothing at threshold 0: its acceptance test
`0 < d ≤ round(len·0)` is never true — checked on every run of the correspondence).
-/
namespace Pff.Entry

open Pff.Ecc Pff.Entry.B

/-- Every index record holds the exact offset and kind of an entry marker (kind 1) or field
delimiter (kind 2) of the generated ecc file; five per entry, in file order. -/
theorem C15_offsets (pre : Bytes) (es : List EntryParts) :
    (genIdx pre.length es).length = 5 * es.length ∧
    ∀ ko ∈ genIdx pre.length es, ∃ m, markerOfKind ko.1 = some m ∧
      ((genEcc pre es).drop ko.2).take m.length = m := by
  obtain ⟨h1, h2⟩ := B.offsets pre es
  exact ⟨h1, h2⟩

/-- the bytes of `file'` outside the recorded marker spans are those of `file` -/
def AgreeOutside (recs : List (Nat × Nat)) (file file' : Bytes) : Prop :=
  file'.length = file.length ∧
  ∀ j, j < file.length →
    (∀ ko ∈ recs, ∀ m, markerOfKind ko.1 = some m → ¬ (ko.2 ≤ j ∧ j < ko.2 + m.length)) →
    file'[j]? = file[j]?

/-- With every marker overwritten by arbitrary bytes and every index block decoding to its
pristine marker infos (which contract W gives for up to 9 corrupted bytes per block: code (27,9)),
the index pass returns exactly the pristine ecc file. -/
theorem C15_recover (O : Ops) (nIdx kIdx : Nat) (pre : Bytes) (es : List EntryParts) (idx file' : Bytes)
    (hk : kIdx = 9) (hn : 1 ≤ nIdx)
    (hsmall : (genEcc pre es).length < 256 ^ 8)
    (hagree : AgreeOutside (genIdx pre.length es) (genEcc pre es) file')
    (hrecs : (chunks nIdx idx.length idx).map (decodeRecord O kIdx) =
        (genIdx pre.length es).map (fun ko => some (recBytes ko.1 ko.2))) :
    recoverIdx O nIdx kIdx idx file' = some (genEcc pre es) := by
  have _ := hk; have _ := hn
  obtain ⟨hlen, hag⟩ := hagree
  rw [recoverIdx_eq, foldl_step_eq, filterMap_of_map_eq _ (fun ko : Nat × Nat => recBytes ko.1 ko.2) _ _ hrecs]
  exact fold_recover (genEcc pre es) hsmall (genIdx pre.length es) file'
    (B.offsets pre es).2 hlen hag

/-- An index block damaged beyond repair (or truncated) is skipped without stopping the recovery
of the others: the result is that of the usable blocks alone. -/
theorem C15_skip (O : Ops) (nIdx kIdx : Nat) (idx file : Bytes) :
    recoverIdx O nIdx kIdx idx file =
      ((chunks nIdx idx.length idx).filterMap (decodeRecord O kIdx)).foldl
        (fun acc r => acc.bind (fun f => applyRecord f r)) (some file) := by
  rw [recoverIdx_eq, foldl_step_eq]

/-- A block whose check fails and that the decoder cannot repair (exception, or re-check fails) is
unusable, whatever its bytes. -/
theorem C15_unusable (O : Ops) (kIdx : Nat) (block : Bytes)
    (hchk : O.chk kIdx (block.take kIdx) (block.drop kIdx) = false)
    (hdec : O.dec kIdx (block.take kIdx) (block.drop kIdx) = none ∨
            ∃ m e, O.dec kIdx (block.take kIdx) (block.drop kIdx) = some (m, e) ∧ O.chk kIdx m e = false) :
    decodeRecord O kIdx block = none := by
  exact unusable O kIdx block hchk hdec

/-- Non-vacuity: a record decodes its own bytes. -/
example : beNat ((recBytes 2 70000).drop 1) = 70000 ∧ (recBytes 2 70000).head? = some 50 := by
  decide

end Pff.Entry
