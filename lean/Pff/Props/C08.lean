import Pff.Model.Entry
import Pff.Proofs.EntryC
import Pff.Props.C14
import Pff.Props.C10
import Pff.Props.C09
/-!
# C08 — ecc entries are independent: damage to one never affects the others

Property theorems only.  The ecc file is `build pre marker entries` (no global header: `pre` is a
comment preamble that is never parsed).  Damage confined to one entry replaces the bytes of that
entry by arbitrary bytes `V'` (any length); if its marker is destroyed its bytes are glued to the
previous entry.  Both cases are again a `build` of an entry list, so by the scanner theorems (C14)
every other entry is returned with exactly its own bytes; an entry whose track got trailing bytes
glued to it is split and assembled exactly as before (the extra bytes are never consumed); each
entry is processed by a function of its own bytes only.
-/
namespace Pff.Entry

open Pff.Ecc Pff.Layout Pff.Scan Pff.Entry.C

/-- the loop over all entries, with an arbitrary per-entry processing function (both tools hand
each entry's own bytes — and nothing else of the ecc file — to the per-entry code) -/
def correctAll {R : Type} (processEntry : Bytes → R) (stream mk : Bytes) (blocksize : Nat) : List R :=
  ((scanAll false stream mk blocksize (stream.length + 2) 0).map
      (fun ab => (stream.drop ab.1).take (ab.2 - ab.1))).map processEntry

/-- Whatever bytes `V'` replace entry `v` (as long as no additional marker is spelled), every
other entry is still returned, in order, with exactly its own bytes, and processed identically;
the run reaches the end of the file. -/
theorem C08_independent {R : Type} (processEntry : Bytes → R) (pre mk : Bytes) (entries : List Bytes)
    (blocksize v : Nat) (V' : Bytes) (hm : 0 < mk.length) (hv : v < entries.length)
    (hclean : NoAccidental pre mk (entries.set v V')) :
    correctAll processEntry (build pre mk (entries.set v V')) mk blocksize =
      (entries.set v V').map processEntry ∧
    ∀ j, j ≠ v → j < entries.length →
      (correctAll processEntry (build pre mk (entries.set v V')) mk blocksize)[j]? =
        some (processEntry (entries[j]?.getD [])) := by
  have h1 : correctAll processEntry (build pre mk (entries.set v V')) mk blocksize =
      (entries.set v V').map processEntry := by
    unfold correctAll
    exact loop_built processEntry pre mk (entries.set v V') blocksize hm hclean
  refine ⟨h1, ?_⟩
  intro j hj hlt
  rw [h1]
  exact getElem?_map_set_ne processEntry entries v j V' hj hlt

/-- Destroyed marker: the victim's bytes `G` (its damaged marker and everything after it) are
glued to the previous entry; all other entries are still returned with their own bytes. -/
theorem C08_glued {R : Type} (processEntry : Bytes → R) (pre mk : Bytes) (before after : List Bytes)
    (prev G : Bytes) (blocksize : Nat) (hm : 0 < mk.length)
    (hclean : NoAccidental pre mk (before ++ [prev ++ G] ++ after)) :
    correctAll processEntry (build pre mk (before ++ [prev ++ G] ++ after)) mk blocksize =
      before.map processEntry ++ [processEntry (prev ++ G)] ++ after.map processEntry := by
  have h1 : correctAll processEntry (build pre mk (before ++ [prev ++ G] ++ after)) mk blocksize =
      (before ++ [prev ++ G] ++ after).map processEntry := by
    unfold correctAll
    exact loop_built processEntry pre mk (before ++ [prev ++ G] ++ after) blocksize hm hclean
  rw [h1]
  simp only [List.map_append, List.map_cons, List.map_nil]

/-- An entry whose track got trailing bytes glued to it is split into the same fields… -/
theorem C08_fields_ignore_trailing (p : EntryParts) (G : Bytes) (hp : p.path ≠ [])
    (h1 : Clean p.path) (h2 : Clean p.sizeTxt) (h3 : Clean p.pathEcc) (h4 : Clean p.sizeEcc) :
    entryFields ((genEntry { p with track := p.track ++ G }).drop marker.length) =
      entryFields ((genEntry p).drop marker.length) := by
  exact fields_ignore_trailing p G hp h1 h2 h3 h4

/-- … and its blocks are assembled exactly as without the trailing bytes, in both tools: the
extra bytes are never consumed (whole-file tool: the file is exhausted first). -/
theorem C08_overlong_track_whole (kOf : Nat → Nat) (hk : ∀ x, 1 ≤ kOf x) (hashLen mbs : Nat)
    (H : Bytes → Bytes) (enc : Nat → Bytes → Bytes)
    (hH : ∀ m, (H m).length = hashLen)
    (henc : ∀ k m, 1 ≤ m.length → m.length ≤ k → (enc k m).length = mbs - k)
    (hpos : ∀ x, 1 ≤ hashLen + (mbs - kOf x))
    (content G : Bytes) :
    assemble kOf hashLen mbs content (genTrack H enc kOf content ++ G) (content.length + 1) 0 0 =
      assemble kOf hashLen mbs content (genTrack H enc kOf content) (content.length + 1) 0 0 := by
  exact assemble_trailing_whole kOf hk hashLen mbs H enc hH henc hpos content G

theorem C08_overlong_track_header (k hashLen mbs headerSize : Nat) (hk : 1 ≤ k)
    (H : Bytes → Bytes) (enc : Nat → Bytes → Bytes)
    (hH : ∀ m, (H m).length = hashLen)
    (henc : ∀ m, 1 ≤ m.length → m.length ≤ k → (enc k m).length = mbs - k)
    (hpos : 1 ≤ hashLen + (mbs - k))
    (content G : Bytes) :
    assembleHeader k hashLen mbs headerSize content (genTrackHeader H enc k headerSize content ++ G)
        (content.length + 1) 0 0 =
      assembleHeader k hashLen mbs headerSize content (genTrackHeader H enc k headerSize content)
        (content.length + 1) 0 0 := by
  exact assembleHeader_trailing k hashLen mbs headerSize hk H enc hH henc hpos content G

end Pff.Entry
