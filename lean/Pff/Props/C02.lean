import Pff.Props.RSSpec
import Pff.Props.C11
import Pff.Props.C12
import Pff.Proofs.RSGuard
import Pff.Proofs.Sound
/-!
# C02 — the Reed–Solomon facade corrects every pattern within its capacity

Property theorems only. The third-party decoders are the parameter `core`, assumed to satisfy
contract W (`CoreW`, see `RSSpec.lean`); `C02_contract_consistent` shows W is satisfiable (the
codeword within capacity is unique), so no theorem below is vacuous.
-/
namespace Pff.RSSpec

open Pff.RS Pff.Facade Pff.GF

variable {F : Type} [Field F] [DecidableEq F]

/-- Encoding a message of at most k bytes yields exactly n−k parity bytes. -/
theorem C02_encode_length (c : Codec F) (hc : GoodCodec c) (msg : List F) (k : Nat)
    (hm : msg.length ≤ effK c k) (hk : effK c k ≤ c.n) :
    (encode c msg k).length = c.n - effK c k := by
  have _ := hm; have _ := hk   -- (not needed)
  exact Pff.RSProofs.length_encode c hc msg k

/-- A short message behaves as if left-padded with zeros. -/
theorem C02_short_as_padded (c : Codec F) (hc : GoodCodec c) (msg : List F) (k : Nat)
    (hm : msg.length ≤ effK c k) (hk : effK c k ≤ c.n) :
    encode c msg k = encode c (List.replicate (effK c k - msg.length) 0 ++ msg) k := by
  have _ := hc; have _ := hk   -- (not needed)
  exact Pff.RSProofs.short_as_padded c msg k hm

/-- Zero padding is never mistaken for an erasure: the positions handed to the library are
exactly the positions of the erasure symbol in the received `message ++ ecc`, shifted by the pad
length (so none of them lies inside the pad). -/
theorem C02_pad_not_erasure (c : Codec F) (msg ecc : List F) (k : Nat) (ec : F) (oe : Bool)
    (call : CoreCall F) (h : prepareDecode c msg ecc k true ec oe = some call) :
    call.erasePos = some (((List.range (msg ++ ecc).length).filter
        (fun i => (msg ++ ecc)[i]? = some ec)).map (· + call.padLen)) ∧
    call.padLen = effK c k - msg.length ∧
    call.word.take call.padLen = List.replicate call.padLen 0 := by
  exact Pff.RSProofs.pad_not_erasure c msg ecc k ec oe call h

/-- Uniqueness behind contract W: two codewords within capacity of the same received word (same
erasure set) coincide. -/
theorem C02_decode_unique (c : Codec F) (hc : GoodCodec c) (nsym : Nat) (hns : nsym ≤ c.n)
    (word cw cw' : List F) (hw : word.length = c.n) (h1 : cw.length = c.n) (h2 : cw'.length = c.n)
    (hc1 : rsCheck c.pw c.fcr nsym cw = true) (hc2 : rsCheck c.pw c.fcr nsym cw' = true)
    (E : Option (List Nat)) (oe : Bool)
    (hcap1 : WithinCap word cw nsym E oe) (hcap2 : WithinCap word cw' nsym E oe) :
    cw = cw' := by
  have _ := hns   -- (not needed)
  exact Pff.RSProofs.decode_unique c hc nsym word cw cw' hw h1 h2 hc1 hc2 E oe hcap1 hcap2

/-- Contract W is satisfiable for every good codec. -/
theorem C02_contract_consistent (c : Codec F) (hc : GoodCodec c) : ∃ core : Core F, CoreW c core := by
  exact Pff.RSProofs.contract_consistent c hc

/-- Errors only (erasure handling off): any received word within ⌊(n−k)/2⌋ wrong symbols of
message+parity decodes to exactly the original message and parity. -/
theorem C02_decode_exact_errors (c : Codec F) (hc : GoodCodec c) (core : Core F) (hW : CoreW c core)
    (msg : List F) (k : Nat) (hm : msg.length ≤ effK c k) (hk : effK c k ≤ c.n)
    (msg' ecc' : List F) (hl : msg'.length = msg.length) (he : ecc'.length = c.n - effK c k)
    (hcap : 2 * hdist (msg' ++ ecc') (msg ++ encode c msg k) ≤ c.n - effK c k) :
    decode core c msg' ecc' k false 0 false = .ok (msg, encode c msg k) := by
  exact Pff.RSProofs.decode_exact_errors c hc core hW msg k hm hk msg' ecc' hl he hcap

/-- Errors and erasures (erasure handling on, erasure symbol `ec`): with `f` = number of received
positions holding the erasure symbol and `e` = number of other positions that are wrong,
`2e + f ≤ n−k` ⇒ exact original message and parity. -/
theorem C02_decode_exact_erasures (c : Codec F) (hc : GoodCodec c) (core : Core F) (hW : CoreW c core)
    (msg : List F) (k : Nat) (hm : msg.length ≤ effK c k) (hk : effK c k ≤ c.n)
    (msg' ecc' : List F) (hl : msg'.length = msg.length) (he : ecc'.length = c.n - effK c k) (ec : F)
    (hcap : 2 * errorsOutside (msg' ++ ecc') (msg ++ encode c msg k)
                ((List.range (msg' ++ ecc').length).filter (fun i => (msg' ++ ecc')[i]? = some ec))
            + ((List.range (msg' ++ ecc').length).filter (fun i => (msg' ++ ecc')[i]? = some ec)).length
            ≤ c.n - effK c k) :
    decode core c msg' ecc' k true ec false = .ok (msg, encode c msg k) := by
  exact Pff.RSProofs.decode_exact_erasures c hc core hW msg k hm hk msg' ecc' hl he ec hcap

/-- **No contract assumed**: whatever the third-party decoder `core` returns, a successful
`decode` that consulted it made corrections within the capacity of the code — counted on the
padded received word handed to the library: `2·(corrected positions outside the erasure list) +
(erasures) ≤ n−k`.  (The guard added to `ECCMan.decode` by the repair of the miscorrection
defect; before it, a beyond-capacity result of the library — another valid codeword — was
returned as a successful repair.) -/
theorem C02_decode_within_radius (c : Codec F) (core : Core F) (msg ecc : List F) (k : Nat)
    (en : Bool) (ec : F) (oe : Bool) (call : CoreCall F) (m' e' : List F)
    (hprep : prepareDecode c msg ecc k en ec oe = some call)
    (hdec : decode core c msg ecc k en ec oe = .ok (m', e')) :
    ∃ mr er, m' = mr.drop call.padLen ∧ e' = er ∧
      2 * correctedErrors call.word (mr ++ er) (call.erasePos.getD []) + (call.erasePos.getD []).length ≤ call.nsym := by
  exact Pff.RSProofs.decode_within_radius c core msg ecc k en ec oe call m' e' hprep hdec

/-- the erasure positions `decode` detects on the received `message ++ ecc` (none when erasure
handling is off; `--only_erasures` alone turns it on, as repaired) -/
def detectedErasures (msg ecc : List F) (en oe : Bool) (ec : F) : List Nat :=
  if en || oe then (List.range (msg ++ ecc).length).filter (fun i => (msg ++ ecc)[i]? = some ec) else []

/-- Full-length blocks (no padding), any decoder: the repaired message and parity returned by a
successful `decode` differ from the received ones within the capacity of the code, or are the
received ones themselves (early return of the only-erasures mode). -/
theorem C02_decode_full_block_within_radius (c : Codec F) (core : Core F) (msg ecc : List F) (k : Nat)
    (en : Bool) (ec : F) (oe : Bool) (m' e' : List F)
    (hm : msg.length = effK c k) (he : ecc.length = c.n - effK c k)
    (hdec : decode core c msg ecc k en ec oe = .ok (m', e')) :
    (m' = msg ∧ e' = ecc) ∨
    2 * correctedErrors (msg ++ ecc) (m' ++ e') (detectedErasures msg ecc en oe ec)
      + (detectedErasures msg ecc en oe ec).length ≤ c.n - effK c k := by
  exact Pff.RSProofs.decode_full_block_within_radius c core msg ecc k en ec oe m' e' hm he hdec

/-- **Soundness without any contract.**  For an ARBITRARY third-party decoder `core`: if the
received message+parity is within the capacity of the code around the original (`2e ≤ n−k`, or
with erasure handling `2e + f ≤ n−k`), and `decode` returns a result of the right lengths that
passes `check`, then that result IS the original message and its parity.  (The result is a
codeword by the check, it differs from the received word within capacity by the guard inside
`decode`, the original does so by hypothesis: two codewords that close to one word coincide —
minimum distance.)  Contract W is thus needed only for *liveness* — that the decoder does return
something within capacity — never for the correctness of what the tools commit on an ecc check. -/
theorem C02_decode_sound (c : Codec F) (hc : GoodCodec c) (core : Core F)
    (msg : List F) (k : Nat) (hm : msg.length ≤ effK c k) (hk : effK c k ≤ c.n)
    (msg' ecc' : List F) (hl : msg'.length = msg.length) (he : ecc'.length = c.n - effK c k)
    (en : Bool) (ec : F) (oe : Bool)
    (hcap : if en || oe then
        2 * errorsOutside (msg' ++ ecc') (msg ++ encode c msg k) (detectedErasures msg' ecc' en oe ec)
          + (detectedErasures msg' ecc' en oe ec).length ≤ c.n - effK c k
      else 2 * hdist (msg' ++ ecc') (msg ++ encode c msg k) ≤ c.n - effK c k)
    (m'' e'' : List F) (hdec : decode core c msg' ecc' k en ec oe = .ok (m'', e''))
    (hml : m''.length = msg.length) (hel : e''.length = c.n - effK c k)
    (hchk : check c m'' e'' k = true) :
    m'' = msg ∧ e'' = encode c msg k := by
  exact Pff.RSProofs.decode_sound c hc core msg k hm hk msg' ecc' hl he en ec oe hcap m'' e'' hdec
    hml hel hchk

end Pff.RSSpec
