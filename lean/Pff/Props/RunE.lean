import Pff.Props.RunD
import Pff.Proofs.RunE
/-!
# No ecc track, no write (the rule repaired as F31, at the level of the run)

An entry whose fourth field delimiter is missing (ecc file cut inside the metadata, delimiter
destroyed) has no ecc track: `entryFields` then places the track at the end of the entry
(`C13_fields_no_fourth_delim`), and an entry whose track is empty is never a reason to write
anything: the file, if found, is reported uncorrupted and nothing is written
(`C13_run_no_track_no_write`), whatever the options, the hash, the decoder and the file hold —
in particular with erasure handling on and a file of null bytes, the case of the repaired defect.
-/
namespace Pff.Run

open Pff.Ecc Pff.Layout Pff.Entry Pff.Scan

/-- without a fourth delimiter the track offset is the end of the (stripped) entry -/
theorem C13_fields_no_fourth_delim (e0 : Bytes)
    (h : pyFind delim (stripDelims e0.length e0)
          (pyFind delim (stripDelims e0.length e0)
            (pyFind delim (stripDelims e0.length e0)
              (pyFind delim (stripDelims e0.length e0) 0 + (delim.length : Int)) + (delim.length : Int))
            + (delim.length : Int)) < 0) :
    (entryFields e0).trackOff = ((stripDelims e0.length e0).length : Int) :=
  entryFields_trackOff_of_neg e0 h

/-- more generally (second repair): if ANY of the four delimiter searches fails — after a failed
search the next one starts over from index 4 of the entry and may find an earlier delimiter again,
so the last result alone says nothing — the track offset is the end of the entry -/
theorem C13_fields_missing_delim (e0 : Bytes)
    (h : let e := stripDelims e0.length e0
         let d : Int := delim.length
         let first := pyFind delim e 0
         let second := pyFind delim e (first + d)
         let third := pyFind delim e (second + d)
         let fourth := pyFind delim e (third + d)
         first < 0 ∨ second < 0 ∨ third < 0 ∨ fourth < 0) :
    (entryFields e0).trackOff = ((stripDelims e0.length e0).length : Int) := by
  simp only [entryFields]
  rw [if_pos h]

/-- an entry whose ecc track is empty (whole-file tool: the track starts at the end of the entry;
header tool: the track offset is not inside the entry) never writes anything and never reports a
corruption -/
theorem C13_run_no_track_no_write (O : Ops) (P : Params) (fs : FS) (stream : Bytes) (a b : Nat)
    (h : (P.tool = .whole ∧ (locate O P fs stream a b).trackStartAbs = b) ∨
         (P.tool = .header ∧
           ((locate O P fs stream a b).body.length : Int) ≤ (locate O P fs stream a b).fields.trackOff)) :
    (processEntry O P fs stream a b).effect = Effect.none ∧
    (processEntry O P fs stream a b).result.corrupted = false :=
  processEntry_no_track O P fs stream a b h

end Pff.Run
