import Pff.Model.Path
import Pff.Proofs.Path3
/-!
# Path handling and root relocation (C03, C05, C12, C16, C17: "copied or moved to a different root";
C07: relative components)

The tools record `path2unix(os.path.relpath(os.path.join(dirpath, filename), rootfolderpath))` at
generation time and open `os.path.join(rootfolderpath, relfilepath)` at check time, the root being
`fullpath(argument)`.  These theorems are about the line-by-line model of those functions
(`Pff/Model/Path.lean`, tied to the real `os.path` / `pathlib` / `lib.aux_funcs` functions by the
correspondence check):

* `PATH_abspath_good` — whatever the argument, `fullpath` returns a normalised absolute path;
* `PATH_gen_root_independent` — what generation records for a tree does not depend on where the tree
  is mounted: it is the '/'-joined relative components of every file (`relFS`);
* `PATH_mount_eq`, `PATH_join_injective`, `PATH_lookup_relocated` — the absolute path opened for a
  recorded relative path under ANY root is exactly the path of that file in the walk of that root,
  so looking a relative path up in the relocated tree is looking it up in `relFS`;
* `PATH_relFS_nodup` — distinct files have distinct recorded paths;
* `PATH_single_file` — single-file input: root = `dirname`, recorded path = `basename`;
* `PATH_relpath_posix` — the component list `pff dup` aligns replicas on;
* `C12_recorded_root_independent` — what is recorded is the same for any two roots;
* (`Props/PathRun.lean`) `C03_run_relocated` — composed with the run-level theorem: an ecc file
  generated from a tree mounted at one root verifies clean against the same tree mounted at any
  other root.
-/
namespace Pff.Path

theorem PATH_abspath_good (cwd p : Bytes) (hc : GoodRoot cwd) : GoodRoot (abspath cwd p) :=
  abspath_good cwd p hc

theorem PATH_gen_root_independent (cwd root : Bytes) (t : PTree) (hr : GoodRoot root) (ht : PlainTree t) :
    genFS cwd root t = (relFS t).map (fun e => (some e.1, e.2)) :=
  genFS_eq cwd root t hr ht

theorem PATH_mount_eq (root : Bytes) (t : PTree) (hr : GoodRoot root) (ht : PlainTree t) :
    mountAbs root t = (relFS t).map (fun e => (join2 root e.1, e.2)) :=
  mountAbs_eq root t hr ht

theorem PATH_join_injective (root a b : Bytes) (hr : GoodRoot root)
    (ha : a.head? ≠ some sep) (hb : b.head? ≠ some sep) (h : join2 root a = join2 root b) : a = b :=
  join2_injective root a b hr ha hb h

theorem PATH_relFS_nodup (t : PTree) (ht : PlainTree t) (hd : DistinctTree t) :
    ((relFS t).map (·.1)).Nodup :=
  relFS_nodup t ht hd

/-- recorded paths never begin with a slash, are non-empty and hold no NUL unless a name does -/
theorem PATH_relFS_relative (t : PTree) (ht : PlainTree t) :
    ∀ e ∈ relFS t, e.1 ≠ [] ∧ e.1.head? ≠ some sep :=
  relFS_relative t ht

theorem PATH_lookup_relocated (root : Bytes) (t : PTree) (hr : GoodRoot root) (ht : PlainTree t)
    (rel : Bytes) (hrel : rel.head? ≠ some sep) :
    ((mountAbs root t).find? (fun e => e.1 == join2 root rel)).map (·.2) =
      ((relFS t).find? (fun e => e.1 == rel)).map (·.2) :=
  lookup_relocated root t hr ht rel hrel

theorem PATH_single_file (cwd pre : Bytes) (comps : List Bytes) (f : Bytes)
    (hpre : pre = [sep] ∨ pre = [sep, sep]) (hc : ∀ c ∈ comps, Plain c) (hf : Plain f) :
    let p := pre ++ joinSlash (comps ++ [f])
    basename p = f ∧ dirname p = pre ++ joinSlash comps ∧ join2 (dirname p) (basename p) = p ∧
      (relpath cwd (join2 (dirname p) (basename p)) (dirname p)).bind path2unix = some f := by
  intro p
  obtain ⟨hb, hd⟩ := single_file_parts pre comps f hpre hc hf
  have hj : join2 (dirname p) (basename p) = p := by
    show join2 (dirname (pre ++ joinSlash (comps ++ [f]))) (basename (pre ++ joinSlash (comps ++ [f]))) = _
    rw [hb, hd]
    exact join2_good_one pre comps f hpre hc hf
  refine ⟨hb, hd, hj, ?_⟩
  have := gen_entry cwd pre comps [] f hpre hc (by intro c h; simp at h) hf
  rw [hj]
  show (relpath cwd p (dirname (pre ++ joinSlash (comps ++ [f])))).bind path2unix = some f
  rw [hd]
  rw [List.foldl_nil, join2_good_one pre comps f hpre hc hf] at this
  exact this

theorem PATH_relpath_posix (cwd root : Bytes) (ds : List Bytes) (f : Bytes) (hr : GoodRoot root)
    (hds : ∀ d ∈ ds, Plain d) (hf : Plain f) :
    relpathPosix cwd (ds.foldl join2 root) f root = some (ds ++ [f]) := by
  obtain ⟨pre, comps, hpre, hc, rfl⟩ := hr
  exact relpathPosix_good cwd pre comps ds f hpre hc hds hf

/-- C12, relocation clause: what generation records (hence the ecc body, a function of the recorded
paths, the contents and the parameters: `Pff.Run.genStream`) is the same for every root the tree
is mounted at -/
theorem C12_recorded_root_independent (cwd r1 r2 : Bytes) (t : PTree) (hr1 : GoodRoot r1) (hr2 : GoodRoot r2)
    (ht : PlainTree t) : genFS cwd r1 t = genFS cwd r2 t := by
  rw [PATH_gen_root_independent cwd r1 t hr1 ht, PATH_gen_root_independent cwd r2 t hr2 ht]

/-! non-vacuity: a concrete tree, two roots -/

def toyTree : PTree :=
  .node [([97], [1, 2, 3]), ([46, 98], [])] [([100], .node [([97], [4])] [([101, 32, 102], .node [([103], [5, 6])] [])])]

example : PlainTree toyTree ∧ DistinctTree toyTree := by
  refine ⟨?_, ?_⟩ <;> simp [toyTree, PlainTree, PlainTree.PlainDirs, DistinctTree, DistinctTree.DistinctDirs, Plain, sep, dot]

example : GoodRoot [47, 114] ∧ GoodRoot [47] :=
  ⟨⟨[47], [[114]], by simp [sep], by simp [Plain, sep, dot], by simp [joinSlash]⟩,
   ⟨[47], [], by simp [sep], by simp, by simp [joinSlash]⟩⟩

/-- `fullpath` is idempotent: the root the tools compute is a fixed point of the normalisation, so
handing it to `fullpath` / `relpath` again (as `recwalk` and `os.path.relpath` do internally) changes
nothing -/
theorem PATH_abspath_idempotent (cwd cwd' p : Bytes) (hc : GoodRoot cwd) :
    abspath cwd' (abspath cwd p) = abspath cwd p := by
  obtain ⟨pre, comps, hpre, hplain, h⟩ := PATH_abspath_good cwd p hc
  rw [h]
  exact abspath_good_id cwd' pre comps hpre hplain

/-- a normalised absolute path is its own normal form -/
theorem PATH_normpath_good (r : Bytes) (hr : GoodRoot r) : normpath r = r := by
  obtain ⟨pre, comps, hpre, hplain, rfl⟩ := hr
  exact normpath_good pre comps hpre hplain

/-- the relative path of the root to itself is "." and of a walked file never starts with ".." -/
theorem PATH_relpath_root_self (cwd r : Bytes) (hr : GoodRoot r) : relpath cwd r r = some [dot] := by
  obtain ⟨pre, comps, hpre, hplain, rfl⟩ := hr
  have h := relpath_good cwd pre comps [] hpre hplain (by intro c hc; simp at hc)
  rw [List.append_nil, if_pos rfl] at h
  exact h

end Pff.Path
