import Pff.Props.Chain2
import Pff.Proofs.Sound2
/-!
# Soundness of committed repairs without contract W (C01 / C04 / C09, safety half)

Contract W (the third-party decoders return the codeword within capacity) is an *assumption*
about code outside /repo.  These theorems show how little depends on it: for an ARBITRARY decoder,
whatever the tools commit for a block that is within capacity IS the original block —

* `C02_decode_sound` (in `Props/C02.lean`): facade level;
* `C01_block_sound_A/B`: a block within capacity (bytes), any decoder returning words of the
  lengths it was given, hash not colliding on this block: if `processBlock` reports the block
  intact or repaired, the bytes written are the original ones;
* `C01_file_sound_whole/header`: a file all of whose blocks satisfy that and that the tool reports
  completely repaired (or untouched) is written out equal to the original / original header;

so W is needed only for liveness (that within capacity the decoder does return, hence "exit 0"),
never for the correctness of a file reported as repaired.
-/
namespace Pff.Sound

open Pff.GF Pff.Facade Pff.Ecc Pff.Layout Pff.RSSpec Pff.Entry Pff.Scan Pff.Run Pff.Bridge Pff.Chain

/-- capacity of a received block around the original, in bytes, for the erasure options in force -/
def BlockWithinCap (O : Ops) (n : Nat) (en oe : Bool) (sym : Nat) (orig : List Nat) (b : AsmBlock) : Prop :=
  if en || oe then
    2 * errorsOutside (b.msg ++ b.ecc) (origMsg orig b ++ O.enc b.k (origMsg orig b)) (erasedPos (b.msg ++ b.ecc) sym)
      + (erasedPos (b.msg ++ b.ecc) sym).length ≤ n - b.k
  else 2 * hdist (b.msg ++ b.ecc) (origMsg orig b ++ O.enc b.k (origMsg orig b)) ≤ n - b.k

/-- the decoder returns words of the lengths it was given (all that is asked of it here) -/
def DecLens (O : Ops) (n : Nat) (b : AsmBlock) : Prop :=
  ∀ m' e', O.dec b.k b.msg b.ecc = some (m', e') → m'.length = b.msg.length ∧ e'.length = n - b.k

/-- what a block reported intact or repaired holds -/
def BlockSound (O : Ops) (fast : Bool) (n : Nat) (orig : List Nat) (b : AsmBlock) : Prop :=
  (processBlock O fast n b).2 ≠ BlockStatus.failed → (processBlock O fast n b).1 = origMsg orig b

theorem C01_block_sound_A (algo n k0 sym : Nat) (ha : algo = 1 ∨ algo = 2 ∨ algo = 3) (hn : n ≤ 255) (hsym : sym < 256)
    (core : Core (Elt pA)) (H : List Nat → List Nat) (fast en oe : Bool)
    (orig : List Nat) (b : AsmBlock) (hg : BlockGeom n orig b)
    (hcap : BlockWithinCap (opsOfFacade (codecA algo n k0) core H en sym oe) n en oe sym orig b)
    (hlens : DecLens (opsOfFacade (codecA algo n k0) core H en sym oe) n b)
    (hcoll : ∀ w, H w = b.hash → w = origMsg orig b) :
    BlockSound (opsOfFacade (codecA algo n k0) core H en sym oe) fast n orig b := by
  exact Pff.SoundProofs.blockSound_generic (codecA algo n k0) core
    (Pff.SoundProofs.soundFactsA algo n k0 ha hn core) H fast en oe sym hsym orig b hg hcap hlens hcoll

theorem C01_block_sound_B (n k0 sym : Nat) (hn : n ≤ 255) (hsym : sym < 256)
    (core : Core (Elt pB)) (H : List Nat → List Nat) (fast en oe : Bool)
    (orig : List Nat) (b : AsmBlock) (hg : BlockGeom n orig b)
    (hcap : BlockWithinCap (opsOfFacade (codecB n k0) core H en sym oe) n en oe sym orig b)
    (hlens : DecLens (opsOfFacade (codecB n k0) core H en sym oe) n b)
    (hcoll : ∀ w, H w = b.hash → w = origMsg orig b) :
    BlockSound (opsOfFacade (codecB n k0) core H en sym oe) fast n orig b := by
  exact Pff.SoundProofs.blockSound_generic (codecB n k0) core
    (Pff.SoundProofs.soundFactsB n k0 hn core) H fast en oe sym hsym orig b hg hcap hlens hcoll

/-- whole-file tool, any `Ops`: if every assembled block is sound and the blocks cover the file,
then an output reported as a complete repair is the original file -/
theorem C01_file_sound_whole (O : Ops) (fast : Bool) (thr hashLen mbs : Nat) (kOf : Nat → Nat)
    (orig damaged trackD : List Nat) (hlen : damaged.length = orig.length)
    (hcover : ((assemble kOf hashLen mbs damaged trackD (damaged.length + 1) 0 0).map (·.msg)).flatten = damaged)
    (hsound : ∀ b ∈ assemble kOf hashLen mbs damaged trackD (damaged.length + 1) 0 0, BlockSound O fast mbs orig b)
    (out : List Nat)
    (hout : (correctWholeFile O fast thr kOf hashLen mbs damaged trackD).output = some out)
    (hcomplete : (correctWholeFile O fast thr kOf hashLen mbs damaged trackD).complete = true) :
    out = orig := by
  exact Pff.SoundProofs.file_sound_whole O fast thr hashLen mbs kOf orig damaged trackD hlen hcover
    hsound out hout hcomplete

/-- header tool, any `Ops`: likewise for the protected header -/
theorem C01_file_sound_header (O : Ops) (fast : Bool) (thr k hashLen mbs readLen : Nat)
    (orig damaged trackD : List Nat) (hlen : damaged.length = orig.length)
    (hcover : ((assembleHeader k hashLen mbs readLen damaged trackD (damaged.length + 1) 0 0).map (·.msg)).flatten
                = damaged.take readLen)
    (hsound : ∀ b ∈ assembleHeader k hashLen mbs readLen damaged trackD (damaged.length + 1) 0 0, BlockSound O fast mbs orig b)
    (out : List Nat)
    (hout : (correctHeaderFile O fast thr k hashLen mbs readLen damaged trackD).output = some out)
    (hcomplete : (correctHeaderFile O fast thr k hashLen mbs readLen damaged trackD).complete = true) :
    out = orig.take readLen ++ damaged.drop readLen := by
  exact Pff.SoundProofs.file_sound_header O fast thr k hashLen mbs readLen orig damaged trackD hlen
    hcover hsound out hout hcomplete

end Pff.Sound
