import Pff.Model.Tamper
import Pff.Proofs.Tamper
/-!
# C19 — the tampering tool damages only what it says, and never the length

Property theorems only. Every theorem is for **every** oracle stream `ρ` (all seeds, all
probabilities), every file content and size, every parameter set.
-/
namespace Pff.Tamper

/-- The file length never changes. -/
theorem C19_length (P : Params) (content : Bytes) (ρ : List Nat) :
    (tamperFile P content ρ).content.length = content.length := by
  exact tamperFile_length P content ρ

/-- With `--header h` no byte at offset ≥ h is touched. -/
theorem C19_region (P : Params) (h : Nat) (hP : P.header = some h) (content : Bytes) (ρ : List Nat) :
    (tamperFile P content ρ).content.drop h = content.drop h := by
  exact tamperFile_region P h hP content ρ

/-- In erasure mode every altered byte is zero. -/
theorem C19_erasure_zero (P : Params) (hP : P.mode = .erasure) (content : Bytes) (ρ : List Nat)
    (i : Nat) (hi : i < content.length)
    (hne : (tamperFile P content ρ).content[i]? ≠ content[i]?) :
    (tamperFile P content ρ).content[i]? = some 0 := by
  have _ := hi
  rcases tamperFile_erasure P hP content ρ i with h | h
  · exact absurd h hne
  · exact h

/-- The reported count is at least the number of bytes that really differ and at most the size
scanned, which is at most the size of the selected region. -/
theorem C19_count_bounds (P : Params) (content : Bytes) (ρ : List Nat) :
    diffCount (tamperFile P content ρ).content content ≤ (tamperFile P content ρ).count ∧
    (tamperFile P content ρ).count ≤ (tamperFile P content ρ).total ∧
    (tamperFile P content ρ).total ≤
      (match P.header with | some h => min h content.length | none => content.length) := by
  exact tamperFile_bounds P content ρ

/-- Probability 0 (every `random.random() < x` outcome False) leaves the file identical and
reports zero tampered characters. -/
theorem C19_p0_identity (P : Params) (content : Bytes) (ρ : List Nat) (hρ : ∀ x ∈ ρ, x = 0) :
    (tamperFile P content ρ).content = content ∧ (tamperFile P content ρ).count = 0 := by
  exact tamperFile_allZero P content ρ hρ

/-- Given a directory, every file of the walk is visited exactly once, in order, none is added or
dropped, and every length is preserved. -/
theorem C19_dir_once (P : Params) (files : List (String × Bytes)) (ρ : List Nat) :
    (tamperDir P files ρ).files.map (·.1) = files.map (·.1) ∧
    (tamperDir P files ρ).files.map (·.2.length) = files.map (·.2.length) ∧
    (tamperDir P files ρ).filesCount = files.length := by
  exact tamperDir_once P files ρ

/-- Each file of a directory is tampered exactly as `tamper_file` would with the oracle left by
its predecessors; in particular a single file behaves as a one-file directory. -/
theorem C19_single_as_dir (P : Params) (p : String) (c : Bytes) (ρ : List Nat) :
    (tamperDir P [(p, c)] ρ).files = [(p, (tamperFile P c ρ).content)] ∧
    (tamperDir P [(p, c)] ρ).count = (tamperFile P c ρ).count ∧
    (tamperDir P [(p, c)] ρ).total = (tamperFile P c ρ).total := by
  refine ⟨rfl, ?_, ?_⟩
  · simp only [tamperDir]
    split <;> omega
  · simp only [tamperDir]
    omega

/-- Non-vacuity: a concrete noisy run with a burst that is cut at the block boundary. -/
example : (tamperFile { mode := .noise, blockCoin := false, burst := true, header := none, blocksize := 4 }
            [1,2,3,4,5,6] [0,0,1,5,0,7,8,9,0,0]).content = [1,2,0,7,0,0] := by
  decide

end Pff.Tamper
