import Pff.Props.Path
import Pff.Props.RunC
/-!
# Root relocation composed with the correction run (C03)

`C03_run_relocated`: the ecc file generated from a tree mounted at root `r1` (what generation
records is `genFS cwd r1 t`, proved equal to the '/'-joined relative components `relFS t`), checked
against the same tree mounted at any other root `r2` (the file opened for a recorded relative path
is `join(r2, rel)` in the mount of `r2`, proved to be the lookup in `relFS t`): every file is found,
processed, uncorrupted, nothing is written or skipped, exit status 0.
-/
namespace Pff.Path

open Pff.Run in
theorem C03_run_relocated (O : Pff.Ecc.Ops) (P : Params) (pre cwd r1 r2 : Bytes) (t : PTree)
    (hr1 : GoodRoot r1) (hr2 : GoodRoot r2) (ht : PlainTree t) (hd : DistinctTree t)
    (hP : ParamsOK O P)
    (hfiles : ∀ pc ∈ relFS t, FileOK O P pc.1 pc.2)
    (hacc : Pff.Scan.NoAccidental pre Pff.Entry.marker ((relFS t).map (fun pc => genBody O P pc.1 pc.2))) :
    -- what generation at root r1 records: exactly the relative paths, no exception
    genFS cwd r1 t = (relFS t).map (fun e => (some e.1, e.2)) ∧
    -- correction at root r2 opens `join(r2, rel)`: on relative paths that is the lookup in `relFS`
    (∀ rel, rel.head? ≠ some sep →
      ((mountAbs r2 t).find? (fun e => e.1 == join2 r2 rel)).map (·.2) = fsLookup (relFS t) rel) ∧
    -- hence the run on the relocated tree is the pristine run
    (run O P (relFS t) (genStream O P pre (relFS t))).outcomes.map view =
        (relFS t).map (fun pc => (pc.1, false, true, cleanResult, Effect.none)) ∧
    counters (run O P (relFS t) (genStream O P pre (relFS t))) = ((relFS t).length, 0, 0, 0, 0) ∧
    exitOf (run O P (relFS t) (genStream O P pre (relFS t))) = 0 ∧
    outputs (run O P (relFS t) (genStream O P pre (relFS t))) = [] :=
  ⟨genFS_eq cwd r1 t hr1 ht,
   fun rel hrel => lookup_relocated r2 t hr2 ht rel hrel,
   C03_run_pristine O P pre (relFS t) hP hfiles (relFS_nodup t ht hd) hacc⟩

end Pff.Path
