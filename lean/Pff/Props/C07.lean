import Pff.Model.Merge
import Pff.Proofs.Merge
import Pff.Props.C06
/-!
# C07 — replica trees are aligned: each relative path is voted once over all its copies

Property theorems only. Quantifiers: every finite tree shape (files beside directories at every
depth, names sorting before/after directory names), every number of replicas, every presence
pattern, every replica order.
-/
namespace Pff.Merge

/-- `p` comes strictly before `q` in the alignment order -/
abbrev Before (p q : Path) : Prop := pathLt p q = true

/-- The walk of a tree yields its paths in strictly increasing alignment order (so the order used
to pick the next group is the order every replica is read in), and no path is empty. -/
theorem C07_walk_sorted (t : Tree) (h : Sorted t) :
    ((walk t).map (·.1)).Pairwise Before ∧ ∀ pc ∈ walk t, pc.1 ≠ [] := by
  exact walk_spec t h

/-- The alignment loop on cursors that are each strictly increasing: every path of the union is
emitted exactly once (the emitted paths are strictly increasing), nothing else is emitted, and
each is grouped with exactly the replicas that contain it — all of them together — in replica
order, with that replica's content. -/
theorem C07_align (cursors : List Cursor)
    (hs : ∀ c ∈ cursors, (c.map (·.1)).Pairwise Before)
    (hne : ∀ c ∈ cursors, ∀ pc ∈ c, pc.1 ≠ []) :
    let out := align (remaining cursors + 1) cursors
    (out.map (·.1)).Pairwise Before ∧
    (∀ p, p ∈ out.map (·.1) ↔ ∃ c ∈ cursors, p ∈ c.map (·.1)) ∧
    (∀ pg ∈ out, pg.2 = (cursors.zipIdx).filterMap
        (fun ci => (ci.1.find? (fun pc => pc.1 = pg.1)).map (fun pc => (ci.2, pc.2)))) := by
  exact align_spec _ _ (Nat.lt_succ_self _) hs hne

/-- `pff dup` on replica trees: the output paths are exactly the union of the replicas' paths,
each once, and every output file is obtained from exactly the replicas that contain that path. -/
theorem C07_dup (bs : Nat) (replicas : List Tree) (hs : ∀ t ∈ replicas, Sorted t) :
    let r := dup bs replicas
    (r.used.map (·.1)).Pairwise Before ∧
    r.files.map (·.1) = r.used.map (·.1) ∧
    (∀ p, p ∈ r.used.map (·.1) ↔ ∃ t ∈ replicas, p ∈ (walk t).map (·.1)) ∧
    (∀ pu ∈ r.used, pu.2 = ((replicas.map walk).zipIdx).filterMap
        (fun ci => if pu.1 ∈ ci.1.map (·.1) then some ci.2 else none)) := by
  intro r
  obtain ⟨h1, h2, h3⟩ := dupGroups_spec replicas hs
  have hu : r.used.map (·.1) = (dupGroups replicas).map (·.1) := dup_used_fst bs replicas
  have hf : r.files.map (·.1) = (dupGroups replicas).map (·.1) := dup_files_fst bs replicas
  refine ⟨by rw [hu]; exact h1, by rw [hf, hu], ?_, ?_⟩
  · intro p
    rw [hu, h2]
    constructor
    · rintro ⟨c, hc, hp⟩
      obtain ⟨t, ht, rfl⟩ := List.mem_map.1 hc
      exact ⟨t, ht, hp⟩
    · rintro ⟨t, ht, hp⟩
      exact ⟨walk t, List.mem_map_of_mem ht, hp⟩
  · intro pu hpu
    simp only [r, dup_used, List.mem_map] at hpu
    obtain ⟨pg, hpg, rfl⟩ := hpu
    simp only
    rw [h3 pg hpg, group_indices]

/-- Consequently a file present in at least three replicas and intact in a majority of them at
every byte is restored exactly, whatever other files exist in whichever replicas. -/
theorem C07_restores (bs : Nat) (hbs : 0 < bs) (replicas : List Tree) (hs : ∀ t ∈ replicas, Sorted t)
    (p : Path) (orig : Bytes)
    (copies : List Bytes)
    (hcopies : copies = (replicas.map walk).filterMap
        (fun w => (w.find? (fun pc => pc.1 = p)).map (·.2)))
    (h3 : 3 ≤ copies.length)
    (hlen : orig.length = Pff.Vote.maxLen copies)
    (hmaj : ∀ j (hj : j < orig.length),
        (Pff.Vote.column copies j).length < 2 * (Pff.Vote.column copies j).count orig[j]) :
    (p, orig) ∈ (dup bs replicas).files := by
  obtain ⟨_, h2, h3'⟩ := dupGroups_spec replicas hs
  -- `p` occurs in some replica
  have hex : ∃ c ∈ replicas.map walk, p ∈ c.map (·.1) := by
    cases hc : copies with
    | nil => rw [hc] at h3; simp at h3
    | cons x rest =>
      have hx : x ∈ copies := by rw [hc]; exact List.mem_cons_self ..
      rw [hcopies, List.mem_filterMap] at hx
      obtain ⟨w, hw, hfx⟩ := hx
      cases hfind : w.find? (fun pc => pc.1 = p) with
      | none => rw [hfind] at hfx; cases hfx
      | some pc =>
        exact ⟨w, hw, List.mem_map.2
          ⟨pc, List.mem_of_find?_eq_some hfind, by simpa using List.find?_some hfind⟩⟩
  obtain ⟨pg, hpg, hpgp⟩ := List.mem_map.1 ((h2 p).2 hex)
  have hcont : pg.2.map (·.2) = copies := by
    rw [h3' pg hpg, group_contents, hpgp, hcopies]
  rw [dup_files, List.mem_map]
  refine ⟨pg, hpg, ?_⟩
  rw [processGroup_restores bs hbs pg.2 orig (by rw [hcont]; exact h3) (by rw [hcont]; exact hlen)
    (by rw [hcont]; exact hmaj), hpgp]

/-- Non-vacuity and regression witness for the defect repaired in /repo (alignment order): paths
of different depth, `d2/a.txt` missing nowhere but `d1/sub/b.txt` missing in the second replica. -/
example :
    let r1 : Tree := .node [] [("d1", .node [] [("sub", .node [("b.txt", [1])] [])]), ("d2", .node [("a.txt", [2])] [])]
    let r2 : Tree := .node [] [("d2", .node [("a.txt", [2])] [])]
    (dup 4 [r1, r2, r1]).used = [(["d1", "sub", "b.txt"], [0, 2]), (["d2", "a.txt"], [0, 1, 2])] := by
  decide

end Pff.Merge
