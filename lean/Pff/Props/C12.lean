import Pff.Props.RSSpec
import Pff.Props.C11
/-!
# C12 — codecs 1–3 are interchangeable (codec level)

The three encoders (polynomial long division, synthetic division of the stripped dividend, in-place
LFSR) are modelled separately; each is shown to produce *the* systematic parity.
The ecc-body determinism clause of C12 is decided at tool level (see `Props/C12Body.lean`).
-/
namespace Pff.RSSpec

open Pff.RS Pff.Facade Pff.GF

variable {F : Type} [Field F] [DecidableEq F]

/-- Codecs 1, 2 and 3 produce identical parity for every message, geometry and per-call k. -/
theorem C12_parity_identical (c : Codec F) (hc : GoodCodec c) (msg : List F) (k : Nat)
    (hm : msg.length ≤ effK c k) (hk : effK c k ≤ c.n) (a b : Nat)
    (ha : a = 1 ∨ a = 2 ∨ a = 3) (hb : b = 1 ∨ b = 2 ∨ b = 3) :
    encode { c with algo := a } msg k = encode { c with algo := b } msg k := by
  rw [Pff.RSProofs.encode_algo_irrelevant c hc msg k hm hk a ha,
    Pff.RSProofs.encode_algo_irrelevant c hc msg k hm hk b hb]

/-- The systematic parity is unique: whatever passes the check for a message (with the right
length) is the parity the encoders produce — hence each codec verifies ecc produced by the others. -/
theorem C12_parity_unique (c : Codec F) (hc : GoodCodec c) (msg ecc : List F) (k : Nat)
    (hm : msg.length ≤ effK c k) (hk : effK c k ≤ c.n) (he : ecc.length = c.n - effK c k)
    (h : check c msg ecc k = true) :
    ecc = encode c msg k := by
  exact Pff.RSProofs.check_unique c hc msg ecc k hm hk he h

/-- Concretely for `--ecc_algo 1|2|3`: byte-identical parity. -/
theorem C12_codecs_1_2_3 (n k0 k : Nat) (hn : n ≤ 255) (msg : List (Elt pA))
    (hm : msg.length ≤ effK (codecA 1 n k0) k) (hk : effK (codecA 1 n k0) k ≤ n) :
    encode (codecA 1 n k0) msg k = encode (codecA 3 n k0) msg k ∧
    encode (codecA 2 n k0) msg k = encode (codecA 3 n k0) msg k := by
  have hc := C11_codecA_good 1 n k0 (Or.inl rfl) hn
  exact ⟨C12_parity_identical (codecA 1 n k0) hc msg k hm hk 1 3 (by simp) (by simp),
    C12_parity_identical (codecA 1 n k0) hc msg k hm hk 2 3 (by simp) (by simp)⟩

end Pff.RSSpec
