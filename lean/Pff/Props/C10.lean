import Pff.Model.Layout
import Pff.Proofs.Layout
/-!
# C10 — block layout agrees between generation and correction for every file size

Property theorems only. `kOf` (offset ↦ message length) is an arbitrary function with
`1 ≤ kOf x`; so the theorems cover every file size, header size, rate triple, max block size and
every rounding behaviour of the rate formula. `H` (hash) and `enc` (encoder) are arbitrary
functions with the stated output lengths.
-/
namespace Pff.Layout

/-- Whole-file tool: the generation partition tiles `[0, size)` exactly once; every block has the
message length given by `kOf` at its own offset, only the last one may be short. -/
theorem C10_tiles (kOf : Nat → Nat) (hk : ∀ x, 1 ≤ kOf x) (size : Nat) :
    Tiles (layoutGen kOf size (size + 1) 0) 0 size ∧
    ∀ b ∈ layoutGen kOf size (size + 1) 0,
      b.k = kOf b.off ∧ b.len ≤ b.k ∧ (b.len = b.k ∨ b.off + b.len = size) := by
  refine ⟨layoutGen_tiles kOf hk size (size + 1) 0 (Nat.zero_le _) (by omega), ?_⟩
  intro b hb
  have h := layoutGen_mem kOf size _ _ b hb
  have := hk b.off
  omega

/-- Whole-file tool: reading back the track written by generation yields exactly the generation
partition, and every block is paired with exactly its own stored hash and parity. -/
theorem C10_agree_whole (kOf : Nat → Nat) (hk : ∀ x, 1 ≤ kOf x) (hashLen mbs : Nat)
    (H : Bytes → Bytes) (enc : Nat → Bytes → Bytes)
    (hH : ∀ m, (H m).length = hashLen)
    (henc : ∀ k m, 1 ≤ m.length → m.length ≤ k → (enc k m).length = mbs - k)
    (hpos : ∀ x, 1 ≤ hashLen + (mbs - kOf x))
    (content : Bytes) :
    assemble kOf hashLen mbs content (genTrack H enc kOf content) (content.length + 1) 0 0 =
      (layoutGen kOf content.length (content.length + 1) 0).map
        (fun b => { off := b.off, msg := slice content b, k := b.k,
                    hash := H (slice content b), ecc := enc b.k (slice content b) }) := by
  have h := assemble_agree kOf hk hashLen mbs H enc hH henc hpos content (content.length + 1) 0 []
  simpa only [genTrack, List.nil_append, List.length_nil] using h

/-- The stored track has exactly the length of hash + parity over the partition. -/
theorem C10_track_length (kOf : Nat → Nat) (hk : ∀ x, 1 ≤ kOf x) (hashLen mbs : Nat)
    (H : Bytes → Bytes) (enc : Nat → Bytes → Bytes)
    (hH : ∀ m, (H m).length = hashLen)
    (henc : ∀ k m, 1 ≤ m.length → m.length ≤ k → (enc k m).length = mbs - k)
    (content : Bytes) :
    (genTrack H enc kOf content).length =
      ((layoutGen kOf content.length (content.length + 1) 0).map (fun b => hashLen + (mbs - b.k))).sum := by
  simp only [genTrack, List.length_flatten, List.map_map]
  apply sum_map_eq
  intro b hb
  have h := layoutGen_mem kOf content.length _ _ b hb
  have := hk b.off
  have hl := slice_length content b
  simp only [Function.comp, List.length_append, hH]
  rw [henc _ _ (by omega) (by omega)]

/-- Header tool: the partition tiles the protected region `[0, min header size)` with constant
message length `k`. -/
theorem C10_header_tiles (k headerSize size : Nat) (hk : 1 ≤ k) :
    Tiles (layoutHeader k headerSize size (size + 1) 0) 0 (min headerSize size) ∧
    ∀ b ∈ layoutHeader k headerSize size (size + 1) 0,
      b.k = k ∧ b.len ≤ k ∧ (b.len = k ∨ b.off + b.len = min headerSize size) := by
  refine ⟨layoutHeader_tiles k headerSize size hk (size + 1) 0 (Nat.zero_le _) (by omega), ?_⟩
  intro b hb
  have h := layoutHeader_mem k headerSize size _ _ b hb
  omega

/-- Header tool: reading back the generated track pairs every block with its own hash/parity. -/
theorem C10_agree_header (k hashLen mbs headerSize : Nat) (hk : 1 ≤ k)
    (H : Bytes → Bytes) (enc : Nat → Bytes → Bytes)
    (hH : ∀ m, (H m).length = hashLen)
    (henc : ∀ m, 1 ≤ m.length → m.length ≤ k → (enc k m).length = mbs - k)
    (hpos : 1 ≤ hashLen + (mbs - k))
    (content : Bytes) :
    assembleHeader k hashLen mbs headerSize content (genTrackHeader H enc k headerSize content)
        (content.length + 1) 0 0 =
      (layoutHeader k headerSize content.length (content.length + 1) 0).map
        (fun b => { off := b.off, msg := slice content b, k := b.k,
                    hash := H (slice content b), ecc := enc b.k (slice content b) }) := by
  have h := assembleHeader_agree k hashLen mbs headerSize hk H enc hH henc hpos content
    (content.length + 1) 0 []
  simpa only [genTrackHeader, List.nil_append, List.length_nil] using h

/-- The staged rule: the stage-1 rate below the header size, the interpolation between the
stage-2 and stage-3 rates by file offset afterwards. -/
theorem C10_stage_rule {R : Type} (K : R → Nat) (scale : Nat → Nat → Nat → R → R → R)
    (headerSize size : Nat) (r1 r2 r3 : R) (x : Nat) :
    kOfStaged K scale headerSize size r1 r2 r3 x =
      if x < headerSize then K r1 else K (scale x headerSize size r2 r3) := by
  rfl

/-- The correction side caps the interpolation position to the recorded file size (repair of the
`--ignore_size` defect): below or at that size it is the generation rule, whatever `K` and
`scale` are. -/
theorem C10_read_rule_agrees {R : Type} (K : R → Nat) (scale : Nat → Nat → Nat → R → R → R)
    (headerSize size : Nat) (r1 r2 r3 : R) (x : Nat) (hx : x ≤ size) :
    kOfStaged K (fun x xmin xmax a b => scale (min x xmax) xmin xmax a b) headerSize size r1 r2 r3 x =
      kOfStaged K scale headerSize size r1 r2 r3 x := by
  unfold kOfStaged
  simp only [Nat.min_eq_left hx]

/-- The generated layout (hence the generated track) only consults the rule below the file size:
two rules that agree there generate the same blocks. -/
theorem C10_layout_congr (kOf kOf' : Nat → Nat) (size : Nat) (h : ∀ x, x < size → kOf x = kOf' x)
    (fuel cur : Nat) : layoutGen kOf size fuel cur = layoutGen kOf' size fuel cur := by
  induction fuel generalizing cur with
  | zero => rfl
  | succ n ih =>
    unfold layoutGen
    split
    · next hlt => simp only [h cur hlt, ih]
    · rfl

theorem C10_track_congr (H : Bytes → Bytes) (enc : Nat → Bytes → Bytes) (kOf kOf' : Nat → Nat)
    (content : Bytes) (h : ∀ x, x < content.length → kOf x = kOf' x) :
    genTrack H enc kOf content = genTrack H enc kOf' content := by
  unfold genTrack
  rw [C10_layout_congr kOf kOf' content.length h]

/-- Non-vacuity: a concrete layout with a varying `kOf` and a short last block. -/
example : layoutGen (fun x => if x < 4 then 3 else 5) 12 13 0 =
    [⟨0, 3, 3⟩, ⟨3, 3, 3⟩, ⟨6, 5, 5⟩, ⟨11, 1, 5⟩] := by
  decide

end Pff.Layout
