import Pff.Model.DupDb
import Pff.Proofs.DupDbRun
/-!
# C18 — with a hash database, replica repair reports OK only for hash-correct output

Property theorems only. `Hf` is any deterministic hash pair, the group any list of copies (any
number of replicas, any corruption pattern), `recorded` the database row of the path or `none`.
The model has no notion of depth: every relative path is looked up by its own row (that this is
what the tool does for files at any depth is decided by the correspondence check, which is where
the repaired defect — rows never matching nested files — showed).
-/
namespace Pff.DupDb

open Pff.Merge

/-- the (output, error code, used copy) triple computed before the comparison with the database -/
def pre (bs : Nat) (Hf : Bytes → Nat × Nat) (recorded : Option (Nat × Nat)) (g : List (Nat × Bytes)) :
    Bytes × Nat × Option Nat :=
  match g with
  | [(_, c)] => (c, 0, none)
  | _ =>
    match recorded.bind (fun r => findCorrect Hf r (g.map (·.2)) 0) with
    | some (i, c) => (c, 0, some i)
    | none => ((Pff.Vote.majorityVote bs (g.map (·.2))).out,
               (Pff.Vote.majorityVote bs (g.map (·.2))).status, none)

theorem processGroupDb_eq (bs : Nat) (Hf : Bytes → Nat × Nat) (recorded : Option (Nat × Nat))
    (g : List (Nat × Bytes)) :
    processGroupDb bs Hf recorded g =
      match recorded with
      | none => { out := (pre bs Hf recorded g).1, errcode := (pre bs Hf recorded g).2.1,
                  mark := .unknown, usedCorrect := (pre bs Hf recorded g).2.2 }
      | some r =>
        if Hf (pre bs Hf recorded g).1 = r then
          { out := (pre bs Hf recorded g).1, errcode := (pre bs Hf recorded g).2.1,
            mark := .ok, usedCorrect := (pre bs Hf recorded g).2.2 }
        else
          { out := (pre bs Hf recorded g).1, errcode := 1,
            mark := .ko, usedCorrect := (pre bs Hf recorded g).2.2 } := by
  unfold processGroupDb pre
  rfl


/-- A path is marked hash-correct only if the file written matches the recorded hashes — in
particular whenever it is marked OK without contributing to the exit status. -/
theorem C18_ok_sound (bs : Nat) (Hf : Bytes → Nat × Nat) (recorded : Option (Nat × Nat)) (g : List (Nat × Bytes))
    (h : (processGroupDb bs Hf recorded g).mark = .ok) :
    ∃ r, recorded = some r ∧ Hf (processGroupDb bs Hf recorded g).out = r := by
  rw [processGroupDb_eq] at h ⊢
  cases recorded with
  | none => simp at h
  | some r =>
    refine ⟨r, rfl, ?_⟩
    by_cases hr : Hf (pre bs Hf (some r) g).1 = r
    · simp [hr]
    · simp [hr] at h

/-- A covered path whose output does not match the recorded hashes is marked KO and makes the run
exit non-zero. -/
theorem C18_ko_nonzero (bs : Nat) (Hf : Bytes → Nat × Nat) (r : Nat × Nat) (g : List (Nat × Bytes))
    (h : Hf (processGroupDb bs Hf (some r) g).out ≠ r) :
    (processGroupDb bs Hf (some r) g).mark = .ko ∧ (processGroupDb bs Hf (some r) g).errcode = 1 := by
  rw [processGroupDb_eq] at h ⊢
  by_cases hr : Hf (pre bs Hf (some r) g).1 = r
  · simp [hr] at h
  · simp [hr]

/-- A replica is used as the already-correct copy only if it matches the recorded hashes. -/
theorem C18_correct_copy_matches (Hf : Bytes → Nat × Nat) (r : Nat × Nat) (copies : List Bytes) (start i : Nat) (c : Bytes)
    (h : findCorrect Hf r copies start = some (i, c)) :
    Hf c = r ∧ start ≤ i ∧ copies[i - start]? = some c := by
  induction copies generalizing start with
  | nil => simp [findCorrect] at h
  | cons x xs ih =>
    unfold findCorrect at h
    by_cases hx : Hf x = r
    · simp [hx] at h
      obtain ⟨rfl, rfl⟩ := h
      simp [hx]
    · simp [hx] at h
      obtain ⟨h1, h2, h3⟩ := ih (start + 1) h
      refine ⟨h1, by omega, ?_⟩
      have : i - start = (i - (start + 1)) + 1 := by omega
      rw [this, List.getElem?_cons_succ]
      exact h3

/-- `findCorrect` finds a copy whenever one matches. -/
theorem C18_find_complete (Hf : Bytes → Nat × Nat) (r : Nat × Nat) (copies : List Bytes) (start : Nat)
    (h : ∃ c ∈ copies, Hf c = r) : ∃ ic, findCorrect Hf r copies start = some ic := by
  induction copies generalizing start with
  | nil => simp at h
  | cons x xs ih =>
    unfold findCorrect
    by_cases hx : Hf x = r
    · exact ⟨(start, x), by simp [hx]⟩
    · obtain ⟨c, hc, hcr⟩ := h
      simp only [List.mem_cons] at hc
      rcases hc with rfl | hc
      · exact absurd hcr hx
      · simp only [hx, if_false]
        exact ih (start + 1) ⟨c, hc, hcr⟩

/-- A damaged first replica is never copied through as correct when another replica matches the
database or the vote over the replicas restores the file: in both cases what is written matches
the recorded hashes (and is marked OK). Groups of two or more copies (a single copy is simply
copied, then judged by `C18_ok_sound` / `C18_ko_nonzero`). -/
theorem C18_vote_preferred (bs : Nat) (Hf : Bytes → Nat × Nat) (r : Nat × Nat) (g : List (Nat × Bytes))
    (hlen : 2 ≤ g.length)
    (h : (∃ c ∈ g.map (·.2), Hf c = r) ∨ Hf (Pff.Vote.majorityVote bs (g.map (·.2))).out = r) :
    Hf (processGroupDb bs Hf (some r) g).out = r ∧ (processGroupDb bs Hf (some r) g).mark = .ok := by
  have hpre : Hf (pre bs Hf (some r) g).1 = r := by
    match g, hlen with
    | a :: b :: rest, _ =>
      unfold pre
      simp only [Option.bind_some]
      cases hf : findCorrect Hf r (List.map (·.2) (a :: b :: rest)) 0 with
      | some ic =>
        obtain ⟨i, c⟩ := ic
        exact (C18_correct_copy_matches Hf r _ 0 i c hf).1
      | none =>
        rcases h with h | h
        · obtain ⟨ic, hic⟩ := C18_find_complete Hf r _ 0 h
          rw [hf] at hic
          cases hic
        · exact h
  rw [processGroupDb_eq]
  simp [hpre]

/-- A path the database does not cover is never marked hash-correct. -/
theorem C18_uncovered_unknown (bs : Nat) (Hf : Bytes → Nat × Nat) (g : List (Nat × Bytes)) :
    (processGroupDb bs Hf none g).mark = .unknown := by
  rw [processGroupDb_eq]

/-! ## the whole run (`dupWithDb`): every row of the report, the exit status -/

/-- Every row marked hash-correct has the recorded hashes of its own path (at any depth), and a
run that exits 0 has no row marked KO, no error code, and every covered path hash-correct. -/
theorem C18_run_ok_sound (bs : Nat) (Hf : Bytes → Nat × Nat) (db : List (String × Nat × Nat)) (replicas : List Tree) :
    (∀ row ∈ (dupWithDb bs Hf db replicas).rows, row.mark = .ok →
        ∃ r, dbLookup db row.path = some r ∧ Hf row.out = r) ∧
    ((dupWithDb bs Hf db replicas).exit = 0 →
        ∀ row ∈ (dupWithDb bs Hf db replicas).rows, row.errcode = 0 ∧ row.mark ≠ .ko ∧
          ∀ r, dbLookup db row.path = some r → Hf row.out = r) := by
  refine ⟨?_, ?_⟩
  · intro row hrow hok
    obtain ⟨pg, _, rfl⟩ := mem_rows hrow
    exact C18_ok_sound bs Hf (dbLookup db pg.1) pg.2 hok
  · intro hexit row hrow
    have herr := exit_zero_errcode hexit row hrow
    obtain ⟨pg, _, rfl⟩ := mem_rows hrow
    have hcov : ∀ r, dbLookup db pg.1 = some r →
        Hf (processGroupDb bs Hf (dbLookup db pg.1) pg.2).out = r := by
      intro r hr
      rw [hr]
      by_cases hne : Hf (processGroupDb bs Hf (some r) pg.2).out = r
      · exact hne
      · have h1 := (C18_ko_nonzero bs Hf r pg.2 hne).2
        have h0 : (processGroupDb bs Hf (dbLookup db pg.1) pg.2).errcode = 0 := herr
        rw [hr, h1] at h0
        cases h0
    refine ⟨herr, ?_, hcov⟩
    intro hko
    have hko' : (processGroupDb bs Hf (dbLookup db pg.1) pg.2).mark = .ko := hko
    cases hl : dbLookup db pg.1 with
    | none =>
      rw [hl, C18_uncovered_unknown] at hko'
      cases hko'
    | some r =>
      have hm := hcov r hl
      rw [hl] at hko' hm
      rw [processGroupDb_eq] at hko' hm
      by_cases hr : Hf (pre bs Hf (some r) pg.2).1 = r
      · simp [hr] at hko'
      · simp [hr] at hm

/-- A path not covered by the database is never reported hash-correct (nor KO). -/
theorem C18_run_uncovered (bs : Nat) (Hf : Bytes → Nat × Nat) (db : List (String × Nat × Nat)) (replicas : List Tree) :
    ∀ row ∈ (dupWithDb bs Hf db replicas).rows, dbLookup db row.path = none → row.mark = .unknown := by
  intro row hrow hnone
  obtain ⟨pg, _, rfl⟩ := mem_rows hrow
  have hnone' : dbLookup db pg.1 = none := hnone
  show (processGroupDb bs Hf (dbLookup db pg.1) pg.2).mark = .unknown
  rw [hnone']
  exact C18_uncovered_unknown bs Hf pg.2

/-- The rows are the paths of the union of the replicas, each once, in walk order, with exactly
the replicas that hold it (C07 for the run with a database). -/
theorem C18_run_paths (bs : Nat) (Hf : Bytes → Nat × Nat) (db : List (String × Nat × Nat)) (replicas : List Tree)
    (hs : ∀ t ∈ replicas, Sorted t) :
    let r := dupWithDb bs Hf db replicas
    (r.rows.map (·.path)).Pairwise (fun p q => pathLt p q = true) ∧
    (∀ p, p ∈ r.rows.map (·.path) ↔ ∃ t ∈ replicas, p ∈ (walk t).map (·.1)) ∧
    (∀ row ∈ r.rows, row.used = ((replicas.map walk).zipIdx).filterMap
        (fun ci => if row.path ∈ ci.1.map (·.1) then some ci.2 else none)) := by
  exact run_paths bs Hf db replicas hs

/-- A covered path held by at least two replicas, of which one copy is hash-correct or whose vote
is hash-correct, is written hash-correct and marked OK — whatever the first replica holds. -/
theorem C18_run_restores (bs : Nat) (Hf : Bytes → Nat × Nat) (db : List (String × Nat × Nat)) (replicas : List Tree)
    (hs : ∀ t ∈ replicas, Sorted t) (p : Path) (r : Nat × Nat)
    (hdb : dbLookup db p = some r)
    (copies : List Bytes)
    (hcopies : copies = (replicas.map walk).filterMap (fun w => (w.find? (fun pc => pc.1 = p)).map (·.2)))
    (h2 : 2 ≤ copies.length)
    (h : (∃ c ∈ copies, Hf c = r) ∨ Hf (Pff.Vote.majorityVote bs copies).out = r) :
    ∃ row ∈ (dupWithDb bs Hf db replicas).rows, row.path = p ∧ Hf row.out = r ∧ row.mark = .ok := by
  obtain ⟨pg, hpg, hp, hcont⟩ := run_group replicas hs p copies hcopies (by omega)
  refine ⟨mkRow bs Hf db pg, ?_, hp, ?_⟩
  · rw [dupWithDb_rows]
    exact List.mem_map_of_mem hpg
  · have hlen : 2 ≤ pg.2.length := by
      have : (pg.2.map (·.2)).length = copies.length := by rw [hcont]
      rw [List.length_map] at this
      omega
    have := C18_vote_preferred bs Hf r pg.2 hlen (by rw [hcont]; exact h)
    show Hf (processGroupDb bs Hf (dbLookup db pg.1) pg.2).out = r ∧
      (processGroupDb bs Hf (dbLookup db pg.1) pg.2).mark = .ok
    rw [hp, hdb]
    exact this

end Pff.DupDb
