import Pff.Model.Hasher
/-!
# The hash kinds (`lib/hasher.Hasher`) — C10 (hash kind in the layout), C01/C04 (stored hash)

* `HASH_length` — for every known kind the value returned by `hash` has exactly `len(hasher)` bytes
  (what the block layout `hash + parity` relies on), given digests of hashlib's lengths;
* `HASH_table` — `len(hasher)` is the table the translator reads from the source (`Consts.hashLen`)
  and every kind of that table is known;
* `HASH_unknown` — any other kind is refused by both `__init__` and `hash`;
* `HASH_short_prefix`, `HASH_mini_prefix` — how much of the digest a short / mini kind keeps: the
  first 6 (24 bits) resp. 3 (12 bits) hex characters. (This is why the no-collision hypothesis of
  C01/C05 is explicit: with the mini kinds one changed block in 4096 keeps its stored hash.)
-/
namespace Pff.Hasher

theorem HASH_b64_length (x : Bytes) : (b64encode x).length = 4 * ((x.length + 2) / 3) := by
  fun_induction b64encode x with
  | case1 => rfl
  | case2 a => simp
  | case3 a b => simp
  | case4 a b c rest ih =>
    simp only [List.length_cons, ih]
    omega

theorem HASH_length (algo : String) (md5hex sha256hex : Bytes) (h5 : md5hex.length = 32) (h2 : sha256hex.length = 64)
    (n : Nat) (hn : length algo = some n) :
    ∃ v, hash algo md5hex sha256hex = some v ∧ v.length = n := by
  have l5 : (b64encode md5hex).length = 44 := by rw [HASH_b64_length, h5]
  have l2 : (b64encode sha256hex).length = 88 := by rw [HASH_b64_length, h2]
  unfold length at hn
  unfold hash
  by_cases e1 : algo = "md5"
  · simp only [e1, if_true, Option.some.injEq] at hn ⊢
    exact ⟨_, rfl, by omega⟩
  by_cases e2 : algo = "shortmd5"
  · simp [e2] at hn ⊢
    omega
  by_cases e3 : algo = "shortsha256"
  · simp [e3] at hn ⊢
    omega
  by_cases e4 : algo = "minimd5"
  · simp [e4] at hn ⊢
    omega
  by_cases e5 : algo = "minisha256"
  · simp [e5] at hn ⊢
    omega
  by_cases e6 : algo = "none"
  · simp [e6] at hn ⊢
    omega
  · simp [e1, e2, e3, e4, e5, e6] at hn

theorem HASH_table : ∀ e ∈ Pff.Consts.hashLen, length e.1 = some e.2 := by
  decide

theorem HASH_unknown (algo : String) (md5hex sha256hex : Bytes) :
    length algo = none ↔ hash algo md5hex sha256hex = none := by
  unfold length hash
  by_cases e1 : algo = "md5"
  · simp [e1]
  by_cases e2 : algo = "shortmd5"
  · simp [e2]
  by_cases e3 : algo = "shortsha256"
  · simp [e3]
  by_cases e4 : algo = "minimd5"
  · simp [e4]
  by_cases e5 : algo = "minisha256"
  · simp [e5]
  by_cases e6 : algo = "none"
  · simp [e6]
  · simp [e1, e2, e3, e4, e5, e6]

/-- a short kind depends only on the first six hex characters of the digest -/
theorem HASH_short_prefix (d d' : Bytes) (h : d.take 6 = d'.take 6) (hl : 6 ≤ d.length) (hl' : 6 ≤ d'.length) :
    (b64encode d).take 8 = (b64encode d').take 8 := by
  match d, hl, d', hl', h with
  | a :: b :: c :: e :: f :: g :: rest, _, a' :: b' :: c' :: e' :: f' :: g' :: rest', _, h =>
    simp only [List.take_succ_cons, List.take_zero, List.cons.injEq, and_true] at h
    obtain ⟨rfl, rfl, rfl, rfl, rfl, rfl⟩ := h
    simp only [b64encode, List.take_succ_cons, List.take_zero]

/-- a mini kind depends only on the first three hex characters of the digest -/
theorem HASH_mini_prefix (d d' : Bytes) (h : d.take 3 = d'.take 3) (hl : 3 ≤ d.length) (hl' : 3 ≤ d'.length) :
    (b64encode d).take 4 = (b64encode d').take 4 := by
  match d, hl, d', hl', h with
  | a :: b :: c :: rest, _, a' :: b' :: c' :: rest', _, h =>
    simp only [List.take_succ_cons, List.take_zero, List.cons.injEq, and_true] at h
    obtain ⟨rfl, rfl, rfl⟩ := h
    simp only [b64encode, List.take_succ_cons, List.take_zero]

end Pff.Hasher
