import Pff.Props.Chain
import Pff.Props.C15
import Pff.Proofs.Chain3
import Pff.Proofs.Chain4
/-!
# Chains, continued: erasure mode (C01) and the index companion (C15)

* `C01_chain_A_erasures` / `C01_chain_B_erasures`: `C01_chain_*` for `--enable_erasures`
  (erasure symbol `sym`): per assembled block `2·errors + erasures ≤ n−k`, where erasures are the
  received positions of message+parity holding the erasure symbol.
* `C15_chain_A` / `C15_chain_B`: the index file damaged in place with at most 9 wrong bytes in
  each 27-byte block, every marker of the ecc file overwritten by arbitrary bytes: the index pass
  of `pff recover` (facade over the byte field, third-party decoder under contract W) returns
  exactly the pristine ecc file.  All hypotheses are about bytes.
-/
namespace Pff.Chain

open Pff.GF Pff.Facade Pff.Ecc Pff.Layout Pff.RSSpec Pff.Entry Pff.Scan Pff.Run Pff.Bridge

/-- damage within capacity with erasure handling, in bytes -/
structure WithinCapacityBytesE (O : Ops) (P : Pff.Run.Params) (sym : Nat) (d : Damaged) : Prop where
  lenNow   : d.now.length = d.orig.length
  lenTrack : d.trackD.length = (genTrackFor O P d.orig).length
  bytesOrig : IsBytes d.orig
  bytesNow  : IsBytes d.now
  bytesTrack : IsBytes d.trackD
  blocks : ∀ b ∈ blocksOf P d,
    2 * errorsOutside (b.msg ++ b.ecc) (origMsg d.orig b ++ O.enc b.k (origMsg d.orig b)) (erasedPos (b.msg ++ b.ecc) sym)
        + (erasedPos (b.msg ++ b.ecc) sym).length ≤ P.mbs - b.k ∧
    (P.fast = true → O.H b.msg = b.hash → b.msg = origMsg d.orig b)

theorem C01_chain_A_erasures (algo k0 sym : Nat) (ha : algo = 1 ∨ algo = 2 ∨ algo = 3) (hsym : sym < 256)
    (core : Core (Elt pA)) (H : List Nat → List Nat) (hashLen : Nat) (hH : ∀ m, (H m).length = hashLen)
    (P : Pff.Run.Params) (hP : ParamsGeom P hashLen) (hW : CoreW (codecA algo P.mbs k0) core)
    (pre : List Nat) (ds : List Damaged)
    (hfiles : ∀ d ∈ ds, FileOK (opsOfFacade (codecA algo P.mbs k0) core H true sym false) P d.path d.orig)
    (hdistinct : (ds.map (·.path)).Nodup)
    (hcap : ∀ d ∈ ds, WithinCapacityBytesE (opsOfFacade (codecA algo P.mbs k0) core H true sym false) P sym d)
    (hacc : NoAccidental pre marker
      (ds.map (fun d => bodyWith (opsOfFacade (codecA algo P.mbs k0) core H true sym false) P d.path d.orig d.trackD))) :
    let O := opsOfFacade (codecA algo P.mbs k0) core H true sym false
    let stream := build pre marker (ds.map (fun d => bodyWith O P d.path d.orig d.trackD))
    let r := run O P (ds.map (fun d => (d.path, d.now))) stream
    r.outcomes.length = ds.length ∧
    (∀ i (hi : i < ds.length), ∃ o, r.outcomes[i]? = some o ∧ o.path = ds[i].path ∧ o.skipped = false ∧ o.processed = true ∧
        (protectedDamaged P ds[i] →
          o.result = { output := some (restored P ds[i]), corrupted := true, complete := true, partialRep := false } ∧
          o.effect = .wrote (restored P ds[i])) ∧
        (∀ out, o.result.output = some out → out = restored P ds[i])) ∧
    exitOf r = 0 := by
  exact Pff.ChainProofs.chain_generic_erasures (codecA algo P.mbs k0) core
    (Pff.ChainProofs.codecLenA algo P.mbs k0 ha hP.mbs)
    (Pff.BridgeProofs.codecFactsA algo P.mbs k0 ha hP.mbs)
    (Pff.BridgeProofs.decFactsA algo P.mbs k0 ha hP.mbs core hW)
    H sym hsym hashLen hH P rfl hP.hash hP.kMain hP.kOf hP.kIntra _ rfl pre ds hfiles hdistinct
    (fun d hd => ⟨(hcap d hd).lenNow, (hcap d hd).lenTrack, (hcap d hd).bytesOrig, (hcap d hd).bytesNow,
      (hcap d hd).bytesTrack, (hcap d hd).blocks⟩) hacc

theorem C01_chain_B_erasures (k0 sym : Nat) (hsym : sym < 256)
    (core : Core (Elt pB)) (H : List Nat → List Nat) (hashLen : Nat) (hH : ∀ m, (H m).length = hashLen)
    (P : Pff.Run.Params) (hP : ParamsGeom P hashLen) (hW : CoreW (codecB P.mbs k0) core)
    (pre : List Nat) (ds : List Damaged)
    (hfiles : ∀ d ∈ ds, FileOK (opsOfFacade (codecB P.mbs k0) core H true sym false) P d.path d.orig)
    (hdistinct : (ds.map (·.path)).Nodup)
    (hcap : ∀ d ∈ ds, WithinCapacityBytesE (opsOfFacade (codecB P.mbs k0) core H true sym false) P sym d)
    (hacc : NoAccidental pre marker
      (ds.map (fun d => bodyWith (opsOfFacade (codecB P.mbs k0) core H true sym false) P d.path d.orig d.trackD))) :
    let O := opsOfFacade (codecB P.mbs k0) core H true sym false
    let stream := build pre marker (ds.map (fun d => bodyWith O P d.path d.orig d.trackD))
    let r := run O P (ds.map (fun d => (d.path, d.now))) stream
    r.outcomes.length = ds.length ∧
    (∀ i (hi : i < ds.length), ∃ o, r.outcomes[i]? = some o ∧ o.path = ds[i].path ∧ o.skipped = false ∧ o.processed = true ∧
        (protectedDamaged P ds[i] →
          o.result = { output := some (restored P ds[i]), corrupted := true, complete := true, partialRep := false } ∧
          o.effect = .wrote (restored P ds[i])) ∧
        (∀ out, o.result.output = some out → out = restored P ds[i])) ∧
    exitOf r = 0 := by
  exact Pff.ChainProofs.chain_generic_erasures (codecB P.mbs k0) core
    (Pff.ChainProofs.codecLenB P.mbs k0 hP.mbs)
    (Pff.BridgeProofs.codecFactsB P.mbs k0 hP.mbs)
    (Pff.BridgeProofs.decFactsB P.mbs k0 hP.mbs core hW)
    H sym hsym hashLen hH P rfl hP.hash hP.kMain hP.kOf hP.kIntra _ rfl pre ds hfiles hdistinct
    (fun d hd => ⟨(hcap d hd).lenNow, (hcap d hd).lenTrack, (hcap d hd).bytesOrig, (hcap d hd).bytesNow,
      (hcap d hd).bytesTrack, (hcap d hd).blocks⟩) hacc

/-! ## index companion -/

/-- the index file damaged in place, at most 9 wrong bytes in every 27-byte block -/
structure IdxWithinCapacity (O : Ops) (recs : List (Nat × Nat)) (idx' : List Nat) : Prop where
  len    : idx'.length = (genIdxFile O.enc recs).length
  bytes  : IsBytes idx'
  blocks : ∀ i, i < recs.length →
    2 * hdist ((idx'.drop (27 * i)).take 27) (((genIdxFile O.enc recs).drop (27 * i)).take 27) ≤ 18

theorem C15_chain_A (algo k0 : Nat) (ha : algo = 1 ∨ algo = 2 ∨ algo = 3)
    (core : Core (Elt pA)) (hW : CoreW (codecA algo 27 k0) core) (H : List Nat → List Nat)
    (pre : List Nat) (es : List EntryParts) (idx' file' : List Nat)
    (hsmall : (genEcc pre es).length < 256 ^ 8)
    (hagree : AgreeOutside (genIdx pre.length es) (genEcc pre es) file')
    (hidx : IdxWithinCapacity (opsOfFacade (codecA algo 27 k0) core H false 0 false) (genIdx pre.length es) idx') :
    recoverIdx (opsOfFacade (codecA algo 27 k0) core H false 0 false) 27 9 idx' file' = some (genEcc pre es) := by
  exact Pff.ChainProofs.idx_chain (codecA algo 27 k0) core
    (Pff.BridgeProofs.codecFactsA algo 27 k0 ha (by omega))
    (Pff.BridgeProofs.decFactsA algo 27 k0 ha (by omega) core hW)
    H rfl pre es idx' file' hsmall hagree hidx.len hidx.bytes hidx.blocks

theorem C15_chain_B (k0 : Nat)
    (core : Core (Elt pB)) (hW : CoreW (codecB 27 k0) core) (H : List Nat → List Nat)
    (pre : List Nat) (es : List EntryParts) (idx' file' : List Nat)
    (hsmall : (genEcc pre es).length < 256 ^ 8)
    (hagree : AgreeOutside (genIdx pre.length es) (genEcc pre es) file')
    (hidx : IdxWithinCapacity (opsOfFacade (codecB 27 k0) core H false 0 false) (genIdx pre.length es) idx') :
    recoverIdx (opsOfFacade (codecB 27 k0) core H false 0 false) 27 9 idx' file' = some (genEcc pre es) := by
  exact Pff.ChainProofs.idx_chain (codecB 27 k0) core
    (Pff.BridgeProofs.codecFactsB 27 k0 (by omega))
    (Pff.BridgeProofs.decFactsB 27 k0 (by omega) core hW)
    H rfl pre es idx' file' hsmall hagree hidx.len hidx.bytes hidx.blocks

end Pff.Chain
