import Pff.Props.RunA
import Pff.Props.C04
import Pff.Props.C13
import Pff.Proofs.RunB
import Pff.Proofs.RunB2
/-!
# The correction run as a whole — a cut or arbitrary ecc file (C13 / C04 at the level of the run)

* `C13_run_cut_prefix` — the ecc file cut at any position `c`: every entry that lies, together with
  the marker that ends it, before the cut is processed exactly as with the complete file.
* `C13_run_output_length` — for ANY bytes as ecc file (cut anywhere, damaged anyhow): whatever the
  run writes for a path has exactly the length of the current file of that path; the run never
  grows, shrinks or invents a file.  (`DecLen`: the decoder returns a message of the length it was
  given — true of the facade, which strips exactly the padding it added: C02.)
-/
namespace Pff.Run

open Pff.Ecc Pff.Layout Pff.Entry Pff.Scan

theorem C13_run_cut_prefix (O : Ops) (P : Params) (fs : FS) (pre : Bytes) (entries : List Bytes)
    (c j : Nat) (ab : Nat × Nat)
    (h : NoAccidental pre marker entries)
    (hj : (intended marker pre.length entries)[j]? = some ab)
    (hc : ab.2 + marker.length ≤ c)
    (hin : readsInside O P fs (build pre marker entries) ab.1 ab.2) :
    ((run O P fs ((build pre marker entries).take c)).outcomes[j]?).map view =
      ((run O P fs (build pre marker entries)).outcomes[j]?).map view := by
  exact RunB.run_cut_prefix O P fs pre entries c j ab h hj hc hin

theorem C13_run_output_length (O : Ops) (hlen : DecLen O) (P : Params) (fs : FS) (stream : Bytes) :
    ∀ o ∈ (run O P fs stream).outcomes, ∀ out, o.effect = .wrote out →
      ∃ content, fsLookup fs o.path = some content ∧ out.length = content.length := by
  exact RunB.runLoopEntries_output_length O hlen P fs stream _ _

end Pff.Run
