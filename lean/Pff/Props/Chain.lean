import Pff.Props.RunC
import Pff.Props.Bridge
import Pff.Proofs.Chain
import Pff.Proofs.Chain2
/-!
# One chain from bytes to the run (C01, C09)

`C01_chain_A` / `C01_chain_B`: the run-level theorem `C01_run_within_capacity` instantiated with
the `Ops` the tools really use (facade model over the byte field, third-party decoder under
contract W): every hypothesis is now about bytes and parameters — lengths unchanged, and for every
block the tool assembles, at most ⌊(n−k)/2⌋ wrong symbols in message+parity (hash bytes may be
damaged freely) and, with the fast check, no hash collision on that block.  Conclusion: every
damaged file is written back equal to the original, exit status 0.

`C09_run_metadata_within_capacity`: damage of the metadata of an entry (path, size text, their
intra parities) within the intra capacity, not spelling a delimiter: the entry is processed
exactly as with pristine metadata.
-/
namespace Pff.Chain

open Pff.GF Pff.Facade Pff.Ecc Pff.Layout Pff.RSSpec Pff.Entry Pff.Scan Pff.Run Pff.Bridge

/-- the blocks the tool assembles for a damaged file -/
def blocksOf (P : Pff.Run.Params) (d : Damaged) : List AsmBlock :=
  match P.tool with
  | .header =>
    let readLen := if 0 < d.orig.length ∧ d.orig.length < P.headerSize then d.orig.length else P.headerSize
    assembleHeader P.kMain P.hashLen P.mbs readLen d.now d.trackD (d.now.length + 1) 0 0
  | .whole => assemble (P.kOfFor d.orig.length) P.hashLen P.mbs d.now d.trackD (d.now.length + 1) 0 0

/-- parameters as the tools compute them: message sizes between 1 and `max_block_size − 1` … -/
structure ParamsGeom (P : Pff.Run.Params) (hashLen : Nat) : Prop where
  mbs     : P.mbs ≤ 255
  hash    : P.hashLen = hashLen
  kMain   : 1 ≤ P.kMain ∧ P.kMain < P.mbs
  kOf     : ∀ size x, 1 ≤ P.kOfFor size x ∧ P.kOfFor size x < P.mbs
  kIntra  : 1 ≤ P.kIntra ∧ P.kIntra < P.mbs

/-- damage within capacity, in bytes -/
structure WithinCapacityBytes (O : Ops) (P : Pff.Run.Params) (d : Damaged) : Prop where
  lenNow   : d.now.length = d.orig.length
  lenTrack : d.trackD.length = (genTrackFor O P d.orig).length
  bytesOrig : IsBytes d.orig
  bytesNow  : IsBytes d.now
  bytesTrack : IsBytes d.trackD
  blocks : ∀ b ∈ blocksOf P d,
    2 * hdist (b.msg ++ b.ecc) (origMsg d.orig b ++ O.enc b.k (origMsg d.orig b)) ≤ P.mbs - b.k ∧
    (P.fast = true → O.H b.msg = b.hash → b.msg = origMsg d.orig b)

theorem C01_chain_A (algo k0 : Nat) (ha : algo = 1 ∨ algo = 2 ∨ algo = 3)
    (core : Core (Elt pA)) (H : List Nat → List Nat) (hashLen : Nat) (hH : ∀ m, (H m).length = hashLen)
    (P : Pff.Run.Params) (hP : ParamsGeom P hashLen) (hW : CoreW (codecA algo P.mbs k0) core)
    (pre : List Nat) (ds : List Damaged)
    (hfiles : ∀ d ∈ ds, FileOK (opsOfFacade (codecA algo P.mbs k0) core H false 0 false) P d.path d.orig)
    (hdistinct : (ds.map (·.path)).Nodup)
    (hcap : ∀ d ∈ ds, WithinCapacityBytes (opsOfFacade (codecA algo P.mbs k0) core H false 0 false) P d)
    (hacc : NoAccidental pre marker
      (ds.map (fun d => bodyWith (opsOfFacade (codecA algo P.mbs k0) core H false 0 false) P d.path d.orig d.trackD))) :
    let O := opsOfFacade (codecA algo P.mbs k0) core H false 0 false
    let stream := build pre marker (ds.map (fun d => bodyWith O P d.path d.orig d.trackD))
    let r := run O P (ds.map (fun d => (d.path, d.now))) stream
    r.outcomes.length = ds.length ∧
    (∀ i (hi : i < ds.length), ∃ o, r.outcomes[i]? = some o ∧ o.path = ds[i].path ∧ o.skipped = false ∧ o.processed = true ∧
        (protectedDamaged P ds[i] →
          o.result = { output := some (restored P ds[i]), corrupted := true, complete := true, partialRep := false } ∧
          o.effect = .wrote (restored P ds[i])) ∧
        (∀ out, o.result.output = some out → out = restored P ds[i])) ∧
    exitOf r = 0 := by
  exact Pff.ChainProofs.chain_generic (codecA algo P.mbs k0) core
    (Pff.ChainProofs.codecLenA algo P.mbs k0 ha hP.mbs)
    (Pff.BridgeProofs.codecFactsA algo P.mbs k0 ha hP.mbs)
    (Pff.BridgeProofs.decFactsA algo P.mbs k0 ha hP.mbs core hW)
    H hashLen hH P rfl hP.hash hP.kMain hP.kOf hP.kIntra _ rfl pre ds hfiles hdistinct
    (fun d hd => ⟨(hcap d hd).lenNow, (hcap d hd).lenTrack, (hcap d hd).bytesOrig, (hcap d hd).bytesNow,
      (hcap d hd).bytesTrack, (hcap d hd).blocks⟩) hacc

theorem C01_chain_B (k0 : Nat)
    (core : Core (Elt pB)) (H : List Nat → List Nat) (hashLen : Nat) (hH : ∀ m, (H m).length = hashLen)
    (P : Pff.Run.Params) (hP : ParamsGeom P hashLen) (hW : CoreW (codecB P.mbs k0) core)
    (pre : List Nat) (ds : List Damaged)
    (hfiles : ∀ d ∈ ds, FileOK (opsOfFacade (codecB P.mbs k0) core H false 0 false) P d.path d.orig)
    (hdistinct : (ds.map (·.path)).Nodup)
    (hcap : ∀ d ∈ ds, WithinCapacityBytes (opsOfFacade (codecB P.mbs k0) core H false 0 false) P d)
    (hacc : NoAccidental pre marker
      (ds.map (fun d => bodyWith (opsOfFacade (codecB P.mbs k0) core H false 0 false) P d.path d.orig d.trackD))) :
    let O := opsOfFacade (codecB P.mbs k0) core H false 0 false
    let stream := build pre marker (ds.map (fun d => bodyWith O P d.path d.orig d.trackD))
    let r := run O P (ds.map (fun d => (d.path, d.now))) stream
    r.outcomes.length = ds.length ∧
    (∀ i (hi : i < ds.length), ∃ o, r.outcomes[i]? = some o ∧ o.path = ds[i].path ∧ o.skipped = false ∧ o.processed = true ∧
        (protectedDamaged P ds[i] →
          o.result = { output := some (restored P ds[i]), corrupted := true, complete := true, partialRep := false } ∧
          o.effect = .wrote (restored P ds[i])) ∧
        (∀ out, o.result.output = some out → out = restored P ds[i])) ∧
    exitOf r = 0 := by
  exact Pff.ChainProofs.chain_generic (codecB P.mbs k0) core
    (Pff.ChainProofs.codecLenB P.mbs k0 hP.mbs)
    (Pff.BridgeProofs.codecFactsB P.mbs k0 hP.mbs)
    (Pff.BridgeProofs.decFactsB P.mbs k0 hP.mbs core hW)
    H hashLen hH P rfl hP.hash hP.kMain hP.kOf hP.kIntra _ rfl pre ds hfiles hdistinct
    (fun d hd => ⟨(hcap d hd).lenNow, (hcap d hd).lenTrack, (hcap d hd).bytesOrig, (hcap d hd).bytesNow,
      (hcap d hd).bytesTrack, (hcap d hd).blocks⟩) hacc

/-- the entry (without marker) made of the given parts -/
def bodyOfParts (p : EntryParts) : List Nat := (genEntry p).drop marker.length

/-- metadata damaged within the intra capacity: the damaged parts `p'` have the lengths of the
pristine parts `p`, the same track, spell no delimiter, and every intra block of the path and of
the size text satisfies the premise of `C09_intra_repair_*` -/
structure MetaWithinCapacity (O : Ops) (P : Pff.Run.Params) (p p' : EntryParts) : Prop where
  track    : p'.track = p.track
  lenPath  : p'.path.length = p.path.length
  lenSize  : p'.sizeTxt.length = p.sizeTxt.length
  lenPathEcc : p'.pathEcc.length = p.pathEcc.length
  lenSizeEcc : p'.sizeEcc.length = p.sizeEcc.length
  nonempty : p.path ≠ []
  clean    : Clean p.path ∧ Clean p.sizeTxt ∧ Clean p.pathEcc ∧ Clean p.sizeEcc
  clean'   : Clean p'.path ∧ Clean p'.sizeTxt ∧ Clean p'.pathEcc ∧ Clean p'.sizeEcc
  short    : p.path.length + p.sizeTxt.length + p.pathEcc.length + p.sizeEcc.length + 4 * delim.length ≤ 65535
  pathOK   : match P.tool with
    | .header =>
      ((assembleHeader P.kIntra 0 P.mbs p'.path.length p'.path p'.pathEcc (p'.path.length + 1) 0 0).map (·.msg)).flatten = p'.path ∧
      ∀ b ∈ assembleHeader P.kIntra 0 P.mbs p'.path.length p'.path p'.pathEcc (p'.path.length + 1) 0 0, IntraBlockOK O P.kIntra p.path b
    | .whole =>
      ((assemble (fun _ => P.kIntra) 0 P.mbs p'.path p'.pathEcc (p'.path.length + 1) 0 0).map (·.msg)).flatten = p'.path ∧
      ∀ b ∈ assemble (fun _ => P.kIntra) 0 P.mbs p'.path p'.pathEcc (p'.path.length + 1) 0 0, IntraBlockOK O P.kIntra p.path b
  sizeOK   : match P.tool with
    | .header =>
      ((assembleHeader P.kIntra 0 P.mbs p'.sizeTxt.length p'.sizeTxt p'.sizeEcc (p'.sizeTxt.length + 1) 0 0).map (·.msg)).flatten = p'.sizeTxt ∧
      ∀ b ∈ assembleHeader P.kIntra 0 P.mbs p'.sizeTxt.length p'.sizeTxt p'.sizeEcc (p'.sizeTxt.length + 1) 0 0, IntraBlockOK O P.kIntra p.sizeTxt b
    | .whole =>
      ((assemble (fun _ => P.kIntra) 0 P.mbs p'.sizeTxt p'.sizeEcc (p'.sizeTxt.length + 1) 0 0).map (·.msg)).flatten = p'.sizeTxt ∧
      ∀ b ∈ assemble (fun _ => P.kIntra) 0 P.mbs p'.sizeTxt p'.sizeEcc (p'.sizeTxt.length + 1) 0 0, IntraBlockOK O P.kIntra p.sizeTxt b

/-- pristine metadata decodes to itself (what `IntraOps` gives; stated as a hypothesis on the two
fields so that the theorem does not depend on how the pristine parities were produced) -/
def MetaPristine (O : Ops) (P : Pff.Run.Params) (p : EntryParts) : Prop :=
  match P.tool with
  | .header => (correctIntraHeader O P.kIntra P.mbs p.path p.pathEcc).field = p.path ∧
               (correctIntraHeader O P.kIntra P.mbs p.sizeTxt p.sizeEcc).field = p.sizeTxt
  | .whole => (correctIntraWhole O P.kIntra P.mbs p.path p.pathEcc).field = p.path ∧
              (correctIntraWhole O P.kIntra P.mbs p.sizeTxt p.sizeEcc).field = p.sizeTxt

theorem C09_run_metadata_within_capacity (O : Ops) (P : Pff.Run.Params) (fs : FS) (X Y : List Nat) (p p' : EntryParts)
    (hp : MetaPristine O P p) (hm : MetaWithinCapacity O P p p') :
    view (processEntry O P fs (X ++ bodyOfParts p' ++ Y) X.length (X.length + (bodyOfParts p').length)) =
      view (processEntry O P fs (X ++ bodyOfParts p ++ Y) X.length (X.length + (bodyOfParts p).length)) := by
  have hml : (Pff.Run.C.metaOf p').length = (Pff.Run.C.metaOf p).length := by
    rw [Pff.Run.C.metaOf_length, Pff.Run.C.metaOf_length, hm.lenPath, hm.lenSize, hm.lenPathEcc, hm.lenSizeEcc]
  have hne' : p'.path ≠ [] := by
    intro h
    have := hm.lenPath
    rw [h] at this
    exact hm.nonempty (List.length_eq_zero_iff.mp this.symm)
  unfold bodyOfParts
  rw [Pff.Run.C.genEntry_drop, Pff.Run.C.genEntry_drop]
  exact Pff.Run.Chain.view_same_meta O P fs X Y p p' p.path p.sizeTxt hm.track hml
    (by rw [Pff.Run.C.metaOf_length]; have := hm.short; omega) hm.nonempty hne' hm.clean hm.clean' hp
    (Pff.Run.Chain.decoded_of_ok O P p p' hm.lenPath hm.lenSize hm.pathOK hm.sizeOK)

end Pff.Chain
