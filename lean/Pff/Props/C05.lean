import Pff.Model.Rfigc
import Pff.Proofs.Rfigc
/-!
# C05 — hash audit flags every changed file and no unchanged file

Property theorems only. `E.H` is an arbitrary deterministic hash pair; where detection of a
content change is claimed, "the two contents do not collide" is an explicit hypothesis (that *is*
the content of "detects even a single bit"). The model has no absolute root, so "copied elsewhere
with times preserved" is the same tree; the correspondence check runs the relocated case.
-/
namespace Pff.Rfigc

/-- The decision rule for one row, stated outright. -/
theorem C05_rule (E : Env) (o : CheckOpts) (t : Tree) (r : Row) :
    rowErrors E o t r ≠ [] ↔
      match lookup t r.path with
      | none => o.skipMissing = false
      | some f =>
        (o.skipHash = false ∧ ((E.H f.content).1 ≠ r.md5 ∨ (E.H f.content).2 ≠ r.sha1)) ∨
        E.extOf f.path ≠ r.ext ∨ f.content.length ≠ r.size ∨
        (o.noMtime = false ∧ f.mtime ≠ r.mtime ∧ E.roundSec f.mtime ≠ E.roundSec r.mtime) := by
  exact rowErrors_ne_nil_iff E o t r

/-- Check mode on the tree the database was generated from reports nothing and exits 0, for every
option combination and for folder or single-file input. -/
theorem C05_clean (E : Env) (o : CheckOpts) (t : Tree) (inp : Input) (hnd : (t.map (·.path)).Nodup) :
    check E o (genDb E t) t inp = { reported := [], exit := 0 } := by
  exact check_clean E o t inp hnd

/-- what counts as changed for a recorded file `f`, given the options, in the current tree `t'` -/
def changed (E : Env) (o : CheckOpts) (t' : Tree) (f : File) : Bool :=
  match lookup t' f.path with
  | none => !o.skipMissing
  | some f' =>
    (!o.skipHash && decide (f'.content ≠ f.content)) || decide (f'.content.length ≠ f.content.length) ||
    (!o.noMtime && decide (f'.mtime ≠ f.mtime) && decide (E.roundSec f'.mtime ≠ E.roundSec f.mtime))

/-- After arbitrary mutations (`t'` is any tree), check mode reports exactly the recorded paths
whose file was changed or removed — no more, no fewer — and exits non-zero iff there is one.
Each option silences its own attribute only (see `changed`). Hypothesis: a changed content does
not collide with the recorded one under both hashes. -/
theorem C05_exact (E : Env) (o : CheckOpts) (t t' : Tree)
    (hnd : (t.map (·.path)).Nodup)
    (hcoll : ∀ f ∈ t, ∀ f' ∈ t', f.path = f'.path → f'.content ≠ f.content →
        (E.H f'.content).1 ≠ (E.H f.content).1 ∨ (E.H f'.content).2 ≠ (E.H f.content).2) :
    check E o (genDb E t) t' .folder =
      { reported := (t.filter (changed E o t')).map (·.path),
        exit := if (t.filter (changed E o t')).isEmpty then 0 else 1 } := by
  have _ := hnd   -- (not needed: a duplicated recorded path would simply be reported twice on both sides)
  have hbad : ((genDb E t).filter (concerns .folder)).filter (fun r => !(rowErrors E o t' r).isEmpty)
      = (t.filter (changed E o t')).map (rowOf E) := by
    simp only [genDb, List.filter_map, List.filter_filter]
    congr 1
    apply List.filter_congr
    intro f hf
    simp only [Function.comp, concerns, Bool.and_true]
    rw [rowErrors_rowOf_ne_nil_iff E o t' f (hcoll f hf)]
    rfl
  simp only [check, hbad, List.map_map, List.isEmpty_map]
  rfl

/-- Single-file input looks at that file's row only. -/
theorem C05_single (E : Env) (o : CheckOpts) (db : List Row) (t : Tree) (n : String) :
    (check E o db t (.file n)).reported = ((check E o db t .folder).reported).filter (· = n) := by
  exact check_single E o db t n

/-- Non-vacuity: a one-bit change with size and time restored is reported. -/
example :
    let E : Env := { H := fun c => (c.sum, c.length + c.headD 0), extOf := fun _ => "", roundSec := id }
    check E {} (genDb E [⟨"a", [1,2,3], 5⟩, ⟨"b", [4], 6⟩]) [⟨"a", [1,3,3], 5⟩, ⟨"b", [4], 6⟩] .folder
      = { reported := ["a"], exit := 1 } := by
  decide

end Pff.Rfigc
