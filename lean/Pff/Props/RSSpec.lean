import Pff.Model.GF
import Pff.Model.Facade
import Mathlib.Algebra.Field.Defs
/-!
Specification-level definitions shared by C02 / C11 / C12 (no theorem here): what a well-formed
codec object is, Hamming distance, and the **contract W** assumed of the third-party decoders.
-/
namespace Pff.RSSpec

open Pff.RS Pff.Facade Pff.GF

/-- number of positions where two words (of the same length) differ -/
def hdist {F : Type} [DecidableEq F] : List F → List F → Nat
  | x :: xs, y :: ys => (if x = y then 0 else 1) + hdist xs ys
  | _, _ => 0

/-- A codec object as `ECCMan.__init__` builds it, over a field of characteristic 2 whose
`generator` has multiplicative order ≥ 255 (so that `n ≤ 255` distinct locators exist). -/
structure GoodCodec {F : Type} [Field F] [DecidableEq F] (c : Codec F) : Prop where
  char2 : ∀ a : F, a + a = 0
  algo_ok : c.algo = 1 ∨ c.algo = 2 ∨ c.algo = 3 ∨ c.algo = 4
  prim : ∃ α : F, α ≠ 0 ∧ (∀ i, c.pw i = α ^ i) ∧ (∀ i j, i < 255 → j < 255 → α ^ i = α ^ j → i = j)
  n_le : c.n ≤ 255

/-- the codec objects of `--ecc_algo 1|2|3` (field 0x11b, generator 3, fcr 1) -/
def codecA (algo n k : Nat) : Codec (Elt pA) := { algo := algo, n := n, k := k, pw := Elt.gpow pA, fcr := 1 }
/-- the codec object of `--ecc_algo 4` (field 0x187, generator 2, fcr 120) -/
def codecB (n k : Nat) : Codec (Elt pB) := { algo := 4, n := n, k := k, pw := Elt.gpow pB, fcr := 120 }

/-- number of positions outside `l` where `word` and `cw` differ -/
def errorsOutside {F : Type} [DecidableEq F] (word cw : List F) (l : List Nat) : Nat :=
  ((List.range word.length).filter (fun i => decide (i ∉ l) && decide (word[i]? ≠ cw[i]?))).length

/-- "within capacity" for one library call: `E = none` erasure handling off; `E = some l` the
erasure positions handed over; `oe` = `only_erasures` -/
def WithinCap {F : Type} [DecidableEq F] (word cw : List F) (nsym : Nat) (E : Option (List Nat)) (oe : Bool) : Prop :=
  match E with
  | none => oe = false ∧ 2 * hdist word cw ≤ nsym
  | some l =>
    l.Nodup ∧ (∀ i ∈ l, i < word.length) ∧
    (if oe then errorsOutside word cw l = 0 ∧ l.length ≤ nsym
     else 2 * errorsOutside word cw l + l.length ≤ nsym)

/-- **Contract W** (within-capacity exactness) of the third-party decoders, for one codec object:
whenever a codeword `cw` of the code with `nsym` parity symbols lies within capacity of the
received word, the call returns that codeword, split into message and parity; codecs 1/2 may
return the parity stripped of leading nulls. Nothing is required beyond capacity. -/
def CoreW {F : Type} [Zero F] [One F] [Add F] [Mul F] [DecidableEq F] (c : Codec F) (core : Core F) : Prop :=
  ∀ (word cw : List F) (nsym : Nat) (E : Option (List Nat)) (oe : Bool),
    word.length = c.n → cw.length = c.n → nsym ≤ c.n →
    rsCheck c.pw c.fcr nsym cw = true →
    WithinCap word cw nsym E oe →
    ∃ er, core c.algo word nsym E oe = .ok (cw.take (c.n - nsym), er) ∧
      (er = cw.drop (c.n - nsym) ∨
       ((c.algo = 1 ∨ c.algo = 2) ∧ er.length ≤ nsym ∧
         List.replicate (nsym - er.length) 0 ++ er = cw.drop (c.n - nsym)))

end Pff.RSSpec
