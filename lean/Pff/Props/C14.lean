import Pff.Model.Scan
import Pff.Proofs.Scan
/-!
# C14 — entry scanning returns each entry exactly once with exact bounds

Property theorems only. `getNextEntry false` is the model of the repaired `get_next_entry`;
quantifiers: every stream, every marker of length ≥ 1, every `blocksize` (values not larger than
the marker are raised by the code itself), every starting cursor.
-/
namespace Pff.Scan

/-- One call, for every stream / buffer size / cursor: the entry starts after the first marker
occurrence at or after the cursor and ends at the first occurrence at or after that (or at the
end of the stream); the cursor is left at the start of the entry; with no marker left the call
signals the end with the cursor at the end of the stream.  Nothing depends on `blocksize`. -/
theorem C14_call (stream marker : Bytes) (blocksize pos : Nat) (hm : 0 < marker.length)
    (hpos : pos ≤ stream.length) :
    getNextEntry false stream marker blocksize pos =
      match specNext stream marker pos with
      | some (a, b) => (some (a, b), a)
      | none => (none, stream.length) := by
  exact getNextEntry_eq_spec stream marker blocksize pos hm hpos

/-- Repeated calls from the start of the stream: buffered scanning = declarative scanning. -/
theorem C14_scan (stream marker : Bytes) (blocksize fuel : Nat) (hm : 0 < marker.length) :
    scanAll false stream marker blocksize fuel 0 = specAll stream marker fuel 0 := by
  exact scanAll_eq_specAll stream marker blocksize hm fuel 0 (Nat.zero_le _)

/-- On a generated stream without accidental marker the declarative scan yields exactly the
intended bounds, one per entry, and then nothing (the list has `entries.length` elements although
`entries.length + 1` calls are allowed). -/
theorem C14_intended (pre marker : Bytes) (entries : List Bytes) (hm : 0 < marker.length)
    (h : NoAccidental pre marker entries) :
    specAll (build pre marker entries) marker (entries.length + 1) 0 =
      intended marker pre.length entries := by
  exact specAll_intended pre marker entries hm h

/-- Headline: scanning a generated stream returns, in order, one result per entry marker, each
spanning exactly from the end of its marker to the start of the next (or end of stream), then
signals the end — whatever the buffer size and wherever markers fall relative to buffers. -/
theorem C14_scan_built (pre marker : Bytes) (entries : List Bytes) (blocksize : Nat)
    (hm : 0 < marker.length) (h : NoAccidental pre marker entries) :
    scanAll false (build pre marker entries) marker blocksize (entries.length + 1) 0 =
      intended marker pre.length entries := by
  rw [scanAll_eq_specAll _ marker blocksize hm _ 0 (Nat.zero_le _)]
  exact specAll_intended pre marker entries hm h

/-- Content mode: the bytes between the intended bounds are the entries themselves. -/
theorem C14_content_built (pre marker : Bytes) (entries : List Bytes) :
    (intended marker pre.length entries).map
        (fun ab => ((build pre marker entries).drop ab.1).take (ab.2 - ab.1)) = entries := by
  exact content_built marker entries pre

/-- Regression witness for the defect repaired in /repo: 23-byte stream, marker at offset 10,
`blocksize = 15`: the pinned loop returned no entry at all. -/
theorem C14_negative_pinned :
    let M : Bytes := [254,255,254,255,254,255,254,255,254,255]
    let s : Bytes := List.replicate 10 65 ++ M ++ [65,65,65]
    getNextEntry true s M 15 0 = (none, 23) ∧ specNext s M 0 = some (20, 23) ∧
    getNextEntry false s M 15 0 = (some (20, 23), 20) := by
  decide

/-- Non-vacuity: a concrete stream whose entries contain the marker's own bytes (partial markers
`255,254,255` and `254,255,254`) satisfies `NoAccidental`. -/
example : NoAccidental [1,2,3] [254,255,254,255] [[5,6],[255,254,255,7],[9,254,255,254]] := by
  unfold NoAccidental
  decide

/-- and a self-overlapping marker makes accidental markers easy to hit: this stream is excluded -/
example : ¬ NoAccidental [1,2,3] [254,255,254,255] [[5,6],[255,254,255],[254,255,254,9]] := by
  unfold NoAccidental
  decide

end Pff.Scan
