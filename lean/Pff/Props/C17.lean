import Pff.Model.Rfigc
import Pff.Proofs.Rfigc
/-!
# C17 — file-scraping recovery restores names and layout from contents

Property theorems only. The scraped folder is an arbitrary list of contents (names and nesting are
never looked at by the tool, so every renaming / flattening / re-nesting is covered), possibly
with unknown or damaged files mixed in.
-/
namespace Pff.Rfigc

/-- the PAIR of hashes does not collide on the contents involved (two different contents may share
their md5, or their sha1 — md5 collisions exist — but not both) -/
def NoCollision (E : Env) (cs : List Bytes) : Prop :=
  ∀ a ∈ cs, ∀ b ∈ cs, E.H a = E.H b → a = b

/-- Under pairwise distinct recorded contents and no collision of the hash PAIR among recorded and scraped
contents: the output folder holds, at each recorded path whose content was found among the
scraped files, exactly that content with the recorded modification time — and nothing else. -/
theorem C17_recover (E : Env) (orig : Tree) (scraped : List Bytes)
    (hpaths : (orig.map (·.path)).Nodup) (hdistinct : (orig.map (·.content)).Nodup)
    (hcoll : NoCollision E (orig.map (·.content) ++ scraped)) (p : String) :
    scrapeOutput E (genDb E orig) scraped p =
      match lookup orig p with
      | some f => if f.content ∈ scraped then some { path := p, content := f.content, mtime := f.mtime } else none
      | none => none := by
  exact scrapeOutput_spec E orig scraped hpaths hdistinct hcoll p

/-- When every recorded content is present, the output tree equals the original tree. -/
theorem C17_complete (E : Env) (orig : Tree) (scraped : List Bytes)
    (hpaths : (orig.map (·.path)).Nodup) (hdistinct : (orig.map (·.content)).Nodup)
    (hcoll : NoCollision E (orig.map (·.content) ++ scraped))
    (hall : ∀ f ∈ orig, f.content ∈ scraped) (p : String) :
    scrapeOutput E (genDb E orig) scraped p =
      (lookup orig p).map (fun f => { path := f.path, content := f.content, mtime := f.mtime }) := by
  rw [scrapeOutput_spec E orig scraped hpaths hdistinct hcoll p]
  cases hl : lookup orig p with
  | none => rfl
  | some f =>
    obtain ⟨hf, hp⟩ := lookup_some hl
    simp [hall f hf, hp]

/-- Unknown or damaged files create nothing. -/
theorem C17_unknown_ignored (E : Env) (orig : Tree) (scraped : List Bytes) (c : Bytes)
    (hcoll : NoCollision E (orig.map (·.content) ++ c :: scraped)) (hc : c ∉ orig.map (·.content)) :
    scrapeWrites E (genDb E orig) (c :: scraped) = scrapeWrites E (genDb E orig) scraped := by
  refine scrapeWrites_cons_unknown E orig scraped c (fun f hf e => ?_) hc
  exact hcoll _ (List.mem_append_left _ (List.mem_map_of_mem hf)) _
    (List.mem_append_right _ List.mem_cons_self) e

/-- regression witness of the repaired defect: two recorded files with different contents and the
SAME md5 (sha1 different) are both recovered; with two separate lookups the first was lost -/
theorem C17_md5_twins_recovered :
    let E : Env := { H := fun c => (7, c.sum), extOf := fun _ => "", roundSec := id }
    let orig : Tree := [{ path := "a", content := [1], mtime := 0 }, { path := "b", content := [2], mtime := 0 }]
    (scrapeWrites E (genDb E orig) [[1], [2]]).map (·.path) = ["a", "b"] := by
  intro E orig
  decide

end Pff.Rfigc
