import Pff.Model.Vote
/-! Helper lemmas for C06 (majority vote). -/
namespace Pff.Vote

/-! ## generic list helpers -/

theorem filterMap_congr' {α β} {f g : α → Option β} {l : List α} (h : ∀ a ∈ l, f a = g a) :
    l.filterMap f = l.filterMap g := by
  induction l with
  | nil => rfl
  | cons a l ih =>
    simp only [List.filterMap_cons, h a (List.mem_cons_self ..)]
    rw [ih (fun b hb => h b (List.mem_cons_of_mem _ hb))]

theorem find?_congr' {α} {p q : α → Bool} {l : List α} (h : ∀ a ∈ l, p a = q a) :
    l.find? p = l.find? q := by
  induction l with
  | nil => rfl
  | cons a l ih =>
    simp only [List.find?_cons, h a (List.mem_cons_self ..)]
    rw [ih (fun b hb => h b (List.mem_cons_of_mem _ hb))]

/-- a `filterMap` over `range n` whose function is `some` below `n` is a `map` -/
theorem filterMap_range_eq_map {β} {f : Nat → Option β} {g : Nat → β} {n : Nat}
    (h : ∀ j, j < n → f j = some (g j)) :
    (List.range n).filterMap f = (List.range n).map g := by
  rw [← List.filterMap_eq_map']
  exact filterMap_congr' (fun j hj => h j (List.mem_range.1 hj))

/-! ## `maxLen`, `column`, `takeAll`, `dropAll` -/

@[simp] theorem maxLen_nil : maxLen [] = 0 := rfl

@[simp] theorem maxLen_cons (c : Bytes) (cs : List Bytes) :
    maxLen (c :: cs) = max c.length (maxLen cs) := rfl

@[simp] theorem column_nil (j : Nat) : column [] j = [] := rfl

theorem column_cons (c : Bytes) (cs : List Bytes) (j : Nat) :
    column (c :: cs) j = (match c[j]? with | some v => v :: column cs j | none => column cs j) := by
  simp only [column, List.filterMap_cons]
  cases c[j]? <;> rfl

theorem lt_maxLen_iff (copies : List Bytes) (j : Nat) :
    j < maxLen copies ↔ ∃ c ∈ copies, j < c.length := by
  induction copies with
  | nil => simp
  | cons c cs ih =>
    simp only [maxLen_cons, List.mem_cons, exists_eq_or_imp, ← ih]
    omega

theorem column_ne_nil_iff (copies : List Bytes) (j : Nat) :
    column copies j ≠ [] ↔ j < maxLen copies := by
  induction copies with
  | nil => simp
  | cons c cs ih =>
    rw [column_cons, maxLen_cons]
    by_cases h : j < c.length
    · simp [List.getElem?_eq_getElem h]; omega
    · have : c[j]? = none := List.getElem?_eq_none (by omega)
      simp only [this, ih]; omega

theorem column_eq_nil_of_le (copies : List Bytes) (j : Nat) (h : maxLen copies ≤ j) :
    column copies j = [] := by
  by_cases h' : column copies j = []
  · exact h'
  · have := (column_ne_nil_iff copies j).1 h'; omega

theorem maxLen_takeAll (bs : Nat) (copies : List Bytes) :
    maxLen (takeAll bs copies) = min bs (maxLen copies) := by
  induction copies with
  | nil => simp [takeAll]
  | cons c cs ih =>
    simp only [takeAll, List.map_cons, maxLen_cons, List.length_take] at ih ⊢
    rw [ih]; omega

theorem maxLen_dropAll (bs : Nat) (copies : List Bytes) :
    maxLen (dropAll bs copies) = maxLen copies - bs := by
  induction copies with
  | nil => simp [dropAll]
  | cons c cs ih =>
    simp only [dropAll, List.map_cons, maxLen_cons, List.length_drop] at ih ⊢
    rw [ih]; omega

theorem column_takeAll (bs : Nat) (copies : List Bytes) (j : Nat) (hj : j < bs) :
    column (takeAll bs copies) j = column copies j := by
  simp only [column, takeAll, List.filterMap_map]
  congr 1; funext c
  simp only [Function.comp, List.getElem?_take_of_lt hj]

theorem column_dropAll (bs : Nat) (copies : List Bytes) (j : Nat) :
    column (dropAll bs copies) j = column copies (bs + j) := by
  simp only [column, dropAll, List.filterMap_map]
  congr 1; funext c
  simp only [Function.comp, List.getElem?_drop]

theorem allEmpty_iff_maxLen (copies : List Bytes) :
    allEmpty copies = true ↔ maxLen copies = 0 := by
  induction copies with
  | nil => simp [allEmpty]
  | cons c cs ih =>
    simp only [allEmpty, List.all_cons, Bool.and_eq_true, maxLen_cons] at ih ⊢
    rw [ih]
    cases c <;> simp <;> omega

/-! ## the histogram `histOf` -/

theorem foldl_histAdd_cons (a c : Nat) (H : List (Nat × Nat)) (l : List Nat) :
    l.foldl histAdd ((a, c) :: H) =
      (a, c + l.count a) :: (l.filter (fun v => v != a)).foldl histAdd H := by
  induction l generalizing c H with
  | nil => simp
  | cons v l ih =>
    simp only [List.foldl_cons, histAdd]
    by_cases h : a = v
    · subst h
      simp only [↓reduceIte, ih, List.count_cons_self, List.filter_cons, bne_self_eq_false,
        Bool.false_eq_true]
      congr 2; omega
    · have h' : (v != a) = true := by simp; exact fun e => h e.symm
      have h'' : (v == a) = false := by simp; exact fun e => h e.symm
      simp only [h, ↓reduceIte, ih, List.filter_cons, h', List.foldl_cons, List.count_cons, h'']
      simp

theorem histOf_cons (a : Nat) (l : List Nat) :
    histOf (a :: l) = (a, 1 + l.count a) :: histOf (l.filter (fun v => v != a)) := by
  simp only [histOf, List.foldl_cons, histAdd]
  exact foldl_histAdd_cons a 1 [] l

@[simp] theorem histOf_nil : histOf [] = [] := rfl

theorem length_filter_ne_lt (a : Nat) (l : List Nat) :
    (l.filter (fun v => v != a)).length < (a :: l).length := by
  have := List.length_filter_le (fun v => v != a) l
  simp only [List.length_cons]; omega

theorem mem_histOf_aux (n : Nat) : ∀ (col : List Nat), col.length ≤ n → ∀ k c,
    ((k, c) ∈ histOf col ↔ k ∈ col ∧ c = col.count k) := by
  induction n with
  | zero =>
    intro col h k c
    have : col = [] := List.eq_nil_of_length_eq_zero (by omega)
    subst this; simp
  | succ n ih =>
    intro col h k c
    cases col with
    | nil => simp
    | cons a l =>
      have hlt := length_filter_ne_lt a l
      rw [histOf_cons, List.mem_cons, ih _ (by omega)]
      by_cases hk : k = a
      · subst hk
        simp only [Prod.mk.injEq, true_and, List.mem_filter, bne_self_eq_false,
          Bool.false_eq_true, and_false, false_and, or_false, List.mem_cons, true_or,
          List.count_cons_self]
        omega
      · have hk' : (k != a) = true := by simp [hk]
        have hk'' : (a == k) = false := by simp; exact fun e => hk e.symm
        simp only [Prod.mk.injEq, hk, false_and, List.mem_filter, hk', and_true,
          List.count_filter (p := fun v => v != a) hk', false_or, List.mem_cons,
          List.count_cons, hk'', Bool.false_eq_true, ↓reduceIte, Nat.add_zero]

theorem mem_histOf (col : List Nat) (k c : Nat) :
    (k, c) ∈ histOf col ↔ k ∈ col ∧ c = col.count k :=
  mem_histOf_aux col.length col (Nat.le_refl _) k c

theorem find?_filter_ne (p : Nat → Bool) (a : Nat) (l : List Nat) (ha : p a = false) :
    (l.filter (fun v => v != a)).find? p = l.find? p := by
  rw [List.find?_filter]
  apply find?_congr'
  intro b _
  by_cases hb : b = a
  · subst hb; simp [ha]
  · simp [hb]

theorem find?_keys_aux (p : Nat → Bool) (n : Nat) : ∀ (col : List Nat), col.length ≤ n →
    ((histOf col).map (·.1)).find? p = col.find? p := by
  induction n with
  | zero =>
    intro col h
    have : col = [] := List.eq_nil_of_length_eq_zero (by omega)
    subst this; simp
  | succ n ih =>
    intro col h
    cases col with
    | nil => simp
    | cons a l =>
      have hlt := length_filter_ne_lt a l
      rw [histOf_cons, List.map_cons, List.find?_cons, List.find?_cons, ih _ (by omega)]
      cases ha : p a with
      | true => rfl
      | false => exact find?_filter_ne p a l ha

theorem find?_keys (p : Nat → Bool) (col : List Nat) :
    ((histOf col).map (·.1)).find? p = col.find? p :=
  find?_keys_aux p col.length col (Nat.le_refl _)

/-! ## `topAux` returns the first entry of maximal count -/

theorem topAux_spec (best : Nat × Nat) (t : List (Nat × Nat)) :
    ∃ l1 l2, best :: t = l1 ++ topAux best t :: l2 ∧
      (∀ x ∈ l1, x.2 < (topAux best t).2) ∧ (∀ x ∈ l2, x.2 ≤ (topAux best t).2) := by
  induction t generalizing best with
  | nil => exact ⟨[], [], rfl, by simp, by simp⟩
  | cons kc t ih =>
    obtain ⟨k, c⟩ := kc
    simp only [topAux]
    split
    · next hlt =>
      obtain ⟨l1, l2, heq, h1, h2⟩ := ih (k, c)
      have hc : c ≤ (topAux (k, c) t).2 := by
        have hm : (k, c) ∈ l1 ++ topAux (k, c) t :: l2 := heq ▸ List.mem_cons_self ..
        rcases List.mem_append.1 hm with h | h
        · exact Nat.le_of_lt (h1 _ h)
        · rcases List.mem_cons.1 h with h | h
          · rw [← h]; exact Nat.le_refl _
          · exact h2 _ h
      refine ⟨best :: l1, l2, by rw [heq]; rfl, ?_, h2⟩
      intro x hx
      rcases List.mem_cons.1 hx with rfl | hx
      · omega
      · exact h1 _ hx
    · next hge =>
      obtain ⟨l1, l2, heq, h1, h2⟩ := ih best
      cases l1 with
      | nil =>
        simp only [List.nil_append, List.cons.injEq] at heq
        obtain ⟨hb, ht⟩ := heq
        refine ⟨[], (k, c) :: t, by rw [← hb]; rfl, by simp, ?_⟩
        intro x hx
        rcases List.mem_cons.1 hx with rfl | hx
        · rw [← hb]; omega
        · exact h2 _ (ht ▸ hx)
      | cons b l1 =>
        simp only [List.cons_append, List.cons.injEq] at heq
        obtain ⟨hb, ht⟩ := heq
        subst hb
        refine ⟨best :: (k, c) :: l1, l2, congrArg (fun z => best :: (k, c) :: z) ht, ?_, h2⟩
        have hbest := h1 best (List.mem_cons_self ..)
        intro x hx
        rcases List.mem_cons.1 hx with rfl | hx
        · exact hbest
        · rcases List.mem_cons.1 hx with rfl | hx
          · simp only; omega
          · exact h1 _ (List.mem_cons_of_mem _ hx)

/-! ## `voteCol` agrees with the per-column spec -/

theorem isPlurality_iff (col : List Nat) (v : Nat) :
    isPlurality col v = true ↔ ∀ w ∈ col, col.count w ≤ col.count v := by
  simp [isPlurality]

theorem specVal_of_histOf (col : List Nat) (x : Nat × Nat) (t : List (Nat × Nat))
    (h : histOf col = x :: t) : specVal col = some (topAux x t).1 := by
  obtain ⟨l1, l2, heq, h1, h2⟩ := topAux_spec x t
  generalize topAux x t = b at *
  obtain ⟨bk, bc⟩ := b
  have hH : histOf col = l1 ++ (bk, bc) :: l2 := h.trans heq
  have hmem : ∀ k c, (k, c) ∈ l1 ++ (bk, bc) :: l2 ↔ k ∈ col ∧ c = col.count k := by
    intro k c; rw [← hH]; exact mem_histOf col k c
  have hb : bk ∈ col ∧ bc = col.count bk := (hmem bk bc).1 (by simp)
  have hfind : (histOf col).find? (fun kc => isPlurality col kc.1) = some (bk, bc) := by
    rw [List.find?_eq_some_iff_append]
    refine ⟨?_, l1, l2, hH, ?_⟩
    · simp only [isPlurality_iff]
      intro w hw
      have hw' : (w, col.count w) ∈ l1 ++ (bk, bc) :: l2 := (hmem _ _).2 ⟨hw, rfl⟩
      rcases List.mem_append.1 hw' with h | h
      · have := h1 _ h; simp only at this; omega
      · rcases List.mem_cons.1 h with h | h
        · injection h with h3 h4; omega
        · have := h2 _ h; simp only at this; omega
    · intro a ha
      obtain ⟨ak, ac⟩ := a
      have ha' := (hmem ak ac).1 (List.mem_append_left _ ha)
      have hlt := h1 _ ha
      simp only [Bool.not_eq_eq_eq_not, Bool.not_true, ← Bool.not_eq_true, isPlurality_iff]
      intro hall
      have := hall bk hb.1
      simp only at hlt; omega
  rw [specVal, ← find?_keys, List.find?_map]
  show Option.map _ ((histOf col).find? (fun kc => isPlurality col kc.1)) = _
  rw [hfind]; rfl

theorem histOf_eq_nil (col : List Nat) (h : histOf col = []) : col = [] := by
  cases col with
  | nil => rfl
  | cons a l => rw [histOf_cons] at h; cases h

theorem nodup_of_histOf_le_one (col : List Nat) (h : ∀ kc ∈ histOf col, kc.2 ≤ 1) :
    col.Nodup := by
  rw [List.nodup_iff_count]
  intro a
  by_cases ha : a ∈ col
  · exact h (a, col.count a) ((mem_histOf col _ _).2 ⟨ha, rfl⟩)
  · rw [List.count_eq_zero.2 ha]; omega

theorem two_le_length_of_histOf (col : List Nat) (x y : Nat × Nat) (t : List (Nat × Nat))
    (h : histOf col = x :: y :: t) : 2 ≤ col.length := by
  match col, h with
  | [], h => simp at h
  | [a], h => simp [histOf_cons] at h
  | _ :: _ :: _, _ => simp

theorem specAmbiguous_of_histOf_single (col : List Nat) (kc : Nat × Nat)
    (h : histOf col = [kc]) : specAmbiguous col = false := by
  match col, h with
  | [], _ => rfl
  | [a], _ => rfl
  | a :: b :: l, h =>
    have ha : (a, (a :: b :: l).count a) ∈ histOf (a :: b :: l) :=
      (mem_histOf _ _ _).2 ⟨by simp, rfl⟩
    have hb : (b, (a :: b :: l).count b) ∈ histOf (a :: b :: l) :=
      (mem_histOf _ _ _).2 ⟨by simp, rfl⟩
    rw [h, List.mem_singleton] at ha hb
    have hab : a = b := by
      have := ha.trans hb.symm
      injection this
    subst hab
    simp [specAmbiguous]

theorem voteCol_eq (col : List Nat) :
    (voteCol col).map (·.1) = specVal col ∧
      ((voteCol col).map (·.2)).getD false = specAmbiguous col := by
  unfold voteCol
  split
  · next h =>
    have := histOf_eq_nil col h
    subst this
    exact ⟨rfl, rfl⟩
  · next kc h =>
    refine ⟨?_, ?_⟩
    · rw [specVal_of_histOf col kc [] h]; rfl
    · rw [specAmbiguous_of_histOf_single col kc h]; rfl
  · next x y t h =>
    have hspec := specVal_of_histOf col x (y :: t) h
    obtain ⟨l1, l2, heq, h1, h2⟩ := topAux_spec x (y :: t)
    have hlen := two_le_length_of_histOf col x y t h
    generalize topAux x (y :: t) = b at *
    have hbmem : b ∈ histOf col := by rw [h, heq]; simp
    obtain ⟨bk, bc⟩ := b
    have hb := (mem_histOf col bk bc).1 hbmem
    have hpos : 1 ≤ col.count bk := List.one_le_count_iff.2 hb.1
    simp only
    split
    · next h1' =>
      have hnd : col.Nodup := by
        apply nodup_of_histOf_le_one
        intro kc hkc
        rw [h, heq] at hkc
        rcases List.mem_append.1 hkc with h' | h'
        · have := h1 _ h'; simp only at this; omega
        · rcases List.mem_cons.1 h' with h' | h'
          · rw [h']; simp only; omega
          · have := h2 _ h'; simp only at this; omega
      refine ⟨?_, ?_⟩
      · match col, hlen with
        | a :: l, _ =>
          have hp : isPlurality (a :: l) a = true := by
            rw [isPlurality_iff]
            intro w _
            have h1 := (List.nodup_iff_count.1 hnd) w
            have h2 : 1 ≤ (a :: l).count a := List.one_le_count_iff.2 (by simp)
            omega
          simp [specVal, hp]
      · simp [specAmbiguous, hlen, hnd]
    · next h1' =>
      refine ⟨hspec.symm, ?_⟩
      have hnd : ¬ col.Nodup := by
        intro hnd
        have := (List.nodup_iff_count.1 hnd) bk
        omega
      simp [specAmbiguous, hnd]

theorem voteBlock_eq (entries : List Bytes) (base : Nat) :
    voteBlock entries base =
      { out := (voteSpec entries).out, errors := (voteSpec entries).errors.map (base + ·) } := by
  simp only [voteBlock, voteSpec, (voteCol_eq _).1, (voteCol_eq _).2]

/-! ## splitting the spec at a block boundary -/

theorem filterMap_range_add {β} (f : Nat → Option β) (m k : Nat) :
    (List.range (m + k)).filterMap f =
      (List.range m).filterMap f ++ (List.range k).filterMap (fun j => f (m + j)) := by
  rw [List.range_add, List.filterMap_append, List.filterMap_map]; rfl

theorem filter_range_add (p : Nat → Bool) (m k : Nat) :
    (List.range (m + k)).filter p =
      (List.range m).filter p ++ ((List.range k).filter (fun j => p (m + j))).map (m + ·) := by
  rw [List.range_add, List.filter_append, List.filter_map]; rfl

theorem voteSpec_split (bs : Nat) (copies : List Bytes) :
    (voteSpec copies).out =
        (voteSpec (takeAll bs copies)).out ++ (voteSpec (dropAll bs copies)).out ∧
    (voteSpec copies).errors =
        (voteSpec (takeAll bs copies)).errors ++
          (voteSpec (dropAll bs copies)).errors.map (min bs (maxLen copies) + ·) := by
  have hn : maxLen copies = min bs (maxLen copies) + (maxLen copies - bs) := by omega
  have h1 : ∀ j ∈ List.range (min bs (maxLen copies)),
      column copies j = column (takeAll bs copies) j := by
    intro j hj; rw [List.mem_range] at hj
    exact (column_takeAll bs copies j (by omega)).symm
  have h2 : ∀ j ∈ List.range (maxLen copies - bs),
      column copies (min bs (maxLen copies) + j) = column (dropAll bs copies) j := by
    intro j hj; rw [List.mem_range] at hj
    rw [column_dropAll]; congr 1; omega
  simp only [voteSpec, maxLen_takeAll, maxLen_dropAll]
  constructor
  · conv => lhs; rw [hn]
    rw [filterMap_range_add]
    congr 1
    · exact filterMap_congr' (fun j hj => by rw [h1 j hj])
    · exact filterMap_congr' (fun j hj => by rw [h2 j hj])
  · conv => lhs; rw [hn]
    rw [filter_range_add]
    congr 1
    · exact List.filter_congr (fun j hj => by rw [h1 j hj])
    · congr 1
      exact List.filter_congr (fun j hj => by rw [h2 j hj])

/-! ## shape of the spec output -/

theorem specVal_isSome (col : List Nat) (h : col ≠ []) : ∃ v, specVal col = some v := by
  cases col with
  | nil => exact absurd rfl h
  | cons a l => exact ⟨_, specVal_of_histOf _ _ _ (histOf_cons a l)⟩

theorem voteSpec_out_eq_map (copies : List Bytes) :
    (voteSpec copies).out =
      (List.range (maxLen copies)).map (fun j => (specVal (column copies j)).getD 0) := by
  simp only [voteSpec]
  apply filterMap_range_eq_map
  intro j hj
  obtain ⟨v, hv⟩ := specVal_isSome _ ((column_ne_nil_iff copies j).2 hj)
  rw [hv]; rfl

theorem voteSpec_out_length (copies : List Bytes) :
    (voteSpec copies).out.length = maxLen copies := by
  rw [voteSpec_out_eq_map]; simp

theorem voteSpec_out_getElem? (copies : List Bytes) (j : Nat) (hj : j < maxLen copies) :
    (voteSpec copies).out[j]? = specVal (column copies j) := by
  rw [voteSpec_out_eq_map, List.getElem?_map, List.getElem?_range hj]
  obtain ⟨v, hv⟩ := specVal_isSome _ ((column_ne_nil_iff copies j).2 hj)
  simp only [Option.map_some, hv, Option.getD_some]

theorem voteSpec_of_maxLen_zero (copies : List Bytes) (h : maxLen copies = 0) :
    voteSpec copies = { out := [], errors := [] } := by
  simp [voteSpec, h]

/-! ## the single-survivor shortcut -/

theorem filterMap_range_getElem? {β} (l : List β) :
    ∀ (f : Nat → Option β), (∀ j, j < l.length → f j = l[j]?) →
      (List.range l.length).filterMap f = l := by
  induction l with
  | nil => intro f _; rfl
  | cons a l ih =>
    intro f h
    rw [List.length_cons, List.range_succ_eq_map, List.filterMap_cons, h 0 (by simp),
      List.filterMap_map]
    simp only [List.getElem?_cons_zero]
    rw [ih (f ∘ Nat.succ) (fun j hj => by
      have := h (j + 1) (by simp; omega)
      simpa using this)]

theorem voteSpec_nil_cons (cs : List Bytes) : voteSpec ([] :: cs) = voteSpec cs := by
  simp [voteSpec, column_cons]

theorem specVal_singleton (v : Nat) : specVal [v] = some v := by
  simp [specVal, isPlurality]

theorem shortcut_eq (entries : List Bytes) (h : countEmpty entries + 1 = entries.length) :
    voteSpec entries =
      { out := (entries.find? (fun e => !e.isEmpty)).getD [], errors := [] } := by
  induction entries with
  | nil => simp at h
  | cons c cs ih =>
    cases c with
    | nil =>
      rw [voteSpec_nil_cons]
      simp [countEmpty] at h
      rw [ih h]; simp
    | cons a c =>
      simp [countEmpty] at h
      have hcs : maxLen cs = 0 := by
        rw [← allEmpty_iff_maxLen, allEmpty, List.all_eq_true]
        intro x hx; rw [h x hx]; rfl
      have hcol : ∀ j, column cs j = [] := fun j => column_eq_nil_of_le cs j (by omega)
      have hout : (List.range (a :: c).length).filterMap
          (fun j => specVal (column ((a :: c) :: cs) j)) = a :: c := by
        apply filterMap_range_getElem?
        intro j hj
        rw [column_cons, hcol, List.getElem?_eq_getElem hj]
        exact specVal_singleton _
      have herr : (List.range (a :: c).length).filter
          (fun j => specAmbiguous (column ((a :: c) :: cs) j)) = [] := by
        rw [List.filter_eq_nil_iff]
        intro j hj
        rw [List.mem_range] at hj
        rw [column_cons, hcol, List.getElem?_eq_getElem hj]
        simp [specAmbiguous]
      have hml : maxLen ((a :: c) :: cs) = (a :: c).length := by
        rw [maxLen_cons, hcs]; omega
      simp only [voteSpec, hml, hout, herr]
      simp

/-! ## the read loop computes the spec, for every chunk size and start offset -/

theorem voteChunked_eq (bs : Nat) (hbs : 0 < bs) (copies : List Bytes) (base : Nat) :
    voteChunked bs copies base =
      { out := (voteSpec copies).out, errors := (voteSpec copies).errors.map (base + ·) } := by
  fun_induction voteChunked bs copies base with
  | case1 copies base h => omega
  | case2 copies base h0 h =>
    rw [voteSpec_of_maxLen_zero copies ((allEmpty_iff_maxLen copies).1 h)]; rfl
  | case3 copies base h0 entries h blk rest ih =>
    have hblk : blk = { out := (voteSpec entries).out,
                        errors := (voteSpec entries).errors.map (base + ·) } := by
      show (if h : countEmpty entries + 1 = entries.length then _ else _) = _
      split
      · next hc => rw [shortcut_eq entries hc]; rfl
      · exact voteBlock_eq entries base
    have hlen : blk.out.length = min bs (maxLen copies) := by
      rw [hblk]; simp only [voteSpec_out_length]; exact maxLen_takeAll bs copies
    obtain ⟨ho, he⟩ := voteSpec_split bs copies
    show Result.mk (blk.out ++ (voteChunked bs (dropAll bs copies) (base + blk.out.length)).out)
        (blk.errors ++ (voteChunked bs (dropAll bs copies) (base + blk.out.length)).errors) = _
    rw [ih, ho, he, hlen, hblk]
    simp only [List.map_append, List.map_map, Result.mk.injEq]
    refine ⟨rfl, ?_⟩
    congr 1
    apply List.map_congr_left
    intro x _
    simp only [Function.comp]; omega

/-! ## properties of the per-column spec -/

theorem find?_takeWhile_ne {p : Nat → Bool} {v : Nat} (l : List Nat) (h : l.find? p = some v) :
    ∀ w ∈ l.takeWhile (· ≠ v), p w = false := by
  induction l with
  | nil => simp
  | cons a l ih =>
    intro w hw
    rw [List.find?_cons] at h
    rw [List.takeWhile_cons] at hw
    cases hpa : p a with
    | true =>
      rw [hpa] at h
      have : a = v := by injection h
      subst this
      simp at hw
    | false =>
      rw [hpa] at h
      by_cases hav : a = v
      · subst hav; simp at hw
      · simp only [ne_eq, hav, not_false_eq_true, decide_true, ↓reduceIte, List.mem_cons] at hw
        rcases hw with rfl | hw
        · exact hpa
        · exact ih h w hw

theorem specVal_props (col : List Nat) (v : Nat) (h : specVal col = some v) :
    v ∈ col ∧ (∀ w ∈ col, col.count w ≤ col.count v) ∧
      (∀ w ∈ col.takeWhile (· ≠ v), col.count w < col.count v) := by
  have hmem : v ∈ col := List.mem_of_find?_eq_some h
  have hp : isPlurality col v = true := List.find?_some h
  have hpl := (isPlurality_iff col v).1 hp
  refine ⟨hmem, hpl, ?_⟩
  intro w hw
  have hnp := find?_takeWhile_ne col h w hw
  apply Nat.lt_of_not_le
  intro hle
  have : isPlurality col w = true := by
    rw [isPlurality_iff]
    intro u hu
    exact Nat.le_trans (hpl u hu) hle
  rw [this] at hnp; cases hnp

theorem count_add_count_le (l : List Nat) (u v : Nat) (h : u ≠ v) :
    l.count u + l.count v ≤ l.length := by
  induction l with
  | nil => simp
  | cons a l ih =>
    simp only [List.count_cons, List.length_cons, beq_iff_eq]
    split <;> split <;> omega

theorem specVal_of_majority (col : List Nat) (v : Nat) (h : col.length < 2 * col.count v) :
    specVal col = some v ∧ specAmbiguous col = false := by
  have hv : v ∈ col := List.count_pos_iff.1 (by omega)
  have hne : col ≠ [] := List.ne_nil_of_mem hv
  constructor
  · obtain ⟨u, hu⟩ := specVal_isSome col hne
    obtain ⟨_, hpl, _⟩ := specVal_props col u hu
    have h1 := hpl v hv
    by_cases huv : u = v
    · rw [hu, huv]
    · have := count_add_count_le col u v huv
      omega
  · cases hamb : specAmbiguous col with
    | false => rfl
    | true =>
      simp only [specAmbiguous, Bool.and_eq_true, decide_eq_true_eq] at hamb
      have := (List.nodup_iff_count.1 hamb.2) v
      omega

theorem mem_voteSpec_errors (copies : List Bytes) (j : Nat) :
    j ∈ (voteSpec copies).errors ↔
      j < maxLen copies ∧ 2 ≤ (column copies j).length ∧ (column copies j).Nodup := by
  simp [voteSpec, specAmbiguous]

/-! ## unfolding the pinned (pre-fix) loop, for the regression witness -/

/-- one round of the pinned loop, with the round's block named -/
def pinnedBlk (bs : Nat) (copies : List Bytes) (base : Nat) : Result :=
  if countEmpty (takeAll bs copies) + 1 = (takeAll bs copies).length then
    { out := (takeAll bs copies).headD [], errors := [] }
  else voteBlock (takeAll bs copies) base

theorem voteChunkedPinned_step (bs : Nat) (copies : List Bytes) (base : Nat) (h0 : bs ≠ 0)
    (h : allEmpty copies = false) :
    voteChunkedPinned bs copies base =
      { out := (pinnedBlk bs copies base).out ++
          (voteChunkedPinned bs (dropAll bs copies)
            (base + (pinnedBlk bs copies base).out.length)).out,
        errors := (pinnedBlk bs copies base).errors ++
          (voteChunkedPinned bs (dropAll bs copies)
            (base + (pinnedBlk bs copies base).out.length)).errors } := by
  rw [voteChunkedPinned]
  simp only [h0, ↓reduceDIte, h, Bool.false_eq_true, pinnedBlk]

theorem voteChunkedPinned_stop (bs : Nat) (copies : List Bytes) (base : Nat)
    (h : allEmpty copies = true) :
    voteChunkedPinned bs copies base = { out := [], errors := [] } := by
  rw [voteChunkedPinned]
  simp only [h, ↓reduceDIte, dite_eq_ite, ite_self]

end Pff.Vote
