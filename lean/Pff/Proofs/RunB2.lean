import Pff.Model.Run
import Pff.Proofs.Scan
import Pff.Props.RunA
/-! Helper lemmas for `Pff/Props/RunB.lean` (part 2: the run on a cut ecc file). -/
namespace Pff.Run.RunB

open Pff.Ecc Pff.Layout Pff.Entry Pff.Scan

/-! ## `find` / `specNext` on a prefix of the stream -/

theorem occ_take {sub S : Bytes} {c i : Nat} (hm : 0 < sub.length) :
    sub.isPrefixOf ((S.take c).drop i) = true ↔
      sub.isPrefixOf (S.drop i) = true ∧ i + sub.length ≤ c := by
  have := occ_window (marker := sub) (stream := S) (p := 0) (bs := c) (i := i) hm
  simpa only [List.drop_zero, Nat.zero_add] using this

theorem find_take_some {sub S : Bytes} {c p i : Nat} (hm : 0 < sub.length)
    (h : find sub S p = some i) (hc : i + sub.length ≤ c) : find sub (S.take c) p = some i := by
  rw [find_eq_some_iff' hm] at h ⊢
  obtain ⟨h1, h2, h3⟩ := h
  refine ⟨(occ_take hm).2 ⟨h1, hc⟩, h2, ?_⟩
  intro j hj1 hj2
  refine not_occ_of (P := False) (fun hocc => ?_) (fun h => h)
  have := ((occ_take hm).1 hocc).1
  rw [h3 j hj1 hj2] at this
  cases this

theorem find_take_none {sub S : Bytes} {c p : Nat} (hm : 0 < sub.length)
    (h : find sub S p = none) : find sub (S.take c) p = none := by
  rw [find_eq_none_iff' hm] at h ⊢
  intro j hj1
  refine not_occ_of (P := False) (fun hocc => ?_) (fun h => h)
  have := ((occ_take hm).1 hocc).1
  rw [h j hj1] at this
  cases this

/-- the scanner's answer depends only on the stream up to the end of the marker that ends the entry -/
theorem specNext_take {S marker : Bytes} {c p a b : Nat} (hm : 0 < marker.length)
    (h : specNext S marker p = some (a, b)) (hc : b + marker.length ≤ c) :
    specNext (S.take c) marker p = some (a, b) := by
  unfold specNext at h ⊢
  split at h
  · cases h
  · rename_i s hs
    simp only [Option.some.injEq, Prod.mk.injEq] at h
    obtain ⟨ha, hb⟩ := h
    subst ha
    have hsl := occ_le hm ((find_eq_some_iff' hm).1 hs).1
    cases hf : find marker S (s + marker.length) with
    | none =>
      rw [hf] at hb
      simp only [Option.getD_none] at hb
      have hT : S.take c = S := List.take_of_length_le (by omega)
      rw [hT, hs]
      simp only [hf, Option.getD_none, hb]
    | some e =>
      rw [hf] at hb
      simp only [Option.getD_some] at hb
      have hle := ((find_eq_some_iff' hm).1 hf).2.1
      rw [find_take_some hm hs (by omega)]
      simp only
      rw [find_take_some hm hf (by omega)]
      simp only [Option.getD_some, hb]

/-! ## intended bounds -/

theorem intended_bounds (marker : Bytes) : ∀ (es : List Bytes) (off : Nat) (ab : Nat × Nat),
    ab ∈ intended marker off es →
      off + marker.length ≤ ab.1 ∧ ab.1 ≤ ab.2 ∧
        ab.2 ≤ off + ((es.map (fun e => marker ++ e)).flatten).length := by
  intro es
  induction es with
  | nil => intro off ab h; simp [intended] at h
  | cons e es ih =>
    intro off ab h
    simp only [intended, List.mem_cons] at h
    simp only [List.map_cons, List.flatten_cons, List.length_append]
    rcases h with h | h
    · subst h
      simp only
      omega
    · have := ih _ ab h
      omega

/-- first call on a generated stream (extracted from `specAll_built`) -/
theorem specNext_built (marker : Bytes) (hm : 0 < marker.length) (S : Bytes)
    (e : Bytes) (es : List Bytes) (pre : Bytes) (p : Nat) (hS : build pre marker (e :: es) = S)
    (hp : p ≤ pre.length)
    (h1 : ∀ i, p ≤ i → marker.isPrefixOf (S.drop i) = true → i ∈ starts marker pre.length (e :: es))
    (h2 : ∀ i, i ∈ starts marker pre.length (e :: es) → marker.isPrefixOf (S.drop i) = true) :
    specNext S marker p = some (pre.length + marker.length, pre.length + marker.length + e.length) := by
  have h := specAll_built marker hm S (e :: es) pre p hS hp h1 h2
  rw [List.length_cons, specAll_succ] at h
  simp only [intended] at h
  split at h
  · rename_i a b hs
    simp only [List.cons.injEq, Prod.mk.injEq] at h
    rw [hs, h.1.1, h.1.2]
  · cases h

/-! ## the run on the cut stream visits the entries before the cut -/

theorem cut_visits (O : Ops) (P : Params) (fs : FS) (hm : 0 < marker.length) (S : Bytes) (c : Nat) :
    ∀ (es : List Bytes) (pre : Bytes) (p fuel j : Nat) (ab : Nat × Nat),
      build pre marker es = S → p ≤ pre.length →
      (∀ i, p ≤ i → marker.isPrefixOf (S.drop i) = true → i ∈ starts marker pre.length es) →
      (∀ i, i ∈ starts marker pre.length es → marker.isPrefixOf (S.drop i) = true) →
      (intended marker pre.length es)[j]? = some ab → ab.2 + marker.length ≤ c →
      ab.1 ≤ fuel + p →
      (runLoopEntries O P fs (S.take c) fuel p)[j]? = some (processEntry O P fs (S.take c) ab.1 ab.2) := by
  intro es
  induction es with
  | nil => intro pre p fuel j ab _ _ _ _ hj; simp [intended] at hj
  | cons e es ih =>
    intro pre p fuel j ab hS hp h1 h2 hj hc hfuel
    have hsn := specNext_built marker hm S e es pre p hS hp h1 h2
    have hmem := intended_bounds marker (e :: es) pre.length ab (List.mem_of_getElem? hj)
    rw [starts_cons] at h1 h2
    cases fuel with
    | zero => omega
    | succ fuel =>
      cases j with
      | zero =>
        simp only [intended, List.getElem?_cons_zero, Option.some.injEq] at hj
        subst hj
        simp only at hc
        have hT := specNext_take hm hsn hc
        unfold runLoopEntries
        rw [hT]
        simp only [List.getElem?_cons_zero]
      | succ j =>
        simp only [intended, List.getElem?_cons_succ] at hj
        have hmem' := intended_bounds marker es _ ab (List.mem_of_getElem? hj)
        have hT := specNext_take hm hsn (c := c) (by omega)
        unfold runLoopEntries
        rw [hT]
        simp only [List.getElem?_cons_succ]
        have hcb := C08_run_cursor_bounds O P fs (S.take c) (pre.length + marker.length)
          (pre.length + marker.length + e.length) (by omega)
        have hlen : (pre ++ marker ++ e).length = pre.length + marker.length + e.length := by
          simp only [List.length_append]
        apply ih (pre ++ marker ++ e) _ fuel j ab (by rw [build_cons]; exact hS)
        · rw [hlen]; exact hcb.2
        · rw [hlen]
          intro i hi hocc
          have := h1 i (by omega) hocc
          rw [List.mem_cons] at this
          rcases this with h | h
          · omega
          · exact h
        · rw [hlen]; intro i hi; exact h2 i (List.mem_cons_of_mem _ hi)
        · rw [hlen]; exact hj
        · exact hc
        · omega

theorem marker_pos : 0 < marker.length := by decide

theorem run_cut_prefix (O : Ops) (P : Params) (fs : FS) (pre : Bytes) (entries : List Bytes)
    (c j : Nat) (ab : Nat × Nat)
    (h : NoAccidental pre marker entries)
    (hj : (intended marker pre.length entries)[j]? = some ab)
    (hc : ab.2 + marker.length ≤ c)
    (hin : readsInside O P fs (build pre marker entries) ab.1 ab.2) :
    ((run O P fs ((build pre marker entries).take c)).outcomes[j]?).map view =
      ((run O P fs (build pre marker entries)).outcomes[j]?).map view := by
  have hm := marker_pos
  have hb := intended_bounds marker entries pre.length ab (List.mem_of_getElem? hj)
  have hSlen : (build pre marker entries).length =
      pre.length + ((entries.map (fun e => marker ++ e)).flatten).length := by
    simp only [build, List.length_append]
  by_cases hcS : (build pre marker entries).length ≤ c
  · rw [List.take_of_length_le hcS]
  · have h' : occurrences (build pre marker entries) marker = starts marker pre.length entries := h
    have hT : ((run O P fs ((build pre marker entries).take c)).outcomes)[j]? =
        some (processEntry O P fs ((build pre marker entries).take c) ab.1 ab.2) := by
      unfold run
      simp only
      apply cut_visits O P fs hm (build pre marker entries) c entries pre 0 _ j ab rfl (Nat.zero_le _)
      · intro i _ hocc
        rw [← h', mem_occurrences hm]
        exact hocc
      · intro i hi
        rw [← h', mem_occurrences hm] at hi
        exact hi
      · exact hj
      · exact hc
      · rw [List.length_take]
        omega
    rw [hT, C08_run_visits O P fs pre entries h, List.getElem?_map, hj]
    simp only [Option.map_some]
    have hsplit : (build pre marker entries).take c =
        (build pre marker entries).take ab.2 ++ ((build pre marker entries).take c).drop ab.2 := by
      have : (build pre marker entries).take ab.2 = ((build pre marker entries).take c).take ab.2 := by
        rw [List.take_take, Nat.min_eq_left (by omega)]
      rw [this, List.take_append_drop]
    rw [hsplit]
    exact congrArg some (C08_run_reads_inside O P fs (build pre marker entries) _ ab.1 ab.2
      hb.2.1 (by omega) (Or.inl (by omega)) hin).1

end Pff.Run.RunB
