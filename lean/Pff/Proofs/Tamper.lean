import Pff.Model.Tamper
/-! Helper lemmas for C19 (tampering tool). -/
namespace Pff.Tamper

/-- every answer of the oracle is `False` / `0` -/
def AllZero (ρ : List Nat) : Prop := ∀ x ∈ ρ, x = 0

/-! ### `draw` -/

theorem draw_allZero {ρ : List Nat} (h : AllZero ρ) : (draw ρ).1 = 0 ∧ AllZero (draw ρ).2 := by
  cases ρ with
  | nil => exact ⟨rfl, h⟩
  | cons a t =>
    refine ⟨h a (List.mem_cons_self ..), ?_⟩
    intro x hx
    exact h x (List.mem_cons_of_mem _ hx)

/-! ### `diffCount` -/

theorem diffCount_self (l : Bytes) : diffCount l l = 0 := by
  induction l with
  | nil => rfl
  | cons x xs ih => simp [diffCount, ih]

theorem diffCount_set_le (l l' : Bytes) (p v : Nat) :
    diffCount (l.set p v) l' ≤ diffCount l l' + 1 := by
  induction l generalizing l' p with
  | nil => simp [diffCount]
  | cons x xs ih =>
    cases l' with
    | nil => cases p <;> simp [diffCount]
    | cons y ys =>
      cases p with
      | zero =>
        simp only [List.set_cons_zero, diffCount]
        split <;> split <;> omega
      | succ p =>
        simp only [List.set_cons_succ, diffCount]
        have := ih ys p
        omega

theorem diffCount_append (a a' b b' : Bytes) (h : a.length = a'.length) :
    diffCount (a ++ b) (a' ++ b') = diffCount a a' + diffCount b b' := by
  induction a generalizing a' with
  | nil =>
    cases a' with
    | nil => simp [diffCount]
    | cons y ys => simp at h
  | cons x xs ih =>
    cases a' with
    | nil => simp at h
    | cons y ys =>
      simp only [List.length_cons, Nat.add_right_cancel_iff] at h
      simp only [List.cons_append, diffCount, ih ys h]
      omega

theorem diffCount_le_length (a b : Bytes) : diffCount a b ≤ a.length := by
  induction a generalizing b with
  | nil => simp [diffCount]
  | cons x xs ih =>
    cases b with
    | nil => simp [diffCount]
    | cons y ys =>
      simp only [diffCount, List.length_cons]
      have := ih ys
      split <;> omega

/-! ### `selectPositions` -/

theorem selectPositions_length_le (burst : Bool) (n i r : Nat) (ρ : List Nat) :
    (selectPositions burst n i r ρ).1.length ≤ n := by
  induction n generalizing i r ρ with
  | zero => simp [selectPositions]
  | succ n ih =>
    simp only [selectPositions]
    split
    · have := ih (i + 1) (r - 1) ρ
      simp only [List.length_cons]; omega
    · split
      · split
        · have := ih (i + 1) ((draw (draw ρ).2).1 - 1) (draw (draw ρ).2).2
          simp only [List.length_cons]; omega
        · have := ih (i + 1) 0 (draw ρ).2
          simp only [List.length_cons]; omega
      · have := ih (i + 1) 0 (draw ρ).2
        omega

theorem selectPositions_allZero (burst : Bool) (n i : Nat) (ρ : List Nat) (h : AllZero ρ) :
    (selectPositions burst n i 0 ρ).1 = [] ∧ AllZero (selectPositions burst n i 0 ρ).2 := by
  induction n generalizing i ρ with
  | zero => exact ⟨rfl, h⟩
  | succ n ih =>
    have hd := draw_allZero h
    simp only [selectPositions, Nat.lt_irrefl, gt_iff_lt, ↓reduceIte, hd.1, ne_eq,
      not_true_eq_false]
    exact ih (i + 1) (draw ρ).2 hd.2

/-! ### `applyPositions` -/

theorem applyPositions_length (mode : Mode) (ps : List Nat) (buf : Bytes) (ρ : List Nat) :
    (applyPositions mode ps buf ρ).1.length = buf.length := by
  induction ps generalizing buf ρ with
  | nil => rfl
  | cons p ps ih =>
    cases mode <;> simp only [applyPositions, ih, List.length_set]

theorem applyPositions_diffCount_aux (mode : Mode) (ps : List Nat) (buf buf0 : Bytes)
    (ρ : List Nat) :
    diffCount (applyPositions mode ps buf ρ).1 buf0 ≤ diffCount buf buf0 + ps.length := by
  induction ps generalizing buf ρ with
  | nil => simp [applyPositions]
  | cons p ps ih =>
    cases mode with
    | erasure =>
      simp only [applyPositions, List.length_cons]
      have h1 := ih (buf.set p 0) ρ
      have h2 := diffCount_set_le buf buf0 p 0
      omega
    | noise =>
      simp only [applyPositions, List.length_cons]
      have h1 := ih (buf.set p (draw ρ).1) (draw ρ).2
      have h2 := diffCount_set_le buf buf0 p (draw ρ).1
      omega
    | other =>
      simp only [applyPositions, List.length_cons]
      have h1 := ih buf ρ
      omega

theorem applyPositions_diffCount (mode : Mode) (ps : List Nat) (buf : Bytes) (ρ : List Nat) :
    diffCount (applyPositions mode ps buf ρ).1 buf ≤ ps.length := by
  have := applyPositions_diffCount_aux mode ps buf buf ρ
  rw [diffCount_self] at this
  omega

theorem applyPositions_erasure (ps : List Nat) (buf : Bytes) (ρ : List Nat) (j : Nat) :
    (applyPositions .erasure ps buf ρ).1[j]? = buf[j]? ∨
    (applyPositions .erasure ps buf ρ).1[j]? = some 0 := by
  induction ps generalizing buf with
  | nil => exact Or.inl rfl
  | cons p ps ih =>
    simp only [applyPositions]
    rcases ih (buf.set p 0) with h | h
    · rw [h, List.getElem?_set]
      by_cases hpj : p = j
      · subst hpj
        by_cases hlt : p < buf.length
        · simp [hlt]
        · left
          simp [hlt]
      · simp [hpj]
    · exact Or.inr h

/-! ### `tamperBlock` -/

theorem tamperBlock_length (P : Params) (buf : Bytes) (ρ : List Nat) :
    (tamperBlock P buf ρ).1.length = buf.length := by
  simp only [tamperBlock]
  split <;> split <;> simp [applyPositions_length]

theorem tamperBlock_count_le (P : Params) (buf : Bytes) (ρ : List Nat) :
    (tamperBlock P buf ρ).2.1 ≤ buf.length := by
  simp only [tamperBlock]
  split <;> split <;> simp [selectPositions_length_le]

theorem tamperBlock_diffCount (P : Params) (buf : Bytes) (ρ : List Nat) :
    diffCount (tamperBlock P buf ρ).1 buf ≤ (tamperBlock P buf ρ).2.1 := by
  simp only [tamperBlock]
  split <;> split <;> simp [applyPositions_diffCount, diffCount_self]

theorem tamperBlock_erasure (P : Params) (hP : P.mode = .erasure) (buf : Bytes) (ρ : List Nat)
    (j : Nat) :
    (tamperBlock P buf ρ).1[j]? = buf[j]? ∨ (tamperBlock P buf ρ).1[j]? = some 0 := by
  simp only [tamperBlock, hP]
  split <;> split <;> simp [applyPositions_erasure]

theorem tamperBlock_allZero (P : Params) (buf : Bytes) (ρ : List Nat) (h : AllZero ρ) :
    (tamperBlock P buf ρ).1 = buf ∧ (tamperBlock P buf ρ).2.1 = 0 ∧
      AllZero (tamperBlock P buf ρ).2.2 := by
  have hd := draw_allZero h
  simp only [tamperBlock]
  split
  · simp [hd.1, hd.2]
  · have hs := selectPositions_allZero P.burst buf.length 0 ρ h
    simp [hs.1, hs.2, applyPositions]

/-! ### `tamperLoop` -/

/-- unfolding equation in projection form -/
theorem tamperLoop_succ (P : Params) (bs fuel : Nat) (rest : Bytes) (ρ : List Nat) :
    tamperLoop P bs (fuel + 1) rest ρ =
      if (rest.take bs).isEmpty then (rest, 0, 0, ρ)
      else
        ((tamperBlock P (rest.take bs) ρ).1 ++
            (tamperLoop P bs fuel (rest.drop bs) (tamperBlock P (rest.take bs) ρ).2.2).1,
          (tamperBlock P (rest.take bs) ρ).2.1 +
            (tamperLoop P bs fuel (rest.drop bs) (tamperBlock P (rest.take bs) ρ).2.2).2.1,
          (rest.take bs).length +
            (tamperLoop P bs fuel (rest.drop bs) (tamperBlock P (rest.take bs) ρ).2.2).2.2.1,
          (tamperLoop P bs fuel (rest.drop bs) (tamperBlock P (rest.take bs) ρ).2.2).2.2.2) := rfl

theorem tamperLoop_length (P : Params) (bs fuel : Nat) (rest : Bytes) (ρ : List Nat) :
    (tamperLoop P bs fuel rest ρ).1.length = rest.length := by
  induction fuel generalizing rest ρ with
  | zero => rfl
  | succ fuel ih =>
    rw [tamperLoop_succ]
    split
    · rfl
    · simp only [List.length_append, tamperBlock_length, ih, List.length_take, List.length_drop]
      omega

theorem tamperLoop_bounds (P : Params) (bs fuel : Nat) (rest : Bytes) (ρ : List Nat) :
    diffCount (tamperLoop P bs fuel rest ρ).1 rest ≤ (tamperLoop P bs fuel rest ρ).2.1 ∧
    (tamperLoop P bs fuel rest ρ).2.1 ≤ (tamperLoop P bs fuel rest ρ).2.2.1 ∧
    (tamperLoop P bs fuel rest ρ).2.2.1 ≤ rest.length := by
  induction fuel generalizing rest ρ with
  | zero => simp [tamperLoop, diffCount_self]
  | succ fuel ih =>
    rw [tamperLoop_succ]
    split
    · simp [diffCount_self]
    · have hb := tamperBlock_diffCount P (rest.take bs) ρ
      have hc := tamperBlock_count_le P (rest.take bs) ρ
      have hl := ih (rest.drop bs) (tamperBlock P (rest.take bs) ρ).2.2
      have ha := diffCount_append (tamperBlock P (rest.take bs) ρ).1 (rest.take bs)
        (tamperLoop P bs fuel (rest.drop bs) (tamperBlock P (rest.take bs) ρ).2.2).1
        (rest.drop bs) (tamperBlock_length ..)
      rw [List.take_append_drop] at ha
      simp only [List.length_take, List.length_drop] at hc hl ⊢
      omega

theorem tamperLoop_erasure (P : Params) (hP : P.mode = .erasure) (bs fuel : Nat) (rest : Bytes)
    (ρ : List Nat) (j : Nat) :
    (tamperLoop P bs fuel rest ρ).1[j]? = rest[j]? ∨
    (tamperLoop P bs fuel rest ρ).1[j]? = some 0 := by
  induction fuel generalizing rest ρ j with
  | zero => exact Or.inl rfl
  | succ fuel ih =>
    rw [tamperLoop_succ]
    split
    · exact Or.inl rfl
    · have hr : rest[j]? = (rest.take bs ++ rest.drop bs)[j]? := by rw [List.take_append_drop]
      rw [hr, List.getElem?_append, List.getElem?_append, tamperBlock_length]
      split
      · exact tamperBlock_erasure P hP _ _ _
      · exact ih _ _ _

theorem tamperLoop_allZero (P : Params) (bs fuel : Nat) (rest : Bytes) (ρ : List Nat)
    (h : AllZero ρ) :
    (tamperLoop P bs fuel rest ρ).1 = rest ∧ (tamperLoop P bs fuel rest ρ).2.1 = 0 ∧
      AllZero (tamperLoop P bs fuel rest ρ).2.2.2 := by
  induction fuel generalizing rest ρ with
  | zero => exact ⟨rfl, rfl, h⟩
  | succ fuel ih =>
    rw [tamperLoop_succ]
    split
    · exact ⟨rfl, rfl, h⟩
    · have hb := tamperBlock_allZero P (rest.take bs) ρ h
      have hl := ih (rest.drop bs) _ hb.2.2
      simp only [hb.1, hb.2.1, hl.1, hl.2.1, List.take_append_drop, hl.2.2, and_self]

/-! ### `tamperFile` -/

theorem tamperFile_header (P : Params) (h : Nat) (hP : P.header = some h) (content : Bytes)
    (ρ : List Nat) :
    tamperFile P content ρ =
      if (content.take h).isEmpty then { content := content, count := 0, total := 0, rest := ρ }
      else
        { content := (tamperBlock P (content.take h) ρ).1 ++ content.drop h
          count := (tamperBlock P (content.take h) ρ).2.1
          total := (content.take h).length
          rest := (tamperBlock P (content.take h) ρ).2.2 } := by
  unfold tamperFile
  rw [hP]

theorem tamperFile_none (P : Params) (hP : P.header = none) (content : Bytes) (ρ : List Nat) :
    tamperFile P content ρ =
      { content := (tamperLoop P P.blocksize (content.length + 1) content ρ).1
        count := (tamperLoop P P.blocksize (content.length + 1) content ρ).2.1
        total := (tamperLoop P P.blocksize (content.length + 1) content ρ).2.2.1
        rest := (tamperLoop P P.blocksize (content.length + 1) content ρ).2.2.2 } := by
  unfold tamperFile
  rw [hP]

theorem tamperFile_length (P : Params) (content : Bytes) (ρ : List Nat) :
    (tamperFile P content ρ).content.length = content.length := by
  cases hP : P.header with
  | some h =>
    rw [tamperFile_header P h hP]
    split
    · rfl
    · simp only [List.length_append, tamperBlock_length, List.length_take, List.length_drop]
      omega
  | none =>
    rw [tamperFile_none P hP]
    exact tamperLoop_length ..

theorem tamperFile_region (P : Params) (h : Nat) (hP : P.header = some h) (content : Bytes)
    (ρ : List Nat) :
    (tamperFile P content ρ).content.drop h = content.drop h := by
  rw [tamperFile_header P h hP]
  split
  · rfl
  · have hl : (tamperBlock P (content.take h) ρ).1.length = min h content.length := by
      rw [tamperBlock_length, List.length_take]
    by_cases hc : h ≤ content.length
    · rw [List.drop_append_of_le_length (by omega)]
      rw [List.drop_eq_nil_of_le (by omega)]
      rfl
    · rw [List.drop_eq_nil_of_le (as := content) (i := h) (by omega)]
      apply List.drop_eq_nil_of_le
      simp only [List.length_append, List.length_nil]
      omega

theorem tamperFile_erasure (P : Params) (hP : P.mode = .erasure) (content : Bytes) (ρ : List Nat)
    (j : Nat) :
    (tamperFile P content ρ).content[j]? = content[j]? ∨
    (tamperFile P content ρ).content[j]? = some 0 := by
  cases hH : P.header with
  | some h =>
    rw [tamperFile_header P h hH]
    split
    · exact Or.inl rfl
    · have hr : content[j]? = (content.take h ++ content.drop h)[j]? := by
        rw [List.take_append_drop]
      show ((tamperBlock P (content.take h) ρ).1 ++ content.drop h)[j]? = content[j]? ∨
        ((tamperBlock P (content.take h) ρ).1 ++ content.drop h)[j]? = some 0
      rw [hr, List.getElem?_append, List.getElem?_append, tamperBlock_length]
      split
      · exact tamperBlock_erasure P hP _ _ _
      · exact Or.inl rfl
  | none =>
    rw [tamperFile_none P hH]
    exact tamperLoop_erasure P hP ..

theorem tamperFile_bounds (P : Params) (content : Bytes) (ρ : List Nat) :
    diffCount (tamperFile P content ρ).content content ≤ (tamperFile P content ρ).count ∧
    (tamperFile P content ρ).count ≤ (tamperFile P content ρ).total ∧
    (tamperFile P content ρ).total ≤
      (match P.header with | some h => min h content.length | none => content.length) := by
  cases hH : P.header with
  | some h =>
    rw [tamperFile_header P h hH]
    split
    · simp [diffCount_self]
    · have hb := tamperBlock_diffCount P (content.take h) ρ
      have hc := tamperBlock_count_le P (content.take h) ρ
      have ha := diffCount_append (tamperBlock P (content.take h) ρ).1 (content.take h)
        (content.drop h) (content.drop h) (tamperBlock_length ..)
      rw [List.take_append_drop, diffCount_self] at ha
      simp only [List.length_take] at hc ⊢
      omega
  | none =>
    rw [tamperFile_none P hH]
    exact tamperLoop_bounds ..

theorem tamperFile_allZero (P : Params) (content : Bytes) (ρ : List Nat) (h : AllZero ρ) :
    (tamperFile P content ρ).content = content ∧ (tamperFile P content ρ).count = 0 := by
  cases hH : P.header with
  | some hd =>
    rw [tamperFile_header P hd hH]
    split
    · exact ⟨rfl, rfl⟩
    · have hb := tamperBlock_allZero P (content.take hd) ρ h
      simp only [hb.1, hb.2.1, List.take_append_drop, and_self]
  | none =>
    rw [tamperFile_none P hH]
    have hl := tamperLoop_allZero P P.blocksize (content.length + 1) content ρ h
    exact ⟨hl.1, hl.2.1⟩

/-! ### `tamperDir` -/

theorem tamperDir_once (P : Params) (files : List (String × Bytes)) (ρ : List Nat) :
    (tamperDir P files ρ).files.map (·.1) = files.map (·.1) ∧
    (tamperDir P files ρ).files.map (·.2.length) = files.map (·.2.length) ∧
    (tamperDir P files ρ).filesCount = files.length := by
  induction files generalizing ρ with
  | nil => exact ⟨rfl, rfl, rfl⟩
  | cons f fs ih =>
    obtain ⟨p, c⟩ := f
    have h := ih (tamperFile P c ρ).rest
    simp only [tamperDir, List.map_cons, h.1, h.2.1, h.2.2, tamperFile_length, List.length_cons,
      true_and]
    omega

end Pff.Tamper
