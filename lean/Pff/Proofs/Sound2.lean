import Pff.Props.Bridge
import Pff.Proofs.Bridge
import Pff.Proofs.Ecc
import Pff.Proofs.EccB
/-! Soundness of committed repairs without contract W, block and file level (helpers for
`Pff/Props/Sound.lean`). -/
namespace Pff.SoundProofs

open Pff.GF Pff.Facade Pff.Ecc Pff.Layout Pff.RSSpec Pff.Entry Pff.Bridge Pff.RSProofs Pff.BridgeProofs

/-! ### what is needed of the facade (model's own instances), discharged at the two fields -/

structure SoundFacts {p : Params} (c : Codec (Elt p)) (core : Core (Elt p)) : Prop where
  sound : ∀ (msg : List (Elt p)) (k : Nat), msg.length ≤ effK c k → effK c k ≤ c.n →
    ∀ (msg' ecc' : List (Elt p)), msg'.length = msg.length → ecc'.length = c.n - effK c k →
    ∀ (en : Bool) (ec : Elt p) (oe : Bool),
    (if en || oe then
        2 * errorsOutside (msg' ++ ecc') (msg ++ encode c msg k) (detectedErasures msg' ecc' en oe ec)
          + (detectedErasures msg' ecc' en oe ec).length ≤ c.n - effK c k
      else 2 * hdist (msg' ++ ecc') (msg ++ encode c msg k) ≤ c.n - effK c k) →
    ∀ (m'' e'' : List (Elt p)), decode core c msg' ecc' k en ec oe = .ok (m'', e'') →
    m''.length = msg.length → e''.length = c.n - effK c k → check c m'' e'' k = true →
    m'' = msg ∧ e'' = encode c msg k

theorem soundFactsA (algo n k0 : Nat) (ha : algo = 1 ∨ algo = 2 ∨ algo = 3) (hn : n ≤ 255)
    (core : Core (Elt pA)) : SoundFacts (codecA algo n k0) core := by
  have hc := C11_codecA_good algo n k0 ha hn
  exact ⟨fun msg k hm hk msg' ecc' hl he en ec oe hcap m'' e'' hdec hml hel hchk =>
    C02_decode_sound (codecA algo n k0) hc core msg k hm hk msg' ecc' hl he en ec oe hcap m'' e''
      hdec hml hel hchk⟩

theorem soundFactsB (n k0 : Nat) (hn : n ≤ 255) (core : Core (Elt pB)) :
    SoundFacts (codecB n k0) core := by
  have hc := C11_codecB_good n k0 hn
  exact ⟨fun msg k hm hk msg' ecc' hl he en ec oe hcap m'' e'' hdec hml hel hchk =>
    C02_decode_sound (codecB n k0) hc core msg k hm hk msg' ecc' hl he en ec oe hcap m'' e''
      hdec hml hel hchk⟩

/-! ### one block -/

theorem needsRepair_of_intact (O : Ops) (fast : Bool) (mbs : Nat) (b : AsmBlock)
    (h : (processBlock O fast mbs b).2 = .intact) : needsRepair O fast b = false := by
  cases hn : needsRepair O fast b with
  | false => rfl
  | true =>
    exfalso
    unfold processBlock at h
    rw [if_pos hn] at h
    split at h
    · cases h
    · split at h <;> cases h

theorem processBlock_status_cases (O : Ops) (fast : Bool) (mbs : Nat) (b : AsmBlock) :
    (needsRepair O fast b = false ∧ processBlock O fast mbs b = (b.msg, .intact)) ∨
    (processBlock O fast mbs b).2 = .failed ∨
      ∃ m' e', O.dec b.k b.msg b.ecc = some (m', e') ∧
        (O.H m' = b.hash ∨ (O.chk b.k m' e' = true ∧ eccComplete mbs b = true)) ∧
        processBlock O fast mbs b = (m', .repaired) := by
  rcases processBlock_cases O fast mbs b with h | h | h
  · exact Or.inl ⟨needsRepair_of_intact O fast mbs b (by rw [h]), h⟩
  · exact Or.inr (Or.inl (by rw [h]))
  · exact Or.inr (Or.inr h)

section Block
variable {p : Params} (c : Codec (Elt p)) (core : Core (Elt p))

theorem blockSound_generic (hS : SoundFacts c core) (H : List Nat → List Nat) (fast en oe : Bool)
    (sym : Nat) (hsym : sym < 256) (orig : List Nat) (b : AsmBlock) (hg : BlockGeom c.n orig b)
    (hcap : if en || oe then
        2 * errorsOutside (b.msg ++ b.ecc)
            (origMsg orig b ++ (opsOfFacade c core H en sym oe).enc b.k (origMsg orig b))
            (erasedPos (b.msg ++ b.ecc) sym)
          + (erasedPos (b.msg ++ b.ecc) sym).length ≤ c.n - b.k
      else 2 * hdist (b.msg ++ b.ecc)
            (origMsg orig b ++ (opsOfFacade c core H en sym oe).enc b.k (origMsg orig b)) ≤ c.n - b.k)
    (hlens : ∀ m' e', (opsOfFacade c core H en sym oe).dec b.k b.msg b.ecc = some (m', e') →
      m'.length = b.msg.length ∧ e'.length = c.n - b.k)
    (hcoll : ∀ w, H w = b.hash → w = origMsg orig b) :
    (processBlock (opsOfFacade c core H en sym oe) fast c.n b).2 ≠ BlockStatus.failed →
    (processBlock (opsOfFacade c core H en sym oe) fast c.n b).1 = origMsg orig b := by
  intro hne
  rcases processBlock_status_cases (opsOfFacade c core H en sym oe) fast c.n b with
    ⟨hn, h⟩ | h | ⟨m', e', hd, hc, h⟩
  · -- intact: the hash matches
    rw [h]
    apply hcoll
    unfold needsRepair at hn
    simp only [Bool.or_eq_false_iff, decide_eq_false_iff_not, ne_eq, not_not] at hn
    exact hn.1
  · exact absurd h hne
  · rw [h]
    rcases hc with hc | ⟨hc, _⟩
    · exact hcoll m' hc
    · -- committed on the ecc check: facade-level soundness
      obtain ⟨hml, hel⟩ := hlens m' e' hd
      have hk' := effK_pos c b.k hg.kpos
      have hlen0 : (origMsg orig b).length = b.msg.length :=
        length_origMsg orig b.off b.msg.length hg.inside
      have hb0 : ∀ x ∈ origMsg orig b, x < 256 := bytes_origMsg orig _ _ hg.bytesOrig
      have hbm : ∀ x ∈ b.msg, x < 256 := hg.bytesMsg
      have hbe : ∀ x ∈ b.ecc, x < 256 := hg.bytesEcc
      have hd' : (match decode core c (toElts p b.msg) (toElts p b.ecc) b.k en (Elt.ofNat p sym) oe with
          | .ok (a, b) => some (ofElts a, ofElts b)
          | .error _ => none) = some (m', e') := hd
      cases hdec : decode core c (toElts p b.msg) (toElts p b.ecc) b.k en (Elt.ofNat p sym) oe with
      | error err => rw [hdec] at hd'; cases hd'
      | ok r =>
        obtain ⟨a, a'⟩ := r
        rw [hdec] at hd'
        simp only [Option.some.injEq, Prod.mk.injEq] at hd'
        obtain ⟨rfl, rfl⟩ := hd'
        have hchk : check c a a' b.k = true := by
          have : check c (toElts p (ofElts a)) (toElts p (ofElts a')) b.k = true := hc
          rwa [toElts_ofElts, toElts_ofElts] at this
        rw [length_ofElts] at hml hel
        have hbw : ∀ x ∈ b.msg ++ b.ecc, x < 256 := by
          intro x hx
          rcases List.mem_append.mp hx with h | h
          · exact hbm x h
          · exact hbe x h
        have hbc : ∀ x ∈ origMsg orig b ++ ofElts (encode c (toElts p (origMsg orig b)) b.k),
            x < 256 := by
          intro x hx
          rcases List.mem_append.mp hx with h | h
          · exact hb0 x h
          · exact bytes_ofElts _ x h
        have hres := hS.sound (toElts p (origMsg orig b)) b.k
          (by rw [hk', length_toElts, hlen0]; exact hg.msgle) (by rw [hk']; exact hg.kle)
          (toElts p b.msg) (toElts p b.ecc) (by rw [length_toElts, length_toElts, hlen0])
          (by rw [length_toElts, hk', hg.eccLen]) en (Elt.ofNat p sym) oe
          (by
            cases hb : (en || oe)
            · rw [hb] at hcap
              simp only [Bool.false_eq_true, ↓reduceIte] at hcap ⊢
              rw [hdist_facade c b.k (origMsg orig b) b.msg b.ecc hb0 hbm hbe, hk']
              exact hcap
            · rw [hb] at hcap
              simp only [↓reduceIte] at hcap ⊢
              unfold detectedErasures
              rw [hb]
              simp only [↓reduceIte]
              have e1 : toElts p b.msg ++ toElts p b.ecc = toElts p (b.msg ++ b.ecc) :=
                (toElts_append _ _).symm
              have e2 : toElts p (origMsg orig b) ++ encode c (toElts p (origMsg orig b)) b.k =
                  toElts p (origMsg orig b ++ ofElts (encode c (toElts p (origMsg orig b)) b.k)) := by
                rw [toElts_append, toElts_ofElts]
              rw [e1, e2, erased_toElts (b.msg ++ b.ecc) hbw sym hsym,
                errorsOutside_toElts (b.msg ++ b.ecc) _ hbw hbc, hk']
              exact hcap)
          a a' hdec (by rw [hml, length_toElts, hlen0]) (by rw [hel, hk']) hchk
        rw [hres.1, ofElts_toElts _ hb0]

end Block

/-! ### the loop: a bail-out is always recorded as a partial failure -/

theorem loopStep_stopped_partialFail (O : Ops) (fast : Bool) (mbs thr : Nat) (s : LoopSt) (i : Nat)
    (b : AsmBlock) (hs : s.stopped = true → s.partialFail = true) :
    (loopStep O fast mbs thr s i b).stopped = true → (loopStep O fast mbs thr s i b).partialFail = true := by
  unfold loopStep
  split
  · exact hs
  · next hns =>
    rcases hp : processBlock O fast mbs b with ⟨w, st⟩
    cases st
    · simp only; intro h; exact absurd h hns
    · simp only; intro h; exact absurd h hns
    · simp only; intro _; trivial

theorem runFrom_stopped_partialFail (O : Ops) (fast : Bool) (mbs thr : Nat) :
    ∀ (l : List AsmBlock) (s : LoopSt) (n : Nat), (s.stopped = true → s.partialFail = true) →
      (runFrom O fast mbs thr s n l).stopped = true → (runFrom O fast mbs thr s n l).partialFail = true := by
  intro l
  induction l with
  | nil => intro s n hs; exact hs
  | cons b l ih =>
    intro s n hs
    rw [runFrom_cons]
    exact ih _ (n + 1) (loopStep_stopped_partialFail O fast mbs thr s n b hs)

theorem runLoop_stopped_partialFail (O : Ops) (fast : Bool) (mbs thr : Nat) (l : List AsmBlock)
    (h : (runLoop O fast mbs thr l).stopped = true) : (runLoop O fast mbs thr l).partialFail = true := by
  rw [runLoop_eq_runFrom] at h ⊢
  exact runFrom_stopped_partialFail O fast mbs thr l _ 0 (fun h => by cases h) h

/-- no partial failure: every block was processed, none failed, and what was written is
`processBlock` of each block -/
theorem runLoop_no_partialFail (O : Ops) (fast : Bool) (mbs thr : Nat) (l : List AsmBlock)
    (h : (runLoop O fast mbs thr l).partialFail = false) :
    (runLoop O fast mbs thr l).written = l.map (fun b => (processBlock O fast mbs b).1) ∧
    ∀ b ∈ l, (processBlock O fast mbs b).2 ≠ .failed := by
  obtain ⟨m, hm, hw, _, hst, hpf⟩ := runLoop_inv O fast mbs thr l
  have hml : m = l.length := by
    rcases hst with hst | hst
    · have := runLoop_stopped_partialFail O fast mbs thr l hst
      rw [h] at this; cases this
    · exact hst
  subst hml
  rw [List.take_length] at hw hpf
  refine ⟨hw, ?_⟩
  intro b hb hf
  rw [h] at hpf
  have := List.any_eq_false.mp hpf.symm b hb
  simp only [decide_eq_true_eq] at this
  exact this hf

theorem written_sound (O : Ops) (fast : Bool) (mbs thr : Nat) (orig : List Nat) (l : List AsmBlock)
    (hsound : ∀ b ∈ l, (processBlock O fast mbs b).2 ≠ BlockStatus.failed →
      (processBlock O fast mbs b).1 = origMsg orig b)
    (h : (runLoop O fast mbs thr l).partialFail = false) :
    (runLoop O fast mbs thr l).written = l.map (Pff.Ecc.B.fixOf orig) := by
  obtain ⟨hw, hnf⟩ := runLoop_no_partialFail O fast mbs thr l h
  rw [hw]
  apply List.map_congr_left
  intro b hb
  exact hsound b hb (hnf b hb)

/-! ### the two tools -/

theorem whole_complete (O : Ops) (fast : Bool) (thr : Nat) (kOf : Nat → Nat) (hashLen mbs : Nat)
    (content track : List Nat)
    (h : (correctWholeFile O fast thr kOf hashLen mbs content track).complete = true) :
    (runLoop O fast mbs thr
      (assemble kOf hashLen mbs content track (content.length + 1) 0 0)).partialFail = false := by
  unfold correctWholeFile at h
  simp only at h
  split at h
  · split at h
    · simpa using h
    · cases h
  · cases h

theorem header_complete (O : Ops) (fast : Bool) (thr k hashLen mbs readLen : Nat)
    (content track : List Nat)
    (h : (correctHeaderFile O fast thr k hashLen mbs readLen content track).complete = true) :
    (runLoop O fast mbs thr
      (assembleHeader k hashLen mbs readLen content track (content.length + 1) 0 0)).partialFail = false := by
  unfold correctHeaderFile at h
  simp only at h
  split at h
  · simpa using h
  · cases h

theorem file_sound_whole (O : Ops) (fast : Bool) (thr hashLen mbs : Nat) (kOf : Nat → Nat)
    (orig damaged trackD : List Nat) (hlen : damaged.length = orig.length)
    (hcover : ((assemble kOf hashLen mbs damaged trackD (damaged.length + 1) 0 0).map (·.msg)).flatten = damaged)
    (hsound : ∀ b ∈ assemble kOf hashLen mbs damaged trackD (damaged.length + 1) 0 0,
      (processBlock O fast mbs b).2 ≠ BlockStatus.failed → (processBlock O fast mbs b).1 = origMsg orig b)
    (out : List Nat)
    (hout : (correctWholeFile O fast thr kOf hashLen mbs damaged trackD).output = some out)
    (hcomplete : (correctWholeFile O fast thr kOf hashLen mbs damaged trackD).complete = true) :
    out = orig := by
  have hfix := Pff.Ecc.B.assemble_fix_flatten kOf hashLen mbs orig damaged trackD (damaged.length + 1) 0 0
  have htake : orig.take damaged.length = orig := by rw [hlen, List.take_length]
  rw [hcover, List.drop_zero, htake] at hfix
  have hw := written_sound O fast mbs thr orig _ hsound
    (whole_complete O fast thr kOf hashLen mbs damaged trackD hcomplete)
  rw [correctWholeFile_output O fast thr kOf hashLen mbs damaged trackD out hout, hw, hfix, ← hlen,
    List.drop_length, List.append_nil]

theorem file_sound_header (O : Ops) (fast : Bool) (thr k hashLen mbs readLen : Nat)
    (orig damaged trackD : List Nat) (hlen : damaged.length = orig.length)
    (hcover : ((assembleHeader k hashLen mbs readLen damaged trackD (damaged.length + 1) 0 0).map (·.msg)).flatten
                = damaged.take readLen)
    (hsound : ∀ b ∈ assembleHeader k hashLen mbs readLen damaged trackD (damaged.length + 1) 0 0,
      (processBlock O fast mbs b).2 ≠ BlockStatus.failed → (processBlock O fast mbs b).1 = origMsg orig b)
    (out : List Nat)
    (hout : (correctHeaderFile O fast thr k hashLen mbs readLen damaged trackD).output = some out)
    (hcomplete : (correctHeaderFile O fast thr k hashLen mbs readLen damaged trackD).complete = true) :
    out = orig.take readLen ++ damaged.drop readLen := by
  have hfix := Pff.Ecc.B.assembleHeader_fix_flatten k hashLen mbs readLen orig damaged trackD
    (damaged.length + 1) 0 0
  have htake : orig.take (damaged.take readLen).length = orig.take readLen := by
    rw [List.take_eq_take_iff, List.length_take]; omega
  rw [hcover, List.drop_zero, htake] at hfix
  have hw := written_sound O fast mbs thr orig _ hsound
    (header_complete O fast thr k hashLen mbs readLen damaged trackD hcomplete)
  have hdrop : damaged.drop (damaged.take readLen).length = damaged.drop readLen := by
    rw [List.length_take]
    by_cases h : readLen ≤ damaged.length
    · rw [Nat.min_eq_left h]
    · rw [Nat.min_eq_right (by omega), List.drop_length, List.drop_eq_nil_of_le (by omega)]
  rw [correctHeaderFile_output O fast thr k hashLen mbs readLen damaged trackD out hout, hw,
    List.length_map, List.drop_length, List.map_nil, List.append_nil, hfix, hcover, hdrop]

end Pff.SoundProofs
