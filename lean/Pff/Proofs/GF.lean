import Pff.Proofs.GFTables
import Mathlib.Algebra.Field.Defs
import Mathlib.Algebra.Group.Basic
/-!
Field laws of the two table-driven GF(2^8) of `Pff/Model/GF.lean`, derived generically in the
parameter set from the kernel-checked table facts of `Pff/Proofs/GFTables.lean`: associativity,
distributivity, inverses; the `Field` instance with the model's own operations; the generator.
-/
namespace Pff.GFProofs

open Pff.GF

theorem tie_spec {p : Params} (h : chkTie p = true) :
    ∀ i, i < 254 → gexp p (i + 1) = clmulmod p.prim 8 (gexp p i) p.gen := by
  intro i hi
  have := allLt_spec h i hi
  simpa using this

/-! ### Nat-level laws of the table multiplication -/
section NatLevel
variable {p : Params} (H : TableFacts p)
include H

theorem E1 {i : Nat} (hi : i < 255) : glog p (gexp p i) = i ∧ gexp p i ≠ 0 ∧ gexp p i < 256 := by
  have := allLt_spec H.e1 i hi
  simp only [Bool.and_eq_true, beq_iff_eq, bne_iff_ne, decide_eq_true_eq] at this
  exact ⟨this.1.1, this.1.2, this.2⟩

theorem E2 {a : Nat} (ha : a < 256) (h0 : a ≠ 0) : gexp p (glog p a) = a ∧ glog p a < 255 := by
  have := allLt_spec H.e2 a ha
  simp only [Bool.or_eq_true, beq_iff_eq, Bool.and_eq_true, decide_eq_true_eq] at this
  rcases this with h | h
  · exact absurd h h0
  · exact h

theorem Lg {b c : Nat} (hb : b < 256) (hc : c < 256) :
    tmul p (gexp p 1) (b ^^^ c) = tmul p (gexp p 1) b ^^^ tmul p (gexp p 1) c := by
  have := allLt_spec (allLt_spec H.lg b hb) c hc
  simpa using this

theorem tmul_lt (a b : Nat) : tmul p a b < 256 := by
  unfold tmul
  split
  · omega
  · split
    · omega
    · exact (E1 H (Nat.mod_lt _ (by omega))).2.2

omit H in
theorem tmul_comm (a b : Nat) : tmul p a b = tmul p b a := by
  unfold tmul
  by_cases ha : a = 0 <;> by_cases hb : b = 0 <;> simp [ha, hb, Nat.add_comm]

omit H in
theorem tmul_of_ne {a b : Nat} (ha : a ≠ 0) (hb : b ≠ 0) :
    tmul p a b = gexp p ((glog p a + glog p b) % 255) := by
  simp [tmul, ha, hb]

omit H in
@[simp] theorem tmul_zero_left (b : Nat) : tmul p 0 b = 0 := by simp [tmul]
omit H in
@[simp] theorem tmul_zero_right (a : Nat) : tmul p a 0 = 0 := by simp [tmul]

theorem tmul_ne_zero {a b : Nat} (ha : a ≠ 0) (hb : b ≠ 0) : tmul p a b ≠ 0 := by
  rw [tmul_of_ne ha hb]
  exact (E1 H (Nat.mod_lt _ (by omega))).2.1

theorem glog_tmul {a b : Nat} (ha : a ≠ 0) (hb : b ≠ 0) :
    glog p (tmul p a b) = (glog p a + glog p b) % 255 := by
  rw [tmul_of_ne ha hb]
  exact (E1 H (Nat.mod_lt _ (by omega))).1

theorem tmul_assoc (a b c : Nat) : tmul p (tmul p a b) c = tmul p a (tmul p b c) := by
  by_cases ha : a = 0
  · simp [ha]
  by_cases hb : b = 0
  · simp [hb]
  by_cases hc : c = 0
  · simp [hc]
  have hab := tmul_ne_zero H ha hb
  have hbc := tmul_ne_zero H hb hc
  rw [tmul_of_ne hab hc, tmul_of_ne ha hbc, glog_tmul H ha hb, glog_tmul H hb hc]
  congr 1
  omega

theorem glog_one : glog p 1 = 0 := by
  have := (E1 H (show 0 < 255 by omega)).1
  rwa [H.gexp_zero] at this

theorem glog_g : glog p (gexp p 1) = 1 := (E1 H (by omega)).1
theorem g_ne_zero : gexp p 1 ≠ 0 := (E1 H (by omega)).2.1
theorem g_lt : gexp p 1 < 256 := (E1 H (by omega)).2.2

theorem one_tmul {a : Nat} (ha : a < 256) : tmul p 1 a = a := by
  by_cases h0 : a = 0
  · simp [h0]
  · have := E2 H ha h0
    rw [tmul_of_ne Nat.one_ne_zero h0, glog_one H, Nat.zero_add, Nat.mod_eq_of_lt this.2]
    exact this.1

theorem gexp_succ {i : Nat} (hi : i + 1 < 255) :
    gexp p (i + 1) = tmul p (gexp p 1) (gexp p i) := by
  have hi' := E1 H (show i < 255 by omega)
  rw [tmul_of_ne (g_ne_zero H) hi'.2.1, glog_g H, hi'.1, Nat.mod_eq_of_lt (by omega), Nat.add_comm]

omit H in
theorem xor_lt {b c : Nat} (hb : b < 256) (hc : c < 256) : b ^^^ c < 256 :=
  Nat.xor_lt_two_pow (n := 8) hb hc

/-- multiplication by `gexp i` is additive, by induction on `i` -/
theorem tmul_gexp_add (i : Nat) (hi : i < 255) : ∀ b c, b < 256 → c < 256 →
    tmul p (gexp p i) (b ^^^ c) = tmul p (gexp p i) b ^^^ tmul p (gexp p i) c := by
  induction i with
  | zero =>
    intro b c hb hc
    rw [H.gexp_zero, one_tmul H hb, one_tmul H hc, one_tmul H (xor_lt hb hc)]
  | succ i ih =>
    intro b c hb hc
    have hi' : i < 255 := by omega
    rw [gexp_succ H hi, tmul_assoc H, tmul_assoc H, tmul_assoc H, ih hi' b c hb hc]
    exact Lg H (tmul_lt H _ _) (tmul_lt H _ _)

theorem tmul_add {a b c : Nat} (ha : a < 256) (hb : b < 256) (hc : c < 256) :
    tmul p a (b ^^^ c) = tmul p a b ^^^ tmul p a c := by
  by_cases h0 : a = 0
  · simp [h0]
  · have := E2 H ha h0
    rw [← this.1]
    exact tmul_gexp_add H _ this.2 b c hb hc

theorem tmul_tinv {a : Nat} (ha : a < 256) (h0 : a ≠ 0) : tmul p a (tinv p a) = 1 := by
  have h2 := E2 H ha h0
  have hlt : (255 - glog p a) % 255 < 255 := Nat.mod_lt _ (by omega)
  have h1 := E1 H hlt
  unfold tinv
  rw [if_neg h0, tmul_of_ne h0 h1.2.1, h1.1]
  have : (glog p a + (255 - glog p a) % 255) % 255 = 0 := by omega
  rw [this, H.gexp_zero]

end NatLevel

/-! ### the byte type -/
section EltLevel
variable {p : Params}

theorem toNat_lt (a : Elt p) : a.toNat < 256 := a.val.isLt

theorem elt_ext {a b : Elt p} (h : a.toNat = b.toNat) : a = b := by
  cases a with | mk av => cases b with | mk bv =>
  have : av = bv := Fin.ext h
  rw [this]

theorem toNat_ofNat {n : Nat} (h : n < 256) : (Elt.ofNat p n).toNat = n := Nat.mod_eq_of_lt h

theorem ofNat_toNat (a : Elt p) : Elt.ofNat p a.toNat = a := elt_ext (toNat_ofNat (toNat_lt a))

@[simp] theorem toNat_zero : (0 : Elt p).toNat = 0 := rfl
@[simp] theorem toNat_one : (1 : Elt p).toNat = 1 := rfl

theorem toNat_add (a b : Elt p) : (a + b).toNat = a.toNat ^^^ b.toNat :=
  toNat_ofNat (xor_lt (toNat_lt a) (toNat_lt b))

theorem toNat_neg (a : Elt p) : (-a).toNat = a.toNat := rfl

theorem toNat_mul (H : TableFacts p) (a b : Elt p) : (a * b).toNat = tmul p a.toNat b.toNat :=
  toNat_ofNat (tmul_lt H _ _)

theorem tinv_lt (H : TableFacts p) (a : Nat) : tinv p a < 256 := by
  unfold tinv
  split
  · omega
  · exact (E1 H (Nat.mod_lt _ (by omega))).2.2

theorem toNat_inv (H : TableFacts p) (a : Elt p) : (a⁻¹).toNat = tinv p a.toNat :=
  toNat_ofNat (tinv_lt H _)

theorem elt_ne_zero {a : Elt p} (h : a ≠ 0) : a.toNat ≠ 0 := fun h0 => h (elt_ext h0)

/-- `Elt p` with the model's own operations is a field. -/
@[reducible] def fieldOf (p : Params) (H : TableFacts p) : Field (Elt p) where
  add := (· + ·)
  zero := 0
  neg := fun a => -a
  sub := (· - ·)
  mul := (· * ·)
  one := 1
  inv := fun a => a⁻¹
  div := (· / ·)
  add_assoc a b c := elt_ext (by simp only [toNat_add, Nat.xor_assoc])
  zero_add a := elt_ext (by simp only [toNat_add, toNat_zero, Nat.zero_xor])
  add_zero a := elt_ext (by simp only [toNat_add, toNat_zero, Nat.xor_zero])
  add_comm a b := elt_ext (by simp only [toNat_add, Nat.xor_comm])
  neg_add_cancel a := elt_ext (by simp only [toNat_add, toNat_neg, toNat_zero, Nat.xor_self])
  sub_eq_add_neg a b := rfl
  nsmul := nsmulRec
  zsmul := zsmulRec
  mul_assoc a b c := elt_ext (by simp only [toNat_mul H, tmul_assoc H])
  one_mul a := elt_ext (by simp only [toNat_mul H, toNat_one, one_tmul H (toNat_lt a)])
  mul_one a := elt_ext (by
    simp only [toNat_mul H, toNat_one]; rw [tmul_comm, one_tmul H (toNat_lt a)])
  mul_comm a b := elt_ext (by simp only [toNat_mul H, tmul_comm])
  zero_mul a := elt_ext (by simp only [toNat_mul H, toNat_zero, tmul_zero_left])
  mul_zero a := elt_ext (by simp only [toNat_mul H, toNat_zero, tmul_zero_right])
  left_distrib a b c := elt_ext (by
    simp only [toNat_mul H, toNat_add]
    exact tmul_add H (toNat_lt a) (toNat_lt b) (toNat_lt c))
  right_distrib a b c := elt_ext (by
    simp only [toNat_mul H, toNat_add]
    rw [tmul_comm, tmul_add H (toNat_lt c) (toNat_lt a) (toNat_lt b), tmul_comm _ c.toNat,
      tmul_comm _ c.toNat])
  exists_pair_ne := ⟨0, 1, fun h => by
    have := congrArg Elt.toNat h
    simp at this⟩
  mul_inv_cancel a ha := elt_ext (by
    simp only [toNat_mul H, toNat_inv H, toNat_one]
    exact tmul_tinv H (toNat_lt a) (elt_ne_zero ha))
  inv_zero := elt_ext (by simp [toNat_inv H, tinv])
  div_eq_mul_inv a b := rfl
  npow := npowRec
  zpow := zpowRec
  nnqsmul := _
  nnqsmul_def := fun _ _ => rfl
  qsmul := _
  qsmul_def := fun _ _ => rfl

/-! ### the generator -/

theorem gpow_zero (H : TableFacts p) : Elt.gpow p 0 = 1 := by
  apply elt_ext
  show (Elt.ofNat p (gexp p (0 % 255))).toNat = 1
  rw [Nat.zero_mod, H.gexp_zero]; rfl

theorem gpow_succ (H : TableFacts p) (n : Nat) :
    Elt.gpow p (n + 1) = Elt.gpow p n * Elt.gpow p 1 := by
  apply elt_ext
  have hn : n % 255 < 255 := Nat.mod_lt _ (by omega)
  have h1 := E1 H hn
  have hg := E1 H (show 1 % 255 < 255 by omega)
  have hs := E1 H (show (n + 1) % 255 < 255 from Nat.mod_lt _ (by omega))
  rw [toNat_mul H]
  show (Elt.ofNat p (gexp p ((n + 1) % 255))).toNat =
    tmul p (Elt.ofNat p (gexp p (n % 255))).toNat (Elt.ofNat p (gexp p (1 % 255))).toNat
  rw [toNat_ofNat hs.2.2, toNat_ofNat h1.2.2, toNat_ofNat hg.2.2, tmul_of_ne h1.2.1 hg.2.1,
    h1.1, hg.1]
  congr 1
  omega

theorem gpow_eq_pow (H : TableFacts p) (n : Nat) :
    letI := fieldOf p H
    Elt.gpow p n = (Elt.gpow p 1) ^ n := by
  let _ := fieldOf p H
  induction n with
  | zero => rw [gpow_zero H]; exact (pow_zero _).symm
  | succ n ih => rw [gpow_succ H, ih]; exact (pow_succ _ _).symm

theorem gpow_one_ne_zero (H : TableFacts p) : Elt.gpow p 1 ≠ 0 := by
  intro h
  have := congrArg Elt.toNat h
  have hg := E1 H (show 1 % 255 < 255 by omega)
  change (Elt.ofNat p (gexp p (1 % 255))).toNat = 0 at this
  rw [toNat_ofNat hg.2.2] at this
  exact hg.2.1 this

theorem gpow_inj (H : TableFacts p) {i j : Nat} (hi : i < 255) (hj : j < 255)
    (h : Elt.gpow p i = Elt.gpow p j) : i = j := by
  have := congrArg Elt.toNat h
  have h1 := E1 H hi
  have h2 := E1 H hj
  change (Elt.ofNat p (gexp p (i % 255))).toNat = (Elt.ofNat p (gexp p (j % 255))).toNat at this
  rw [Nat.mod_eq_of_lt hi, Nat.mod_eq_of_lt hj, toNat_ofNat h1.2.2, toNat_ofNat h2.2.2] at this
  rw [← h1.1, ← h2.1, this]

theorem elt_char2 (a : Elt p) : a + a = 0 :=
  elt_ext (by simp only [toNat_add, toNat_zero, Nat.xor_self])

end EltLevel

end Pff.GFProofs
