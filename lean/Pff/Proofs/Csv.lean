import Pff.Model.Csv
/-!
# Helper lemmas for the csv round trip (C05, C16)

The reader is re-expressed as a character-level recursion `go` over the text (the line splitter
and the state machine fused); all reasoning about written rows is then done on `go`.
-/
namespace Pff.Csv

/-! ## the state machine on the characters the writer produces -/

theorem step_inQuoted_char (fld : Str) (flds : List Str) (c : Nat) (h : c ≠ cQuote) :
    step ⟨.inQuoted, fld, flds⟩ (some c) = some ⟨.inQuoted, fld ++ [c], flds⟩ := by
  simp [step, h]

theorem step_inQuoted_quote (fld : Str) (flds : List Str) :
    step ⟨.inQuoted, fld, flds⟩ (some cQuote) = some ⟨.quoteInQuoted, fld, flds⟩ := by
  simp [step]

theorem step_inQuoted_eol (fld : Str) (flds : List Str) :
    step ⟨.inQuoted, fld, flds⟩ none = some ⟨.inQuoted, fld, flds⟩ := by
  simp [step]

theorem step_qiq_quote (fld : Str) (flds : List Str) :
    step ⟨.quoteInQuoted, fld, flds⟩ (some cQuote) = some ⟨.inQuoted, fld ++ [cQuote], flds⟩ := by
  simp [step]

theorem step_qiq_delim (fld : Str) (flds : List Str) :
    step ⟨.quoteInQuoted, fld, flds⟩ (some cDelim) = some ⟨.startField, [], flds ++ [fld]⟩ := by
  simp [step, saveField, cDelim, cQuote]

theorem step_qiq_lf (fld : Str) (flds : List Str) :
    step ⟨.quoteInQuoted, fld, flds⟩ (some cLF) = some ⟨.eatCRNL, [], flds ++ [fld]⟩ := by
  simp [step, saveField, cDelim, cQuote, cLF]

theorem step_eat_eol (fld : Str) (flds : List Str) :
    step ⟨.eatCRNL, fld, flds⟩ none = some ⟨.startRecord, fld, flds⟩ := by
  simp [step]

/-- a character that can stand in an unquoted field -/
def Plain (c : Nat) : Prop := c ≠ cDelim ∧ c ≠ cQuote ∧ c ≠ cLF ∧ c ≠ cCR

theorem step_inField_char (fld : Str) (flds : List Str) (c : Nat) (h : Plain c) :
    step ⟨.inField, fld, flds⟩ (some c) = some ⟨.inField, fld ++ [c], flds⟩ := by
  obtain ⟨h1, h2, h3, h4⟩ := h
  simp [step, h1, h3, h4]

theorem step_inField_delim (fld : Str) (flds : List Str) :
    step ⟨.inField, fld, flds⟩ (some cDelim) = some ⟨.startField, [], flds ++ [fld]⟩ := by
  simp [step, saveField, cDelim, cLF, cCR]

theorem step_inField_lf (fld : Str) (flds : List Str) :
    step ⟨.inField, fld, flds⟩ (some cLF) = some ⟨.eatCRNL, [], flds ++ [fld]⟩ := by
  simp [step, saveField]

/-- the two states in which a field may begin -/
def Starting (st : St) : Prop := st = .startRecord ∨ st = .startField

theorem step_start_char (st : St) (hst : Starting st) (fld : Str) (flds : List Str) (c : Nat)
    (h : Plain c) : step ⟨st, fld, flds⟩ (some c) = some ⟨.inField, fld ++ [c], flds⟩ := by
  obtain ⟨h1, h2, h3, h4⟩ := h
  rcases hst with rfl | rfl <;> simp [step, h1, h2, h3, h4]

theorem step_start_quote (st : St) (hst : Starting st) (fld : Str) (flds : List Str) :
    step ⟨st, fld, flds⟩ (some cQuote) = some ⟨.inQuoted, fld, flds⟩ := by
  rcases hst with rfl | rfl <;> simp [step, cQuote, cLF, cCR]

theorem step_start_delim (st : St) (hst : Starting st) (fld : Str) (flds : List Str) :
    step ⟨st, fld, flds⟩ (some cDelim) = some ⟨.startField, [], flds ++ [fld]⟩ := by
  rcases hst with rfl | rfl <;> simp [step, saveField, cQuote, cLF, cCR, cDelim]

theorem step_startField_lf (fld : Str) (flds : List Str) :
    step ⟨.startField, fld, flds⟩ (some cLF) = some ⟨.eatCRNL, [], flds ++ [fld]⟩ := by
  simp [step, saveField]

theorem step_startRecord_lf (fld : Str) (flds : List Str) :
    step ⟨.startRecord, fld, flds⟩ (some cLF) = some ⟨.eatCRNL, fld, flds⟩ := by
  simp [step]

/-! ## the reader as a character-level recursion -/

/-- the end-of-line pseudo character, then continue with `k` (on a fresh state if a record was
completed) -/
def eolK (s : RSt) (k : RSt → Option (List (List Str))) : Option (List (List Str)) :=
  match step s none with
  | none => none
  | some s' => if s'.st == .startRecord then (k {}).map (fun rs => s'.fields :: rs) else k s'

/-- `readLines s0 (splitLines cur text)` where `s` is the state reached after feeding `cur` and
`b` tells whether `cur` is non-empty -/
def go : Bool → RSt → Str → Option (List (List Str))
  | b, s, [] => if b then eolK s (fun s' => readLines s' []) else readLines s []
  | _, s, [c] => (step s (some c)).bind (fun s1 => eolK s1 (fun s' => readLines s' []))
  | _, s, c :: d :: rest =>
    (step s (some c)).bind (fun s1 =>
      if c == cLF then eolK s1 (fun s' => go false s' (d :: rest))
      else if c == cCR then
        if d == cLF then (step s1 (some d)).bind (fun s2 => eolK s2 (fun s' => go false s' rest))
        else eolK s1 (fun s' => go false s' (d :: rest))
      else go true s1 (d :: rest))

def feed (s : RSt) (cur : Str) : Option RSt := cur.foldlM (fun s c => step s (some c)) s

theorem feed_snoc (s0 : RSt) (cur : Str) (c : Nat) :
    feed s0 (cur ++ [c]) = (feed s0 cur).bind (fun s => step s (some c)) := by
  simp [feed, List.foldlM_append]

theorem readLines_cons_some (s0 s1 : RSt) (line : Str) (rest : List Str)
    (h : feed s0 line = some s1) :
    readLines s0 (line :: rest) = eolK s1 (fun s' => readLines s' rest) := by
  unfold feed at h
  simp only [readLines, feedLine, h, Option.bind_some, eolK]
  cases step s1 none <;> rfl

theorem readLines_cons_none (s0 : RSt) (line : Str) (rest : List Str)
    (h : feed s0 line = none) : readLines s0 (line :: rest) = none := by
  unfold feed at h
  simp only [readLines, feedLine, h, Option.bind_none]

theorem readLines_cons (s0 : RSt) (line : Str) (rest : List Str) :
    readLines s0 (line :: rest)
      = (feed s0 line).bind (fun s1 => eolK s1 (fun s' => readLines s' rest)) := by
  cases h : feed s0 line with
  | none => simp [readLines_cons_none _ _ _ h]
  | some s1 => simp [readLines_cons_some _ _ _ _ h]

theorem eolK_congr (s : RSt) (k k' : RSt → Option (List (List Str))) (h : ∀ s', k s' = k' s') :
    eolK s k = eolK s k' := by
  have : k = k' := funext h
  rw [this]

theorem feed_append (s0 : RSt) (cur x : Str) :
    feed s0 (cur ++ x) = (feed s0 cur).bind (fun s => feed s x) := by
  simp [feed, List.foldlM_append]

theorem readLines_splitLines_none (cur text : Str) (s0 : RSt) (h : feed s0 cur = none) :
    readLines s0 (splitLines cur text) = none := by
  fun_induction splitLines cur text generalizing s0 with
  | case1 => simp [feed] at h
  | case2 cur hne => rw [readLines_cons, h]; rfl
  | case3 cur c => rw [readLines_cons, feed_append, h]; rfl
  | case4 cur c d rest hc ih => rw [readLines_cons, feed_append, h]; rfl
  | case5 cur c d rest hc hc' hd ih => rw [readLines_cons, feed_append, h]; rfl
  | case6 cur c d rest hc hc' hd ih => rw [readLines_cons, feed_append, h]; rfl
  | case7 cur c d rest hc hc' ih => exact ih s0 (by rw [feed_append, h]; rfl)

theorem readLines_splitLines (cur text : Str) (s0 s : RSt) (h : feed s0 cur = some s) :
    readLines s0 (splitLines cur text) = go (!cur.isEmpty) s text := by
  fun_induction splitLines cur text generalizing s0 s with
  | case1 =>
    simp [feed] at h
    subst h
    simp [go]
  | case2 cur hne =>
    have : cur ≠ [] := by intro h; exact hne h
    rw [readLines_cons, h]
    simp [go, this]
  | case3 cur c =>
    rw [readLines_cons, feed_snoc, h]
    simp [go]
  | case4 cur c d rest hc ih =>
    rw [readLines_cons, feed_snoc, h]
    simp only [go, hc, if_true, Option.bind_some]
    cases step s (some c) with
    | none => rfl
    | some s1 =>
      simp only [Option.bind_some]
      exact eolK_congr _ _ _ (fun s' => ih s' s' rfl)
  | case5 cur c d rest hc hc' hd ih =>
    rw [readLines_cons]
    have : cur ++ [c, d] = (cur ++ [c]) ++ [d] := by simp
    rw [this, feed_snoc, feed_snoc, h]
    simp only [go, hc, hc', hd, if_true, Option.bind_some]
    cases step s (some c) with
    | none => rfl
    | some s1 =>
      simp only [Option.bind_some]
      cases step s1 (some d) with
      | none => rfl
      | some s2 =>
        simp only [Option.bind_some]
        exact eolK_congr _ _ _ (fun s' => ih s' s' rfl)
  | case6 cur c d rest hc hc' hd ih =>
    rw [readLines_cons, feed_snoc, h]
    simp only [go, hc, hc', hd, if_true, Option.bind_some]
    cases step s (some c) with
    | none => rfl
    | some s1 =>
      simp only [Option.bind_some]
      exact eolK_congr _ _ _ (fun s' => ih s' s' rfl)
  | case7 cur c d rest hc hc' ih =>
    simp only [go, hc, hc']
    cases hs : step s (some c) with
    | none =>
      exact readLines_splitLines_none _ _ _ (by rw [feed_snoc, h]; exact hs)
    | some s1 =>
      rw [ih s0 s1 (by rw [feed_snoc, h]; exact hs)]
      have : (cur ++ [c]).isEmpty = false := by cases cur <;> rfl
      rw [this]; rfl

/-! ## one-character unfoldings of `go` -/

theorem go_nil_false (s : RSt) : go false s [] = readLines s [] := by simp [go]

theorem go_cons_lf (b : Bool) (s : RSt) (rest : Str) :
    go b s (cLF :: rest)
      = (step s (some cLF)).bind (fun s1 => eolK s1 (fun s' => go false s' rest)) := by
  cases rest with
  | nil => simp [go]
  | cons d rest => simp [go]

theorem go_cons_plain (b : Bool) (s : RSt) (c : Nat) (rest : Str) (h1 : c ≠ cLF) (h2 : c ≠ cCR) :
    go b s (c :: rest) = (step s (some c)).bind (fun s1 => go true s1 rest) := by
  cases rest with
  | nil => simp [go]
  | cons d rest => simp [go, h1, h2]

theorem go_cons_cr_nil (b : Bool) (s : RSt) :
    go b s [cCR] = (step s (some cCR)).bind (fun s1 => eolK s1 (fun s' => readLines s' [])) := by
  simp [go]

theorem go_cons_cr_lf (b : Bool) (s : RSt) (rest : Str) :
    go b s (cCR :: cLF :: rest)
      = (step s (some cCR)).bind (fun s1 =>
          (step s1 (some cLF)).bind (fun s2 => eolK s2 (fun s' => go false s' rest))) := by
  simp [go, cCR, cLF]

theorem go_cons_cr_other (b : Bool) (s : RSt) (d : Nat) (rest : Str) (h : d ≠ cLF) :
    go b s (cCR :: d :: rest)
      = (step s (some cCR)).bind (fun s1 => eolK s1 (fun s' => go false s' (d :: rest))) := by
  have h' : (d == cLF) = false := by simpa using h
  have e : (cCR == cLF) = false := by decide
  simp [go, h', e]

theorem eolK_inQuoted (fld : Str) (flds : List Str) (k : RSt → Option (List (List Str))) :
    eolK ⟨.inQuoted, fld, flds⟩ k = k ⟨.inQuoted, fld, flds⟩ := by
  simp [eolK, step_inQuoted_eol]

theorem eolK_eat (fld : Str) (flds : List Str) (k : RSt → Option (List (List Str))) :
    eolK ⟨.eatCRNL, fld, flds⟩ k = (k {}).map (fun rs => flds :: rs) := by
  simp [eolK, step_eat_eol]

/-! ## inside a quoted field -/

theorem go_inQuoted_char (b : Bool) (fld : Str) (flds : List Str) (c : Nat) (rest : Str)
    (h : c ≠ cQuote) :
    go b ⟨.inQuoted, fld, flds⟩ (c :: rest)
      = go (c != cLF && c != cCR) ⟨.inQuoted, fld ++ [c], flds⟩ rest := by
  by_cases h1 : c = cLF
  · subst h1
    rw [go_cons_lf, step_inQuoted_char _ _ _ h]
    simp [eolK_inQuoted]
  by_cases h2 : c = cCR
  · subst h2
    have e : (cCR != cLF && cCR != cCR) = false := by decide
    rw [e]
    cases rest with
    | nil =>
      rw [go_cons_cr_nil, step_inQuoted_char _ _ _ h]
      simp [eolK_inQuoted, go_nil_false]
    | cons d rest =>
      by_cases hd : d = cLF
      · subst hd
        have hq : cLF ≠ cQuote := by decide
        rw [go_cons_cr_lf, step_inQuoted_char _ _ _ h, go_cons_lf]
        simp [step_inQuoted_char _ _ _ hq, eolK_inQuoted]
      · rw [go_cons_cr_other _ _ _ _ hd, step_inQuoted_char _ _ _ h]
        simp [eolK_inQuoted]
  · rw [go_cons_plain _ _ _ _ h1 h2, step_inQuoted_char _ _ _ h]
    have e : (c != cLF && c != cCR) = true := by simp [h1, h2]
    rw [e]; rfl

/-- the escaped content of a quoted field -/
def esc (f : Str) : Str := f.flatMap (fun c => if c == cQuote then [cQuote, cQuote] else [c])

theorem quoteField_eq (f : Str) : quoteField f = cQuote :: (esc f ++ [cQuote]) := by
  simp [quoteField, esc]

theorem go_inQuoted_esc (f : Str) (b : Bool) (fld : Str) (flds : List Str) (T : Str) :
    go b ⟨.inQuoted, fld, flds⟩ (esc f ++ cQuote :: T)
      = go true ⟨.quoteInQuoted, fld ++ f, flds⟩ T := by
  have hq1 : cQuote ≠ cLF := by decide
  have hq2 : cQuote ≠ cCR := by decide
  induction f generalizing b fld with
  | nil =>
    simp only [esc, List.flatMap_nil, List.nil_append, List.append_nil]
    rw [go_cons_plain _ _ _ _ hq1 hq2, step_inQuoted_quote]
    rfl
  | cons c f ih =>
    by_cases hc : c = cQuote
    · subst hc
      have : esc (cQuote :: f) ++ cQuote :: T = cQuote :: cQuote :: (esc f ++ cQuote :: T) := by
        simp [esc]
      rw [this, go_cons_plain _ _ _ _ hq1 hq2, step_inQuoted_quote, Option.bind_some,
        go_cons_plain _ _ _ _ hq1 hq2, step_qiq_quote, Option.bind_some, ih]
      simp
    · have : esc (c :: f) ++ cQuote :: T = c :: (esc f ++ cQuote :: T) := by
        simp [esc, hc]
      rw [this, go_inQuoted_char _ _ _ _ _ hc, ih]
      simp

theorem go_start_quoted (st : St) (hst : Starting st) (f : Str) (b : Bool) (flds : List Str)
    (T : Str) :
    go b ⟨st, [], flds⟩ (quoteField f ++ T) = go true ⟨.quoteInQuoted, f, flds⟩ T := by
  have hq1 : cQuote ≠ cLF := by decide
  have hq2 : cQuote ≠ cCR := by decide
  have : quoteField f ++ T = cQuote :: (esc f ++ cQuote :: T) := by simp [quoteField_eq]
  rw [this, go_cons_plain _ _ _ _ hq1 hq2, step_start_quote _ hst, Option.bind_some,
    go_inQuoted_esc]
  simp

/-! ## an unquoted field -/

theorem go_inField_plain (f : Str) (hf : ∀ c ∈ f, Plain c) (b : Bool) (fld : Str)
    (flds : List Str) (T : Str) :
    go b ⟨.inField, fld, flds⟩ (f ++ T) = go (b || !f.isEmpty) ⟨.inField, fld ++ f, flds⟩ T := by
  induction f generalizing b fld with
  | nil => simp
  | cons c f ih =>
    have hc : Plain c := hf c (by simp)
    rw [List.cons_append, go_cons_plain _ _ _ _ hc.2.2.1 hc.2.2.2, step_inField_char _ _ _ hc,
      Option.bind_some, ih (fun c h => hf c (by simp [h]))]
    simp

theorem go_start_plain (st : St) (hst : Starting st) (f : Str) (hf : ∀ c ∈ f, Plain c)
    (hne : f ≠ []) (b : Bool) (flds : List Str) (T : Str) :
    go b ⟨st, [], flds⟩ (f ++ T) = go true ⟨.inField, f, flds⟩ T := by
  cases f with
  | nil => exact absurd rfl hne
  | cons c f =>
    have hc : Plain c := hf c (by simp)
    rw [List.cons_append, go_cons_plain _ _ _ _ hc.2.2.1 hc.2.2.2, step_start_char _ hst _ _ _ hc,
      Option.bind_some, go_inField_plain f (fun c h => hf c (by simp [h]))]
    simp

/-! ## the character after a field -/

theorem go_qiq_delim (b : Bool) (f : Str) (flds : List Str) (T : Str) :
    go b ⟨.quoteInQuoted, f, flds⟩ (cDelim :: T) = go true ⟨.startField, [], flds ++ [f]⟩ T := by
  rw [go_cons_plain _ _ _ _ (by decide) (by decide), step_qiq_delim]; rfl

theorem go_inField_delim (b : Bool) (f : Str) (flds : List Str) (T : Str) :
    go b ⟨.inField, f, flds⟩ (cDelim :: T) = go true ⟨.startField, [], flds ++ [f]⟩ T := by
  rw [go_cons_plain _ _ _ _ (by decide) (by decide), step_inField_delim]; rfl

theorem go_start_delim (st : St) (hst : Starting st) (b : Bool) (f : Str) (flds : List Str)
    (T : Str) :
    go b ⟨st, f, flds⟩ (cDelim :: T) = go true ⟨.startField, [], flds ++ [f]⟩ T := by
  rw [go_cons_plain _ _ _ _ (by decide) (by decide), step_start_delim _ hst]; rfl

theorem go_qiq_lf (b : Bool) (f : Str) (flds : List Str) (T : Str) :
    go b ⟨.quoteInQuoted, f, flds⟩ (cLF :: T)
      = (go false {} T).map (fun rs => (flds ++ [f]) :: rs) := by
  rw [go_cons_lf, step_qiq_lf, Option.bind_some, eolK_eat]

theorem go_inField_lf (b : Bool) (f : Str) (flds : List Str) (T : Str) :
    go b ⟨.inField, f, flds⟩ (cLF :: T)
      = (go false {} T).map (fun rs => (flds ++ [f]) :: rs) := by
  rw [go_cons_lf, step_inField_lf, Option.bind_some, eolK_eat]

theorem go_startField_lf (b : Bool) (f : Str) (flds : List Str) (T : Str) :
    go b ⟨.startField, f, flds⟩ (cLF :: T)
      = (go false {} T).map (fun rs => (flds ++ [f]) :: rs) := by
  rw [go_cons_lf, step_startField_lf, Option.bind_some, eolK_eat]

theorem go_startRecord_lf (b : Bool) (f : Str) (flds : List Str) (T : Str) :
    go b ⟨.startRecord, f, flds⟩ (cLF :: T) = (go false {} T).map (fun rs => flds :: rs) := by
  rw [go_cons_lf, step_startRecord_lf, Option.bind_some, eolK_eat]

/-! ## one written field -/

theorem plain_of_bare (f : Str) (hq : needsQuote f = false) (hcr : cCR ∉ f) :
    ∀ c ∈ f, Plain c := by
  intro c hc
  simp only [needsQuote, List.any_eq_false] at hq
  have := hq c hc
  simp only [Bool.or_eq_true, beq_iff_eq, not_or] at this
  refine ⟨this.1.1, this.1.2, this.2, ?_⟩
  intro h; subst h; exact hcr hc

theorem go_field_delim (all : Bool) (st : St) (hst : Starting st) (f : Str)
    (hcr : all = false → cCR ∉ f) (b : Bool) (flds : List Str) (T : Str) :
    go b ⟨st, [], flds⟩ (writeField all f ++ cDelim :: T)
      = go true ⟨.startField, [], flds ++ [f]⟩ T := by
  unfold writeField
  split
  · rw [go_start_quoted _ hst, go_qiq_delim]
  · rename_i h
    simp only [Bool.or_eq_true, not_or, Bool.not_eq_true] at h
    have hp := plain_of_bare f h.2 (hcr h.1)
    by_cases hne : f = []
    · subst hne
      rw [List.nil_append, go_start_delim _ hst]
    · rw [go_start_plain _ hst f hp hne, go_inField_delim]

theorem go_field_lf (all : Bool) (st : St) (f : Str)
    (hst : st = .startField ∨ (st = .startRecord ∧ writeField all f ≠ []))
    (hcr : all = false → cCR ∉ f) (b : Bool) (flds : List Str) (T : Str) :
    go b ⟨st, [], flds⟩ (writeField all f ++ cLF :: T)
      = (go false {} T).map (fun rs => (flds ++ [f]) :: rs) := by
  have hst' : Starting st := by
    rcases hst with h | h
    · exact Or.inr h
    · exact Or.inl h.1
  revert hst
  unfold writeField
  split
  · intro _
    rw [go_start_quoted _ hst', go_qiq_lf]
  · rename_i h
    intro hst
    simp only [Bool.or_eq_true, not_or, Bool.not_eq_true] at h
    have hp := plain_of_bare f h.2 (hcr h.1)
    by_cases hne : f = []
    · subst hne
      rcases hst with rfl | ⟨_, h2⟩
      · rw [List.nil_append, go_startField_lf]
      · exact absurd rfl h2
    · rw [go_start_plain _ hst' f hp hne, go_inField_lf]

/-! ## one written row -/

theorem go_fields (all : Bool) (fs : List Str) (f : Str) (st : St) (b : Bool) (flds : List Str)
    (T : Str)
    (hst : st = .startField ∨ (st = .startRecord ∧ ¬ (fs = [] ∧ writeField all f = [])))
    (hcr : all = false → ∀ g ∈ f :: fs, cCR ∉ g) :
    go b ⟨st, [], flds⟩ (joinFields ((f :: fs).map (writeField all)) ++ cLF :: T)
      = (go false {} T).map (fun rs => (flds ++ f :: fs) :: rs) := by
  induction fs generalizing f st b flds with
  | nil =>
    simp only [List.map_cons, List.map_nil, joinFields]
    refine go_field_lf all st f ?_ (fun h => hcr h f (by simp)) b flds T
    rcases hst with h | ⟨h1, h2⟩
    · exact Or.inl h
    · exact Or.inr ⟨h1, fun h => h2 ⟨rfl, h⟩⟩
  | cons g gs ih =>
    have hst' : Starting st := by
      rcases hst with h | h
      · exact Or.inr h
      · exact Or.inl h.1
    have : joinFields ((f :: g :: gs).map (writeField all)) ++ cLF :: T
        = writeField all f ++ cDelim
            :: (joinFields ((g :: gs).map (writeField all)) ++ cLF :: T) := by
      simp [joinFields]
    rw [this, go_field_delim all st hst' f (fun h => hcr h f (by simp)),
      ih g .startField true (flds ++ [f]) (Or.inl rfl)
        (fun h x hx => hcr h x (List.mem_cons_of_mem _ hx))]
    simp

theorem go_writeRowWith (all : Bool) (row : List Str) (T : Str)
    (hcr : all = false → ∀ g ∈ row, cCR ∉ g) :
    go false {} (writeRowWith all row ++ T) = (go false {} T).map (fun rs => row :: rs) := by
  unfold writeRowWith
  split
  · -- the row made of one empty field
    have : [cQuote, cQuote, cLF] ++ T = quoteField [] ++ cLF :: T := by simp [quoteField]
    rw [this, go_start_quoted _ (Or.inl rfl), go_qiq_lf]
    simp
  · rename_i hrow
    cases row with
    | nil =>
      simp only [List.map_nil, joinFields, List.nil_append, List.cons_append]
      exact go_startRecord_lf false [] [] T
    | cons f fs =>
      have := go_fields all fs f .startRecord false [] T (Or.inr ⟨rfl, ?_⟩) hcr
      · simpa using this
      · rintro ⟨rfl, hw⟩
        apply hrow
        have : f = [] := by
          unfold writeField at hw
          split at hw
          · simp [quoteField] at hw
          · exact hw
        rw [this]

theorem go_writeRow (row : List Str) (T : Str) :
    go false {} (writeRow row ++ T) = (go false {} T).map (fun rs => row :: rs) := by
  unfold writeRow
  apply go_writeRowWith
  intro h g hg hc
  have : (row.any fun f => f.contains cCR) = true := by
    rw [List.any_eq_true]
    exact ⟨g, hg, by simpa using hc⟩
  rw [h] at this
  exact Bool.noConfusion this

theorem go_writeRows (rows : List (List Str)) : go false {} (writeRows rows) = some rows := by
  induction rows with
  | nil => simp [writeRows, go, readLines]
  | cons r rs ih =>
    have : writeRows (r :: rs) = writeRow r ++ writeRows rs := by simp [writeRows]
    rw [this, go_writeRow, ih]
    rfl

theorem readAll_eq_go (text : Str) : readAll text = go false {} text := by
  unfold readAll
  exact readLines_splitLines [] text {} {} rfl

theorem readAll_writeRows (rows : List (List Str)) : readAll (writeRows rows) = some rows := by
  rw [readAll_eq_go, go_writeRows]

theorem writeRows_append (a b : List (List Str)) :
    writeRows a ++ writeRows b = writeRows (a ++ b) := by
  simp [writeRows]

end Pff.Csv
