import Pff.Props.RSSpec
import Pff.Proofs.GFTables
import Pff.Proofs.GF
import Pff.Proofs.RSCore
import Pff.Proofs.RSDist
import Pff.Proofs.RSFacade
import Pff.Proofs.RSDecode
/-! Helper lemmas for the Reed–Solomon layer (C02, C11, C12) — aggregator.

* `GFTables` : kernel-checked finite facts about the packed GF(2^8) tables
* `GF`       : field laws of GF(2^8) from the table facts; the `Field` instance; the generator
* `RSCore`   : Horner evaluation, generator polynomial roots, the three encoders compute remainders
* `RSDist`   : minimum distance (Vandermonde), Hamming distance, uniqueness of the systematic parity
* `RSFacade` : `ECCMan.encode` / `check` (padding, per-call k): accepts, detects, truncated parity
* `RSDecode` : `ECCMan.decode` under contract W: uniqueness within capacity, exact decoding
-/
