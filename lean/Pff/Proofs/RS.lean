import Pff.Props.RSSpec
/-! Helper lemmas for the Reed–Solomon layer (C02, C11, C12): field laws of GF(2^8) from the
tables, generator polynomial roots, encoders produce codewords, minimum distance, uniqueness. -/
namespace Pff.RSProofs

end Pff.RSProofs
