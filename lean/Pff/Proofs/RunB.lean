import Pff.Model.Run
import Pff.Proofs.Ecc
import Pff.Proofs.Scan
import Pff.Props.C04
/-! Helper lemmas for `Pff/Props/RunB.lean` (part 1: output length). -/
namespace Pff.Run.RunB

open Pff.Ecc Pff.Layout Pff.Entry Pff.Scan

theorem assembleAt_msgs_length (kOf : Nat → Nat) (hashLen mbs : Nat) (content stream : Bytes)
    (endpos : Nat) :
    ∀ fuel cur e,
      ((((assembleAt kOf hashLen mbs content stream endpos fuel cur e).map (·.1)).map (·.msg)).flatten).length ≤
        content.length - cur := by
  intro fuel
  induction fuel with
  | zero => intro cur e; simp only [assembleAt, List.map_nil, List.flatten_nil, List.length_nil, Nat.zero_le]
  | succ fuel ih =>
    intro cur e
    simp only [assembleAt]
    split
    · split
      · simp only [List.map_nil, List.flatten_nil, List.length_nil, Nat.zero_le]
      · have := ih (cur + ((content.drop cur).take (kOf cur)).length)
          (e + ((stream.drop e).take (hashLen + (mbs - kOf cur))).length)
        simp only [List.map_cons, List.flatten_cons, List.length_append, List.length_take,
          List.length_drop] at this ⊢
        omega
    · simp only [List.map_nil, List.flatten_nil, List.length_nil, Nat.zero_le]

theorem correctWholeAt_output_length (O : Ops) (hlen : DecLen O) (fast : Bool) (thr : Nat)
    (kOf : Nat → Nat) (hashLen mbs : Nat) (content stream : Bytes) (ts endpos : Nat) (out : Bytes)
    (h : (correctWholeAt O fast thr kOf hashLen mbs content stream ts endpos).1.output = some out) :
    out.length = content.length := by
  unfold correctWholeAt at h
  simp only at h
  split at h
  · cases h
  · split at h
    · simp only [Option.some.injEq] at h
      subst h
      rw [List.length_append, List.length_drop]
      have h1 := whole_body_length_le O hlen fast mbs thr
        ((assembleAt kOf hashLen mbs content stream endpos (content.length + 1) 0 ts).map (·.1))
      have h2 := assembleAt_msgs_length kOf hashLen mbs content stream endpos (content.length + 1) 0 ts
      omega
    · cases h

theorem target_aux (fs : FS) (path : Bytes) (sz : Option Int) (ign : Bool) (size : Int) (content : Bytes)
    (h : (match sz with
      | none => (none : Option (Int × Bytes))
      | some size =>
        if path.contains 0 then none
        else match fsLookup fs path with
          | none => none
          | some content => if size ≠ (content.length : Int) && !ign then none else some (size, content))
        = some (size, content)) :
    fsLookup fs path = some content := by
  split at h
  · cases h
  · split at h
    · cases h
    · split at h
      · cases h
      · rename_i c hc
        split at h
        · cases h
        · simp only [Option.some.injEq, Prod.mk.injEq] at h
          rw [hc, h.2]

theorem locate_target_lookup (O : Ops) (P : Params) (fs : FS) (stream : Bytes) (a b : Nat)
    (size : Int) (content : Bytes)
    (h : (locate O P fs stream a b).target = some (size, content)) :
    fsLookup fs (locate O P fs stream a b).path = some content :=
  target_aux fs _ _ _ size content h

theorem processEntry_path (O : Ops) (P : Params) (fs : FS) (stream : Bytes) (a b : Nat) :
    (processEntry O P fs stream a b).path = (locate O P fs stream a b).path := by
  unfold processEntry
  simp only
  split
  · rfl
  · split <;> rfl

theorem processEntry_output_length (O : Ops) (hlen : DecLen O) (P : Params) (fs : FS) (stream : Bytes)
    (a b : Nat) (out : Bytes) (h : (processEntry O P fs stream a b).effect = .wrote out) :
    ∃ content, fsLookup fs (processEntry O P fs stream a b).path = some content ∧
      out.length = content.length := by
  rw [processEntry_path]
  unfold processEntry at h
  simp only at h
  split at h
  · cases h
  · rename_i size content ht
    have hl := locate_target_lookup O P fs stream a b size content ht
    refine ⟨content, hl, ?_⟩
    split at h
    · simp only at h
      split at h
      · rename_i o ho
        simp only [Effect.wrote.injEq] at h
        subst h
        exact C04_length_header O hlen _ _ _ _ _ _ _ _ _ ho
      · cases h
    · simp only at h
      split at h
      · rename_i o ho
        simp only [Effect.wrote.injEq] at h
        subst h
        exact correctWholeAt_output_length O hlen _ _ _ _ _ _ _ _ _ _ ho
      · split at h <;> cases h

theorem runLoopEntries_output_length (O : Ops) (hlen : DecLen O) (P : Params) (fs : FS) (stream : Bytes) :
    ∀ fuel cursor, ∀ o ∈ runLoopEntries O P fs stream fuel cursor, ∀ out, o.effect = .wrote out →
      ∃ content, fsLookup fs o.path = some content ∧ out.length = content.length := by
  intro fuel
  induction fuel with
  | zero => intro cursor o ho; simp [runLoopEntries] at ho
  | succ fuel ih =>
    intro cursor o ho out hout
    unfold runLoopEntries at ho
    split at ho
    · simp at ho
    · rename_i a b hs
      simp only [List.mem_cons] at ho
      rcases ho with ho | ho
      · subst ho
        exact processEntry_output_length O hlen P fs stream a b out hout
      · exact ih _ o ho out hout

end Pff.Run.RunB
