import Pff.Proofs.RunA
/-! Helper lemmas for the whole-run theorems (`Pff/Props/RunA.lean`), part 2: the loop over the
entries of a generated stream. -/
namespace Pff.Run

open Pff.Ecc Pff.Layout Pff.Entry Pff.Scan

theorem marker_pos : 0 < marker.length := by decide

/-! ## one call of the scanner on a generated stream, from any cursor not past the next marker -/

theorem specNext_built_nil (mk : Bytes) (hm : 0 < mk.length) (S : Bytes) (pre : Bytes) (p : Nat)
    (h1 : ∀ i, p ≤ i → mk.isPrefixOf (S.drop i) = true → i ∈ starts mk pre.length []) :
    specNext S mk p = none := by
  have hnone : find mk S p = none := by
    rw [find_eq_none_iff' hm]
    intro j hj
    apply not_occ_of (P := False) _ (fun h => h)
    intro hocc
    have := h1 j hj hocc
    simp [starts_nil] at this
  simp only [specNext, hnone]

theorem specNext_built_cons (mk : Bytes) (hm : 0 < mk.length) (S : Bytes) (e : Bytes) (es : List Bytes)
    (pre : Bytes) (p : Nat) (hS : build pre mk (e :: es) = S) (hp : p ≤ pre.length)
    (h1 : ∀ i, p ≤ i → mk.isPrefixOf (S.drop i) = true → i ∈ starts mk pre.length (e :: es))
    (h2 : ∀ i, i ∈ starts mk pre.length (e :: es) → mk.isPrefixOf (S.drop i) = true) :
    specNext S mk p = some (pre.length + mk.length, pre.length + mk.length + e.length) := by
  rw [starts_cons] at h1 h2
  have hoff : mk.isPrefixOf (S.drop pre.length) = true := h2 _ (List.mem_cons_self ..)
  have hfind : find mk S p = some pre.length := by
    rw [find_eq_some_iff' hm]
    refine ⟨hoff, hp, ?_⟩
    intro j hj1 hj2
    refine not_occ_of (fun h => ?_) (Nat.not_le.2 hj2)
    have := h1 j hj1 h
    rw [← starts_cons] at this
    exact le_of_mem_starts this
  have h1' : ∀ i, pre.length + mk.length ≤ i → mk.isPrefixOf (S.drop i) = true →
      i ∈ starts mk (pre.length + mk.length + e.length) es := by
    intro i hi hocc
    have := h1 i (by omega) hocc
    rw [List.mem_cons] at this
    rcases this with h | h
    · omega
    · exact h
  have hskip : find mk S (pre.length + mk.length) =
      find mk S (pre.length + mk.length + e.length) := by
    apply find_skip (by omega)
    intro j hj1 hj2
    exact not_occ_of (fun h => le_of_mem_starts (h1' j hj1 h)) (by omega)
  have hb : (find mk S (pre.length + mk.length)).getD S.length =
      pre.length + mk.length + e.length := by
    rw [hskip]
    cases es with
    | nil =>
      have hnone : find mk S (pre.length + mk.length + e.length) = none := by
        rw [find_eq_none_iff' hm]
        intro j hj
        apply not_occ_of (P := False) _ (fun h => h)
        intro hocc
        have := h1' j (by omega) hocc
        simp [starts_nil] at this
      rw [hnone, ← hS]
      simp [build, Nat.add_assoc]
    | cons e' es' =>
      have hsome : find mk S (pre.length + mk.length + e.length) =
          some (pre.length + mk.length + e.length) := by
        rw [find_eq_some_iff' hm]
        refine ⟨h2 _ ?_, Nat.le_refl _, ?_⟩
        · rw [starts_cons]
          exact List.mem_cons_of_mem _ (List.mem_cons_self ..)
        · intro j hj1 hj2
          omega
      rw [hsome]
      rfl
  simp only [specNext, hfind, hb]

theorem runLoopEntries_succ (O : Ops) (P : Params) (fs : FS) (stream : Bytes) (fuel cursor : Nat) :
    runLoopEntries O P fs stream (fuel + 1) cursor =
      match specNext stream marker cursor with
      | none => []
      | some (a, b) =>
        processEntry O P fs stream a b ::
          runLoopEntries O P fs stream fuel (processEntry O P fs stream a b).cursor := rfl

/-- the loop on a generated stream, from any cursor not past the first marker, with any
sufficient fuel -/
theorem runLoopEntries_built (O : Ops) (P : Params) (fs : FS) (S : Bytes) :
    ∀ (es : List Bytes) (pre : Bytes) (p fuel : Nat), build pre marker es = S → p ≤ pre.length →
      es.length + 1 ≤ fuel →
      (∀ i, p ≤ i → marker.isPrefixOf (S.drop i) = true → i ∈ starts marker pre.length es) →
      (∀ i, i ∈ starts marker pre.length es → marker.isPrefixOf (S.drop i) = true) →
      runLoopEntries O P fs S fuel p =
        (intended marker pre.length es).map (fun ab => processEntry O P fs S ab.1 ab.2) := by
  have hm := marker_pos
  intro es
  induction es with
  | nil =>
    intro pre p fuel _ _ hfuel h1 _
    obtain ⟨f, rfl⟩ : ∃ f, fuel = f + 1 := ⟨fuel - 1, by simp only [List.length_nil] at hfuel; omega⟩
    rw [runLoopEntries_succ, specNext_built_nil marker hm S pre p h1]
    rfl
  | cons e es ih =>
    intro pre p fuel hS hp hfuel h1 h2
    obtain ⟨f, rfl⟩ : ∃ f, fuel = f + 1 := ⟨fuel - 1, by simp only [List.length_cons] at hfuel; omega⟩
    rw [runLoopEntries_succ, specNext_built_cons marker hm S e es pre p hS hp h1 h2]
    simp only [intended, List.map_cons]
    have hcur := cursor_bounds O P fs S (pre.length + marker.length)
      (pre.length + marker.length + e.length) (Nat.le_add_right _ _)
    have hlen : (pre ++ marker ++ e).length = pre.length + marker.length + e.length := by
      simp only [List.length_append]
    rw [starts_cons] at h1 h2
    have hih := ih (pre ++ marker ++ e)
      (processEntry O P fs S (pre.length + marker.length) (pre.length + marker.length + e.length)).cursor
      f (by rw [build_cons]; exact hS) (by rw [hlen]; exact hcur.2)
      (by simp only [List.length_cons] at hfuel; omega)
      (by
        rw [hlen]
        intro i hi hocc
        have := h1 i (by omega) hocc
        rw [List.mem_cons] at this
        rcases this with h | h
        · omega
        · exact h)
      (by rw [hlen]; intro i hi; exact h2 i (List.mem_cons_of_mem _ hi))
    rw [hlen] at hih
    rw [hih]

theorem flatten_markers_length (mk : Bytes) (hm : 0 < mk.length) : ∀ (es : List Bytes),
    es.length ≤ ((es.map (fun e => mk ++ e)).flatten).length := by
  intro es
  induction es with
  | nil => simp only [List.map_nil, List.flatten_nil, List.length_nil, Nat.le_refl]
  | cons e es ih =>
    simp only [List.map_cons, List.flatten_cons, List.length_cons, List.length_append]
    omega

theorem build_length_ge (pre mk : Bytes) (hm : 0 < mk.length) (es : List Bytes) :
    es.length ≤ (build pre mk es).length := by
  have := flatten_markers_length mk hm es
  unfold build
  rw [List.length_append]
  exact Nat.le_trans this (Nat.le_add_left _ _)

theorem intended_length (mk : Bytes) : ∀ (es : List Bytes) (off : Nat),
    (intended mk off es).length = es.length := by
  intro es
  induction es with
  | nil => intro off; rfl
  | cons e es ih =>
    intro off
    simp only [intended, List.length_cons, ih]

theorem run_visits (O : Ops) (P : Params) (fs : FS) (pre : Bytes) (entries : List Bytes)
    (h : NoAccidental pre marker entries) :
    (run O P fs (build pre marker entries)).outcomes =
      (intended marker pre.length entries).map
        (fun ab => processEntry O P fs (build pre marker entries) ab.1 ab.2) := by
  have hm := marker_pos
  have h' : occurrences (build pre marker entries) marker = starts marker pre.length entries := h
  show runLoopEntries O P fs (build pre marker entries) ((build pre marker entries).length + 2) 0 = _
  apply runLoopEntries_built O P fs _ entries pre 0 _ rfl (Nat.zero_le _)
  · have := build_length_ge pre marker hm entries
    omega
  · intro i _ hocc
    rw [← h', mem_occurrences hm]
    exact hocc
  · intro i hi
    rw [← h', mem_occurrences hm] at hi
    exact hi

/-! ## where entry `j` sits in a generated stream -/

theorem intended_decomp (mk : Bytes) (hm : 0 < mk.length) :
    ∀ (es : List Bytes) (pre : Bytes) (j : Nat) (hj : j < es.length),
      ∃ X Z : Bytes, build pre mk es = X ++ es[j] ++ Z ∧
        (intended mk pre.length es)[j]? = some (X.length, X.length + es[j].length) ∧
        (Z = [] ↔ j + 1 = es.length) := by
  intro es
  induction es with
  | nil => intro pre j hj; simp only [List.length_nil, Nat.not_lt_zero] at hj
  | cons e es ih =>
    intro pre j hj
    cases j with
    | zero =>
      refine ⟨pre ++ mk, (es.map (fun e => mk ++ e)).flatten, ?_, ?_, ?_⟩
      · simp only [build, List.map_cons, List.flatten_cons, List.getElem_cons_zero, List.append_assoc]
      · simp only [intended, List.getElem?_cons_zero, List.length_append, List.getElem_cons_zero]
      · cases es with
        | nil => simp only [List.map_nil, List.flatten_nil, List.length_cons, List.length_nil]
        | cons e' es' =>
          simp only [List.map_cons, List.flatten_cons, List.length_cons]
          constructor
          · intro h0
            have := congrArg List.length h0
            simp only [List.length_append, List.length_nil] at this
            omega
          · intro h0; omega
    | succ j =>
      have hj' : j < es.length := by simp only [List.length_cons] at hj; omega
      obtain ⟨X, Z, h1, h2, h3⟩ := ih (pre ++ mk ++ e) j hj'
      refine ⟨X, Z, ?_, ?_, ?_⟩
      · rw [← build_cons, h1]
        simp only [List.getElem_cons_succ]
      · simp only [List.length_append] at h2
        simp only [intended, List.getElem?_cons_succ, List.getElem_cons_succ]
        exact h2
      · rw [h3]
        simp only [List.length_cons]
        omega

/-! ## independence -/

theorem run_getElem? (O : Ops) (P : Params) (fs : FS) (pre : Bytes) (entries : List Bytes)
    (h : NoAccidental pre marker entries) (j : Nat) :
    (run O P fs (build pre marker entries)).outcomes[j]? =
      ((intended marker pre.length entries)[j]?).map
        (fun ab => processEntry O P fs (build pre marker entries) ab.1 ab.2) := by
  rw [run_visits O P fs pre entries h, List.getElem?_map]

theorem run_independent (O : Ops) (P : Params) (fs : FS) (pre : Bytes) (entries : List Bytes)
    (v j : Nat) (V' : Bytes) (_hv : v < entries.length) (hj : j < entries.length) (hjv : j ≠ v)
    (h : NoAccidental pre marker entries) (h' : NoAccidental pre marker (entries.set v V'))
    (hin : ∀ ab, (intended marker pre.length entries)[j]? = some ab →
      readsInside O P fs (build pre marker entries) ab.1 ab.2) :
    ((run O P fs (build pre marker (entries.set v V'))).outcomes[j]?).map view =
      ((run O P fs (build pre marker entries)).outcomes[j]?).map view ∧
    (run O P fs (build pre marker (entries.set v V'))).outcomes.length = entries.length := by
  have hm := marker_pos
  refine ⟨?_, ?_⟩
  · have hj' : j < (entries.set v V').length := by rw [List.length_set]; exact hj
    obtain ⟨X, Z, e1, e2, e3⟩ := intended_decomp marker hm entries pre j hj
    obtain ⟨X', Z', e1', e2', e3'⟩ := intended_decomp marker hm (entries.set v V') pre j hj'
    have hej : (entries.set v V')[j] = entries[j] := List.getElem_set_ne (Ne.symm hjv) _
    rw [hej] at e1' e2'
    rw [List.length_set] at e3'
    rw [run_getElem? O P fs pre _ h', run_getElem? O P fs pre _ h, e2, e2']
    simp only [Option.map_some, Option.some.injEq]
    have hrd := hin _ e2
    simp only at hrd
    generalize entries[j] = ej at *
    generalize build pre marker entries = S at *
    generalize build pre marker (entries.set v V') = S' at *
    subst e1 e1'
    -- reads inside: what follows the entry can be replaced
    have htake : (X ++ ej ++ Z).take (X.length + ej.length) = X ++ ej :=
      List.take_left' (by rw [List.length_append])
    have hb : X.length + ej.length ≤ (X ++ ej ++ Z).length := by
      simp only [List.length_append]; omega
    have hY : X.length + ej.length < (X ++ ej ++ Z).length ∨ Z' = [] := by
      by_cases hlast : j + 1 = entries.length
      · exact Or.inr (e3'.2 hlast)
      · left
        have : Z ≠ [] := fun hz => hlast (e3.1 hz)
        have := List.length_pos_iff.2 this
        simp only [List.length_append]
        omega
    have h5 := reads_inside O P fs (X ++ ej ++ Z) Z' X.length (X.length + ej.length)
      (Nat.le_add_right _ _) hb hY hrd
    rw [htake] at h5
    rw [← h5]
    -- locality
    refine (run_local O P fs _ _ _ _ _ _ (Nat.le_add_right _ _) (Nat.le_add_right _ _) (by omega) ?_).1
    rw [List.append_assoc, List.append_assoc, List.drop_left, List.drop_left]
    congr 1
    omega
  · rw [run_visits O P fs pre _ h', List.length_map, intended_length, List.length_set]

/-! ## regression witness: the side condition of `C08_run_reads_inside` is needed -/

namespace Witness
def O : Ops := ⟨fun _ => [], fun _ _ => [], fun _ _ ecc => ecc != [7, 9], fun _ _ _ => none⟩
def P : Params := ⟨.whole, false, 10, 0, 3, 10, 1, fun _ _ => 1, 1, false⟩
def fs : FS := [([65], [5])]
/-- one entry (path `A`, size `1`, two intra-ecc fields) whose track is one byte short -/
def S : Bytes := [65] ++ delim ++ [49] ++ delim ++ [1, 1] ++ delim ++ [1, 1] ++ delim ++ [7]
end Witness

open Witness in
/-- Why `C08_run_reads_inside` needs `b < S.length ∨ Y = []`: for the last entry of the file
(`b = S.length`) `readsInside` holds vacuously (reads are clipped at the end of the file), yet a
track that is one byte short picks up the byte appended after it. -/
theorem reads_inside_needs_hY :
    ¬ ∀ (O : Ops) (P : Params) (fs : FS) (S Y : Bytes) (a b : Nat), a ≤ b → b ≤ S.length →
        readsInside O P fs S a b →
        view (processEntry O P fs (S.take b ++ Y) a b) = view (processEntry O P fs S a b) := by
  intro h
  have hri : readsInside O P fs S 0 27 := by
    unfold readsInside
    split
    · trivial
    · trivial
    · rename_i size content _ ht
      have ht0 : (locate O P fs S 0 27).target = some (1, [5]) := by decide
      rw [ht0] at ht
      simp only [Option.some.injEq, Prod.mk.injEq] at ht
      obtain ⟨rfl, rfl⟩ := ht
      decide
  have := h O P fs S [9] 0 27 (by decide) (by decide) hri
  revert this
  decide

end Pff.Run
