import Pff.Proofs.Path2
/-!
`abspath` always returns a normalised absolute path; `basename` / `dirname`; the walks
(`recwalk` / `relwalk`), plainness and distinctness of the walked component lists.
-/
namespace Pff.Path

/-! ## `abspath` is always good -/

theorem plain_dotdot_false : ¬ Plain [dot, dot] := fun h => h.2.2.2 rfl

theorem normComps_allPlain (ini : Nat) (hini : ini ≠ 0) (comps : List Bytes) :
    ∀ acc, (∀ c ∈ comps, sep ∉ c) → AllPlain acc → AllPlain (normComps ini comps acc) := by
  induction comps with
  | nil => intro acc _ ha; simpa [normComps] using ha
  | cons c rest ih =>
    intro acc hc ha
    have hrest : ∀ x ∈ rest, sep ∉ x := fun x hx => hc x (List.mem_cons_of_mem _ hx)
    rw [normComps]
    split
    · exact ih acc hrest ha
    · rename_i h1
      rw [not_or] at h1
      split
      · rename_i h2
        apply ih _ hrest
        apply ha.append
        apply AllPlain.single
        refine ⟨h1.1, hc c (by simp), h1.2, ?_⟩
        rcases h2 with h2 | h2 | h2
        · exact h2
        · exact absurd h2.1 hini
        · exact absurd (ha _ (List.mem_of_getLast? h2)) plain_dotdot_false
      · apply ih _ hrest
        intro x hx
        exact ha x (List.dropLast_subset _ hx)

theorem initialSlashes_abs (r : Bytes) :
    initialSlashes (sep :: r) = 1 ∨ initialSlashes (sep :: r) = 2 := by
  unfold initialSlashes sep
  split
  · exact Or.inl rfl
  · exact Or.inr rfl
  · exact Or.inl rfl
  · rename_i h
    exact absurd rfl (h _)

theorem normpath_abs (r : Bytes) : GoodRoot (normpath (sep :: r)) := by
  have hi := initialSlashes_abs r
  have hp : AllPlain (normComps (initialSlashes (sep :: r)) (splitSlash (sep :: r)) []) :=
    normComps_allPlain _ (by omega) _ _ (splitSlash_mem_nosep _) (by intro c hc; simp at hc)
  unfold normpath
  simp only [List.isEmpty_cons, Bool.false_eq_true, if_false]
  generalize normComps (initialSlashes (sep :: r)) (splitSlash (sep :: r)) [] = comps at *
  rcases hi with hi | hi <;> rw [hi]
  · refine ⟨[sep], comps, Or.inl rfl, hp, ?_⟩
    simp [List.replicate]
  · refine ⟨[sep, sep], comps, Or.inr rfl, hp, ?_⟩
    simp [List.replicate]

theorem abspath_good (cwd p : Bytes) (hc : GoodRoot cwd) : GoodRoot (abspath cwd p) := by
  obtain ⟨pre, comps, hpre, _, rfl⟩ := hc
  unfold abspath
  split
  · rename_i h
    cases p with
    | nil => simp at h
    | cons x r =>
      simp only [List.head?_cons, Option.some.injEq] at h
      subst h
      exact normpath_abs r
  · rename_i h
    obtain ⟨r0, hr0⟩ : ∃ r0, pre ++ joinSlash comps = sep :: r0 := by
      rcases hpre with rfl | rfl
      · exact ⟨_, rfl⟩
      · exact ⟨_, rfl⟩
    rw [hr0]
    unfold join2
    rw [if_neg h]
    split
    · exact normpath_abs _
    · exact normpath_abs _

/-! ## `basename`, `dirname` -/

theorem afterLastSlash_snoc (Z f : Bytes) (hf : sep ∉ f) :
    afterLastSlash (Z ++ sep :: f) = Z.length + 1 := by
  unfold afterLastSlash
  have h1 : (Z ++ sep :: f).reverse = f.reverse ++ (sep :: Z.reverse) := by simp
  have h2 : ∀ a ∈ f.reverse, (fun x => decide (x ≠ sep)) a = true := by
    intro a ha
    rw [List.mem_reverse] at ha
    simp only [ne_eq, decide_not, Bool.not_eq_eq_eq_not, Bool.not_true, decide_eq_false_iff_not]
    rintro rfl
    exact hf ha
  rw [h1, List.takeWhile_append_of_pos h2]
  simp
  omega

theorem basename_snoc (Z f : Bytes) (hf : sep ∉ f) : basename (Z ++ sep :: f) = f := by
  unfold basename
  rw [afterLastSlash_snoc Z f hf, show Z ++ sep :: f = (Z ++ [sep]) ++ f by simp]
  exact List.drop_left' (by simp)

theorem dirname_snoc (Z f : Bytes) (hf : sep ∉ f) :
    dirname (Z ++ sep :: f) =
      if (Z ++ [sep]).any (· ≠ sep) then ((Z ++ [sep]).reverse.dropWhile (· = sep)).reverse
      else Z ++ [sep] := by
  unfold dirname
  rw [afterLastSlash_snoc Z f hf, show Z ++ sep :: f = (Z ++ [sep]) ++ f by simp]
  rw [List.take_left' (by simp)]
  simp

theorem strip_sep (R : Bytes) (hne : R ≠ []) (hl : R.getLast? ≠ some sep) :
    (R ++ [sep]).any (· ≠ sep) = true ∧
      ((R ++ [sep]).reverse.dropWhile (· = sep)).reverse = R := by
  rcases List.eq_nil_or_concat R with rfl | ⟨R', x, rfl⟩
  · exact absurd rfl hne
  · rw [List.concat_eq_append] at *
    have hx : x ≠ sep := by
      intro e
      apply hl
      simp [e]
    constructor
    · simp [hx]
    · simp [hx]

theorem single_file_parts (pre : Bytes) (comps : List Bytes) (f : Bytes) (hpre : PreOK pre)
    (hc : AllPlain comps) (hf : Plain f) :
    basename (pre ++ joinSlash (comps ++ [f])) = f ∧
      dirname (pre ++ joinSlash (comps ++ [f])) = pre ++ joinSlash comps := by
  by_cases e : comps = []
  · subst e
    rcases hpre with rfl | rfl
    · have hp : [sep] ++ joinSlash ([] ++ [f]) = [] ++ sep :: f := rfl
      rw [hp]
      refine ⟨basename_snoc _ _ hf.nosep, ?_⟩
      rw [dirname_snoc _ _ hf.nosep]
      simp [joinSlash]
    · have hp : [sep, sep] ++ joinSlash ([] ++ [f]) = [sep] ++ sep :: f := rfl
      rw [hp]
      refine ⟨basename_snoc _ _ hf.nosep, ?_⟩
      rw [dirname_snoc _ _ hf.nosep]
      simp [joinSlash]
  · have hp : pre ++ joinSlash (comps ++ [f]) = (pre ++ joinSlash comps) ++ sep :: f := by
      rw [joinSlash_snoc comps f e]; simp
    rw [hp]
    refine ⟨basename_snoc _ _ hf.nosep, ?_⟩
    rw [dirname_snoc _ _ hf.nosep]
    have h1 := joinSlash_ne_nil comps e hc
    have h2 : (pre ++ joinSlash comps).getLast? ≠ some sep := by
      rw [getLast?_append_ne_nil _ _ h1]
      exact joinSlash_getLast comps e hc
    obtain ⟨s1, s2⟩ := strip_sep (pre ++ joinSlash comps) (by simp [h1]) h2
    rw [if_pos s1, s2]

/-! ## entries of the walks -/

theorem gen_entry (cwd pre : Bytes) (comps ds : List Bytes) (f : Bytes) (hpre : PreOK pre)
    (hc : AllPlain comps) (hds : AllPlain ds) (hf : Plain f) :
    (relpath cwd (join2 (ds.foldl join2 (pre ++ joinSlash comps)) f) (pre ++ joinSlash comps)).bind
      path2unix = some (joinSlash (ds ++ [f])) := by
  have hL : AllPlain (ds ++ [f]) := hds.append (AllPlain.single hf)
  rw [foldl_join2_good pre hpre ds comps hc hds, join2_good_one pre _ f hpre (hc.append hds) hf,
    List.append_assoc, relpath_good cwd pre comps (ds ++ [f]) hpre hc hL, if_neg (by simp)]
  exact path2unix_joinSlash _ (by simp) hL

theorem mount_entry (pre : Bytes) (comps ds : List Bytes) (f : Bytes) (hpre : PreOK pre)
    (hc : AllPlain comps) (hds : AllPlain ds) (hf : Plain f) :
    join2 (ds.foldl join2 (pre ++ joinSlash comps)) f =
      join2 (pre ++ joinSlash comps) (joinSlash (ds ++ [f])) := by
  have hL : AllPlain (ds ++ [f]) := hds.append (AllPlain.single hf)
  rw [foldl_join2_good pre hpre ds comps hc hds, join2_good_one pre _ f hpre (hc.append hds) hf,
    join2_good_plain pre comps _ hpre hc hL (by simp), List.append_assoc]

theorem relpathPosix_good (cwd pre : Bytes) (comps ds : List Bytes) (f : Bytes) (hpre : PreOK pre)
    (hc : AllPlain comps) (hds : AllPlain ds) (hf : Plain f) :
    relpathPosix cwd (ds.foldl join2 (pre ++ joinSlash comps)) f (pre ++ joinSlash comps) =
      some (ds ++ [f]) := by
  unfold relpathPosix path2unixParts
  rw [foldl_join2_good pre hpre ds comps hc hds, relpath_good cwd pre comps ds hpre hc hds]
  by_cases e : ds = []
  · subst e
    have h1 : join2 [dot] f = [dot] ++ sep :: f := by
      unfold join2
      rw [if_neg hf.head]
      simp [dot, sep]
    have h2 : ([dot] ++ sep :: f).head? ≠ some sep := by simp [dot, sep]
    simp only [if_true, Option.map_some, h1, List.nil_append, Option.some.injEq]
    rw [pureParts_rel _ h2, splitSlash_append _ _ (by simp [dot, sep]), splitSlash_nosep f hf.nosep]
    have := hf.ne_nil
    have := hf.2.2.1
    simp [*]
  · rw [if_neg e]
    have hL : AllPlain (ds ++ [f]) := hds.append (AllPlain.single hf)
    have hj : join2 (joinSlash ds) f = joinSlash (ds ++ [f]) := by
      have := foldl_join2_plain [f] ds e hds (AllPlain.single hf)
      simpa using this
    simp only [Option.map_some, hj, Option.some.injEq]
    exact pureParts_joinSlash _ (by simp) hL

/-! ## `recwalk` in terms of `relwalk` -/

mutual
theorem recwalk_relwalk (root : Bytes) : (t : PTree) → (ds : List Bytes) →
    recwalk (ds.foldl join2 root) t =
      (relwalk ds t).map (fun e => (e.1.foldl join2 root, e.2.1, e.2.2))
  | .node files dirs, ds => by
    rw [recwalk, relwalk, List.map_append, List.map_map, recwalk_walkDirs root dirs ds]
    rfl
theorem recwalk_walkDirs (root : Bytes) : (dirs : List (Bytes × PTree)) → (ds : List Bytes) →
    recwalk.walkDirs (ds.foldl join2 root) dirs =
      (relwalk.walkDirs ds dirs).map (fun e => (e.1.foldl join2 root, e.2.1, e.2.2))
  | [], ds => by simp [recwalk.walkDirs, relwalk.walkDirs]
  | (d, t) :: rest, ds => by
    rw [recwalk.walkDirs, relwalk.walkDirs, List.map_append, ← recwalk_walkDirs root rest ds,
      ← recwalk_relwalk root t (ds ++ [d])]
    simp [List.foldl_append]
end

mutual
theorem relwalk_plain : (t : PTree) → (ds : List Bytes) → PlainTree t → AllPlain ds →
    ∀ e ∈ relwalk ds t, AllPlain e.1 ∧ Plain e.2.1
  | .node files dirs, ds, ht, hds => by
    rw [PlainTree] at ht
    intro e he
    rw [relwalk, List.mem_append] at he
    rcases he with he | he
    · rw [List.mem_map] at he
      obtain ⟨fc, hfc, rfl⟩ := he
      exact ⟨hds, ht.1 fc hfc⟩
    · exact relwalkDirs_plain dirs ds ht.2 hds e he
theorem relwalkDirs_plain : (dirs : List (Bytes × PTree)) → (ds : List Bytes) →
    PlainTree.PlainDirs dirs → AllPlain ds →
    ∀ e ∈ relwalk.walkDirs ds dirs, AllPlain e.1 ∧ Plain e.2.1
  | [], ds, _, _ => by simp [relwalk.walkDirs]
  | (d, t) :: rest, ds, hd, hds => by
    rw [PlainTree.PlainDirs] at hd
    intro e he
    rw [relwalk.walkDirs, List.mem_append] at he
    rcases he with he | he
    · exact relwalk_plain t (ds ++ [d]) hd.2.1 (hds.append (AllPlain.single hd.1)) e he
    · exact relwalkDirs_plain rest ds hd.2.2 hds e he
end

/-! ## distinct component lists -/

/-- component list of a walked entry -/
def key (e : List Bytes × Bytes × Bytes) : List Bytes := e.1 ++ [e.2.1]

mutual
theorem relwalk_nodup : (t : PTree) → (ds : List Bytes) → DistinctTree t →
    ((relwalk ds t).map key).Nodup ∧ ∀ e ∈ relwalk ds t, ∃ q, e.1 = ds ++ q
  | .node files dirs, ds, hd => by
    rw [DistinctTree] at hd
    obtain ⟨hf, hdn, hdd⟩ := hd
    obtain ⟨ih1, ih2⟩ := relwalkDirs_nodup dirs ds hdn hdd
    rw [relwalk]
    constructor
    · rw [List.map_append, List.nodup_append]
      refine ⟨?_, ih1, ?_⟩
      · rw [List.map_map]
        rw [List.Nodup, List.pairwise_map] at hf ⊢
        refine hf.imp ?_
        intro a b hab e
        apply hab
        simp only [key, Function.comp] at e
        have := List.append_cancel_left e
        simpa using this
      · intro a ha b hb e
        simp only [List.map_map, List.mem_map, Function.comp] at ha hb
        obtain ⟨fc, _, rfl⟩ := ha
        obtain ⟨x, hx, rfl⟩ := hb
        obtain ⟨d, q, _, hq⟩ := ih2 x hx
        simp only [key] at e
        rw [hq, List.append_assoc] at e
        have := List.append_cancel_left e
        simp at this
    · intro e he
      rw [List.mem_append] at he
      rcases he with he | he
      · rw [List.mem_map] at he
        obtain ⟨fc, _, rfl⟩ := he
        exact ⟨[], by simp⟩
      · obtain ⟨d, q, _, hq⟩ := ih2 e he
        exact ⟨d :: q, hq⟩
theorem relwalkDirs_nodup : (dirs : List (Bytes × PTree)) → (ds : List Bytes) →
    (dirs.map (·.1)).Nodup → DistinctTree.DistinctDirs dirs →
    ((relwalk.walkDirs ds dirs).map key).Nodup ∧
      ∀ e ∈ relwalk.walkDirs ds dirs, ∃ d q, d ∈ dirs.map (·.1) ∧ e.1 = ds ++ d :: q
  | [], ds, _, _ => by simp [relwalk.walkDirs]
  | (d, t) :: rest, ds, hn, hd => by
    rw [DistinctTree.DistinctDirs] at hd
    rw [List.map_cons, List.nodup_cons] at hn
    obtain ⟨ht1, ht2⟩ := relwalk_nodup t (ds ++ [d]) hd.1
    obtain ⟨ih1, ih2⟩ := relwalkDirs_nodup rest ds hn.2 hd.2
    rw [relwalk.walkDirs]
    constructor
    · rw [List.map_append, List.nodup_append]
      refine ⟨ht1, ih1, ?_⟩
      intro a ha b hb e
      simp only [List.mem_map] at ha hb
      obtain ⟨x, hx, rfl⟩ := ha
      obtain ⟨y, hy, rfl⟩ := hb
      obtain ⟨q, hq⟩ := ht2 x hx
      obtain ⟨d', q', hd', hq'⟩ := ih2 y hy
      simp only [key] at e
      rw [hq, hq', List.append_assoc, List.append_assoc, List.append_assoc] at e
      have := List.append_cancel_left e
      simp only [List.cons_append, List.nil_append, List.cons.injEq] at this
      exact hn.1 (this.1 ▸ hd')
    · intro e he
      rw [List.mem_append] at he
      rcases he with he | he
      · obtain ⟨q, hq⟩ := ht2 e he
        exact ⟨d, q, by simp, by rw [hq]; simp⟩
      · obtain ⟨d', q', hd', hq'⟩ := ih2 e he
        exact ⟨d', q', List.mem_cons_of_mem _ hd', hq'⟩
end

/-! ## `relFS` -/

theorem relFS_mem (t : PTree) (ht : PlainTree t) :
    ∀ e ∈ relFS t, ∃ L, L ≠ [] ∧ AllPlain L ∧ e.1 = joinSlash L := by
  intro e he
  unfold relFS at he
  rw [List.mem_map] at he
  obtain ⟨x, hx, rfl⟩ := he
  obtain ⟨h1, h2⟩ := relwalk_plain t [] ht (by intro c hc; simp at hc) x hx
  exact ⟨x.1 ++ [x.2.1], by simp, h1.append (AllPlain.single h2), rfl⟩

theorem relFS_relative (t : PTree) (ht : PlainTree t) :
    ∀ e ∈ relFS t, e.1 ≠ [] ∧ e.1.head? ≠ some sep := by
  intro e he
  obtain ⟨L, hne, hL, h⟩ := relFS_mem t ht e he
  rw [h]
  exact ⟨joinSlash_ne_nil L hne hL, joinSlash_head L hL⟩

theorem relFS_nodup (t : PTree) (ht : PlainTree t) (hd : DistinctTree t) :
    ((relFS t).map (·.1)).Nodup := by
  obtain ⟨h1, _⟩ := relwalk_nodup t [] hd
  unfold relFS
  rw [List.map_map]
  rw [List.Nodup, List.pairwise_map] at h1 ⊢
  refine h1.imp_of_mem ?_
  intro a b ha hb hab e
  apply hab
  simp only [Function.comp] at e
  obtain ⟨a1, a2⟩ := relwalk_plain t [] ht (by intro c hc; simp at hc) a ha
  obtain ⟨b1, b2⟩ := relwalk_plain t [] ht (by intro c hc; simp at hc) b hb
  exact joinSlash_inj _ _ (a1.append (AllPlain.single a2)) (b1.append (AllPlain.single b2)) e

theorem genFS_eq (cwd root : Bytes) (t : PTree) (hr : GoodRoot root) (ht : PlainTree t) :
    genFS cwd root t = (relFS t).map (fun e => (some e.1, e.2)) := by
  obtain ⟨pre, comps, hpre, hc, rfl⟩ := hr
  have hw := recwalk_relwalk (pre ++ joinSlash comps) t []
  rw [List.foldl_nil] at hw
  unfold genFS relFS
  rw [hw, List.map_map, List.map_map]
  apply List.map_congr_left
  intro e he
  obtain ⟨h1, h2⟩ := relwalk_plain t [] ht (by intro c hc; simp at hc) e he
  simp only [Function.comp]
  rw [gen_entry cwd pre comps e.1 e.2.1 hpre hc h1 h2]

theorem mountAbs_eq (root : Bytes) (t : PTree) (hr : GoodRoot root) (ht : PlainTree t) :
    mountAbs root t = (relFS t).map (fun e => (join2 root e.1, e.2)) := by
  obtain ⟨pre, comps, hpre, hc, rfl⟩ := hr
  have hw := recwalk_relwalk (pre ++ joinSlash comps) t []
  rw [List.foldl_nil] at hw
  unfold mountAbs relFS
  rw [hw, List.map_map, List.map_map]
  apply List.map_congr_left
  intro e he
  obtain ⟨h1, h2⟩ := relwalk_plain t [] ht (by intro c hc; simp at hc) e he
  simp only [Function.comp]
  rw [mount_entry pre comps e.1 e.2.1 hpre hc h1 h2]

theorem join2_injective (root a b : Bytes) (_hr : GoodRoot root)
    (ha : a.head? ≠ some sep) (hb : b.head? ≠ some sep) (h : join2 root a = join2 root b) :
    a = b := by
  unfold join2 at h
  rw [if_neg ha, if_neg hb] at h
  split at h
  · exact List.append_cancel_left h
  · have := List.append_cancel_left h
    simpa using this

theorem find?_congr_mem {α : Type} {l : List α} {p q : α → Bool} (h : ∀ a ∈ l, p a = q a) :
    l.find? p = l.find? q := by
  induction l with
  | nil => rfl
  | cons x xs ih =>
    rw [List.find?_cons, List.find?_cons, h x (by simp),
      ih (fun a ha => h a (List.mem_cons_of_mem _ ha))]

theorem lookup_relocated (root : Bytes) (t : PTree) (hr : GoodRoot root) (ht : PlainTree t)
    (rel : Bytes) (hrel : rel.head? ≠ some sep) :
    ((mountAbs root t).find? (fun e => e.1 == join2 root rel)).map (·.2) =
      ((relFS t).find? (fun e => e.1 == rel)).map (·.2) := by
  rw [mountAbs_eq root t hr ht, List.find?_map, Option.map_map]
  have : List.find? ((fun e => e.1 == join2 root rel) ∘ fun (e : Bytes × Bytes) => (join2 root e.1, e.2))
      (relFS t) = List.find? (fun e => e.1 == rel) (relFS t) := by
    apply find?_congr_mem
    intro e he
    have hh := (relFS_relative t ht e he).2
    show (join2 root e.1 == join2 root rel) = (e.1 == rel)
    by_cases q : e.1 = rel
    · simp [q]
    · have : join2 root e.1 ≠ join2 root rel := fun h => q (join2_injective root _ _ hr hh hrel h)
      rw [beq_eq_false_iff_ne.2 this, beq_eq_false_iff_ne.2 q]
  rw [this]
  rfl

end Pff.Path
