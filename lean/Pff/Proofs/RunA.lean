import Pff.Model.Run
import Pff.Proofs.Scan
import Pff.Proofs.Layout
import Pff.Proofs.Ecc
/-! Helper lemmas for the whole-run theorems (`Pff/Props/RunA.lean`), part 1: one entry
(`assembleAt`, `correctWholeAt`, `locate`, `processEntry`). -/
namespace Pff.Run

open Pff.Ecc Pff.Layout Pff.Entry Pff.Scan

/-! ## generic list facts -/

theorem take_take_of_le (l : Bytes) (m n : Nat) (h : min n l.length ≤ m) :
    (l.take m).take n = l.take n := by
  rw [List.take_take, List.take_eq_take_iff]
  omega

theorem window_read (s : Bytes) (a m r n : Nat) (h : r + n ≤ m) :
    (((s.drop a).take m).drop r).take n = (s.drop (a + r)).take n := by
  rw [List.drop_take, List.drop_drop, List.take_take]
  congr 1
  omega

/-! ## `assembleAt` -/

theorem assembleAt_zero (kOf : Nat → Nat) (hashLen mbs : Nat) (content stream : Bytes) (endpos cur e : Nat) :
    assembleAt kOf hashLen mbs content stream endpos 0 cur e = [] := rfl

theorem assembleAt_nil_of_ge (kOf : Nat → Nat) (hashLen mbs : Nat) (content stream : Bytes)
    (endpos fuel cur e : Nat) (h : endpos ≤ e) :
    assembleAt kOf hashLen mbs content stream endpos fuel cur e = [] := by
  cases fuel with
  | zero => rfl
  | succ fuel =>
    simp only [assembleAt]
    rw [if_neg (by omega)]

theorem assembleAt_nil_of_empty (kOf : Nat → Nat) (hashLen mbs : Nat) (content stream : Bytes)
    (endpos fuel cur e : Nat) (h : ((content.drop cur).take (kOf cur)).isEmpty = true) :
    assembleAt kOf hashLen mbs content stream endpos (fuel + 1) cur e = [] := by
  simp only [assembleAt]
  rw [if_pos h, ite_self]

theorem assembleAt_cons (kOf : Nat → Nat) (hashLen mbs : Nat) (content stream : Bytes)
    (endpos fuel cur e : Nat) (h1 : e < endpos)
    (h2 : ¬ ((content.drop cur).take (kOf cur)).isEmpty = true) :
    assembleAt kOf hashLen mbs content stream endpos (fuel + 1) cur e =
      ({ off := cur, msg := (content.drop cur).take (kOf cur), k := kOf cur,
         hash := ((stream.drop e).take (hashLen + (mbs - kOf cur))).take hashLen,
         ecc := ((stream.drop e).take (hashLen + (mbs - kOf cur))).drop hashLen },
        e + ((stream.drop e).take (hashLen + (mbs - kOf cur))).length) ::
        assembleAt kOf hashLen mbs content stream endpos fuel
          (cur + ((content.drop cur).take (kOf cur)).length)
          (e + ((stream.drop e).take (hashLen + (mbs - kOf cur))).length) := by
  simp only [assembleAt]
  rw [if_pos h1, if_neg h2]

/-- three-way case split used by every induction over `assembleAt` -/
theorem assembleAt_cases (kOf : Nat → Nat) (hashLen mbs : Nat) (content stream : Bytes)
    (endpos fuel cur e : Nat) :
    (assembleAt kOf hashLen mbs content stream endpos (fuel + 1) cur e = [] ∧
      (endpos ≤ e ∨ ((content.drop cur).take (kOf cur)).isEmpty = true)) ∨
    (e < endpos ∧ ¬ ((content.drop cur).take (kOf cur)).isEmpty = true) := by
  by_cases h1 : e < endpos
  · by_cases h2 : ((content.drop cur).take (kOf cur)).isEmpty = true
    · exact Or.inl ⟨assembleAt_nil_of_empty _ _ _ _ _ _ _ _ _ h2, Or.inr h2⟩
    · exact Or.inr ⟨h1, h2⟩
  · exact Or.inl ⟨assembleAt_nil_of_ge _ _ _ _ _ _ _ _ _ (by omega), Or.inl (by omega)⟩

/-- every cursor position recorded is at or after the position the reading started from -/
theorem assembleAt_pos_ge (kOf : Nat → Nat) (hashLen mbs : Nat) (content stream : Bytes) (endpos : Nat) :
    ∀ fuel cur e, ∀ bp ∈ assembleAt kOf hashLen mbs content stream endpos fuel cur e, e ≤ bp.2 := by
  intro fuel
  induction fuel with
  | zero => intro cur e bp h; simp only [assembleAt_zero, List.not_mem_nil] at h
  | succ fuel ih =>
    intro cur e bp h
    rcases assembleAt_cases kOf hashLen mbs content stream endpos fuel cur e with ⟨h0, _⟩ | ⟨h1, h2⟩
    · rw [h0] at h; simp only [List.not_mem_nil] at h
    · rw [assembleAt_cons _ _ _ _ _ _ _ _ _ h1 h2, List.mem_cons] at h
      rcases h with h | h
      · rw [h]; exact Nat.le_add_right _ _
      · have := ih _ _ bp h
        omega

/-- the reading relative to a window of the stream that starts at `a` and extends
`hashLen + mbs` bytes past the end `b` of the entry -/
theorem assembleAt_window (kOf : Nat → Nat) (hashLen mbs : Nat) (content stream : Bytes) (a b : Nat)
    (hab : a ≤ b) :
    ∀ fuel cur r,
      assembleAt kOf hashLen mbs content stream b fuel cur (a + r) =
        (assembleAt kOf hashLen mbs content ((stream.drop a).take (b - a + (hashLen + mbs))) (b - a)
          fuel cur r).map (fun bp => (bp.1, a + bp.2)) := by
  intro fuel
  induction fuel with
  | zero => intro cur r; rfl
  | succ fuel ih =>
    intro cur r
    by_cases h1 : a + r < b
    · by_cases h2 : ((content.drop cur).take (kOf cur)).isEmpty = true
      · rw [assembleAt_nil_of_empty _ _ _ _ _ _ _ _ _ h2, assembleAt_nil_of_empty _ _ _ _ _ _ _ _ _ h2]
        rfl
      · have hbuf : ((((stream.drop a).take (b - a + (hashLen + mbs))).drop r).take (hashLen + (mbs - kOf cur))) =
            (stream.drop (a + r)).take (hashLen + (mbs - kOf cur)) :=
          window_read _ _ _ _ _ (by omega)
        rw [assembleAt_cons _ _ _ _ _ _ _ _ _ h1 h2,
          assembleAt_cons _ _ _ _ _ _ _ _ _ (show r < b - a by omega) h2, hbuf]
        simp only [List.map_cons, Nat.add_assoc]
        rw [ih]
    · rw [assembleAt_nil_of_ge _ _ _ _ _ _ _ _ _ (by omega),
        assembleAt_nil_of_ge _ _ _ _ _ _ _ _ _ (show b - a ≤ r by omega)]
      rfl

/-- when no read passes `b`, the blocks do not depend on what follows `b` -/
theorem assembleAt_inside (kOf : Nat → Nat) (hashLen mbs : Nat) (content S Y : Bytes) (b : Nat)
    (hb : b ≤ S.length) (hY : b < S.length ∨ Y = []) :
    ∀ fuel cur e,
      (∀ bp ∈ assembleAt kOf hashLen mbs content S b fuel cur e, bp.2 ≤ b) →
      assembleAt kOf hashLen mbs content (S.take b ++ Y) b fuel cur e =
        assembleAt kOf hashLen mbs content S b fuel cur e := by
  by_cases hlt : b < S.length
  · intro fuel
    induction fuel with
    | zero => intro cur e _; rfl
    | succ fuel ih =>
      intro cur e hin
      rcases assembleAt_cases kOf hashLen mbs content S b fuel cur e with ⟨h0, h0'⟩ | ⟨h1, h2⟩
      · rw [h0]
        rcases h0' with h | h
        · exact assembleAt_nil_of_ge _ _ _ _ _ _ _ _ _ h
        · exact assembleAt_nil_of_empty _ _ _ _ _ _ _ _ _ h
      · rw [assembleAt_cons _ _ _ _ _ _ _ _ _ h1 h2] at hin ⊢
        have hfirst := hin _ (List.mem_cons_self ..)
        simp only [List.length_take, List.length_drop] at hfirst
        have hbuf : ((S.take b ++ Y).drop e).take (hashLen + (mbs - kOf cur)) =
            (S.drop e).take (hashLen + (mbs - kOf cur)) := by
          have hY := hlt
          rw [List.drop_append_of_le_length (by rw [List.length_take]; omega),
            List.take_append_of_le_length (by rw [List.length_drop, List.length_take]; omega),
            List.drop_take, List.take_take]
          congr 1
          omega
        rw [assembleAt_cons _ _ _ _ _ _ _ _ _ h1 h2, hbuf]
        rw [ih _ _ (fun bp hbp => hin bp (List.mem_cons_of_mem _ hbp))]
  · intro fuel cur e _
    rw [hY.resolve_left hlt, List.append_nil, List.take_of_length_le (by omega)]

/-- the blocks of `assembleAt` follow the generation layout; each read is at most one full
`hash ++ ecc` long -/
theorem assembleAt_pos_le_layout (kOf : Nat → Nat) (hashLen mbs : Nat) (content stream : Bytes) (endpos : Nat) :
    ∀ fuel cur e, ∀ bp ∈ assembleAt kOf hashLen mbs content stream endpos fuel cur e,
      bp.2 ≤ e + ((layoutGen kOf content.length fuel cur).map (fun blk => hashLen + (mbs - blk.k))).sum := by
  intro fuel
  induction fuel with
  | zero => intro cur e bp h; simp only [assembleAt_zero, List.not_mem_nil] at h
  | succ fuel ih =>
    intro cur e bp h
    rcases assembleAt_cases kOf hashLen mbs content stream endpos fuel cur e with ⟨h0, _⟩ | ⟨h1, h2⟩
    · rw [h0] at h; simp only [List.not_mem_nil] at h
    · have hcur : cur < content.length := by
        apply Nat.lt_of_not_le
        intro hle
        apply h2
        rw [List.drop_eq_nil_of_le hle]
        simp only [List.take_nil, List.isEmpty_nil]
      have hk : 0 < kOf cur := by
        apply Nat.pos_of_ne_zero
        intro hz
        apply h2
        rw [hz]
        simp only [List.take_zero, List.isEmpty_nil]
      rw [layoutGen_cons kOf content.length fuel cur hcur]
      simp only [List.map_cons, List.sum_cons]
      rw [assembleAt_cons _ _ _ _ _ _ _ _ _ h1 h2, List.mem_cons] at h
      have hlen : ((stream.drop e).take (hashLen + (mbs - kOf cur))).length ≤ hashLen + (mbs - kOf cur) := by
        rw [List.length_take]; exact Nat.min_le_left _ _
      rcases h with h | h
      · rw [h]; simp only; omega
      · have hmes : ((content.drop cur).take (kOf cur)).length = min (kOf cur) (content.length - cur) := by
          rw [List.length_take, List.length_drop]
        have := ih _ _ bp h
        rw [hmes] at this
        omega

/-- position-based reading = reading the track bytes of the entry, when no read passes `b` -/
theorem assembleAt_eq_assemble (kOf : Nat → Nat) (hashLen mbs : Nat) (content stream : Bytes) (ts b : Nat)
    (hts : ts ≤ b) (hb : b ≤ stream.length) :
    ∀ fuel cur e,
      (∀ bp ∈ assembleAt kOf hashLen mbs content stream b fuel cur (ts + e), bp.2 ≤ b) →
      (assembleAt kOf hashLen mbs content stream b fuel cur (ts + e)).map (·.1) =
        assemble kOf hashLen mbs content ((stream.drop ts).take (b - ts)) fuel cur e := by
  have htl : ((stream.drop ts).take (b - ts)).length = b - ts := by
    rw [List.length_take, List.length_drop]; omega
  intro fuel
  induction fuel with
  | zero => intro cur e _; rfl
  | succ fuel ih =>
    intro cur e hin
    by_cases h1 : ts + e < b
    · by_cases h2 : ((content.drop cur).take (kOf cur)).isEmpty = true
      · rw [assembleAt_nil_of_empty _ _ _ _ _ _ _ _ _ h2, assemble_nil_of_empty _ _ _ _ _ _ _ _ h2]
        rfl
      · rw [assembleAt_cons _ _ _ _ _ _ _ _ _ h1 h2] at hin ⊢
        have hfirst := hin _ (List.mem_cons_self ..)
        simp only [List.length_take, List.length_drop] at hfirst
        have hbuf : (((stream.drop ts).take (b - ts)).drop e).take (hashLen + (mbs - kOf cur)) =
            (stream.drop (ts + e)).take (hashLen + (mbs - kOf cur)) := by
          rw [List.drop_take, List.drop_drop]
          apply take_take_of_le
          rw [List.length_drop]
          omega
        rw [assemble_cons _ _ _ _ _ _ _ _ (by rw [htl]; omega) h2, hbuf]
        simp only [List.map_cons, Nat.add_assoc] at hin ⊢
        rw [ih _ _ (fun bp hbp => hin bp (List.mem_cons_of_mem _ hbp))]
    · rw [assembleAt_nil_of_ge _ _ _ _ _ _ _ _ _ (by omega),
        assemble_nil_of_ge _ _ _ _ _ _ _ _ (by rw [htl]; omega)]
      rfl

/-! ## `correctWholeAt` split into result and cursor -/

/-- the per-file result as a function of the blocks -/
def wholeRes (O : Ops) (fast : Bool) (thr mbs : Nat) (content : Bytes) (blocks : List AsmBlock) : FileResult :=
  match blocks.findIdx? (needsRepair O fast) with
  | none => { output := none, corrupted := false, complete := false, partialRep := false }
  | some _ =>
    if (runLoop O fast mbs thr blocks).repairedOne then
      { output := some ((runLoop O fast mbs thr blocks).written.flatten ++
          content.drop (runLoop O fast mbs thr blocks).written.flatten.length),
        corrupted := true, complete := !(runLoop O fast mbs thr blocks).partialFail,
        partialRep := (runLoop O fast mbs thr blocks).partialFail }
    else { output := none, corrupted := true, complete := false, partialRep := false }

def lastPos (bc : List (AsmBlock × Nat)) (d : Nat) : Nat := (bc.getLast?.map (·.2)).getD d

/-- the cursor (before clamping to the end of the entry) as a function of the blocks read -/
def wholeCur (O : Ops) (fast : Bool) (thr mbs : Nat) (bc : List (AsmBlock × Nat)) (ts endpos : Nat) : Nat :=
  match (bc.map (·.1)).findIdx? (needsRepair O fast) with
  | none => lastPos bc ts
  | some _ =>
    if (runLoop O fast mbs thr (bc.map (·.1))).stopped then endpos
    else lastPos (bc.take (runLoop O fast mbs thr (bc.map (·.1))).written.length) ts

theorem correctWholeAt_eq (O : Ops) (fast : Bool) (thr : Nat) (kOf : Nat → Nat) (hashLen mbs : Nat)
    (content stream : Bytes) (ts endpos : Nat) :
    correctWholeAt O fast thr kOf hashLen mbs content stream ts endpos =
      (wholeRes O fast thr mbs content
          ((assembleAt kOf hashLen mbs content stream endpos (content.length + 1) 0 ts).map (·.1)),
        min (wholeCur O fast thr mbs
          (assembleAt kOf hashLen mbs content stream endpos (content.length + 1) 0 ts) ts endpos) endpos) := by
  unfold correctWholeAt wholeRes wholeCur lastPos
  simp only
  generalize List.findIdx? _ _ = fi
  cases fi <;> rfl

theorem lastPos_ge (bc : List (AsmBlock × Nat)) (d : Nat) (h : ∀ bp ∈ bc, d ≤ bp.2) : d ≤ lastPos bc d := by
  unfold lastPos
  cases hl : bc.getLast? with
  | none => exact Nat.le_refl _
  | some bp => exact h bp (List.mem_of_getLast? hl)

theorem lastPos_shift (bc : List (AsmBlock × Nat)) (a d : Nat) :
    lastPos (bc.map (fun bp => (bp.1, a + bp.2))) (a + d) = a + lastPos bc d := by
  unfold lastPos
  rw [List.getLast?_map]
  cases bc.getLast? with
  | none => rfl
  | some bp => rfl

theorem map_fst_shift (bc : List (AsmBlock × Nat)) (a : Nat) :
    (bc.map (fun bp => (bp.1, a + bp.2))).map (·.1) = bc.map (·.1) := by
  rw [List.map_map]
  rfl

theorem wholeCur_ge (O : Ops) (fast : Bool) (thr mbs : Nat) (bc : List (AsmBlock × Nat)) (ts endpos : Nat)
    (hte : ts ≤ endpos) (h : ∀ bp ∈ bc, ts ≤ bp.2) : ts ≤ wholeCur O fast thr mbs bc ts endpos := by
  unfold wholeCur
  split
  · exact lastPos_ge bc ts h
  · split
    · exact hte
    · exact lastPos_ge _ ts (fun bp hbp => h bp (List.mem_of_mem_take hbp))

theorem wholeCur_shift (O : Ops) (fast : Bool) (thr mbs : Nat) (bc : List (AsmBlock × Nat)) (a b r : Nat)
    (hab : a ≤ b) :
    wholeCur O fast thr mbs (bc.map (fun bp => (bp.1, a + bp.2))) (a + r) b =
      a + wholeCur O fast thr mbs bc r (b - a) := by
  unfold wholeCur
  rw [map_fst_shift]
  split
  · exact lastPos_shift bc a r
  · split
    · omega
    · rw [← List.map_take]
      exact lastPos_shift _ a r

theorem correctWholeAt_window (O : Ops) (fast : Bool) (thr : Nat) (kOf : Nat → Nat) (hashLen mbs : Nat)
    (content stream : Bytes) (a b r : Nat) (hab : a ≤ b) :
    correctWholeAt O fast thr kOf hashLen mbs content stream (a + r) b =
      ((correctWholeAt O fast thr kOf hashLen mbs content
          ((stream.drop a).take (b - a + (hashLen + mbs))) r (b - a)).1,
       a + (correctWholeAt O fast thr kOf hashLen mbs content
          ((stream.drop a).take (b - a + (hashLen + mbs))) r (b - a)).2) := by
  rw [correctWholeAt_eq, correctWholeAt_eq, assembleAt_window _ _ _ _ _ _ _ hab, map_fst_shift,
    wholeCur_shift _ _ _ _ _ _ _ _ hab]
  simp only [Prod.mk.injEq, true_and]
  omega

theorem correctWholeAt_cursor_bounds (O : Ops) (fast : Bool) (thr : Nat) (kOf : Nat → Nat) (hashLen mbs : Nat)
    (content stream : Bytes) (ts b : Nat) (hts : ts ≤ b) :
    ts ≤ (correctWholeAt O fast thr kOf hashLen mbs content stream ts b).2 ∧
      (correctWholeAt O fast thr kOf hashLen mbs content stream ts b).2 ≤ b := by
  rw [correctWholeAt_eq]
  have := wholeCur_ge O fast thr mbs
    (assembleAt kOf hashLen mbs content stream b (content.length + 1) 0 ts) ts b hts
    (assembleAt_pos_ge _ _ _ _ _ _ _ _ _)
  simp only
  omega

theorem correctWholeAt_congr (O : Ops) (fast : Bool) (thr : Nat) (kOf : Nat → Nat) (hashLen mbs : Nat)
    (content s1 s2 : Bytes) (ts b : Nat)
    (h : assembleAt kOf hashLen mbs content s1 b (content.length + 1) 0 ts =
      assembleAt kOf hashLen mbs content s2 b (content.length + 1) 0 ts) :
    correctWholeAt O fast thr kOf hashLen mbs content s1 ts b =
      correctWholeAt O fast thr kOf hashLen mbs content s2 ts b := by
  rw [correctWholeAt_eq, correctWholeAt_eq, h]

theorem wholeRes_eq_file (O : Ops) (fast : Bool) (thr : Nat) (kOf : Nat → Nat) (hashLen mbs : Nat)
    (content track : Bytes) :
    wholeRes O fast thr mbs content (assemble kOf hashLen mbs content track (content.length + 1) 0 0) =
      correctWholeFile O fast thr kOf hashLen mbs content track := by
  unfold wholeRes correctWholeFile
  simp only
  generalize assemble kOf hashLen mbs content track (content.length + 1) 0 0 = blocks
  split
  · rename_i h
    rw [List.findIdx?_eq_none_iff] at h
    have : blocks.any (needsRepair O fast) = false := by
      rw [List.any_eq_false]
      intro x hx
      rw [h x hx]
      exact Bool.false_ne_true
    rw [this]
    rfl
  · rename_i i h
    have : blocks.any (needsRepair O fast) = true := by
      rw [List.any_eq_true]
      have hi := List.findIdx?_eq_some_iff_getElem.1 h
      obtain ⟨hlt, hp, _⟩ := hi
      exact ⟨blocks[i], List.getElem_mem hlt, hp⟩
    rw [this]
    rfl

theorem whole_file_bridge (O : Ops) (fast : Bool) (thr : Nat) (kOf : Nat → Nat) (hashLen mbs : Nat)
    (content stream : Bytes) (ts b : Nat) (hts : ts ≤ b) (hb : b ≤ stream.length)
    (hin : ∀ bp ∈ assembleAt kOf hashLen mbs content stream b (content.length + 1) 0 ts, bp.2 ≤ b) :
    (correctWholeAt O fast thr kOf hashLen mbs content stream ts b).1 =
      correctWholeFile O fast thr kOf hashLen mbs content ((stream.drop ts).take (b - ts)) := by
  rw [correctWholeAt_eq]
  simp only
  have h : (assembleAt kOf hashLen mbs content stream b (content.length + 1) 0 ts).map (·.1) =
      assemble kOf hashLen mbs content ((stream.drop ts).take (b - ts)) (content.length + 1) 0 0 :=
    assembleAt_eq_assemble kOf hashLen mbs content stream ts b hts hb (content.length + 1) 0 0 hin
  rw [h, wholeRes_eq_file]

/-! ## `locate` depends on the bytes of the entry only -/

/-- `locate` as a function of the bytes `ent` of the entry (and of the bounds, for the position of the track) -/
def locateOf (O : Ops) (P : Params) (fs : FS) (ent : Bytes) (a b : Nat) : Located :=
  let e0 := match P.tool with
    | .header => ent
    | .whole => ent.take 65535
  let f := entryFields e0
  let e := e0.drop f.stripped
  let intra := fun (fld ecc : Bytes) => match P.tool with
    | .header => correctIntraHeader O P.kIntra P.mbs fld ecc
    | .whole => correctIntraWhole O P.kIntra P.mbs fld ecc
  let path := (intra f.path f.pathEcc).field
  let sizeTxt := (intra f.sizeRaw f.sizeEcc).field
  let target : Option (Int × Bytes) :=
    match pyInt sizeTxt with
    | none => none
    | some size =>
      if path.contains 0 then none
      else match fsLookup fs path with
        | none => none
        | some content => if size ≠ (content.length : Int) && !P.ignoreSize then none else some (size, content)
  { path := path, fields := f, body := e,
    trackStartAbs := min (a + f.stripped + f.trackOff.toNat) b, target := target }

theorem locate_eq (O : Ops) (P : Params) (fs : FS) (stream : Bytes) (a b : Nat) :
    locate O P fs stream a b = locateOf O P fs ((stream.drop a).take (b - a)) a b := rfl

theorem locateOf_path (O : Ops) (P : Params) (fs : FS) (ent : Bytes) (a b a' b' : Nat) :
    (locateOf O P fs ent a b).path = (locateOf O P fs ent a' b').path := rfl
theorem locateOf_fields (O : Ops) (P : Params) (fs : FS) (ent : Bytes) (a b a' b' : Nat) :
    (locateOf O P fs ent a b).fields = (locateOf O P fs ent a' b').fields := rfl
theorem locateOf_body (O : Ops) (P : Params) (fs : FS) (ent : Bytes) (a b a' b' : Nat) :
    (locateOf O P fs ent a b).body = (locateOf O P fs ent a' b').body := rfl
theorem locateOf_target (O : Ops) (P : Params) (fs : FS) (ent : Bytes) (a b a' b' : Nat) :
    (locateOf O P fs ent a b).target = (locateOf O P fs ent a' b').target := rfl

/-- offset of the track inside the entry (before clamping) -/
def relTrack (O : Ops) (P : Params) (fs : FS) (ent : Bytes) : Nat :=
  (locateOf O P fs ent 0 0).fields.stripped + (locateOf O P fs ent 0 0).fields.trackOff.toNat

theorem locateOf_track (O : Ops) (P : Params) (fs : FS) (ent : Bytes) (a b : Nat) (hab : a ≤ b) :
    (locateOf O P fs ent a b).trackStartAbs = a + min (relTrack O P fs ent) (b - a) := by
  show min (a + (locateOf O P fs ent 0 0).fields.stripped + (locateOf O P fs ent 0 0).fields.trackOff.toNat) b = _
  unfold relTrack
  omega

theorem locateOf_track_bounds (O : Ops) (P : Params) (fs : FS) (ent : Bytes) (a b : Nat) (hab : a ≤ b) :
    a ≤ (locateOf O P fs ent a b).trackStartAbs ∧ (locateOf O P fs ent a b).trackStartAbs ≤ b := by
  rw [locateOf_track O P fs ent a b hab]
  omega

/-! ## `processEntry` case by case -/

/-- `processEntry` with the components of `locate` as arguments -/
def processCore (O : Ops) (P : Params) (stream : Bytes) (b : Nat) (path : Bytes) (fields : Fields)
    (body : Bytes) (ts : Nat) (target : Option (Int × Bytes)) : EntryOutcome :=
  match target with
  | none =>
    { path := path, skipped := true, processed := false,
      result := { output := none, corrupted := false, complete := false, partialRep := false },
      effect := .none, cursor := match P.tool with | .header => b | .whole => ts }
  | some (size, content) =>
    match P.tool with
    | .header =>
      let track := pyFrom body fields.trackOff
      let readLen := if 0 < size ∧ size < (P.headerSize : Int) then size.toNat else P.headerSize
      let r := correctHeaderFile O P.fast P.thr P.kMain P.hashLen P.mbs readLen content track
      { path := path, skipped := false, processed := true, result := r,
        effect := match r.output with | some o => .wrote o | none => .none, cursor := b }
    | .whole =>
      let rc := correctWholeAt O P.fast P.thr (P.kOfFor size.toNat) P.hashLen P.mbs content stream ts b
      { path := path, skipped := false, processed := true, result := rc.1,
        effect := match rc.1.output with
          | some o => .wrote o
          | none => if rc.1.corrupted then .removed else .none,
        cursor := rc.2 }

theorem processEntry_eq (O : Ops) (P : Params) (fs : FS) (stream : Bytes) (a b : Nat) :
    processEntry O P fs stream a b =
      processCore O P stream b
        (locateOf O P fs ((stream.drop a).take (b - a)) a b).path
        (locateOf O P fs ((stream.drop a).take (b - a)) a b).fields
        (locateOf O P fs ((stream.drop a).take (b - a)) a b).body
        (locateOf O P fs ((stream.drop a).take (b - a)) a b).trackStartAbs
        (locateOf O P fs ((stream.drop a).take (b - a)) a b).target := rfl

theorem processCore_cursor_bounds (O : Ops) (P : Params) (stream : Bytes) (a b : Nat) (path : Bytes)
    (fields : Fields) (body : Bytes) (ts : Nat) (target : Option (Int × Bytes))
    (hab : a ≤ b) (h1 : a ≤ ts) (h2 : ts ≤ b) :
    a ≤ (processCore O P stream b path fields body ts target).cursor ∧
      (processCore O P stream b path fields body ts target).cursor ≤ b := by
  unfold processCore
  split
  · split <;> simp only <;> omega
  · split
    · simp only; omega
    · rename_i size content _ _
      have := correctWholeAt_cursor_bounds O P.fast P.thr (P.kOfFor size.toNat) P.hashLen P.mbs content stream ts b h2
      simp only
      omega

/-- an entry is processed as if the window `[a, b + hashLen + mbs)` of the stream were the whole stream -/
theorem processCore_window (O : Ops) (P : Params) (stream : Bytes) (a b : Nat) (path : Bytes)
    (fields : Fields) (body : Bytes) (r : Nat) (target : Option (Int × Bytes)) (hab : a ≤ b) :
    view (processCore O P stream b path fields body (a + r) target) =
      view (processCore O P ((stream.drop a).take (b - a + (P.hashLen + P.mbs))) (b - a) path fields body r target) ∧
    (processCore O P stream b path fields body (a + r) target).cursor =
      a + (processCore O P ((stream.drop a).take (b - a + (P.hashLen + P.mbs))) (b - a) path fields body r target).cursor := by
  unfold processCore view
  split
  · split <;> simp only [true_and] <;> omega
  · split
    · simp only [true_and]; omega
    · rename_i size content _ _
      rw [correctWholeAt_window O P.fast P.thr (P.kOfFor size.toNat) P.hashLen P.mbs content stream a b r hab]
      simp only [and_self]

/-- header tool: the stream and the position of the track are not looked at -/
theorem processCore_header (O : Ops) (P : Params) (s1 s2 : Bytes) (b1 b2 : Nat) (path : Bytes)
    (fields : Fields) (body : Bytes) (t1 t2 : Nat) (target : Option (Int × Bytes)) (hP : P.tool = .header) :
    view (processCore O P s1 b1 path fields body t1 target) =
      view (processCore O P s2 b2 path fields body t2 target) := by
  unfold processCore view
  split
  · rfl
  · simp only [hP]

/-- the stream is looked at through `assembleAt` only -/
theorem processCore_congr (O : Ops) (P : Params) (s1 s2 : Bytes) (b : Nat) (path : Bytes)
    (fields : Fields) (body : Bytes) (ts : Nat) (target : Option (Int × Bytes))
    (h : ∀ size content, P.tool = .whole → target = some (size, content) →
      assembleAt (P.kOfFor size.toNat) P.hashLen P.mbs content s1 b (content.length + 1) 0 ts =
        assembleAt (P.kOfFor size.toNat) P.hashLen P.mbs content s2 b (content.length + 1) 0 ts) :
    processCore O P s1 b path fields body ts target = processCore O P s2 b path fields body ts target := by
  unfold processCore
  split
  · rfl
  · split
    · rfl
    · rename_i size content _ htool
      rw [correctWholeAt_congr O P.fast P.thr (P.kOfFor size.toNat) P.hashLen P.mbs content s1 s2 ts b
        (h size content htool rfl)]

/-! ## the per-entry theorems -/

theorem cursor_bounds (O : Ops) (P : Params) (fs : FS) (stream : Bytes) (a b : Nat) (hab : a ≤ b) :
    a ≤ (processEntry O P fs stream a b).cursor ∧ (processEntry O P fs stream a b).cursor ≤ b := by
  rw [processEntry_eq]
  have := locateOf_track_bounds O P fs ((stream.drop a).take (b - a)) a b hab
  exact processCore_cursor_bounds O P stream a b _ _ _ _ _ hab this.1 this.2

theorem entry_of_window (s : Bytes) (a b w : Nat) :
    ((((s.drop a).take (b - a + w)).drop 0).take (b - a - 0)) = (s.drop a).take (b - a) := by
  rw [List.drop_zero, Nat.sub_zero, List.take_take]
  congr 1
  omega

/-- `processEntry` on the stream = `processEntry` on the window of the entry, shifted -/
theorem processEntry_window (O : Ops) (P : Params) (fs : FS) (stream : Bytes) (a b : Nat) (hab : a ≤ b) :
    view (processEntry O P fs stream a b) =
      view (processEntry O P fs ((stream.drop a).take (b - a + (P.hashLen + P.mbs))) 0 (b - a)) ∧
    (processEntry O P fs stream a b).cursor =
      a + (processEntry O P fs ((stream.drop a).take (b - a + (P.hashLen + P.mbs))) 0 (b - a)).cursor := by
  rw [processEntry_eq, processEntry_eq, entry_of_window]
  generalize (stream.drop a).take (b - a) = ent
  rw [locateOf_track O P fs ent a b hab, locateOf_track O P fs ent 0 (b - a) (Nat.zero_le _),
    Nat.zero_add, Nat.sub_zero,
    locateOf_path O P fs ent a b 0 (b - a), locateOf_fields O P fs ent a b 0 (b - a),
    locateOf_body O P fs ent a b 0 (b - a), locateOf_target O P fs ent a b 0 (b - a)]
  exact processCore_window O P stream a b _ _ _ _ _ hab

theorem run_local (O : Ops) (P : Params) (fs : FS) (s1 s2 : Bytes) (a1 b1 a2 b2 : Nat)
    (h1 : a1 ≤ b1) (h2 : a2 ≤ b2) (hl : b1 - a1 = b2 - a2)
    (hw : (s1.drop a1).take (b1 - a1 + (P.hashLen + P.mbs)) = (s2.drop a2).take (b2 - a2 + (P.hashLen + P.mbs))) :
    view (processEntry O P fs s1 a1 b1) = view (processEntry O P fs s2 a2 b2) ∧
    (processEntry O P fs s1 a1 b1).cursor - a1 = (processEntry O P fs s2 a2 b2).cursor - a2 := by
  have w1 := processEntry_window O P fs s1 a1 b1 h1
  have w2 := processEntry_window O P fs s2 a2 b2 h2
  rw [hw, hl] at w1
  refine ⟨w1.1.trans w2.1.symm, ?_⟩
  rw [w1.2, w2.2]
  omega

theorem header_own_bytes (O : Ops) (P : Params) (fs : FS) (stream : Bytes) (a b : Nat)
    (hP : P.tool = .header) :
    view (processEntry O P fs stream a b) =
      view (processEntry O P fs ((stream.drop a).take (b - a)) 0 ((stream.drop a).take (b - a)).length) := by
  rw [processEntry_eq, processEntry_eq]
  have he : ((((stream.drop a).take (b - a)).drop 0).take (((stream.drop a).take (b - a)).length - 0)) =
      (stream.drop a).take (b - a) := by
    rw [List.drop_zero, Nat.sub_zero, List.take_length]
  rw [he]
  generalize (stream.drop a).take (b - a) = ent
  rw [locateOf_path O P fs ent a b 0 ent.length, locateOf_fields O P fs ent a b 0 ent.length,
    locateOf_body O P fs ent a b 0 ent.length, locateOf_target O P fs ent a b 0 ent.length]
  exact processCore_header O P _ _ _ _ _ _ _ _ _ _ hP

theorem reads_inside (O : Ops) (P : Params) (fs : FS) (S Y : Bytes) (a b : Nat)
    (hab : a ≤ b) (hb : b ≤ S.length) (hY : b < S.length ∨ Y = []) (hin : readsInside O P fs S a b) :
    processEntry O P fs (S.take b ++ Y) a b = processEntry O P fs S a b := by
  rw [processEntry_eq, processEntry_eq]
  have he : ((S.take b ++ Y).drop a).take (b - a) = (S.drop a).take (b - a) := by
    rw [List.drop_append_of_le_length (by rw [List.length_take]; omega),
      List.take_append_of_le_length (by rw [List.length_drop, List.length_take]; omega),
      List.drop_take, List.take_take, Nat.min_self]
  rw [he]
  apply processCore_congr
  intro size content htool ht
  apply assembleAt_inside _ _ _ _ _ _ _ hb hY
  unfold readsInside at hin
  rw [locate_eq, htool, ht] at hin
  exact hin

theorem long_enough_reads_inside (O : Ops) (P : Params) (fs : FS) (S : Bytes) (a b : Nat)
    (size : Int) (content : Bytes)
    (ht : (locate O P fs S a b).target = some (size, content))
    (hlong : (locate O P fs S a b).trackStartAbs +
      ((layoutGen (P.kOfFor size.toNat) content.length (content.length + 1) 0).map
        (fun blk => P.hashLen + (P.mbs - blk.k))).sum ≤ b) :
    readsInside O P fs S a b := by
  unfold readsInside
  split
  · trivial
  · trivial
  · rename_i size' content' htool ht'
    rw [ht] at ht'
    simp only [Option.some.injEq, Prod.mk.injEq] at ht'
    obtain ⟨rfl, rfl⟩ := ht'
    intro bp hbp
    have := assembleAt_pos_le_layout _ _ _ _ _ _ _ _ _ bp hbp
    omega

end Pff.Run
