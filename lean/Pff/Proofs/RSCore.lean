import Pff.Model.RS
import Mathlib.Algebra.Field.Defs
import Mathlib.Algebra.Field.Basic
import Mathlib.Algebra.GroupWithZero.Basic
import Mathlib.Tactic.Ring
import Mathlib.Tactic.LinearCombination
/-!
Field-generic Reed–Solomon theory, part 1: Horner evaluation, the generator polynomial and its
roots, and the three encoders of `Pff/Model/RS.lean` (in-place LFSR, schoolbook long division,
synthetic division of the stripped dividend) all compute a remainder of `msg · x^nsym` modulo the
generator, so that `msg ++ parity` vanishes at every root of the generator.
-/
namespace Pff.RSProofs

open Pff.RS

set_option linter.unusedSectionVars false

variable {F : Type} [Field F] [DecidableEq F]

/-! ### Horner evaluation -/

@[simp] theorem polyEval_nil (x : F) : polyEval ([] : List F) x = 0 := rfl

theorem foldl_horner (w : List F) (x acc : F) :
    w.foldl (fun acc c => acc * x + c) acc = acc * x ^ w.length + polyEval w x := by
  induction w generalizing acc with
  | nil => simp [polyEval]
  | cons c w ih =>
    simp only [List.foldl_cons, List.length_cons, polyEval]
    rw [ih, ih (0 * x + c)]
    ring

theorem polyEval_cons (c : F) (w : List F) (x : F) :
    polyEval (c :: w) x = c * x ^ w.length + polyEval w x := by
  unfold polyEval
  rw [List.foldl_cons, foldl_horner]
  simp [polyEval]

theorem polyEval_append (a b : List F) (x : F) :
    polyEval (a ++ b) x = polyEval a x * x ^ b.length + polyEval b x := by
  unfold polyEval
  rw [List.foldl_append, foldl_horner]
  rfl

theorem polyEval_append_singleton (w : List F) (c x : F) :
    polyEval (w ++ [c]) x = polyEval w x * x + c := by
  rw [polyEval_append, polyEval_cons]; simp

@[simp] theorem polyEval_replicate_zero (n : Nat) (x : F) :
    polyEval (List.replicate n (0 : F)) x = 0 := by
  induction n with
  | zero => rfl
  | succ n ih => rw [List.replicate_succ, polyEval_cons, ih]; simp

theorem polyEval_zeros_append (n : Nat) (w : List F) (x : F) :
    polyEval (List.replicate n (0 : F) ++ w) x = polyEval w x := by
  rw [polyEval_append]; simp

theorem polyEval_append_zeros (w : List F) (n : Nat) (x : F) :
    polyEval (w ++ List.replicate n (0 : F)) x = polyEval w x * x ^ n := by
  rw [polyEval_append]; simp

theorem polyEval_map_mul_left (c : F) (g : List F) (x : F) :
    polyEval (g.map (c * ·)) x = c * polyEval g x := by
  induction g with
  | nil => simp
  | cons a g ih => rw [List.map_cons, polyEval_cons, polyEval_cons, ih, List.length_map]; ring

theorem polyEval_map_mul_right (c : F) (g : List F) (x : F) :
    polyEval (g.map (· * c)) x = polyEval g x * c := by
  induction g with
  | nil => simp
  | cons a g ih => rw [List.map_cons, polyEval_cons, polyEval_cons, ih, List.length_map]; ring

/-! ### `addLists`, `addPrefix` -/

theorem addLists_cons_cons (a b : F) (as bs : List F) :
    addLists (a :: as) (b :: bs) = (a + b) :: addLists as bs := rfl

theorem length_addLists (a b : List F) (h : a.length = b.length) :
    (addLists a b).length = a.length := by
  induction a generalizing b with
  | nil => cases b with
    | nil => rfl
    | cons b bs => simp at h
  | cons a as ih => cases b with
    | nil => simp at h
    | cons b bs =>
      rw [addLists_cons_cons, List.length_cons, List.length_cons, ih bs (by simpa using h)]

theorem polyEval_addLists (a b : List F) (h : a.length = b.length) (x : F) :
    polyEval (addLists a b) x = polyEval a x + polyEval b x := by
  induction a generalizing b with
  | nil => cases b with
    | nil => simp [addLists]
    | cons b bs => simp at h
  | cons a as ih => cases b with
    | nil => simp at h
    | cons b bs =>
      have h' : as.length = bs.length := by simpa using h
      rw [addLists_cons_cons, polyEval_cons, polyEval_cons, polyEval_cons, ih bs h',
        length_addLists as bs h', h']
      ring

@[simp] theorem addPrefix_nil_left (v : List F) : addPrefix ([] : List F) v = [] := by
  cases v <;> rfl
@[simp] theorem addPrefix_nil_right (l : List F) : addPrefix l ([] : List F) = l := by
  cases l <;> rfl
theorem addPrefix_cons_cons (a b : F) (as bs : List F) :
    addPrefix (a :: as) (b :: bs) = (a + b) :: addPrefix as bs := rfl

@[simp] theorem length_addPrefix (l v : List F) : (addPrefix l v).length = l.length := by
  induction l generalizing v with
  | nil => simp
  | cons a as ih => cases v with
    | nil => simp
    | cons b bs => rw [addPrefix_cons_cons, List.length_cons, List.length_cons, ih]

theorem polyEval_addPrefix (l v : List F) (h : v.length ≤ l.length) (x : F) :
    polyEval (addPrefix l v) x = polyEval l x + polyEval v x * x ^ (l.length - v.length) := by
  induction l generalizing v with
  | nil => cases v with
    | nil => simp
    | cons b bs => simp at h
  | cons a as ih => cases v with
    | nil => simp
    | cons b bs =>
      have h' : bs.length ≤ as.length := by simpa using h
      rw [addPrefix_cons_cons, polyEval_cons, polyEval_cons, polyEval_cons, ih bs h',
        length_addPrefix]
      have e : as.length = bs.length + (as.length - bs.length) := by omega
      have e2 : (a :: as).length - (b :: bs).length = as.length - bs.length := by simp
      rw [e2]
      generalize as.length - bs.length = d at e ⊢
      rw [e, pow_add]
      ring

/-! ### characteristic 2 -/

theorem neg_eq_self (char2 : ∀ a : F, a + a = 0) (a : F) : -a = a :=
  neg_eq_of_add_eq_zero_left (char2 a)

theorem eq_of_add_eq_zero (char2 : ∀ a : F, a + a = 0) {a b : F} (h : a + b = 0) : a = b := by
  have := eq_neg_of_add_eq_zero_left h
  rwa [neg_eq_self char2] at this

theorem add_eq_zero_iff_eq' (char2 : ∀ a : F, a + a = 0) {a b : F} : a + b = 0 ↔ a = b :=
  ⟨eq_of_add_eq_zero char2, fun h => h ▸ char2 a⟩

/-! ### the generator polynomial -/

theorem length_mulLinear (g : List F) (c : F) : (mulLinear g c).length = g.length + 1 := by
  unfold mulLinear
  rw [length_addLists _ _ (by simp)]
  simp

theorem polyEval_mulLinear (g : List F) (c x : F) :
    polyEval (mulLinear g c) x = polyEval g x * (x + c) := by
  unfold mulLinear
  rw [polyEval_addLists _ _ (by simp), polyEval_append_singleton, polyEval_cons,
    polyEval_map_mul_right]
  ring

theorem length_genPoly (pw : Nat → F) (fcr r : Nat) : (genPoly pw fcr r).length = r + 1 := by
  induction r with
  | zero => rfl
  | succ r ih => rw [genPoly, length_mulLinear, ih]

theorem genPoly_monic (pw : Nat → F) (fcr r : Nat) : ∃ t, genPoly pw fcr r = 1 :: t := by
  induction r with
  | zero => exact ⟨[], rfl⟩
  | succ r ih =>
    obtain ⟨t, ht⟩ := ih
    refine ⟨addLists (t ++ [0]) ((1 * pw (r + fcr)) :: t.map (· * pw (r + fcr))), ?_⟩
    rw [genPoly, ht, mulLinear]
    simp [addLists_cons_cons]

theorem genPoly_root (char2 : ∀ a : F, a + a = 0) (pw : Nat → F) (fcr r i : Nat) (hi : i < r) :
    polyEval (genPoly pw fcr r) (pw (i + fcr)) = 0 := by
  induction r with
  | zero => omega
  | succ r ih =>
    rw [genPoly, polyEval_mulLinear]
    rcases Nat.lt_succ_iff_lt_or_eq.mp hi with h | h
    · rw [ih h, zero_mul]
    · rw [h, char2, mul_zero]

/-! ### remainders -/

/-- `rem` is a remainder of `msg · x^nsym` modulo `gen` as far as the roots of `gen` can tell, and
has exactly `nsym = deg gen` symbols -/
def IsRem (gen msg rem : List F) : Prop :=
  rem.length = gen.length - 1 ∧
  ∀ ρ, polyEval gen ρ = 0 →
    polyEval rem ρ = polyEval (msg ++ List.replicate (gen.length - 1) (0 : F)) ρ

theorem IsRem.codeword (char2 : ∀ a : F, a + a = 0) {gen msg rem : List F} (h : IsRem gen msg rem)
    {ρ : F} (hρ : polyEval gen ρ = 0) : polyEval (msg ++ rem) ρ = 0 := by
  rw [polyEval_append, h.2 ρ hρ, polyEval_append_zeros, h.1, char2]

/-- at a root of the monic `1 :: gt`, the tail evaluates to the leading power -/
theorem tail_eval_of_root (char2 : ∀ a : F, a + a = 0) {gt : List F} {ρ : F}
    (hρ : polyEval (1 :: gt) ρ = 0) : polyEval gt ρ = ρ ^ gt.length := by
  rw [polyEval_cons, one_mul] at hρ
  exact (eq_of_add_eq_zero char2 hρ).symm

/-! ### synthetic division (`rs_encode_msg`) -/

theorem synthDiv_zero (gt l : List F) : synthDiv gt l 0 = l := by
  cases l <;> rfl

theorem synthDiv_cons_succ (gt : List F) (c : F) (rest : List F) (k : Nat) :
    synthDiv gt (c :: rest) (k + 1) =
      synthDiv gt (if c = 0 then rest else addPrefix rest (gt.map (c * ·))) k := rfl

theorem length_synthDiv (gt : List F) (k : Nat) (l : List F) (h : k + gt.length ≤ l.length) :
    (synthDiv gt l k).length = l.length - k := by
  induction k generalizing l with
  | zero => rw [synthDiv_zero]; rfl
  | succ k ih =>
    cases l with
    | nil => simp at h
    | cons c rest =>
      rw [synthDiv_cons_succ, ih]
      · split <;> simp
      · have : k + gt.length ≤ rest.length := by simp at h; omega
        split <;> simpa using this

theorem polyEval_synthDiv (char2 : ∀ a : F, a + a = 0) (gt : List F) (ρ : F)
    (hρ : polyEval (1 :: gt) ρ = 0) (k : Nat) (l : List F) (h : k + gt.length ≤ l.length) :
    polyEval (synthDiv gt l k) ρ = polyEval l ρ := by
  induction k generalizing l with
  | zero => rw [synthDiv_zero]
  | succ k ih =>
    cases l with
    | nil => simp at h
    | cons c rest =>
      have hr : k + gt.length ≤ rest.length := by simp at h; omega
      rw [synthDiv_cons_succ, ih]
      · rw [polyEval_cons]
        split
        · next hc => rw [hc, zero_mul, zero_add]
        · rw [polyEval_addPrefix _ _ (by simp; omega), polyEval_map_mul_left,
            tail_eval_of_root char2 hρ, List.length_map, mul_assoc, ← pow_add]
          have : gt.length + (rest.length - gt.length) = rest.length := by omega
          rw [this, add_comm]
      · split <;> simpa using hr

theorem lfsrEncode_isRem (char2 : ∀ a : F, a + a = 0) (gt msg : List F) :
    IsRem (1 :: gt) msg (lfsrEncode (1 :: gt) msg) := by
  unfold lfsrEncode
  simp only [List.tail_cons, List.length_cons, Nat.add_sub_cancel]
  constructor
  · rw [length_synthDiv _ _ _ (by simp)]; simp
  · intro ρ hρ
    exact polyEval_synthDiv char2 gt ρ hρ _ _ (by simp)

/-! ### stripping and right-justification -/

theorem strip_cons (c : F) (rest : List F) :
    strip (c :: rest) = if c = 0 then strip rest else c :: rest := rfl

@[simp] theorem strip_nil : strip ([] : List F) = [] := rfl

theorem length_strip_le (l : List F) : (strip l).length ≤ l.length := by
  induction l with
  | nil => simp
  | cons c rest ih =>
    rw [strip_cons]; split
    · simp; omega
    · simp

@[simp] theorem polyEval_strip (l : List F) (x : F) : polyEval (strip l) x = polyEval l x := by
  induction l with
  | nil => rfl
  | cons c rest ih =>
    rw [strip_cons]; split
    · next hc => rw [ih, polyEval_cons, hc, zero_mul, zero_add]
    · rfl

theorem length_rjust (l : List F) (w : Nat) (h : l.length ≤ w) : (rjust l w).length = w := by
  unfold rjust; simp; omega

@[simp] theorem polyEval_rjust (l : List F) (w : Nat) (x : F) :
    polyEval (rjust l w) x = polyEval l x := by
  unfold rjust; exact polyEval_zeros_append _ _ _

/-! ### schoolbook long division (`Polynomial.__divmod__`) -/

theorem longDivRem_succ (gen : List F) (fuel : Nat) (r : List F) :
    longDivRem gen (fuel + 1) r =
      if (strip r).length < gen.length then strip r
      else match strip r with
        | [] => []
        | c :: _ => longDivRem gen fuel (addPrefix (strip r) (gen.map (c * ·))) := rfl

theorem longDivRem_spec (char2 : ∀ a : F, a + a = 0) (gt : List F) (fuel : Nat) (r : List F)
    (h : (strip r).length < fuel) :
    (longDivRem (1 :: gt) fuel r).length < (1 :: gt).length ∧
    ∀ ρ, polyEval (1 :: gt) ρ = 0 → polyEval (longDivRem (1 :: gt) fuel r) ρ = polyEval r ρ := by
  induction fuel generalizing r with
  | zero => omega
  | succ fuel ih =>
    rw [longDivRem_succ]
    split
    · next hlt => exact ⟨hlt, fun ρ _ => polyEval_strip r ρ⟩
    · next hge =>
      cases hs : strip r with
      | nil => rw [hs] at hge; simp at hge
      | cons c t =>
        rw [hs] at hge h
        simp only [List.length_cons] at hge h
        simp only [List.map_cons, mul_one, addPrefix_cons_cons, char2]
        have hlen : (strip (0 :: addPrefix t (gt.map (c * ·)))).length < fuel := by
          rw [strip_cons, if_pos rfl]
          have := length_strip_le (addPrefix t (gt.map (c * ·)))
          simp at this; omega
        obtain ⟨h1, h2⟩ := ih _ hlen
        refine ⟨h1, fun ρ hρ => ?_⟩
        rw [h2 ρ hρ, ← polyEval_strip r ρ, hs, polyEval_cons, polyEval_cons, zero_mul, zero_add,
          polyEval_addPrefix _ _ (by simp; omega), polyEval_map_mul_left,
          tail_eval_of_root char2 hρ, List.length_map, mul_assoc, ← pow_add]
        have : gt.length + (t.length - gt.length) = t.length := by omega
        rw [this, add_comm]

theorem longDivEncode_isRem (char2 : ∀ a : F, a + a = 0) (gt msg : List F) :
    IsRem (1 :: gt) msg (longDivEncode (1 :: gt) msg) := by
  unfold longDivEncode
  simp only [List.length_cons, Nat.add_sub_cancel]
  obtain ⟨h1, h2⟩ := longDivRem_spec char2 gt
    ((msg ++ List.replicate gt.length (0 : F)).length + 1) (msg ++ List.replicate gt.length 0)
    (Nat.lt_succ_of_le (length_strip_le _))
  have hl := length_rjust _ gt.length (show (longDivRem (1 :: gt)
    ((msg ++ List.replicate gt.length (0 : F)).length + 1)
    (msg ++ List.replicate gt.length 0)).length ≤ gt.length from Nat.lt_succ_iff.mp h1)
  rw [hl, Nat.sub_self, List.drop_zero]
  exact ⟨hl, fun ρ hρ => by rw [polyEval_rjust, h2 ρ hρ]; rfl⟩

/-! ### synthetic division of the stripped dividend (`_gffastmod`) -/

theorem fastModEncode_isRem (char2 : ∀ a : F, a + a = 0) (gt msg : List F) :
    IsRem (1 :: gt) msg (fastModEncode (1 :: gt) msg) := by
  unfold fastModEncode
  simp only [List.length_cons, Nat.add_sub_cancel, List.tail_cons]
  generalize hm : strip (msg ++ List.replicate gt.length (0 : F)) = mp
  have hme : ∀ ρ, polyEval mp ρ = polyEval (msg ++ List.replicate gt.length (0 : F)) ρ := by
    intro ρ; rw [← hm, polyEval_strip]
  have key : ∀ b : List F, b.length ≤ gt.length →
      (∀ ρ, polyEval (1 :: gt) ρ = 0 → polyEval b ρ = polyEval mp ρ) →
      IsRem (1 :: gt) msg
        ((rjust (strip b) gt.length).drop ((rjust (strip b) gt.length).length - gt.length)) := by
    intro b hb he
    have hl := length_rjust (strip b) gt.length (le_trans (length_strip_le b) hb)
    rw [hl, Nat.sub_self, List.drop_zero]
    refine ⟨by simpa using hl, fun ρ hρ => ?_⟩
    rw [polyEval_rjust, polyEval_strip, he ρ hρ, hme]
    simp
  split
  · next hlt => exact key mp (by omega) (fun _ _ => rfl)
  · next hge =>
    have hk : mp.length - gt.length + gt.length ≤ mp.length := by omega
    refine key _ ?_ (fun ρ hρ => polyEval_synthDiv char2 gt ρ hρ _ _ hk)
    rw [length_synthDiv _ _ _ hk]; omega

end Pff.RSProofs
