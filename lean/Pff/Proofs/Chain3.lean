import Pff.Props.Chain
/-!
Helper lemmas for `Pff/Props/Chain2.lean`, part 1: the chain `bytes → run` of
`Pff/Proofs/Chain.lean`, generalised over the erasure options of the facade `Ops` and over the
per-block lemma ("capacity hypothesis ⇒ `BlockOK`"), then instantiated for `--enable_erasures`.
-/
namespace Pff.ChainProofs

open Pff.GF Pff.Facade Pff.Ecc Pff.Layout Pff.RSSpec Pff.Entry Pff.Bridge Pff.BridgeProofs
open Pff.Run Pff.Scan

theorem paramsOK_facade_gen {p : Pff.GF.Params} (c : Codec (Elt p)) (core : Core (Elt p)) (hL : CodecLen c)
    (H : List Nat → List Nat) (en : Bool) (sym : Nat) (oe : Bool)
    (hashLen : Nat) (hH : ∀ m, (H m).length = hashLen)
    (P : Pff.Run.Params) (hn : c.n = P.mbs)
    (gHash : P.hashLen = hashLen) (gMain : 1 ≤ P.kMain ∧ P.kMain < P.mbs)
    (gOf : ∀ size x, 1 ≤ P.kOfFor size x ∧ P.kOfFor size x < P.mbs)
    (gIntra : 1 ≤ P.kIntra ∧ P.kIntra < P.mbs) :
    ParamsOK (opsOfFacade c core H en sym oe) P := by
  refine ⟨gMain.1, fun s x => (gOf s x).1, by omega, fun s x => by have := gOf s x; omega, ?_, ?_⟩
  · rw [gHash, ← hn]
    exact cleanOps_facade c core hL H en sym oe hashLen hH P.fast
  · rw [← hn]
    exact intraOps_facade c core hL H en sym oe P.kIntra gIntra.1 (by omega)

/-- the chain, generic in the `Ops` (only `ParamsOK` is needed of it) and in the per-block
capacity statement `Cap`, given a per-block lemma `Cap ⇒ BlockOK` -/
theorem chain_generic_ops (O : Ops) (P : Pff.Run.Params) (hPOK : ParamsOK O P)
    (gMain : 1 ≤ P.kMain ∧ P.kMain < P.mbs)
    (gOf : ∀ size x, 1 ≤ P.kOfFor size x ∧ P.kOfFor size x < P.mbs)
    (Cap : Damaged → AsmBlock → Prop)
    (hblk : ∀ (d : Damaged) (b : AsmBlock), BlockGeom P.mbs d.orig b → Cap d b →
      (P.fast = true → O.H b.msg = b.hash → b.msg = origMsg d.orig b) →
      BlockOK O P.fast P.mbs d.orig b)
    (pre : List Nat) (ds : List Damaged)
    (hfiles : ∀ d ∈ ds, FileOK O P d.path d.orig)
    (hdistinct : (ds.map (·.path)).Nodup)
    (hcap : ∀ d ∈ ds, d.now.length = d.orig.length ∧ d.trackD.length = (genTrackFor O P d.orig).length ∧
      IsBytes d.orig ∧ IsBytes d.now ∧ IsBytes d.trackD ∧
      ∀ b ∈ blocksOf' P d, Cap d b ∧
        (P.fast = true → O.H b.msg = b.hash → b.msg = origMsg d.orig b))
    (hacc : NoAccidental pre marker (ds.map (fun d => bodyWith O P d.path d.orig d.trackD))) :
    (run O P (ds.map (fun d => (d.path, d.now)))
        (build pre marker (ds.map (fun d => bodyWith O P d.path d.orig d.trackD)))).outcomes.length = ds.length ∧
    (∀ i (hi : i < ds.length), ∃ o,
        (run O P (ds.map (fun d => (d.path, d.now)))
          (build pre marker (ds.map (fun d => bodyWith O P d.path d.orig d.trackD)))).outcomes[i]? = some o ∧
        o.path = ds[i].path ∧ o.skipped = false ∧ o.processed = true ∧
        (protectedDamaged P ds[i] →
          o.result = { output := some (restored P ds[i]), corrupted := true, complete := true, partialRep := false } ∧
          o.effect = .wrote (restored P ds[i])) ∧
        (∀ out, o.result.output = some out → out = restored P ds[i])) ∧
    exitOf (run O P (ds.map (fun d => (d.path, d.now)))
        (build pre marker (ds.map (fun d => bodyWith O P d.path d.orig d.trackD)))) = 0 := by
  have hblock : ∀ d ∈ ds, ∀ b ∈ blocksOf' P d, BlockGeom P.mbs d.orig b →
      BlockOK O P.fast P.mbs d.orig b := by
    intro d hd b hb hg
    obtain ⟨_, _, _, _, _, hb6⟩ := hcap d hd
    obtain ⟨hc1, hc2⟩ := hb6 b hb
    exact hblk d b hg hc1 hc2
  have hWC : ∀ d ∈ ds, WithinCapacity O P d := by
    intro d hd
    obtain ⟨hb1, hb2, hb3, hb4, hb5, _⟩ := hcap d hd
    cases htool : P.tool with
    | header =>
      refine withinCapacity_header _ P d htool gMain hPOK.ops hb1 hb2 hb3 hb4 hb5 (fun b hb hg => ?_)
      exact hblock d hd b (by simp only [blocksOf', htool]; exact hb) hg
    | whole =>
      refine withinCapacity_whole _ P d htool gOf hPOK.ops hb1 hb2 hb3 hb4 hb5 (fun b hb hg => ?_)
      exact hblock d hd b (by simp only [blocksOf', htool]; exact hb) hg
  have h := C01_run_within_capacity _ P pre ds hPOK hfiles hdistinct hWC hacc
  refine ⟨h.1, fun i hi => ?_, h.2.2⟩
  obtain ⟨o, ho1, ho2, ho3, ho4, ho5, ho6, _⟩ := h.2.1 i hi
  exact ⟨o, ho1, ho2, ho3, ho4, ho5, ho6⟩

/-- the chain with `--enable_erasures`, generic over the byte field -/
theorem chain_generic_erasures {p : Pff.GF.Params} (c : Codec (Elt p)) (core : Core (Elt p))
    (hL : CodecLen c) (hF : CodecFacts c) (hD : DecFacts c core)
    (H : List Nat → List Nat) (sym : Nat) (hsym : sym < 256)
    (hashLen : Nat) (hH : ∀ m, (H m).length = hashLen)
    (P : Pff.Run.Params) (hn : c.n = P.mbs)
    (gHash : P.hashLen = hashLen) (gMain : 1 ≤ P.kMain ∧ P.kMain < P.mbs)
    (gOf : ∀ size x, 1 ≤ P.kOfFor size x ∧ P.kOfFor size x < P.mbs)
    (gIntra : 1 ≤ P.kIntra ∧ P.kIntra < P.mbs)
    (O : Ops) (hO : O = opsOfFacade c core H true sym false)
    (pre : List Nat) (ds : List Damaged)
    (hfiles : ∀ d ∈ ds, FileOK O P d.path d.orig)
    (hdistinct : (ds.map (·.path)).Nodup)
    (hcap : ∀ d ∈ ds, d.now.length = d.orig.length ∧ d.trackD.length = (genTrackFor O P d.orig).length ∧
      IsBytes d.orig ∧ IsBytes d.now ∧ IsBytes d.trackD ∧
      ∀ b ∈ blocksOf' P d,
        2 * errorsOutside (b.msg ++ b.ecc) (origMsg d.orig b ++ O.enc b.k (origMsg d.orig b))
              (erasedPos (b.msg ++ b.ecc) sym)
            + (erasedPos (b.msg ++ b.ecc) sym).length ≤ P.mbs - b.k ∧
        (P.fast = true → O.H b.msg = b.hash → b.msg = origMsg d.orig b))
    (hacc : NoAccidental pre marker (ds.map (fun d => bodyWith O P d.path d.orig d.trackD))) :
    (run O P (ds.map (fun d => (d.path, d.now)))
        (build pre marker (ds.map (fun d => bodyWith O P d.path d.orig d.trackD)))).outcomes.length = ds.length ∧
    (∀ i (hi : i < ds.length), ∃ o,
        (run O P (ds.map (fun d => (d.path, d.now)))
          (build pre marker (ds.map (fun d => bodyWith O P d.path d.orig d.trackD)))).outcomes[i]? = some o ∧
        o.path = ds[i].path ∧ o.skipped = false ∧ o.processed = true ∧
        (protectedDamaged P ds[i] →
          o.result = { output := some (restored P ds[i]), corrupted := true, complete := true, partialRep := false } ∧
          o.effect = .wrote (restored P ds[i])) ∧
        (∀ out, o.result.output = some out → out = restored P ds[i])) ∧
    exitOf (run O P (ds.map (fun d => (d.path, d.now)))
        (build pre marker (ds.map (fun d => bodyWith O P d.path d.orig d.trackD)))) = 0 := by
  subst hO
  have hPOK := paramsOK_facade_gen c core hL H true sym false hashLen hH P hn gHash gMain gOf gIntra
  refine chain_generic_ops _ P hPOK gMain gOf
    (fun d b => 2 * errorsOutside (b.msg ++ b.ecc)
        (origMsg d.orig b ++ (opsOfFacade c core H true sym false).enc b.k (origMsg d.orig b))
          (erasedPos (b.msg ++ b.ecc) sym)
        + (erasedPos (b.msg ++ b.ecc) sym).length ≤ P.mbs - b.k)
    ?_ pre ds hfiles hdistinct hcap hacc
  intro d b hg hc1 hc2
  have := blockOK_erasures c core hF hD H sym hsym P.fast d.orig b hg.bytesOrig hg.bytesMsg hg.bytesEcc hg.kpos
    (by rw [hn]; exact hg.kle) hg.msgle hg.inside (by rw [hn]; exact hg.eccLen)
    (by rw [hn]; exact hc1) hc2
  rw [hn] at this
  exact this

end Pff.ChainProofs
