import Pff.Props.RunA
import Pff.Props.C01
import Pff.Props.C03
import Pff.Props.C04
import Pff.Props.C09
/-! Helper lemmas for the end-to-end run theorems (`Pff/Props/RunC.lean`): a generated entry is
located (fields, intra-ecc, size text, lookup), the per-file logic is reached with the expected
arguments, and the counters / exit status / outputs of a run follow from the list of views. -/
namespace Pff.Run.C

open Pff.Ecc Pff.Layout Pff.Entry Pff.Scan Pff.Run

/-! ## metadata of a generated entry -/

/-- the size text contains no byte of the delimiter -/
theorem clean_digits (n : Nat) : Clean (digitsOf n) := by
  intro i hi
  have hd : isDigit ((digitsOf n)[i]) = true := C09_size_digits n _ (List.getElem_mem hi)
  rw [Pff.Entry.A.isDigit_iff] at hd
  rw [List.drop_append_of_le_length (Nat.le_of_lt hi), List.drop_eq_getElem_cons hi]
  intro h
  rw [Pff.Entry.A.delim_eq] at h
  simp only [List.cons_append, List.isPrefixOf, Bool.and_eq_true, beq_iff_eq] at h
  omega

/-- everything of the entry content before the track -/
def metaOf (p : EntryParts) : Bytes :=
  p.path ++ delim ++ p.sizeTxt ++ delim ++ p.pathEcc ++ delim ++ p.sizeEcc ++ delim

theorem metaOf_length (p : EntryParts) :
    (metaOf p).length = p.path.length + delim.length + p.sizeTxt.length + delim.length + p.pathEcc.length
                      + delim.length + p.sizeEcc.length + delim.length := by
  simp only [metaOf, List.length_append]

theorem genEntry_drop (p : EntryParts) : (genEntry p).drop marker.length = metaOf p ++ p.track := by
  simp only [genEntry, metaOf, List.append_assoc, List.drop_left]

theorem fields_meta (p : EntryParts) (track' : Bytes) (hp : p.path ≠ [])
    (h1 : Clean p.path) (h2 : Clean p.sizeTxt) (h3 : Clean p.pathEcc) (h4 : Clean p.sizeEcc) :
    entryFields (metaOf p ++ track') =
      { path := p.path, sizeRaw := p.sizeTxt, pathEcc := p.pathEcc, sizeEcc := p.sizeEcc,
        trackOff := (((metaOf p).length : Nat) : Int), stripped := 0 } := by
  have h := C09_fields_roundtrip { p with track := track' } hp h1 h2 h3 h4
  rw [genEntry_drop] at h
  rw [metaOf_length]
  exact h

/-! ## `locate` on a generated entry -/

theorem fsLookup_of_mem (fs : FS) (hd : (fs.map (·.1)).Nodup) (p c : Bytes) (h : (p, c) ∈ fs) :
    fsLookup fs p = some c := by
  induction fs with
  | nil => cases h
  | cons x xs ih =>
    rw [List.map_cons, List.nodup_cons] at hd
    unfold fsLookup
    rw [List.find?_cons]
    rcases List.mem_cons.mp h with rfl | hm
    · simp only [BEq.rfl, Option.map_some]
    · have hne : (x.1 == p) = false := by
        rw [beq_eq_false_iff_ne]
        intro he
        apply hd.1
        rw [he]
        exact List.mem_map.mpr ⟨(p, c), hm, rfl⟩
      rw [hne]
      exact ih hd.2 hm

theorem locate_header (O : Ops) (P : Params) (fs : FS) (S : Bytes) (a b : Nat)
    (p : EntryParts) (n : Nat) (now track' : Bytes) (htool : P.tool = .header)
    (hintra : IntraOps O P.kIntra P.mbs)
    (hst : p.sizeTxt = digitsOf n) (hpe : p.pathEcc = intraEcc O.enc P.kIntra p.path)
    (hse : p.sizeEcc = intraEcc O.enc P.kIntra p.sizeTxt)
    (hne : p.path ≠ []) (hnul : p.path.contains 0 = false) (c1 : Clean p.path)
    (c3 : Clean p.pathEcc) (c4 : Clean p.sizeEcc)
    (hlook : fsLookup fs p.path = some now) (hlen : now.length = n)
    (hS : (S.drop a).take (b - a) = metaOf p ++ track') :
    locate O P fs S a b =
      { path := p.path,
        fields := { path := p.path, sizeRaw := p.sizeTxt, pathEcc := p.pathEcc, sizeEcc := p.sizeEcc,
                    trackOff := (((metaOf p).length : Nat) : Int), stripped := 0 },
        body := metaOf p ++ track',
        trackStartAbs := min (a + (metaOf p).length) b,
        target := some ((n : Int), now) } := by
  have c2 : Clean p.sizeTxt := hst ▸ clean_digits n
  unfold locate
  simp only [htool]
  rw [hS, fields_meta _ _ hne c1 c2 c3 c4]
  simp only [List.drop_zero, Nat.add_zero, Int.toNat_natCast]
  rw [hpe, hse, (C09_intra_roundtrip O P.kIntra P.mbs hintra p.path).1,
    (C09_intra_roundtrip O P.kIntra P.mbs hintra p.sizeTxt).1, hst, C09_size_roundtrip]
  simp only [hnul, hlook, hlen, Bool.false_eq_true, if_false, ne_eq, not_true_eq_false, decide_false,
    Bool.false_and]

theorem locate_whole (O : Ops) (P : Params) (fs : FS) (S : Bytes) (a b : Nat)
    (p : EntryParts) (n : Nat) (now track' : Bytes) (htool : P.tool = .whole)
    (hintra : IntraOps O P.kIntra P.mbs)
    (hst : p.sizeTxt = digitsOf n) (hpe : p.pathEcc = intraEcc O.enc P.kIntra p.path)
    (hse : p.sizeEcc = intraEcc O.enc P.kIntra p.sizeTxt)
    (hne : p.path ≠ []) (hnul : p.path.contains 0 = false) (c1 : Clean p.path)
    (c3 : Clean p.pathEcc) (c4 : Clean p.sizeEcc)
    (hlook : fsLookup fs p.path = some now) (hlen : now.length = n)
    (hS : ((S.drop a).take (b - a)).take 65535 = metaOf p ++ track') :
    locate O P fs S a b =
      { path := p.path,
        fields := { path := p.path, sizeRaw := p.sizeTxt, pathEcc := p.pathEcc, sizeEcc := p.sizeEcc,
                    trackOff := (((metaOf p).length : Nat) : Int), stripped := 0 },
        body := metaOf p ++ track',
        trackStartAbs := min (a + (metaOf p).length) b,
        target := some ((n : Int), now) } := by
  have c2 : Clean p.sizeTxt := hst ▸ clean_digits n
  unfold locate
  simp only [htool]
  rw [hS, fields_meta _ _ hne c1 c2 c3 c4]
  simp only [List.drop_zero, Nat.add_zero, Int.toNat_natCast]
  rw [hpe, hse, (C09_intra_roundtrip O P.kIntra P.mbs hintra p.path).2,
    (C09_intra_roundtrip O P.kIntra P.mbs hintra p.sizeTxt).2, hst, C09_size_roundtrip]
  simp only [hnul, hlook, hlen, Bool.false_eq_true, if_false, ne_eq, not_true_eq_false, decide_false,
    Bool.false_and]

/-! ## `processEntry` on a generated entry -/

theorem pyFrom_meta (m t : Bytes) : pyFrom (m ++ t) ((m.length : Nat) : Int) = t := by
  unfold pyFrom pyBound
  rw [if_neg (by omega), Int.toNat_natCast, List.length_append, Nat.min_eq_left (by omega), List.drop_left]

theorem readLen_cast (n hs : Nat) :
    (if 0 < (n : Int) ∧ (n : Int) < (hs : Int) then (n : Int).toNat else hs) =
      if 0 < n ∧ n < hs then n else hs := by
  by_cases h : 0 < n ∧ n < hs
  · rw [if_pos h, if_pos (by omega), Int.toNat_natCast]
  · rw [if_neg h, if_neg (by omega)]

/-- effect of a per-file result on the output folder, header tool -/
def effHeader (r : FileResult) : Effect :=
  match r.output with
  | some o => .wrote o
  | none => .none

/-- effect of a per-file result on the output folder, whole-file tool -/
def effWhole (r : FileResult) : Effect :=
  match r.output with
  | some o => .wrote o
  | none => if r.corrupted then .removed else .none

theorem processEntry_header (O : Ops) (P : Params) (fs : FS) (S : Bytes) (a b : Nat)
    (p : EntryParts) (n : Nat) (now : Bytes) (htool : P.tool = .header)
    (hintra : IntraOps O P.kIntra P.mbs)
    (hst : p.sizeTxt = digitsOf n) (hpe : p.pathEcc = intraEcc O.enc P.kIntra p.path)
    (hse : p.sizeEcc = intraEcc O.enc P.kIntra p.sizeTxt)
    (hne : p.path ≠ []) (hnul : p.path.contains 0 = false) (c1 : Clean p.path)
    (c3 : Clean p.pathEcc) (c4 : Clean p.sizeEcc)
    (hlook : fsLookup fs p.path = some now) (hlen : now.length = n)
    (hS : (S.drop a).take (b - a) = (genEntry p).drop marker.length) :
    view (processEntry O P fs S a b) =
      (p.path, false, true,
        correctHeaderFile O P.fast P.thr P.kMain P.hashLen P.mbs
          (if 0 < n ∧ n < P.headerSize then n else P.headerSize) now p.track,
        effHeader (correctHeaderFile O P.fast P.thr P.kMain P.hashLen P.mbs
          (if 0 < n ∧ n < P.headerSize then n else P.headerSize) now p.track)) := by
  rw [genEntry_drop] at hS
  unfold processEntry
  rw [locate_header O P fs S a b p n now p.track htool hintra hst hpe hse hne hnul c1 c3 c4 hlook hlen hS]
  simp only [htool, view, pyFrom_meta, readLen_cast]
  rfl

theorem processEntry_whole (O : Ops) (P : Params) (fs : FS) (S : Bytes) (a b : Nat)
    (p : EntryParts) (n : Nat) (now : Bytes) (htool : P.tool = .whole)
    (hintra : IntraOps O P.kIntra P.mbs)
    (hst : p.sizeTxt = digitsOf n) (hpe : p.pathEcc = intraEcc O.enc P.kIntra p.path)
    (hse : p.sizeEcc = intraEcc O.enc P.kIntra p.sizeTxt)
    (hne : p.path ≠ []) (hnul : p.path.contains 0 = false) (c1 : Clean p.path)
    (c3 : Clean p.pathEcc) (c4 : Clean p.sizeEcc)
    (hlook : fsLookup fs p.path = some now) (hlen : now.length = n)
    (hshort : (metaOf p).length ≤ 65535)
    (hk : ∀ x, 1 ≤ P.kOfFor n x)
    (htl : p.track.length = trackLen (P.kOfFor n) P.hashLen P.mbs n)
    (hab : a ≤ b) (hb : b ≤ S.length)
    (hS : (S.drop a).take (b - a) = (genEntry p).drop marker.length) :
    view (processEntry O P fs S a b) =
      (p.path, false, true,
        correctWholeFile O P.fast P.thr (P.kOfFor n) P.hashLen P.mbs now p.track,
        effWhole (correctWholeFile O P.fast P.thr (P.kOfFor n) P.hashLen P.mbs now p.track)) := by
  rw [genEntry_drop] at hS
  have hS' : ((S.drop a).take (b - a)).take 65535 = metaOf p ++ p.track.take (65535 - (metaOf p).length) := by
    rw [hS, List.take_append, List.take_of_length_le hshort]
  have hloc := locate_whole O P fs S a b p n now _ htool hintra hst hpe hse hne hnul c1 c3 c4 hlook hlen hS'
  have hba : b - a = (metaOf p).length + p.track.length := by
    have := congrArg List.length hS
    rw [List.length_take, List.length_drop, List.length_append] at this
    omega
  have hts : min (a + (metaOf p).length) b = a + (metaOf p).length := by omega
  have htrack : (S.drop (a + (metaOf p).length)).take (b - (a + (metaOf p).length)) = p.track := by
    have := congrArg (List.drop (metaOf p).length) hS
    rw [List.drop_left, List.drop_take, List.drop_drop] at this
    rw [← this]
    congr 1
    omega
  have ht : (locate O P fs S a b).target = some ((n : Int), now) := by rw [hloc]
  have hin := C08_run_long_enough_reads_inside O P fs S a b (n : Int) now ht
    (by rw [hloc]; simp only [Int.toNat_natCast, hts, hlen]; omega)
  unfold readsInside at hin
  rw [hloc] at hin
  simp only [htool, Int.toNat_natCast, hts] at hin
  have hbr := C08_run_whole_file_bridge O P.fast P.thr (P.kOfFor n) P.hashLen P.mbs now S
    (a + (metaOf p).length) b (by omega) hb hin
  rw [htrack] at hbr
  unfold processEntry
  rw [hloc]
  simp only [htool, view, Int.toNat_natCast, hts, hbr]
  rfl

/-! ## length of a generated track -/

theorem genTrack_length (H : Bytes → Bytes) (enc : Nat → Bytes → Bytes) (kOf : Nat → Nat) (hashLen mbs : Nat)
    (hk : ∀ x, 1 ≤ kOf x) (hH : ∀ m, (H m).length = hashLen)
    (henc : ∀ k m, 1 ≤ m.length → m.length ≤ k → (enc k m).length = mbs - k) (content : Bytes) :
    (genTrack H enc kOf content).length = trackLen kOf hashLen mbs content.length := by
  unfold genTrack trackLen
  rw [List.length_flatten, List.map_map]
  apply Pff.Layout.sum_map_eq
  intro blk hblk
  obtain ⟨h1, h2, h3⟩ := layoutGen_mem kOf content.length _ _ blk hblk
  have hkk := hk blk.off
  have hsl := slice_length content blk
  simp only [Function.comp, List.length_append, hH]
  rw [henc _ _ (by omega) (by omega)]

/-! ## from the entries to the run -/

theorem map_intended {α R : Type} (S mk : Bytes) (body : α → Bytes) (f : Nat × Nat → R) (g : α → R) :
    ∀ (L : List α) (pre : Bytes), S = build pre mk (L.map body) →
      (∀ x ∈ L, ∀ a b, a ≤ b → b ≤ S.length → (S.drop a).take (b - a) = body x → f (a, b) = g x) →
      (intended mk pre.length (L.map body)).map f = L.map g := by
  intro L
  induction L with
  | nil => intro pre _ _; rfl
  | cons x xs ih =>
    intro pre hS h
    simp only [List.map_cons, intended]
    have hS2 : S = build (pre ++ mk ++ body x) mk (xs.map body) := by
      rw [hS, List.map_cons, build_cons]
    have hS3 : S = (pre ++ mk) ++ (body x ++ ((xs.map body).map (fun e => mk ++ e)).flatten) := by
      rw [hS]
      simp only [build, List.map_cons, List.flatten_cons, List.append_assoc]
    congr 1
    · apply h x List.mem_cons_self
      · omega
      · rw [hS3]; simp only [List.length_append]; omega
      · rw [hS3]
        have : pre.length + mk.length = (pre ++ mk).length := by rw [List.length_append]
        rw [this, List.drop_left, Nat.add_sub_cancel_left, List.take_left]
    · have := ih (pre ++ mk ++ body x) hS2 (fun y hy => h y (List.mem_cons_of_mem _ hy))
      simp only [List.length_append] at this
      exact this

theorem run_views {α : Type} (O : Ops) (P : Params) (fs : FS) (pre : Bytes) (L : List α) (body : α → Bytes)
    (g : α → Bytes × Bool × Bool × FileResult × Effect)
    (hacc : NoAccidental pre marker (L.map body))
    (h : ∀ x ∈ L, ∀ a b, a ≤ b → b ≤ (build pre marker (L.map body)).length →
      ((build pre marker (L.map body)).drop a).take (b - a) = body x →
      view (processEntry O P fs (build pre marker (L.map body)) a b) = g x) :
    (run O P fs (build pre marker (L.map body))).outcomes.map view = L.map g := by
  rw [C08_run_visits O P fs pre (L.map body) hacc, List.map_map]
  exact map_intended (build pre marker (L.map body)) marker body _ g L pre rfl h

/-! ## counters, exit status and outputs from the views -/

theorem view_mem {α : Type} (outs : List EntryOutcome) (L : List α)
    (g : α → Bytes × Bool × Bool × FileResult × Effect) (h : outs.map view = L.map g) :
    ∀ o ∈ outs, ∃ x ∈ L, view o = g x := by
  intro o ho
  have : view o ∈ L.map g := h ▸ List.mem_map.mpr ⟨o, ho, rfl⟩
  obtain ⟨x, hx, he⟩ := List.mem_map.mp this
  exact ⟨x, hx, he.symm⟩

theorem outputs_none (outs : List EntryOutcome) (h : ∀ o ∈ outs, o.effect = Effect.none) :
    outputs { outcomes := outs } = [] := by
  unfold outputs
  simp only
  generalize ([] : FS) = init
  induction outs generalizing init with
  | nil => rfl
  | cons o os ih =>
    rw [List.foldl_cons, h o List.mem_cons_self]
    exact ih (fun o' ho' => h o' (List.mem_cons_of_mem _ ho')) init

theorem views_clean {α : Type} (r : RunResult) (L : List α) (pth : α → Bytes)
    (h : r.outcomes.map view =
      L.map (fun x => (pth x, false, true,
        ({ output := none, corrupted := false, complete := false, partialRep := false } : FileResult), Effect.none))) :
    counters r = (L.length, 0, 0, 0, 0) ∧ exitOf r = 0 ∧ outputs r = [] := by
  have hall : ∀ o ∈ r.outcomes, o.skipped = false ∧ o.processed = true ∧
      o.result = { output := none, corrupted := false, complete := false, partialRep := false } ∧
      o.effect = Effect.none := by
    intro o ho
    obtain ⟨x, _, hv⟩ := view_mem r.outcomes L _ h o ho
    simp only [view, Prod.mk.injEq] at hv
    exact ⟨hv.2.1, hv.2.2.1, hv.2.2.2.1, hv.2.2.2.2⟩
  have hlen : r.outcomes.length = L.length := by
    have := congrArg List.length h
    simpa only [List.length_map] using this
  have hproc : r.outcomes.filter (·.processed) = r.outcomes :=
    List.filter_eq_self.mpr (fun o ho => (hall o ho).2.1)
  refine ⟨?_, ?_, ?_⟩
  · unfold counters
    simp only [hproc, hlen]
    have e1 : r.outcomes.filter (·.result.corrupted) = [] :=
      List.filter_eq_nil_iff.mpr (fun o ho => by rw [(hall o ho).2.2.1]; simp only [Bool.false_eq_true, not_false_eq_true])
    have e2 : r.outcomes.filter (·.result.complete) = [] :=
      List.filter_eq_nil_iff.mpr (fun o ho => by rw [(hall o ho).2.2.1]; simp only [Bool.false_eq_true, not_false_eq_true])
    have e3 : r.outcomes.filter (·.result.partialRep) = [] :=
      List.filter_eq_nil_iff.mpr (fun o ho => by rw [(hall o ho).2.2.1]; simp only [Bool.false_eq_true, not_false_eq_true])
    have e4 : r.outcomes.filter (·.skipped) = [] :=
      List.filter_eq_nil_iff.mpr (fun o ho => by rw [(hall o ho).1]; simp only [Bool.false_eq_true, not_false_eq_true])
    rw [e1, e2, e3, e4]
    rfl
  · unfold exitOf
    apply C03_exit
    intro fr hfr
    obtain ⟨o, ho, rfl⟩ := List.mem_map.mp hfr
    rw [hproc] at ho
    rw [(hall o ho).2.2.1]
  · exact outputs_none r.outcomes (fun o ho => (hall o ho).2.2.2)

/-! ## one pristine entry -/

theorem entry_clean_header (O : Ops) (P : Params) (fs : FS) (S : Bytes) (a b : Nat) (path content : Bytes)
    (htool : P.tool = .header) (hk : 1 ≤ P.kMain) (hpos : 1 ≤ P.hashLen + (P.mbs - P.kMain))
    (hops : CleanOps O P.hashLen P.mbs P.fast) (hintra : IntraOps O P.kIntra P.mbs)
    (hne : path ≠ []) (hnul : path.contains 0 = false) (c1 : Clean path)
    (c3 : Clean (intraEcc O.enc P.kIntra path)) (c4 : Clean (intraEcc O.enc P.kIntra (digitsOf content.length)))
    (hlook : fsLookup fs path = some content)
    (hS : (S.drop a).take (b - a) =
      (genEntry (partsOf O P.kIntra path content
        (genTrackHeader O.H O.enc P.kMain P.headerSize content))).drop marker.length) :
    view (processEntry O P fs S a b) =
      (path, false, true,
        ({ output := none, corrupted := false, complete := false, partialRep := false } : FileResult), Effect.none) := by
  rw [processEntry_header O P fs S a b _ content.length content htool hintra rfl rfl rfl hne hnul c1 c3 c4
    hlook rfl hS]
  simp only [partsOf]
  rw [C03_header_file_partial O P.fast P.thr P.kMain P.hashLen P.mbs P.headerSize hk hpos hops content]
  rfl

theorem entry_clean_whole (O : Ops) (P : Params) (fs : FS) (S : Bytes) (a b : Nat) (path content : Bytes)
    (htool : P.tool = .whole) (hk : ∀ x, 1 ≤ P.kOfFor content.length x)
    (hpos : ∀ x, 1 ≤ P.hashLen + (P.mbs - P.kOfFor content.length x))
    (hops : CleanOps O P.hashLen P.mbs P.fast) (hintra : IntraOps O P.kIntra P.mbs)
    (hne : path ≠ []) (hnul : path.contains 0 = false) (c1 : Clean path)
    (c3 : Clean (intraEcc O.enc P.kIntra path)) (c4 : Clean (intraEcc O.enc P.kIntra (digitsOf content.length)))
    (hshort : path.length + (digitsOf content.length).length + (intraEcc O.enc P.kIntra path).length
                + (intraEcc O.enc P.kIntra (digitsOf content.length)).length + 4 * delim.length ≤ 65535)
    (hlook : fsLookup fs path = some content)
    (hab : a ≤ b) (hb : b ≤ S.length)
    (hS : (S.drop a).take (b - a) =
      (genEntry (partsOf O P.kIntra path content
        (genTrack O.H O.enc (P.kOfFor content.length) content))).drop marker.length) :
    view (processEntry O P fs S a b) =
      (path, false, true,
        ({ output := none, corrupted := false, complete := false, partialRep := false } : FileResult), Effect.none) := by
  rw [processEntry_whole O P fs S a b _ content.length content htool hintra rfl rfl rfl hne hnul c1 c3 c4
    hlook rfl (by rw [metaOf_length]; simp only [partsOf]; omega) hk
    (genTrack_length O.H O.enc _ P.hashLen P.mbs hk hops.hashLen hops.encLen content) hab hb hS]
  simp only [partsOf]
  rw [C03_whole_file_partial O P.fast P.thr P.hashLen P.mbs _ hk hpos hops content]
  rfl

/-! ## a run in which every file is processed and every corrupted file completely repaired -/

theorem effHeader_some (fr : FileResult) (out : Bytes) (h : fr.output = some out) : effHeader fr = .wrote out := by
  unfold effHeader; rw [h]

theorem effWhole_some (fr : FileResult) (out : Bytes) (h : fr.output = some out) : effWhole fr = .wrote out := by
  unfold effWhole; rw [h]

theorem views_repaired {α : Type} (r : RunResult) (L : List α) (pth : α → Bytes) (R : α → FileResult)
    (eff : FileResult → Effect) (dmg : α → Prop) (rest : α → Bytes)
    (heff : ∀ fr out, fr.output = some out → eff fr = .wrote out)
    (hv : r.outcomes.map view = L.map (fun x => (pth x, false, true, R x, eff (R x))))
    (hfacts : ∀ x ∈ L,
      (dmg x → R x = { output := some (rest x), corrupted := true, complete := true, partialRep := false }) ∧
      (∀ out, (R x).output = some out → out = rest x) ∧ ((R x).corrupted = true → (R x).complete = true))
    (hwf : ∀ x ∈ L, (R x).complete = true → (R x).corrupted = true) :
    r.outcomes.length = L.length ∧
    (∀ i (hi : i < L.length), ∃ o, r.outcomes[i]? = some o ∧ o.path = pth L[i] ∧ o.skipped = false ∧
        o.processed = true ∧
        (dmg L[i] →
          o.result = { output := some (rest L[i]), corrupted := true, complete := true, partialRep := false } ∧
          o.effect = .wrote (rest L[i])) ∧
        (∀ out, o.result.output = some out → out = rest L[i]) ∧
        (o.result.corrupted = true → o.result.complete = true)) ∧
    exitOf r = 0 := by
  have hlen : r.outcomes.length = L.length := by
    have := congrArg List.length hv
    simpa only [List.length_map] using this
  refine ⟨hlen, ?_, ?_⟩
  · intro i hi
    have hi' : i < r.outcomes.length := by omega
    refine ⟨r.outcomes[i], List.getElem?_eq_getElem hi', ?_⟩
    have hvi : view r.outcomes[i] = (pth L[i], false, true, R L[i], eff (R L[i])) := by
      have := congrArg (fun l => l[i]?) hv
      simp only [List.getElem?_map, List.getElem?_eq_getElem hi', List.getElem?_eq_getElem hi, Option.map_some,
        Option.some.injEq] at this
      exact this
    simp only [view, Prod.mk.injEq] at hvi
    obtain ⟨h1, h2, h3, h4, h5⟩ := hvi
    obtain ⟨f1, f2, f3⟩ := hfacts L[i] (List.getElem_mem hi)
    rw [h4, h5]
    refine ⟨h1, h2, h3, ?_, f2, f3⟩
    intro hd
    refine ⟨f1 hd, ?_⟩
    apply heff
    rw [f1 hd]
  · unfold exitOf
    have hall : ∀ fr ∈ (r.outcomes.filter (·.processed)).map (·.result), ∃ x ∈ L, fr = R x := by
      intro fr hfr
      obtain ⟨o, ho, rfl⟩ := List.mem_map.mp hfr
      obtain ⟨x, hx, hvx⟩ := view_mem r.outcomes L _ hv o (List.mem_filter.mp ho).1
      simp only [view, Prod.mk.injEq] at hvx
      exact ⟨x, hx, hvx.2.2.2.1⟩
    apply C01_exit
    · intro fr hfr
      obtain ⟨x, hx, rfl⟩ := hall fr hfr
      exact hwf x hx
    · intro fr hfr
      obtain ⟨x, hx, rfl⟩ := hall fr hfr
      exact (hfacts x hx).2.2

end Pff.Run.C
