import Pff.Model.Run
import Pff.Proofs.Ecc
import Pff.Proofs.RunB
import Pff.Props.C04
/-! Helper lemmas for `Pff/Props/RunD.lean` (C04 at the level of the run). -/
namespace Pff.Run.RunD

open Pff.Ecc Pff.Layout Pff.Entry Pff.Scan

/-- the blocks tile a prefix of the file starting at `start` -/
def TilesFrom (content : Bytes) (start : Nat) (blocks : List AsmBlock) : Prop :=
  ∀ i (b : AsmBlock), blocks[i]? = some b →
    b.off = start + ((blocks.take i).map (fun x => x.msg.length)).sum ∧
    b.msg = (content.drop b.off).take b.msg.length ∧ b.off + b.msg.length ≤ content.length

/-- the per-file fact: `out` is `content` with a prefix of `blocks` rewritten block by block -/
def Blockwise (O : Ops) (fast : Bool) (mbs : Nat) (content out : Bytes) : Prop :=
  ∃ (blocks : List AsmBlock) (ws : List Bytes),
    ws.length ≤ blocks.length ∧
    (∀ i (b : AsmBlock), blocks[i]? = some b →
      b.off = ((blocks.take i).map (fun x => x.msg.length)).sum ∧
      b.msg = (content.drop b.off).take b.msg.length ∧ b.off + b.msg.length ≤ content.length) ∧
    out = ws.flatten ++ content.drop ws.flatten.length ∧
    (∀ (i : Nat) (w : Bytes), ws[i]? = some w → ∃ b, blocks[i]? = some b ∧
      (w = b.msg ∨ w = (processBlock O fast mbs b).1))

theorem TilesFrom_cons (content : Bytes) (start : Nat) (b : AsmBlock) (l : List AsmBlock)
    (h0 : b.off = start) (h1 : b.msg = (content.drop b.off).take b.msg.length)
    (h2 : b.off + b.msg.length ≤ content.length)
    (ht : TilesFrom content (start + b.msg.length) l) :
    TilesFrom content start (b :: l) := by
  intro i c hc
  cases i with
  | zero =>
    simp only [List.getElem?_cons_zero, Option.some.injEq] at hc
    subst hc
    simp only [List.take_zero, List.map_nil, List.sum_nil, Nat.add_zero]
    exact ⟨h0, h1, h2⟩
  | succ i =>
    simp only [List.getElem?_cons_succ] at hc
    obtain ⟨e0, e1, e2⟩ := ht i c hc
    refine ⟨?_, e1, e2⟩
    simp only [List.take_succ_cons, List.map_cons, List.sum_cons]
    omega

theorem TilesFrom_nil (content : Bytes) (start : Nat) : TilesFrom content start [] := by
  intro i c hc
  simp only [List.getElem?_nil] at hc
  cases hc

/-! ## whole-file tool -/

theorem assembleAt_tiles (kOf : Nat → Nat) (hashLen mbs : Nat) (content stream : Bytes) (endpos : Nat) :
    ∀ fuel cur e,
      TilesFrom content cur ((assembleAt kOf hashLen mbs content stream endpos fuel cur e).map (·.1)) := by
  intro fuel
  induction fuel with
  | zero => intro cur e; simp only [assembleAt, List.map_nil]; exact TilesFrom_nil _ _
  | succ fuel ih =>
    intro cur e
    simp only [assembleAt]
    split
    · split
      · simp only [List.map_nil]; exact TilesFrom_nil _ _
      · rename_i hne
        simp only [List.map_cons]
        have hpos : 0 < ((content.drop cur).take (kOf cur)).length := by
          cases hm : (content.drop cur).take (kOf cur) with
          | nil => rw [hm] at hne; simp at hne
          | cons x xs => simp only [List.length_cons]; omega
        have hpos' := hpos
        simp only [List.length_take, List.length_drop] at hpos'
        refine TilesFrom_cons content cur _ _ rfl ?_ ?_ (ih _ _)
        · simp only
          rw [List.take_eq_take_iff]
          simp only [List.length_take, List.length_drop]
          omega
        · simp only [List.length_take, List.length_drop]
          omega
    · simp only [List.map_nil]; exact TilesFrom_nil _ _

theorem correctWholeAt_blockwise (O : Ops) (fast : Bool) (thr : Nat)
    (kOf : Nat → Nat) (hashLen mbs : Nat) (content stream : Bytes) (ts endpos : Nat) (out : Bytes)
    (h : (correctWholeAt O fast thr kOf hashLen mbs content stream ts endpos).1.output = some out) :
    Blockwise O fast mbs content out := by
  unfold correctWholeAt at h
  simp only at h
  split at h
  · cases h
  · split at h
    · simp only [Option.some.injEq] at h
      refine ⟨(assembleAt kOf hashLen mbs content stream endpos (content.length + 1) 0 ts).map (·.1),
        (runLoop O fast mbs thr
          ((assembleAt kOf hashLen mbs content stream endpos (content.length + 1) 0 ts).map (·.1))).written,
        runLoop_written_length_le O fast mbs thr _, ?_, h.symm, ?_⟩
      · intro i b hb
        have := assembleAt_tiles kOf hashLen mbs content stream endpos (content.length + 1) 0 ts i b hb
        simpa only [Nat.zero_add] using this
      · intro i w hw
        have hi : i < (runLoop O fast mbs thr
          ((assembleAt kOf hashLen mbs content stream endpos (content.length + 1) 0 ts).map (·.1))).written.length := by
          rcases List.getElem?_eq_some_iff.mp hw with ⟨hi, _⟩
          exact hi
        obtain ⟨b, hb, hw'⟩ := runLoop_written_getElem? O fast mbs thr _ i hi
        refine ⟨b, hb, Or.inr ?_⟩
        rw [hw'] at hw
        simp only [Option.some.injEq] at hw
        exact hw.symm
    · cases h

/-! ## header tool -/

theorem header_slice (content : Bytes) (readLen i k : Nat) :
    ((content.take readLen).drop i).take k =
      (content.drop i).take (((content.take readLen).drop i).take k).length := by
  rw [List.drop_take, List.take_take, List.take_eq_take_iff]
  simp only [List.length_take, List.length_drop]
  omega

theorem assembleHeader_tiles (k hashLen mbs readLen : Nat) (content track : Bytes) :
    ∀ fuel i j,
      TilesFrom content i (assembleHeader k hashLen mbs readLen content track fuel i j) := by
  intro fuel
  induction fuel with
  | zero => intro i j; simp only [assembleHeader]; exact TilesFrom_nil _ _
  | succ fuel ih =>
    intro i j
    by_cases h1 : i < (content.take readLen).length ∧ j < track.length
    · rw [assembleHeader_cons k hashLen mbs readLen content track _ _ _ h1]
      have hi := h1.1
      simp only [List.length_take] at hi
      -- is there a next block?
      by_cases h2 : (i + k < (content.take readLen).length ∧ j + hashLen + (mbs - k) < track.length)
      · refine TilesFrom_cons content i _ _ rfl (header_slice content readLen i k) ?_ ?_
        · simp only [List.length_take, List.length_drop]
          omega
        · have hk : (((content.take readLen).drop i).take k).length = k := by
            have := h2.1
            simp only [List.length_take, List.length_drop] at this ⊢
            omega
          simp only [hk]
          exact ih _ _
      · rw [assembleHeader_nil_of_ge k hashLen mbs readLen content track _ _ _ h2]
        refine TilesFrom_cons content i _ _ rfl (header_slice content readLen i k) ?_ (TilesFrom_nil _ _)
        simp only [List.length_take, List.length_drop]
        omega
    · rw [assembleHeader_nil_of_ge k hashLen mbs readLen content track _ _ _ h1]
      exact TilesFrom_nil _ _

theorem correctHeaderFile_blockwise (O : Ops) (hlen : DecLen O) (fast : Bool)
    (thr k hashLen mbs readLen : Nat) (content track out : Bytes)
    (h : (correctHeaderFile O fast thr k hashLen mbs readLen content track).output = some out) :
    Blockwise O fast mbs content out := by
  have ho := correctHeaderFile_output O fast thr k hashLen mbs readLen content track out h
  generalize hb : assembleHeader k hashLen mbs readLen content track (content.length + 1) 0 0 = blocks at ho
  have hle := runLoop_written_length_le O fast mbs thr blocks
  have hbl := header_body_length O hlen fast mbs thr blocks
  refine ⟨blocks, (runLoop O fast mbs thr blocks).written ++
    (blocks.drop (runLoop O fast mbs thr blocks).written.length).map (·.msg), ?_, ?_, ?_, ?_⟩
  · simp only [List.length_append, List.length_map, List.length_drop]
    omega
  · intro i b hib
    have := assembleHeader_tiles k hashLen mbs readLen content track (content.length + 1) 0 0
    rw [hb] at this
    simpa only [Nat.zero_add] using this i b hib
  · rw [hbl]
    exact ho
  · intro i w hw
    by_cases hiw : i < (runLoop O fast mbs thr blocks).written.length
    · obtain ⟨b, hb', hw'⟩ := runLoop_written_getElem? O fast mbs thr blocks i hiw
      refine ⟨b, hb', Or.inr ?_⟩
      rw [List.getElem?_append_left hiw, hw'] at hw
      simp only [Option.some.injEq] at hw
      exact hw.symm
    · rw [List.getElem?_append_right (by omega), List.getElem?_map, List.getElem?_drop,
        show (runLoop O fast mbs thr blocks).written.length +
          (i - (runLoop O fast mbs thr blocks).written.length) = i by omega] at hw
      cases hbi : blocks[i]? with
      | none => rw [hbi] at hw; simp at hw
      | some b =>
        rw [hbi] at hw
        simp only [Option.map_some, Option.some.injEq] at hw
        exact ⟨b, rfl, Or.inl hw.symm⟩

/-! ## the run -/

theorem processEntry_blockwise (O : Ops) (hlen : DecLen O) (P : Params) (fs : FS) (stream : Bytes)
    (a b : Nat) (out : Bytes) (h : (processEntry O P fs stream a b).effect = .wrote out) :
    ∃ content, fsLookup fs (processEntry O P fs stream a b).path = some content ∧
      Blockwise O P.fast P.mbs content out := by
  rw [RunB.processEntry_path]
  unfold processEntry at h
  simp only at h
  split at h
  · cases h
  · rename_i size content ht
    have hl := RunB.locate_target_lookup O P fs stream a b size content ht
    refine ⟨content, hl, ?_⟩
    split at h
    · simp only at h
      split at h
      · rename_i o ho
        simp only [Effect.wrote.injEq] at h
        subst h
        exact correctHeaderFile_blockwise O hlen _ _ _ _ _ _ _ _ _ ho
      · cases h
    · simp only at h
      split at h
      · rename_i o ho
        simp only [Effect.wrote.injEq] at h
        subst h
        exact correctWholeAt_blockwise O _ _ _ _ _ _ _ _ _ _ ho
      · split at h <;> cases h

theorem runLoopEntries_blockwise (O : Ops) (hlen : DecLen O) (P : Params) (fs : FS) (stream : Bytes) :
    ∀ fuel cursor, ∀ o ∈ runLoopEntries O P fs stream fuel cursor, ∀ out, o.effect = .wrote out →
      ∃ content, fsLookup fs o.path = some content ∧ Blockwise O P.fast P.mbs content out := by
  intro fuel
  induction fuel with
  | zero => intro cursor o ho; simp [runLoopEntries] at ho
  | succ fuel ih =>
    intro cursor o ho out hout
    unfold runLoopEntries at ho
    split at ho
    · simp at ho
    · rename_i a b hs
      simp only [List.mem_cons] at ho
      rcases ho with ho | ho
      · subst ho
        exact processEntry_blockwise O hlen P fs stream a b out hout
      · exact ih _ o ho out hout

/-- block by block: unchanged, or hash-verified, or ecc-verified against a complete stored parity -/
theorem block_conservative (O : Ops) (hlen : DecLen O) (fast : Bool) (mbs : Nat) (b : AsmBlock) (w : Bytes)
    (h : w = b.msg ∨ w = (processBlock O fast mbs b).1) :
    w.length = b.msg.length ∧
      (w = b.msg ∨ O.H w = b.hash ∨
        ∃ e', O.dec b.k b.msg b.ecc = some (w, e') ∧ O.chk b.k w e' = true ∧ eccComplete mbs b = true) := by
  rcases h with h | h
  · subst h
    exact ⟨rfl, Or.inl rfl⟩
  · refine ⟨by rw [h]; exact processBlock_length O hlen fast mbs b, ?_⟩
    rcases processBlock_cases O fast mbs b with h1 | h1 | ⟨m', e', hd, hc, h1⟩
    · rw [h1] at h; exact Or.inl h
    · rw [h1] at h; exact Or.inl h
    · rw [h1] at h
      simp only at h
      subst h
      rcases hc with hc | ⟨hc, he⟩
      · exact Or.inr (Or.inl hc)
      · exact Or.inr (Or.inr ⟨e', hd, hc, he⟩)

end Pff.Run.RunD
