import Pff.Proofs.RSFacade
/-! `ECCMan.decode` under contract W. -/
namespace Pff.RSProofs

open Pff.RS Pff.Facade Pff.GF Pff.RSSpec

set_option linter.unusedSectionVars false

variable {F : Type} [Field F] [DecidableEq F]

theorem short_as_padded (c : Codec F) (msg : List F) (k : Nat) (hm : msg.length ≤ effK c k) :
    encode c msg k = encode c (List.replicate (effK c k - msg.length) 0 ++ msg) k := by
  rw [encode_eq, encode_eq, pad_fst, pad_fst]
  have : (List.replicate (effK c k - msg.length) (0 : F) ++ msg).length = effK c k := by
    simp; omega
  rw [this, Nat.sub_self]
  simp

theorem shift_eq (l : List Nat) (p : Nat) :
    (if l.isEmpty || decide (p = 0) then l else l.map (· + p)) = l.map (· + p) := by
  split
  · next h =>
    rw [Bool.or_eq_true] at h
    rcases h with h | h
    · rw [List.isEmpty_iff.mp h]; rfl
    · have : p = 0 := by simpa using h
      subst this; simp
  · rfl

theorem prepareDecode_eq (c : Codec F) (msg ecc : List F) (k : Nat) (ee : Bool) (ec : F)
    (oe : Bool) :
    prepareDecode c msg ecc k ee ec oe =
      if oe && ((if ee || oe then some ((List.range (msg ++ ecc).length).filter
            (fun i => (msg ++ ecc)[i]? = some ec)) else none).getD []).isEmpty then none
      else some
        { word := (pad msg (effK c k)).1 ++ rpad ecc c.n (effK c k)
          nsym := c.n - effK c k
          erasePos := (if ee || oe then some ((List.range (msg ++ ecc).length).filter
            (fun i => (msg ++ ecc)[i]? = some ec)) else none).map
              (fun l => l.map (· + (pad msg (effK c k)).2))
          onlyErasures := oe
          padLen := (pad msg (effK c k)).2 } := by
  unfold prepareDecode
  simp only [shift_eq]

theorem pad_not_erasure (c : Codec F) (msg ecc : List F) (k : Nat) (ec : F) (oe : Bool)
    (call : CoreCall F) (h : prepareDecode c msg ecc k true ec oe = some call) :
    call.erasePos = some (((List.range (msg ++ ecc).length).filter
        (fun i => (msg ++ ecc)[i]? = some ec)).map (· + call.padLen)) ∧
    call.padLen = effK c k - msg.length ∧
    call.word.take call.padLen = List.replicate call.padLen 0 := by
  rw [prepareDecode_eq] at h
  simp only [Bool.true_or, ↓reduceIte, Option.map_some] at h
  split at h
  · cases h
  · cases h
    refine ⟨rfl, pad_snd _ _, ?_⟩
    simp only [pad_snd, pad_fst, List.append_assoc]
    rw [List.take_left' (by simp)]

/-! ### uniqueness within capacity -/

theorem hdist_eq_filter {α : Type} [DecidableEq α] (a b : List α) (h : a.length = b.length) :
    hdist a b = ((List.range a.length).filter (fun i => decide (a[i]? ≠ b[i]?))).length := by
  induction a generalizing b with
  | nil => simp
  | cons x xs ih => cases b with
    | nil => simp at h
    | cons y ys =>
      rw [hdist_cons_cons, ih ys (by simpa using h), List.length_cons, List.range_succ_eq_map,
        List.filter_cons, List.filter_map]
      by_cases hxy : x = y <;> simp [hxy, Function.comp_def, Nat.add_comm]

theorem length_filter_le_add {ι : Type} (L : List ι) (P Q1 Q2 : ι → Bool)
    (h : ∀ i ∈ L, P i = true → Q1 i = true ∨ Q2 i = true) :
    (L.filter P).length ≤ (L.filter Q1).length + (L.filter Q2).length := by
  induction L with
  | nil => simp
  | cons x xs ih =>
    have ih' := ih (fun i hi => h i (List.mem_cons_of_mem _ hi))
    have hx := h x List.mem_cons_self
    simp only [List.filter_cons]
    cases hP : P x <;> cases h1 : Q1 x <;> cases h2 : Q2 x <;> simp_all <;> omega

theorem length_filter_le_cover {L l : List Nat} (hL : L.Nodup) (P Q1 Q2 : Nat → Bool)
    (h : ∀ i ∈ L, P i = true → i ∈ l ∨ Q1 i = true ∨ Q2 i = true) :
    (L.filter P).length ≤ l.length + (L.filter (fun i => decide (i ∉ l) && Q1 i)).length
      + (L.filter (fun i => decide (i ∉ l) && Q2 i)).length := by
  have hsplit := List.length_eq_length_filter_add (l := L.filter P) (fun i => decide (i ∈ l))
  have h1 : ((L.filter P).filter (fun i => decide (i ∈ l))).length ≤ l.length := by
    apply List.Subperm.length_le
    apply List.subperm_of_subset ((hL.filter _).filter _)
    intro i hi
    simpa using (List.mem_filter.mp hi).2
  have h2 : ((L.filter P).filter (fun i => !decide (i ∈ l))).length ≤
      (L.filter (fun i => decide (i ∉ l) && Q1 i)).length
      + (L.filter (fun i => decide (i ∉ l) && Q2 i)).length := by
    rw [List.filter_filter]
    apply length_filter_le_add
    intro i hi hP
    simp only [Bool.and_eq_true, Bool.not_eq_true', decide_eq_false_iff_not] at hP
    rcases h i hi hP.2 with h' | h' | h'
    · exact absurd h' hP.1
    · left; simp [hP.1, h']
    · right; simp [hP.1, h']
  omega

theorem decode_unique (c : Codec F) (hc : GoodCodec c) (nsym : Nat)
    (word cw cw' : List F) (hw : word.length = c.n) (h1 : cw.length = c.n) (h2 : cw'.length = c.n)
    (hc1 : rsCheck c.pw c.fcr nsym cw = true) (hc2 : rsCheck c.pw c.fcr nsym cw' = true)
    (E : Option (List Nat)) (oe : Bool)
    (hcap1 : WithinCap word cw nsym E oe) (hcap2 : WithinCap word cw' nsym E oe) :
    cw = cw' := by
  refine min_distance hc.primPow c.fcr nsym cw cw' (h1.trans h2.symm) (h1 ▸ hc.n_le) hc1 hc2 ?_
  cases E with
  | none =>
    obtain ⟨_, ha⟩ := hcap1
    obtain ⟨_, hb⟩ := hcap2
    have := hdist_triangle cw word cw' (h1.trans hw.symm) (hw.trans h2.symm)
    rw [hdist_comm cw word] at this
    omega
  | some l =>
    obtain ⟨_, _, ha⟩ := hcap1
    obtain ⟨_, _, hb⟩ := hcap2
    have key : hdist cw cw' ≤ l.length + errorsOutside word cw l + errorsOutside word cw' l := by
      rw [hdist_eq_filter _ _ (h1.trans h2.symm), errorsOutside, errorsOutside, h1, hw]
      apply length_filter_le_cover List.nodup_range
      intro i _ hP
      by_cases hil : i ∈ l
      · exact Or.inl hil
      · right
        by_contra hcon
        simp only [not_or, decide_eq_true_eq, ne_eq, not_not] at hcon hP
        exact hP (hcon.1.symm.trans hcon.2)
    cases oe
    · simp only [Bool.false_eq_true, ↓reduceIte] at ha hb; omega
    · simp only [↓reduceIte] at ha hb; omega

theorem contract_consistent (c : Codec F) (hc : GoodCodec c) : ∃ core : Core F, CoreW c core := by
  classical
  refine ⟨fun _ word nsym E oe =>
    if h : ∃ cw : List F, word.length = c.n ∧ cw.length = c.n ∧ nsym ≤ c.n ∧
        rsCheck c.pw c.fcr nsym cw = true ∧ WithinCap word cw nsym E oe
    then .ok ((Classical.choose h).take (c.n - nsym), (Classical.choose h).drop (c.n - nsym))
    else .error .other, ?_⟩
  intro word cw nsym E oe hw hcw hns hchk hcap
  have hex : ∃ cw : List F, word.length = c.n ∧ cw.length = c.n ∧ nsym ≤ c.n ∧
        rsCheck c.pw c.fcr nsym cw = true ∧ WithinCap word cw nsym E oe :=
    ⟨cw, hw, hcw, hns, hchk, hcap⟩
  have hspec := Classical.choose_spec hex
  have heq : Classical.choose hex = cw :=
    decode_unique c hc nsym word _ cw hw hspec.2.1 hcw hspec.2.2.2.1 hchk E oe hspec.2.2.2.2 hcap
  refine ⟨cw.drop (c.n - nsym), ?_, Or.inl rfl⟩
  simp only [dif_pos hex, heq]

/-! ### the sanity check of `decode` passes within capacity -/

theorem correctedErrors_eq_errorsOutside {α : Type} [DecidableEq α] (word cw : List α)
    (l : List Nat) (h : word.length = cw.length) :
    correctedErrors word cw l = errorsOutside word cw l := by
  unfold correctedErrors errorsOutside
  rw [← h, Nat.min_self]
  congr 1
  apply List.filter_congr
  intro i _
  by_cases hil : i ∈ l <;> simp [hil, Bool.and_comm]

theorem correctedErrors_nil_eq_hdist {α : Type} [DecidableEq α] (word cw : List α)
    (h : word.length = cw.length) :
    correctedErrors word cw [] = hdist word cw := by
  rw [hdist_eq_filter _ _ h]
  unfold correctedErrors
  rw [← h, Nat.min_self]
  congr 1
  apply List.filter_congr
  intro i _
  simp

theorem guard_of_withinCap {α : Type} [DecidableEq α] (word cw : List α) (nsym : Nat)
    (E : Option (List Nat)) (oe : Bool) (h : word.length = cw.length)
    (hcap : WithinCap word cw nsym E oe) :
    2 * correctedErrors word cw (E.getD []) + (E.getD []).length ≤ nsym := by
  cases E with
  | none =>
    obtain ⟨_, ha⟩ := hcap
    simp only [Option.getD_none, List.length_nil, Nat.add_zero]
    rw [correctedErrors_nil_eq_hdist _ _ h]
    exact ha
  | some l =>
    obtain ⟨_, _, ha⟩ := hcap
    simp only [Option.getD_some]
    rw [correctedErrors_eq_errorsOutside _ _ _ h]
    cases oe
    · simpa using ha
    · simp only [↓reduceIte] at ha; omega

/-! ### exact decoding under contract W -/

theorem decode_of_call (c : Codec F) (hc : GoodCodec c) (core : Core F) (hW : CoreW c core)
    (msg : List F) (k : Nat) (hm : msg.length ≤ effK c k) (hk : effK c k ≤ c.n)
    (msg' ecc' : List F) (hl : msg'.length = msg.length) (he : ecc'.length = c.n - effK c k)
    (ee : Bool) (ec : F) (oe : Bool) (E : Option (List Nat))
    (hprep : prepareDecode c msg' ecc' k ee ec oe = some
      { word := (pad msg' (effK c k)).1 ++ ecc', nsym := c.n - effK c k, erasePos := E,
        onlyErasures := oe, padLen := effK c k - msg.length })
    (hcap : WithinCap ((pad msg' (effK c k)).1 ++ ecc') ((pad msg (effK c k)).1 ++ encode c msg k)
      (c.n - effK c k) E oe) :
    decode core c msg' ecc' k ee ec oe = .ok (msg, encode c msg k) := by
  have hlenc : (encode c msg k).length = c.n - effK c k := length_encode c hc msg k
  have hpl : (pad msg (effK c k)).1.length = effK c k := length_pad_fst _ _ hm
  have hpl' : (pad msg' (effK c k)).1.length = effK c k := length_pad_fst _ _ (hl ▸ hm)
  obtain ⟨er, hcore, her⟩ := hW ((pad msg' (effK c k)).1 ++ ecc')
    ((pad msg (effK c k)).1 ++ encode c msg k) (c.n - effK c k) E oe
    (by simp [hpl', he]; omega) (by simp [hpl, hlenc]; omega) (Nat.sub_le _ _)
    (encode_codeword c hc msg k) hcap
  have hnk : c.n - (c.n - effK c k) = effK c k := by omega
  rw [hnk] at hcore her
  rw [List.take_left' hpl] at hcore
  rw [List.drop_left' hpl] at her
  unfold decode
  rw [hprep]
  simp only [hcore]
  have hmsg : (pad msg (effK c k)).1.drop (effK c k - msg.length) = msg := by
    rw [pad_fst, List.drop_left' (by simp)]
  have her' : (if c.algo = 1 ∨ c.algo = 2 then
      List.replicate (c.n - effK c k - er.length) 0 ++ er else er) = encode c msg k := by
    rcases her with h | ⟨ha, _, h⟩
    · subst h; rw [hlenc, Nat.sub_self]; simp
    · rw [if_pos ha, h]
  rw [hmsg, her']
  have hguard := guard_of_withinCap _ _ _ E oe
    (by rw [List.length_append, List.length_append, hpl, hpl', he, hlenc]) hcap
  rw [if_neg (by omega)]

theorem decode_exact_errors (c : Codec F) (hc : GoodCodec c) (core : Core F) (hW : CoreW c core)
    (msg : List F) (k : Nat) (hm : msg.length ≤ effK c k) (hk : effK c k ≤ c.n)
    (msg' ecc' : List F) (hl : msg'.length = msg.length) (he : ecc'.length = c.n - effK c k)
    (hcap : 2 * hdist (msg' ++ ecc') (msg ++ encode c msg k) ≤ c.n - effK c k) :
    decode core c msg' ecc' k false 0 false = .ok (msg, encode c msg k) := by
  apply decode_of_call c hc core hW msg k hm hk msg' ecc' hl he false 0 false none
  · rw [prepareDecode_eq, rpad_of_length _ _ _ he, pad_snd, hl]
    simp
  · refine ⟨rfl, ?_⟩
    rw [pad_fst, pad_fst, hl, List.append_assoc, List.append_assoc, hdist_append_left]
    exact hcap

theorem errorsOutside_pad {α : Type} [DecidableEq α] (z a b : List α) (l : List Nat) :
    errorsOutside (z ++ a) (z ++ b) (l.map (· + z.length)) = errorsOutside a b l := by
  unfold errorsOutside
  rw [List.length_append, List.range_add, List.filter_append, List.length_append, List.filter_map,
    List.length_map]
  have h1 : (List.range z.length).filter (fun i => decide (i ∉ l.map (· + z.length)) &&
      decide ((z ++ a)[i]? ≠ (z ++ b)[i]?)) = [] := by
    rw [List.filter_eq_nil_iff]
    intro i hi
    have hi' : i < z.length := List.mem_range.mp hi
    simp [List.getElem?_append_left hi']
  rw [h1, List.length_nil, Nat.zero_add]
  congr 1
  apply List.filter_congr
  intro j _
  have hmem : (z.length + j ∈ l.map (· + z.length)) ↔ j ∈ l := by
    constructor
    · intro h
      obtain ⟨x, hx, hxe⟩ := List.mem_map.mp h
      have : x = j := by omega
      exact this ▸ hx
    · intro h
      exact List.mem_map.mpr ⟨j, h, by omega⟩
  show (decide (z.length + j ∉ l.map (· + z.length)) &&
    decide ((z ++ a)[z.length + j]? ≠ (z ++ b)[z.length + j]?)) = _
  rw [List.getElem?_append_right (Nat.le_add_right _ _),
    List.getElem?_append_right (Nat.le_add_right _ _), Nat.add_sub_cancel_left]
  simp only [hmem]

theorem decode_exact_erasures (c : Codec F) (hc : GoodCodec c) (core : Core F) (hW : CoreW c core)
    (msg : List F) (k : Nat) (hm : msg.length ≤ effK c k) (hk : effK c k ≤ c.n)
    (msg' ecc' : List F) (hl : msg'.length = msg.length) (he : ecc'.length = c.n - effK c k) (ec : F)
    (hcap : 2 * errorsOutside (msg' ++ ecc') (msg ++ encode c msg k)
                ((List.range (msg' ++ ecc').length).filter (fun i => (msg' ++ ecc')[i]? = some ec))
            + ((List.range (msg' ++ ecc').length).filter (fun i => (msg' ++ ecc')[i]? = some ec)).length
            ≤ c.n - effK c k) :
    decode core c msg' ecc' k true ec false = .ok (msg, encode c msg k) := by
  apply decode_of_call c hc core hW msg k hm hk msg' ecc' hl he true ec false
    (some (((List.range (msg' ++ ecc').length).filter
      (fun i => (msg' ++ ecc')[i]? = some ec)).map (· + (effK c k - msg.length))))
  · rw [prepareDecode_eq, rpad_of_length _ _ _ he, pad_snd, hl]
    simp
  · rw [pad_fst, pad_fst, hl, List.append_assoc, List.append_assoc]
    refine ⟨?_, ?_, ?_⟩
    · exact (List.nodup_range.filter _).map (fun a b h => Nat.add_right_cancel h)
    · intro i hi
      obtain ⟨j, hj, rfl⟩ := List.mem_map.mp hi
      have := List.mem_range.mp (List.mem_filter.mp hj).1
      simp only [List.length_append, List.length_replicate] at this ⊢
      omega
    · simp only [Bool.false_eq_true, ↓reduceIte, List.length_map]
      have := errorsOutside_pad (List.replicate (effK c k - msg.length) (0 : F)) (msg' ++ ecc')
        (msg ++ encode c msg k)
        ((List.range (msg' ++ ecc').length).filter (fun i => (msg' ++ ecc')[i]? = some ec))
      rw [List.length_replicate] at this
      rw [this]
      exact hcap

end Pff.RSProofs
