import Pff.Props.Chain2
import Pff.Props.RunD
/-!
Helper lemmas for `Pff/Props/NonVacuity.lean`: an undamaged file with its generated track (and
undamaged metadata, an undamaged index file) meets the "within capacity" premises of the run-level
and chain theorems — all distances are 0.
-/
namespace Pff.NonVacuityProofs

open Pff.GF Pff.Facade Pff.Ecc Pff.Layout Pff.RSSpec Pff.Entry Pff.Scan Pff.Run Pff.Bridge Pff.Chain

/-- a slice is the original bytes at its own place, over its own length -/
theorem slice_self (content : List Nat) (lb : Block) :
    slice content lb = (content.drop lb.off).take (slice content lb).length := by
  unfold slice
  rw [List.take_eq_take_iff, List.length_take, List.length_drop]
  omega

theorem take_min_length' (content : List Nat) (n : Nat) :
    content.take (min n content.length) = content.take n := by
  rw [List.take_eq_take_iff]
  omega

/-- what an undamaged file and its generated track assemble to -/
structure PristineBlock (O : Ops) (fast : Bool) (orig : List Nat) (b : AsmBlock) : Prop where
  msgEq : b.msg = (orig.drop b.off).take b.msg.length
  hashEq : b.hash = O.H b.msg
  eccEq : b.ecc = O.enc b.k b.msg
  clean : needsRepair O fast b = false

theorem pristine_whole (O : Ops) (fast : Bool) (hashLen mbs : Nat) (kOf : Nat → Nat)
    (hk : ∀ x, 1 ≤ kOf x) (hpos : ∀ x, 1 ≤ hashLen + (mbs - kOf x))
    (hO : CleanOps O hashLen mbs fast) (orig : List Nat) :
    ((assemble kOf hashLen mbs orig (genTrack O.H O.enc kOf orig) (orig.length + 1) 0 0).map (·.msg)).flatten
        = orig ∧
    ∀ b ∈ assemble kOf hashLen mbs orig (genTrack O.H O.enc kOf orig) (orig.length + 1) 0 0,
      PristineBlock O fast orig b := by
  have hclean := Pff.Ecc.B.whole_gen_clean O fast hashLen mbs kOf hk hpos hO.hashLen hO.encLen hO.accepts orig
  have hag := C10_agree_whole kOf hk hashLen mbs O.H O.enc hO.hashLen hO.encLen hpos orig
  refine ⟨?_, ?_⟩
  · rw [hag, List.map_map]
    have ht := (C10_tiles kOf hk orig.length).1
    have := Pff.Entry.A.tiles_flatten orig _ _ _ ht
    rw [Nat.sub_zero, List.drop_zero, List.take_length] at this
    exact this
  · intro b hb
    have hc := hclean b hb
    rw [hag] at hb
    obtain ⟨lb, _, rfl⟩ := List.mem_map.mp hb
    exact ⟨slice_self orig lb, rfl, rfl, hc⟩

theorem pristine_header (O : Ops) (fast : Bool) (k hashLen mbs headerSize : Nat)
    (hk : 1 ≤ k) (hpos : 1 ≤ hashLen + (mbs - k))
    (hO : CleanOps O hashLen mbs fast) (orig : List Nat) :
    ((assembleHeader k hashLen mbs
        (if 0 < orig.length ∧ orig.length < headerSize then orig.length else headerSize)
        orig (genTrackHeader O.H O.enc k headerSize orig) (orig.length + 1) 0 0).map (·.msg)).flatten
        = orig.take (if 0 < orig.length ∧ orig.length < headerSize then orig.length else headerSize) ∧
    ∀ b ∈ assembleHeader k hashLen mbs
        (if 0 < orig.length ∧ orig.length < headerSize then orig.length else headerSize)
        orig (genTrackHeader O.H O.enc k headerSize orig) (orig.length + 1) 0 0,
      PristineBlock O fast orig b := by
  rw [Pff.Ecc.B.assembleHeader_congr_take k hashLen mbs _ headerSize orig _
    (Pff.Ecc.B.take_readLen orig headerSize), Pff.Ecc.B.take_readLen]
  have hclean := Pff.Ecc.B.header_gen_clean O fast k hashLen mbs headerSize hk hpos hO.hashLen hO.encLen
    hO.accepts orig
  have hag := C10_agree_header k hashLen mbs headerSize hk O.H O.enc hO.hashLen (hO.encLen k) hpos orig
  refine ⟨?_, ?_⟩
  · rw [hag, List.map_map]
    have ht := (C10_header_tiles k headerSize orig.length hk).1
    have := Pff.Entry.A.tiles_flatten orig _ _ _ ht
    rw [Nat.sub_zero, List.drop_zero, take_min_length'] at this
    exact this
  · intro b hb
    have hc := hclean b hb
    rw [hag] at hb
    obtain ⟨lb, _, rfl⟩ := List.mem_map.mp hb
    exact ⟨slice_self orig lb, rfl, rfl, hc⟩

/-- the blocks of an undamaged file with its generated track: cover and per-block facts -/
theorem pristine_blocks (O : Ops) (P : Pff.Run.Params) (hP : ParamsOK O P) (d : Damaged)
    (h1 : d.now = d.orig) (h2 : d.trackD = genTrackFor O P d.orig) :
    ∀ b ∈ blocksOf P d, PristineBlock O P.fast d.orig b := by
  unfold blocksOf
  rw [h1, h2]
  cases htool : P.tool with
  | header =>
    simp only [genTrackFor, htool]
    exact (pristine_header O P.fast P.kMain P.hashLen P.mbs P.headerSize hP.kMain hP.posMain hP.ops d.orig).2
  | whole =>
    simp only [genTrackFor, htool]
    exact (pristine_whole O P.fast P.hashLen P.mbs (P.kOfFor d.orig.length) (hP.kOf _) (hP.posOf _) hP.ops d.orig).2

theorem blockOK_of_pristine (O : Ops) (fast : Bool) (mbs : Nat) (orig : List Nat) (b : AsmBlock)
    (h : PristineBlock O fast orig b) : BlockOK O fast mbs orig b :=
  Or.inl ⟨h.msgEq, h.clean⟩

theorem withinCapacity (O : Ops) (P : Pff.Run.Params) (hP : ParamsOK O P) (d : Damaged)
    (h1 : d.now = d.orig) (h2 : d.trackD = genTrackFor O P d.orig) : WithinCapacity O P d := by
  unfold WithinCapacity
  rw [h1, h2]
  refine ⟨rfl, rfl, ?_⟩
  cases htool : P.tool with
  | header =>
    simp only [genTrackFor, htool]
    have h := pristine_header O P.fast P.kMain P.hashLen P.mbs P.headerSize hP.kMain hP.posMain hP.ops d.orig
    exact ⟨h.1, fun b hb => blockOK_of_pristine O P.fast P.mbs d.orig b (h.2 b hb)⟩
  | whole =>
    simp only [genTrackFor, htool]
    have h := pristine_whole O P.fast P.hashLen P.mbs (P.kOfFor d.orig.length) (hP.kOf _) (hP.posOf _) hP.ops d.orig
    exact ⟨h.1, fun b hb => blockOK_of_pristine O P.fast P.mbs d.orig b (h.2 b hb)⟩

/-! ### bytes -/

theorem isBytes_flatten (L : List (List Nat)) (h : ∀ l ∈ L, IsBytes l) : IsBytes L.flatten := by
  intro x hx
  obtain ⟨l, hl, hxl⟩ := List.mem_flatten.mp hx
  exact h l hl x hxl

theorem isBytes_append (a b : List Nat) (ha : IsBytes a) (hb : IsBytes b) : IsBytes (a ++ b) := by
  intro x hx
  rcases List.mem_append.mp hx with h | h
  · exact ha x h
  · exact hb x h

theorem isBytes_genTrackFor (O : Ops) (P : Pff.Run.Params) (hH : ∀ m, IsBytes (O.H m))
    (hE : ∀ k m, IsBytes (O.enc k m)) (content : List Nat) : IsBytes (genTrackFor O P content) := by
  unfold genTrackFor
  cases P.tool with
  | header =>
    apply isBytes_flatten
    intro l hl
    obtain ⟨lb, _, rfl⟩ := List.mem_map.mp hl
    exact isBytes_append _ _ (hH _) (hE _ _)
  | whole =>
    apply isBytes_flatten
    intro l hl
    obtain ⟨lb, _, rfl⟩ := List.mem_map.mp hl
    exact isBytes_append _ _ (hH _) (hE _ _)

theorem withinCapacityBytes (O : Ops) (P : Pff.Run.Params) (hP : ParamsOK O P)
    (hH : ∀ m, IsBytes (O.H m)) (hE : ∀ k m, IsBytes (O.enc k m))
    (d : Damaged) (hb : IsBytes d.orig)
    (h1 : d.now = d.orig) (h2 : d.trackD = genTrackFor O P d.orig) : WithinCapacityBytes O P d := by
  refine ⟨by rw [h1], by rw [h2], hb, by rw [h1]; exact hb, by rw [h2]; exact isBytes_genTrackFor O P hH hE _, ?_⟩
  intro b hbm
  have h := pristine_blocks O P hP d h1 h2 b hbm
  have hm : origMsg d.orig b = b.msg := h.msgEq.symm
  rw [hm, ← h.eccEq, Pff.RSProofs.hdist_self]
  exact ⟨Nat.zero_le _, fun _ _ => rfl⟩

/-! ### index file -/

theorem idxWithinCapacity (O : Ops) (recs : List (Nat × Nat))
    (hb : IsBytes (genIdxFile O.enc recs)) : IdxWithinCapacity O recs (genIdxFile O.enc recs) :=
  ⟨rfl, hb, fun _ _ => by rw [Pff.RSProofs.hdist_self]; omega⟩

/-! ### metadata -/

theorem intraBlockOK_clean (O : Ops) (k : Nat) (hk : 1 ≤ k)
    (hacc : ∀ m : List Nat, 1 ≤ m.length → m.length ≤ k → O.chk k m (O.enc k m) = true) (field : List Nat) :
    ∀ b ∈ Pff.Entry.A.cleanBlocks O.enc k field, IntraBlockOK O k field b := by
  intro b hb
  have hc := Pff.Entry.A.cleanBlocks_accept O k hk hacc field b hb
  left
  refine ⟨?_, hc⟩
  simp only [Pff.Entry.A.cleanBlocks, List.mem_map] at hb
  obtain ⟨lb, _, rfl⟩ := hb
  exact slice_self field lb

theorem field_ok (O : Ops) (k mbs : Nat) (hI : IntraOps O k mbs) (field : List Nat) :
    (((assembleHeader k 0 mbs field.length field (intraEcc O.enc k field) (field.length + 1) 0 0).map (·.msg)).flatten = field ∧
      ∀ b ∈ assembleHeader k 0 mbs field.length field (intraEcc O.enc k field) (field.length + 1) 0 0,
        IntraBlockOK O k field b) ∧
    (((assemble (fun _ => k) 0 mbs field (intraEcc O.enc k field) (field.length + 1) 0 0).map (·.msg)).flatten = field ∧
      ∀ b ∈ assemble (fun _ => k) 0 mbs field (intraEcc O.enc k field) (field.length + 1) 0 0,
        IntraBlockOK O k field b) := by
  rw [Pff.Entry.A.assembleHeader_clean O.enc k mbs hI.kpos hI.parity hI.encLen field,
    Pff.Entry.A.assemble_clean O.enc k mbs hI.kpos hI.parity hI.encLen field]
  have h1 := Pff.Entry.A.cleanBlocks_msgs O.enc k hI.kpos field
  have h2 := intraBlockOK_clean O k hI.kpos hI.accepts field
  exact ⟨⟨h1, h2⟩, ⟨h1, h2⟩⟩

theorem metaWithinCapacity (O : Ops) (P : Pff.Run.Params) (hI : IntraOps O P.kIntra P.mbs)
    (path content track : List Nat) (hne : path ≠ [])
    (hc : Clean path ∧ Clean (intraEcc O.enc P.kIntra path) ∧ Clean (intraEcc O.enc P.kIntra (digitsOf content.length)))
    (hs : path.length + (digitsOf content.length).length + (intraEcc O.enc P.kIntra path).length
          + (intraEcc O.enc P.kIntra (digitsOf content.length)).length + 4 * delim.length ≤ 65535) :
    MetaPristine O P (partsOf O P.kIntra path content track) ∧
    MetaWithinCapacity O P (partsOf O P.kIntra path content track) (partsOf O P.kIntra path content track) := by
  have hcl : Clean path ∧ Clean (digitsOf content.length) ∧ Clean (intraEcc O.enc P.kIntra path) ∧
      Clean (intraEcc O.enc P.kIntra (digitsOf content.length)) :=
    ⟨hc.1, Pff.Run.C.clean_digits _, hc.2.1, hc.2.2⟩
  have hp := field_ok O P.kIntra P.mbs hI path
  have hz := field_ok O P.kIntra P.mbs hI (digitsOf content.length)
  have r1 := C09_intra_roundtrip O P.kIntra P.mbs hI path
  have r2 := C09_intra_roundtrip O P.kIntra P.mbs hI (digitsOf content.length)
  refine ⟨?_, ⟨rfl, rfl, rfl, rfl, rfl, hne, hcl, hcl, hs, ?_, ?_⟩⟩
  · unfold MetaPristine
    cases P.tool with
    | header => exact ⟨by simp only [partsOf]; rw [r1.1], by simp only [partsOf]; rw [r2.1]⟩
    | whole => exact ⟨by simp only [partsOf]; rw [r1.2], by simp only [partsOf]; rw [r2.2]⟩
  · cases P.tool with
    | header => exact hp.1
    | whole => exact hp.2
  · cases P.tool with
    | header => exact hz.1
    | whole => exact hz.2

end Pff.NonVacuityProofs
